//! Engine `udp`: `UdpTransport::receive` (cfdp-daemon/src/transport.rs), C16.
//!
//! ops:   udp new | udp recv <hex datagram>
//! answer: ok <repr of the PDU returned by receive()> | err
//! oracle: receive() returns exactly what `PDU::decode` returns for the datagram alone.

use std::collections::HashMap;
use std::io::Write;
use std::time::Duration;

use cfdp_core::pdu::{PDUEncode, PDU};
use cfdp_daemon::transport::{PDUTransport, UdpTransport};
use tokio::net::UdpSocket;

use crate::codec::{corpus, pdu_repr};
use crate::util::*;
use crate::Opts;

struct Ctx {
    transport: UdpTransport,
    addr: std::net::SocketAddr,
    sender: UdpSocket,
}

async fn new_ctx() -> Ctx {
    let sock = UdpSocket::bind("127.0.0.1:0").await.expect("bind");
    let addr = sock.local_addr().unwrap();
    let transport = UdpTransport::try_from((sock, HashMap::new())).expect("transport");
    let sender = UdpSocket::bind("127.0.0.1:0").await.expect("bind sender");
    Ctx { transport, addr, sender }
}

async fn recv_one(out: &mut dyn Write, ctx: &mut Ctx, dg: &[u8], history: &mut Vec<String>, viol: &mut u64) {
    let op = format!("udp recv {}", hex(dg));
    history.push(op.clone());
    ctx.sender.send_to(dg, ctx.addr).await.expect("send");
    let r = tokio::time::timeout(Duration::from_secs(5), ctx.transport.receive()).await;
    let got = match r {
        Ok(Ok(p)) => format!("ok {}", pdu_repr(&p)),
        Ok(Err(_)) => "err".to_string(),
        Err(_) => "timeout".to_string(),
    };
    rec(out, &op, &got);
    let alone = match PDU::decode(&mut &dg[..]) {
        Ok(p) => format!("ok {}", pdu_repr(&p)),
        Err(_) => "err".to_string(),
    };
    if got != alone {
        *viol += 1;
        oracle(
            out,
            "C16",
            "own_bytes",
            &format!("receive() gave `{}` but the datagram alone decodes as `{}` || after: {}", got, alone, history.join("; ")),
        );
    }
}

pub fn run(opts: &Opts, out: &mut dyn Write) {
    let rt = tokio::runtime::Builder::new_current_thread().enable_io().enable_time().build().unwrap();
    let mut viol = 0u64;
    let mut cases = 0u64;
    rt.block_on(async {
        if let Some(p) = &opts.replay {
            let mut ctx: Option<Ctx> = None;
            let mut hist = vec![];
            for line in std::fs::read_to_string(p).expect("replay").lines() {
                let line = line.split('\t').next().unwrap().trim();
                let t: Vec<&str> = line.split_whitespace().collect();
                if t.len() >= 2 && t[0] == "udp" {
                    if t[1] == "new" {
                        ctx = Some(new_ctx().await);
                        hist = vec!["udp new".to_string()];
                        rec(out, "udp new", "ok");
                    } else if t[1] == "recv" && t.len() == 3 {
                        if let Some(c) = ctx.as_mut() {
                            recv_one(out, c, &unhex(t[2]), &mut hist, &mut viol).await;
                        }
                    }
                }
            }
            return;
        }
        let mut rng = Rng::new(opts.seed, "udp");
        let corp: Vec<Vec<u8>> = corpus(&mut rng).into_iter().map(|p| p.encode()).filter(|e| e.len() < 300).collect();
        // every truncation of D after D itself
        for d in &corp {
            let mut ctx = new_ctx().await;
            rec(out, "udp new", "ok");
            let mut hist = vec!["udp new".to_string()];
            recv_one(out, &mut ctx, d, &mut hist, &mut viol).await;
            let step = if opts.thorough { 1 } else { 1 + d.len() / 40 };
            let mut k = 0;
            while k < d.len() {
                hist.truncate(2);
                recv_one(out, &mut ctx, &d[..k], &mut hist, &mut viol).await;
                k += step;
            }
            cases += 1;
        }
        // truncations of a shorter datagram after a longer, different one
        let pairs = if opts.thorough { 600 } else { 60 };
        for _ in 0..pairs {
            let a = rng.pick(&corp).clone();
            let b = rng.pick(&corp).clone();
            let (long, short) = if a.len() >= b.len() { (a, b) } else { (b, a) };
            let mut ctx = new_ctx().await;
            rec(out, "udp new", "ok");
            let mut hist = vec!["udp new".to_string()];
            recv_one(out, &mut ctx, &long, &mut hist, &mut viol).await;
            for _ in 0..6 {
                let k = rng.below(short.len() as u64 + 1) as usize;
                recv_one(out, &mut ctx, &short[..k], &mut hist, &mut viol).await;
            }
            recv_one(out, &mut ctx, &short, &mut hist, &mut viol).await;
            cases += 1;
        }
    });
    stat(out, &format!("engine=udp cases={} oracle_violations={}", cases, viol));
}
