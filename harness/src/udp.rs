//! Engine `udp`: `UdpTransport::receive` (cfdp-daemon/src/transport.rs), C16.
//!
//! ops:   udp new | udp recv <hex datagram>
//! answer: ok <repr of the PDU returned by receive()> | err
//! oracle: receive() returns exactly what `PDU::decode` returns for the datagram alone.

use std::collections::HashMap;
use std::io::Write;
use std::time::Duration;

use cfdp_core::pdu::{PDUEncode, PDU};
use cfdp_daemon::transport::{PDUTransport, UdpTransport};
use tokio::net::UdpSocket;

use crate::codec::{corpus, pdu_repr};
use crate::util::*;
use crate::Opts;

struct Ctx {
    transport: UdpTransport,
    addr: std::net::SocketAddr,
    /// the socket of entity 1, which the transport's entity map knows
    sender: UdpSocket,
    /// a socket the entity map does not list
    stranger: UdpSocket,
}

/// receive() calls that got nothing within the time allowed; after a few of them the engine stops (every further
/// datagram would wait as long) - each is reported as a violation of C16
static TIMEOUTS: std::sync::atomic::AtomicU64 = std::sync::atomic::AtomicU64::new(0);
const MAX_TIMEOUTS: u64 = 3;
fn gave_up() -> bool {
    TIMEOUTS.load(std::sync::atomic::Ordering::Relaxed) >= MAX_TIMEOUTS
}

async fn new_ctx() -> Ctx {
    let sock = UdpSocket::bind("127.0.0.1:0").await.expect("bind");
    let addr = sock.local_addr().unwrap();
    let sender = UdpSocket::bind("127.0.0.1:0").await.expect("bind sender");
    let stranger = UdpSocket::bind("127.0.0.1:0").await.expect("bind stranger");
    let mut map = HashMap::new();
    map.insert(cfdp_core::pdu::VariableID::from(1u16), sender.local_addr().unwrap());
    let transport = UdpTransport::try_from((sock, map)).expect("transport");
    Ctx { transport, addr, sender, stranger }
}

async fn recv_one(out: &mut dyn Write, ctx: &mut Ctx, dg: &[u8], history: &mut Vec<String>, viol: &mut u64) {
    recv_from(out, ctx, dg, false, history, viol).await
}

/// one datagram, from the known peer or from the socket the entity map does not list, then one receive()
async fn recv_from(out: &mut dyn Write, ctx: &mut Ctx, dg: &[u8], stranger: bool, history: &mut Vec<String>, viol: &mut u64) {
    if gave_up() {
        return;
    }
    let op = format!("udp recv {}", hex(dg));
    history.push(if stranger { format!("{} (from an address the entity map does not list)", op) } else { op.clone() });
    if stranger {
        ctx.stranger.send_to(dg, ctx.addr).await.expect("send");
    } else {
        ctx.sender.send_to(dg, ctx.addr).await.expect("send");
    }
    let r = tokio::time::timeout(Duration::from_secs(2), ctx.transport.receive()).await;
    let got = match r {
        Ok(Ok(p)) => format!("ok {}", pdu_repr(&p)),
        Ok(Err(_)) => "err".to_string(),
        Err(_) => {
            TIMEOUTS.fetch_add(1, std::sync::atomic::Ordering::Relaxed);
            "timeout".to_string()
        }
    };
    rec(out, &op, &got);
    let alone = match PDU::decode(&mut &dg[..]) {
        Ok(p) => format!("ok {}", pdu_repr(&p)),
        Err(_) => "err".to_string(),
    };
    if got != alone {
        *viol += 1;
        oracle(
            out,
            "C16",
            "own_bytes",
            &format!("receive() gave `{}` but the datagram alone decodes as `{}` || after: {}", got, alone, history.join("; ")),
        );
    }
}

/// several datagrams are queued at the socket before `receive()` is called once for each
async fn recv_burst(out: &mut dyn Write, ctx: &mut Ctx, dgs: &[Vec<u8>], history: &mut Vec<String>, viol: &mut u64) {
    recv_burst_from(out, ctx, dgs, &[], history, viol).await
}

/// `strangers[i]` = datagram i comes from the socket the entity map does not list
async fn recv_burst_from(out: &mut dyn Write, ctx: &mut Ctx, dgs: &[Vec<u8>], strangers: &[bool], history: &mut Vec<String>, viol: &mut u64) {
    if gave_up() {
        return;
    }
    let op = format!("udp burst {}", dgs.len());
    history.push(op.clone());
    rec(out, &op, "ok");
    for (i, dg) in dgs.iter().enumerate() {
        if strangers.get(i).copied().unwrap_or(false) {
            ctx.stranger.send_to(dg, ctx.addr).await.expect("send");
            // keep the order of arrival across the two sending sockets
            tokio::time::sleep(Duration::from_millis(2)).await;
        } else {
            ctx.sender.send_to(dg, ctx.addr).await.expect("send");
        }
    }
    // let the datagrams reach the socket's queue
    tokio::time::sleep(Duration::from_millis(5)).await;
    for dg in dgs {
        if gave_up() {
            return;
        }
        let op = format!("udp recv {}", hex(dg));
        history.push(op.clone());
        let r = tokio::time::timeout(Duration::from_secs(2), ctx.transport.receive()).await;
        let got = match r {
            Ok(Ok(p)) => format!("ok {}", pdu_repr(&p)),
            Ok(Err(_)) => "err".to_string(),
            Err(_) => {
                TIMEOUTS.fetch_add(1, std::sync::atomic::Ordering::Relaxed);
                "timeout".to_string()
            }
        };
        rec(out, &op, &got);
        let alone = match PDU::decode(&mut &dg[..]) {
            Ok(p) => format!("ok {}", pdu_repr(&p)),
            Err(_) => "err".to_string(),
        };
        if got != alone {
            *viol += 1;
            oracle(
                out,
                "C16",
                "own_bytes",
                &format!("receive() gave `{}` but the datagram alone decodes as `{}` || after: {}", got, alone, history.join("; ")),
            );
        }
    }
}

pub fn run(opts: &Opts, out: &mut dyn Write) {
    let rt = tokio::runtime::Builder::new_current_thread().enable_io().enable_time().build().unwrap();
    let mut viol = 0u64;
    let mut cases = 0u64;
    rt.block_on(async {
        if let Some(p) = &opts.replay {
            let mut ctx: Option<Ctx> = None;
            let mut hist = vec![];
            let mut pending_burst = 0usize;
            let mut burst: Vec<Vec<u8>> = vec![];
            for line in std::fs::read_to_string(p).expect("replay").lines() {
                let line = line.split('\t').next().unwrap().trim();
                let t: Vec<&str> = line.split_whitespace().collect();
                if t.len() >= 2 && t[0] == "udp" {
                    if t[1] == "new" {
                        ctx = Some(new_ctx().await);
                        hist = vec!["udp new".to_string()];
                        rec(out, "udp new", "ok");
                    } else if t[1] == "recv" && t.len() == 3 {
                        if pending_burst > 0 {
                            burst.push(unhex(t[2]));
                            pending_burst -= 1;
                            if pending_burst == 0 {
                                if let Some(c) = ctx.as_mut() {
                                    recv_burst(out, c, &burst, &mut hist, &mut viol).await;
                                }
                                burst.clear();
                            }
                        } else if let Some(c) = ctx.as_mut() {
                            recv_one(out, c, &unhex(t[2]), &mut hist, &mut viol).await;
                        }
                    } else if t[1] == "burst" && t.len() == 3 {
                        pending_burst = t[2].parse().unwrap_or(0);
                    }
                }
            }
            return;
        }
        let mut rng = Rng::new(opts.seed, "udp");
        let corp: Vec<Vec<u8>> = corpus(&mut rng).into_iter().map(|p| p.encode()).filter(|e| e.len() < 300).collect();
        // every truncation of D after D itself
        for d in &corp {
            if gave_up() {
                break;
            }
            let mut ctx = new_ctx().await;
            rec(out, "udp new", "ok");
            let mut hist = vec!["udp new".to_string()];
            recv_one(out, &mut ctx, d, &mut hist, &mut viol).await;
            let step = if opts.thorough { 1 } else { 1 + d.len() / 40 };
            let mut k = 0;
            while k < d.len() {
                hist.truncate(2);
                recv_one(out, &mut ctx, &d[..k], &mut hist, &mut viol).await;
                k += step;
            }
            cases += 1;
        }
        // truncations of a shorter datagram after a longer, different one
        let pairs = if opts.thorough { 600 } else { 60 };
        for _ in 0..pairs {
            if gave_up() {
                break;
            }
            let a = rng.pick(&corp).clone();
            let b = rng.pick(&corp).clone();
            let (long, short) = if a.len() >= b.len() { (a, b) } else { (b, a) };
            let mut ctx = new_ctx().await;
            rec(out, "udp new", "ok");
            let mut hist = vec!["udp new".to_string()];
            recv_one(out, &mut ctx, &long, &mut hist, &mut viol).await;
            for _ in 0..6 {
                let k = rng.below(short.len() as u64 + 1) as usize;
                recv_one(out, &mut ctx, &short[..k], &mut hist, &mut viol).await;
            }
            recv_one(out, &mut ctx, &short, &mut hist, &mut viol).await;
            cases += 1;
        }
        // a datagram from an address the entity map does not list, then truncations of a shorter datagram from the peer:
        // whatever the transport does with the stranger's datagram, the peer's is decoded from its own bytes
        let strangers = if opts.thorough { 300 } else { 30 };
        for _ in 0..strangers {
            if gave_up() {
                break;
            }
            let a = rng.pick(&corp).clone();
            let b = rng.pick(&corp).clone();
            let (long, short) = if a.len() >= b.len() { (a, b) } else { (b, a) };
            let mut ctx = new_ctx().await;
            rec(out, "udp new", "ok");
            let mut hist = vec!["udp new".to_string()];
            recv_from(out, &mut ctx, &long, true, &mut hist, &mut viol).await;
            for _ in 0..3 {
                let k = rng.below(short.len() as u64 + 1) as usize;
                recv_from(out, &mut ctx, &short[..k], false, &mut hist, &mut viol).await;
                if rng.chance(1, 2) {
                    recv_from(out, &mut ctx, &long, true, &mut hist, &mut viol).await;
                }
            }
            recv_from(out, &mut ctx, &short, false, &mut hist, &mut viol).await;
            // ... and both queued at the socket before receive() is called: the stranger's long datagram first
            let k = rng.below(short.len() as u64 + 1) as usize;
            recv_burst_from(out, &mut ctx, &[long.clone(), short[..k].to_vec(), short.clone()], &[true, false, false], &mut hist, &mut viol).await;
            cases += 1;
        }
        // bursts: a valid datagram, an undecodable one (its data-field length forced to 0xFFFF, or cut short, or a flipped
        // octet) and truncations of shorter datagrams are all queued at the socket before receive() is called
        let bursts = if opts.thorough { 400 } else { 40 };
        for _ in 0..bursts {
            if gave_up() {
                break;
            }
            let v = rng.pick(&corp).clone();
            let w = rng.pick(&corp).clone();
            let mut bad = v.clone();
            match rng.below(3) {
                0 if bad.len() > 2 => {
                    bad[1] = 0xFF;
                    bad[2] = 0xFF;
                }
                1 if bad.len() > 1 => {
                    let k = rng.below(bad.len() as u64 - 1) as usize;
                    bad.truncate(k + 1);
                }
                _ => {
                    let k = rng.below(bad.len() as u64) as usize;
                    bad[k] ^= 1 << rng.below(8);
                }
            }
            let short = if w.len() <= v.len() { w.clone() } else { v.clone() };
            let mut dgs = vec![v.clone(), bad];
            for _ in 0..(1 + rng.below(3)) {
                let k = rng.below(short.len() as u64 + 1) as usize;
                dgs.push(short[..k].to_vec());
            }
            if rng.chance(1, 2) {
                dgs.push(w.clone());
            }
            let mut ctx = new_ctx().await;
            rec(out, "udp new", "ok");
            let mut hist = vec!["udp new".to_string()];
            recv_burst(out, &mut ctx, &dgs, &mut hist, &mut viol).await;
            cases += 1;
        }
    });
    if gave_up() {
        viol += 1;
        oracle(out, "C16", "delivered", &format!("receive() returned nothing within 2 s for {} datagrams that had been sent to the socket; the engine stopped there", MAX_TIMEOUTS));
    }
    stat(out, &format!("engine=udp cases={} timeouts={} oracle_violations={}", cases, TIMEOUTS.load(std::sync::atomic::Ordering::Relaxed), viol));
}
