//! Engine `cksum`: `FileChecksum::checksum` (cfdp-core/src/filestore.rs), C14.
//!
//! ops:  cksum hex <hexdata> <chunks>      data given literally
//!       cksum lin <len> <a> <c> <chunks>  data[i] = (a*i + c) mod 256
//!       cksum null <len>                  Null checksum type
//! <chunks> = comma separated read sizes, cycled; the reader handed to `checksum()` returns at
//! most that many bytes per `read` call (short reads).  Answer: the u32 checksum.
//! oracle: the CCSDS definition computed independently (zero-pad to a multiple of 4, sum of
//! big-endian words mod 2^32); single-byte-change sensitivity.

use std::io::{Read, Seek, SeekFrom, Write};

use cfdp_core::filestore::{ChecksumType, FileChecksum};

use crate::util::*;
use crate::Opts;

struct ChunkReader {
    data: Vec<u8>,
    pos: usize,
    chunks: Vec<usize>,
    k: usize,
}
impl Read for ChunkReader {
    fn read(&mut self, buf: &mut [u8]) -> std::io::Result<usize> {
        let want = self.chunks[self.k % self.chunks.len()].max(1);
        let n = want.min(buf.len()).min(self.data.len() - self.pos);
        if n > 0 {
            self.k += 1;
        }
        buf[..n].copy_from_slice(&self.data[self.pos..self.pos + n]);
        self.pos += n;
        Ok(n)
    }
}
impl Seek for ChunkReader {
    fn seek(&mut self, pos: SeekFrom) -> std::io::Result<u64> {
        match pos {
            SeekFrom::Start(p) => self.pos = (p as usize).min(self.data.len()),
            SeekFrom::Current(d) => self.pos = (self.pos as i64 + d) as usize,
            SeekFrom::End(d) => self.pos = (self.data.len() as i64 + d) as usize,
        }
        // a rewind restarts the chunk schedule
        if self.pos == 0 {
            self.k = 0;
        }
        Ok(self.pos as u64)
    }
}

pub fn spec(data: &[u8]) -> u32 {
    let mut d = data.to_vec();
    while d.len() % 4 != 0 {
        d.push(0);
    }
    let mut s = 0u32;
    for w in d.chunks(4) {
        s = s.wrapping_add(u32::from_be_bytes([w[0], w[1], w[2], w[3]]));
    }
    s
}

fn lin(len: usize, a: u64, c: u64) -> Vec<u8> {
    (0..len as u64).map(|i| (a.wrapping_mul(i).wrapping_add(c) % 256) as u8).collect()
}

fn fmt_chunks(ch: &[usize]) -> String {
    ch.iter().map(|x| x.to_string()).collect::<Vec<_>>().join(",")
}

fn run_one(out: &mut dyn Write, op: &str, data: Vec<u8>, chunks: &[usize], viol: &mut u64) -> u32 {
    // the reader starts at a non-zero position to check that checksum() rewinds
    let mut r = ChunkReader { data: data.clone(), pos: data.len() / 2, chunks: chunks.to_vec(), k: 0 };
    let res = std::panic::catch_unwind(std::panic::AssertUnwindSafe(|| r.checksum(ChecksumType::Modular)));
    match res {
        Ok(Ok(v)) => {
            rec(out, op, &v.to_string());
            let exp = spec(&data);
            if v != exp {
                *viol += 1;
                oracle(out, "C14", "chunking", &format!("checksum {} expected {} (CCSDS definition) || ops: {}", v, exp, op));
            }
            v
        }
        Ok(Err(e)) => {
            rec(out, op, &format!("err:{}", e));
            *viol += 1;
            oracle(out, "C14", "error", &format!("checksum returned an error || ops: {}", op));
            0
        }
        Err(_) => {
            rec(out, op, "panic");
            *viol += 1;
            oracle(out, "C14", "panic", &format!("checksum panicked || ops: {}", op));
            0
        }
    }
}

fn do_line(out: &mut dyn Write, line: &str, viol: &mut u64) {
    let t: Vec<&str> = line.split_whitespace().collect();
    if t.len() < 3 || t[0] != "cksum" {
        return;
    }
    let parse_chunks = |s: &str| -> Vec<usize> { s.split(',').map(|x| x.parse().unwrap()).collect() };
    match t[1] {
        "hex" => {
            run_one(out, line, unhex(t[2]), &parse_chunks(t[3]), viol);
        }
        "lin" => {
            let d = lin(t[2].parse().unwrap(), t[3].parse().unwrap(), t[4].parse().unwrap());
            run_one(out, line, d, &parse_chunks(t[5]), viol);
        }
        "null" => {
            let d = lin(t[2].parse().unwrap(), 7, 1);
            let mut c = std::io::Cursor::new(d);
            let v = c.checksum(ChecksumType::Null).unwrap();
            rec(out, line, &v.to_string());
            if v != 0 {
                *viol += 1;
                oracle(out, "C14", "null", &format!("null checksum = {} || ops: {}", v, line));
            }
        }
        _ => {}
    }
}

pub fn run(opts: &Opts, out: &mut dyn Write) {
    let mut viol = 0u64;
    let mut cases = 0u64;
    if let Some(p) = &opts.replay {
        for line in std::fs::read_to_string(p).expect("replay").lines() {
            do_line(out, line.split('\t').next().unwrap().trim(), &mut viol);
        }
        stat(out, &format!("engine=cksum replay=1 oracle_violations={}", viol));
        return;
    }
    let mut rng = Rng::new(opts.seed, "cksum");
    let chunkings: Vec<Vec<usize>> = vec![
        vec![8192], vec![1], vec![2], vec![3], vec![4], vec![5], vec![6], vec![7], vec![9],
        vec![1, 2, 3], vec![3, 1], vec![2, 5, 4, 1], vec![8191], vec![8193], vec![4096, 1, 4095],
        vec![1, 8192], vec![3, 3, 2], vec![7, 1, 1, 1, 2],
    ];
    let nmax = if opts.thorough { 300 } else { 70 };
    // all small lengths x all chunkings, three contents
    for len in 0..=nmax {
        for ch in &chunkings {
            for (a, c) in [(1u64, 1u64), (37, 200), (0, 255)] {
                let op = format!("cksum lin {} {} {} {}", len, a, c, fmt_chunks(ch));
                do_line(out, &op, &mut viol);
                cases += 1;
            }
        }
    }
    // literal data incl. word pairs summing to 0 mod 2^32 and zero runs, random chunkings
    let n_rand = if opts.thorough { 20000 } else { 1500 };
    for _ in 0..n_rand {
        let len = rng.below(40) as usize;
        let mut d = rng.bytes(len);
        if rng.chance(1, 4) && len >= 8 {
            // make words 0 and 1 cancel
            let w = u32::from_be_bytes([d[0], d[1], d[2], d[3]]);
            d[4..8].copy_from_slice(&w.wrapping_neg().to_be_bytes());
        }
        if rng.chance(1, 5) {
            for b in d.iter_mut().take(len / 2) {
                *b = 0;
            }
        }
        let nch = rng.range(1, 4) as usize;
        let ch: Vec<usize> = (0..nch).map(|_| rng.range(1, 9) as usize).collect();
        let op = format!("cksum hex {} {}", hex(&d), fmt_chunks(&ch));
        do_line(out, &op, &mut viol);
        cases += 1;
        // single byte change must change the checksum
        if len > 0 {
            let i = rng.below(len as u64) as usize;
            let mut d2 = d.clone();
            d2[i] ^= (rng.range(1, 255)) as u8;
            if spec(&d2) == spec(&d) {
                viol += 1;
                oracle(out, "C14", "single_byte", &format!("single byte change not detected || ops: {}", op));
            }
            let op2 = format!("cksum hex {} {}", hex(&d2), fmt_chunks(&ch));
            do_line(out, &op2, &mut viol);
        }
    }
    // lengths straddling the 8 KiB BufReader boundary
    let big: Vec<usize> = if opts.thorough {
        (8180..8210).chain(16370..16400).chain([20000, 24577, 65535].into_iter()).collect()
    } else {
        vec![8190, 8191, 8192, 8193, 8194, 8195, 16383, 16385, 16386, 20001]
    };
    for len in big {
        for ch in &chunkings {
            let op = format!("cksum lin {} 13 5 {}", len, fmt_chunks(ch));
            do_line(out, &op, &mut viol);
            cases += 1;
        }
    }
    for len in [0usize, 1, 5, 4096] {
        do_line(out, &format!("cksum null {}", len), &mut viol);
        cases += 1;
    }
    stat(out, &format!("engine=cksum cases={} oracle_violations={}", cases, viol));
}
