//! Engines `recv` and `send`: the real `RecvTransaction` / `SendTransaction` state machines
//! (cfdp-daemon/src/transaction/{recv,send}.rs) driven one method call per op line on a paused
//! tokio clock, through the `cfg(cfdp_verif)` wrappers.
//!
//! recv ops:  recv new <mode> <fss> <seg> <crc> <max> <ti> <ta> <tn> <imm|def> <delay_ms> <fho>
//!            recv pdu <hex> | recv send | recv adv <ms> | recv timeout
//!            recv cancel | recv suspend | recv resume | recv report | recv abandon
//! send ops:  send new <mode> <seg> <crc> <max> <ti> <ta> <tn> <closure> <cktype> <fho> <filespec> <reqs>
//!            send pdu <hex> | send send | send adv <ms> | send timeout
//!            send cancel | send suspend | send resume | send report | send abandon | send prompt <nak|ka>
//! answer:    res=<ok|err:Kind|panic> pdu=<hex|-> ind=[..] st=<snapshot> has=<0|1> until=<ns|max> fs={..}
//!
//! The oracles (implementation only) are documented next to each clause below.

use std::collections::HashMap;
use std::io::Write;
use std::panic::{catch_unwind, AssertUnwindSafe};
use std::sync::Arc;
use std::time::Duration;

use camino::{Utf8Path, Utf8PathBuf};
use cfdp_core::daemon::{Indication, NakProcedure};
use cfdp_core::filestore::{ChecksumType, NativeFileStore};
use cfdp_core::pdu::*;
use cfdp_core::transaction::{Metadata, TransactionConfig, TransactionState};
use cfdp_daemon::transaction::{RecvTransaction, SendTransaction, TransactionError};
use cfdp_daemon::verif;
use tokio::sync::mpsc::{channel, Receiver, Sender};

use crate::cksum::spec as cksum_spec;
use crate::codec::{err_name, pdu_repr};
use crate::util::*;
use crate::Opts;

pub const SRC: u16 = 1;
pub const DST: u16 = 2;
pub const SEQ: u16 = 7;

// ------------------------------------------------------------------ shared rendering

pub fn cond_of(code: u8) -> Condition {
    crate::codec::CONDITIONS.iter().copied().find(|c| *c as u8 == code).expect("condition code")
}

pub fn parse_fho(s: &str) -> HashMap<Condition, FaultHandlerAction> {
    let mut m = HashMap::new();
    if s == "-" {
        return m;
    }
    for part in s.split(';') {
        let (c, a) = part.split_once(':').expect("fho");
        let act = match a {
            "c" => FaultHandlerAction::Cancel,
            "s" => FaultHandlerAction::Suspend,
            "i" => FaultHandlerAction::Ignore,
            _ => FaultHandlerAction::Abandon,
        };
        m.insert(cond_of(c.parse().unwrap()), act);
    }
    m
}

fn state_code(s: TransactionState) -> u8 {
    s as u8
}

pub fn ind_repr(i: &Indication) -> String {
    match i {
        Indication::Transaction(_) => "Transaction".into(),
        Indication::EoFSent(_) => "EoFSent".into(),
        Indication::EoFRecv(_) => "EoFRecv".into(),
        Indication::Finished(f) => format!(
            "Finished({},{},{},{},{},<{}>)",
            f.report.condition as u8,
            f.delivery_code as u8,
            f.file_status as u8,
            state_code(f.report.state),
            f.report.status as u8,
            f.filestore_responses
                .iter()
                .map(|r| format!("{}.{}.{}", r.action_and_status.as_u8(), hex(r.first_filename.as_str().as_bytes()), hex(r.second_filename.as_str().as_bytes())))
                .collect::<Vec<_>>()
                .join("+")
        ),
        Indication::MetadataRecv(m) => format!(
            "MetadataRecv({},{},{},{})",
            hex(m.source_filename.as_str().as_bytes()),
            hex(m.destination_filename.as_str().as_bytes()),
            m.file_size,
            m.user_messages.len()
        ),
        Indication::FileSegmentRecv(s) => format!("FileSegmentRecv({},{})", s.offset, s.length),
        Indication::Suspended(s) => format!("Suspended({})", s.condition as u8),
        Indication::Resumed(r) => format!("Resumed({})", r.progress),
        Indication::Report(r) => format!("Report({},{},{})", state_code(r.state), r.status as u8, r.condition as u8),
        Indication::Fault(f) => format!("Fault({},{})", f.condition as u8, f.progress),
        Indication::Abandon(f) => format!("Abandon({},{})", f.condition as u8, f.progress),
    }
}

fn terr_name(e: &TransactionError) -> String {
    match e {
        TransactionError::FileStore(_) => "FileStore".into(),
        TransactionError::Transport(_) => "Transport".into(),
        TransactionError::UserMessage(_) => "UserMessage".into(),
        TransactionError::NoFile(_) => "NoFile".into(),
        TransactionError::Daemon(_) => "Daemon".into(),
        TransactionError::IntConversion(_) => "IntConversion".into(),
        TransactionError::UnexpectedPDU(..) => "UnexpectedPDU".into(),
        TransactionError::MissingMetadata(_) => "MissingMetadata".into(),
        TransactionError::MissingNak => "MissingNak".into(),
        TransactionError::NoChecksum => "NoChecksum".into(),
        TransactionError::Report(_) => "Report".into(),
        TransactionError::InvalidStatus(_) => "InvalidStatus".into(),
    }
}

/// content digest used in the filesystem listing: length, position-weighted sum, CCSDS checksum
pub fn digest(b: &[u8]) -> String {
    let mut w: u32 = 0;
    for (i, x) in b.iter().enumerate() {
        w = w.wrapping_add(((i as u32).wrapping_add(1)).wrapping_mul(*x as u32));
    }
    format!("{}.{}.{}", b.len(), w, cksum_spec(b))
}

/// sorted listing of everything under `root` (relative names)
pub fn fs_listing(root: &Utf8Path) -> String {
    fn walk(dir: &std::path::Path, rel: &str, out: &mut Vec<String>) {
        let mut ents: Vec<_> = std::fs::read_dir(dir).map(|r| r.filter_map(|e| e.ok()).collect()).unwrap_or_default();
        ents.sort_by_key(|e| e.file_name());
        for e in ents {
            let name = e.file_name().to_string_lossy().to_string();
            let relp = if rel.is_empty() { name.clone() } else { format!("{}/{}", rel, name) };
            let p = e.path();
            if p.is_dir() {
                out.push(format!("d:{}", relp));
                walk(&p, &relp, out);
            } else {
                let c = std::fs::read(&p).unwrap_or_default();
                out.push(format!("f:{}:{}", relp, digest(&c)));
            }
        }
    }
    let mut v = vec![];
    walk(root.as_std_path(), "", &mut v);
    format!("{{{}}}", v.join(","))
}

pub fn lin(len: usize, a: u64, c: u64) -> Vec<u8> {
    (0..len as u64).map(|i| (a.wrapping_mul(i).wrapping_add(c) % 256) as u8).collect()
}

/// file content spec: `lin:<len>:<a>:<c>` or `zero:<len>` or `hex:<hex>` or `neutral:<len>` (word pairs cancelling mod 2^32)
pub fn file_of(spec: &str) -> Vec<u8> {
    let t: Vec<&str> = spec.split(':').collect();
    match t[0] {
        "lin" => lin(t[1].parse().unwrap(), t[2].parse().unwrap(), t[3].parse().unwrap()),
        "zero" => vec![0; t[1].parse().unwrap()],
        "hex" => unhex(t[1]),
        "neutral" => {
            // blocks of 8 bytes: word w followed by -w, so every 8-byte block sums to 0
            let n: usize = t[1].parse().unwrap();
            let mut v = vec![];
            let mut k: u32 = 0x0102_0304;
            while v.len() < n {
                v.extend_from_slice(&k.to_be_bytes());
                v.extend_from_slice(&k.wrapping_neg().to_be_bytes());
                k = k.wrapping_mul(31).wrapping_add(7);
            }
            v.truncate(n);
            v
        }
        _ => panic!("file spec"),
    }
}

pub fn header_for(dir: Direction, ptype: PDUType, mode: TransmissionMode, crc: CRCFlag, fss: FileSizeFlag, len: u16) -> PDUHeader {
    PDUHeader {
        version: U3::One,
        pdu_type: ptype,
        direction: dir,
        transmission_mode: mode,
        crc_flag: crc,
        large_file_flag: fss,
        pdu_data_field_length: len,
        segmentation_control: SegmentationControl::NotPreserved,
        segment_metadata_flag: SegmentedData::NotPresent,
        source_entity_id: VariableID::from(SRC),
        transaction_sequence_number: VariableID::from(SEQ),
        destination_entity_id: VariableID::from(DST),
    }
}

pub fn mk(dir: Direction, mode: TransmissionMode, crc: CRCFlag, fss: FileSizeFlag, payload: PDUPayload) -> PDU {
    let len = payload.clone().encoded_len(fss);
    let ptype = if matches!(payload, PDUPayload::FileData(_)) { PDUType::FileData } else { PDUType::FileDirective };
    PDU { header: header_for(dir, ptype, mode, crc, fss, len), payload }
}

// ------------------------------------------------------------------ receiver case

#[derive(Clone)]
pub struct RecvCfg {
    pub mode: TransmissionMode,
    pub fss: FileSizeFlag,
    pub seg: u16,
    pub crc: CRCFlag,
    pub max: u32,
    pub ti: i64,
    pub ta: i64,
    pub tn: i64,
    pub immediate: bool,
    pub delay_ms: u64,
    pub fho: String,
}
impl RecvCfg {
    pub fn line(&self) -> String {
        format!(
            "recv new {} {} {} {} {} {} {} {} {} {} {}",
            if self.mode == TransmissionMode::Acknowledged { "ack" } else { "unack" },
            if self.fss == FileSizeFlag::Small { "s" } else { "l" },
            self.seg,
            self.crc as u8,
            self.max,
            self.ti,
            self.ta,
            self.tn,
            if self.immediate { "imm" } else { "def" },
            self.delay_ms,
            self.fho
        )
    }
    pub fn parse(t: &[&str]) -> RecvCfg {
        RecvCfg {
            mode: if t[0] == "ack" { TransmissionMode::Acknowledged } else { TransmissionMode::Unacknowledged },
            fss: if t[1] == "s" { FileSizeFlag::Small } else { FileSizeFlag::Large },
            seg: t[2].parse().unwrap(),
            crc: if t[3] == "1" { CRCFlag::Present } else { CRCFlag::NotPresent },
            max: t[4].parse().unwrap(),
            ti: t[5].parse().unwrap(),
            ta: t[6].parse().unwrap(),
            tn: t[7].parse().unwrap(),
            immediate: t[8] == "imm",
            delay_ms: t[9].parse().unwrap(),
            fho: t[10].to_string(),
        }
    }
}

/// what the environment (harness) knows independently of the receiver: used by the oracles
#[derive(Default)]
pub struct RecvTruth {
    /// the file the (truthful) sender is transferring, if the script is truthful
    pub file: Option<Vec<u8>>,
    pub dest: Option<String>,
    pub delivered: Vec<(u64, u64)>, // naive union of delivered data ranges (non-empty)
    pub meta_delivered: bool,
    pub eof_size: Option<u64>,
    pub success_reported: bool,
    pub fs_after_success: Option<String>,
    pub suspended: bool,
    pub n_finished_ind: u32,
    pub cancelled: bool,
    pub dest_before: Option<String>,
    pub nak_round: Vec<(u64, u64)>,
    pub closure: bool,
    pub transfer: bool,
    pub marker_queued: bool,
    /// an EOF announced a size other than the file's: the script plays an untruthful sender,
    /// the oracles that presuppose a truthful one do not apply from then on
    pub untruthful: bool,
    pub cancel_end_checked: bool,
    pub dest_in_requests: bool,
}

pub struct RecvCase {
    pub cfg: RecvCfg,
    pub t: RecvTransaction<NativeFileStore>,
    pub root: Utf8PathBuf,
    pub ind_rx: Receiver<Indication>,
    pub pdu_tx: Sender<(VariableID, PDU)>,
    pub pdu_rx: Receiver<(VariableID, PDU)>,
    pub truth: RecvTruth,
    pub hist: Vec<String>,
    pub dead: bool,
    pub now_ms: u64,
    pub active_ms: u64,
    pub last_pdu_ms: u64,
    pub first_fin_ms: Option<u64>,
    /// net engine: the op lines are recorded as `<tag> <op...>` instead of `recv <op...>`
    pub tag: Option<&'static str>,
    pub last_emitted: Option<PDU>,
    pub last_inds: Vec<Indication>,
}

fn union_insert(v: &mut Vec<(u64, u64)>, a: u64, b: u64) {
    if a >= b {
        return;
    }
    v.push((a, b));
    v.sort();
    let mut out: Vec<(u64, u64)> = vec![];
    for &(s, e) in v.iter() {
        match out.last_mut() {
            Some(l) if s <= l.1 => {
                if e > l.1 {
                    l.1 = e
                }
            }
            _ => out.push((s, e)),
        }
    }
    *v = out;
}
fn union_total(v: &[(u64, u64)]) -> u64 {
    v.iter().map(|(a, b)| b - a).sum()
}
fn missing(v: &[(u64, u64)], n: u64) -> Vec<(u64, u64)> {
    let mut out = vec![];
    let mut p = 0;
    for &(s, e) in v {
        if s >= n {
            break;
        }
        if s > p {
            out.push((p, s));
        }
        p = p.max(e);
    }
    if p < n {
        out.push((p, n));
    }
    out
}

/// `recv pdu X` -> `net r pdu X` when the case runs under the net engine
pub fn shown_line(tag: Option<&'static str>, line: &str) -> String {
    match tag {
        Some(tag) => format!("{} {}", tag, line.splitn(2, ' ').nth(1).unwrap_or("")),
        None => line.to_string(),
    }
}

pub fn prepare_root(root: &Utf8Path) {
    std::fs::create_dir_all(root.join("d")).unwrap();
    std::fs::write(root.join("old"), b"OLD").unwrap();
    std::fs::write(root.join("d/x"), b"xx").unwrap();
}

impl RecvCase {
    pub fn new(base: &Utf8Path, n: u64, cfg: RecvCfg) -> RecvCase {
        let root = base.join(format!("r{}", n));
        let _ = std::fs::remove_dir_all(&root);
        prepare_root(&root);
        let filestore = Arc::new(NativeFileStore::new(&root));
        let (ind_tx, ind_rx) = channel(100000);
        let (pdu_tx, pdu_rx) = channel(1);
        let config = TransactionConfig {
            source_entity_id: VariableID::from(SRC),
            destination_entity_id: VariableID::from(DST),
            transmission_mode: cfg.mode,
            sequence_number: VariableID::from(SEQ),
            file_size_flag: cfg.fss,
            fault_handler_override: parse_fho(&cfg.fho),
            file_size_segment: cfg.seg,
            crc_flag: cfg.crc,
            segment_metadata_flag: SegmentedData::NotPresent,
            max_count: cfg.max,
            inactivity_timeout: cfg.ti,
            ack_timeout: cfg.ta,
            nak_timeout: cfg.tn,
        };
        let np = if cfg.immediate { NakProcedure::Immediate(Duration::from_millis(cfg.delay_ms)) } else { NakProcedure::Deferred(Duration::from_millis(cfg.delay_ms)) };
        let t = RecvTransaction::new(config, np, filestore, ind_tx);
        RecvCase { cfg, t, root, ind_rx, pdu_tx, pdu_rx, truth: RecvTruth::default(), hist: vec![], dead: false, now_ms: 0, active_ms: 0, last_pdu_ms: 0, first_fin_ms: None, tag: None, last_emitted: None, last_inds: vec![] }
    }

    pub async fn settle(&mut self) -> Vec<Indication> {
        for _ in 0..4 {
            tokio::task::yield_now().await;
        }
        let mut v = vec![];
        while let Ok(i) = self.ind_rx.try_recv() {
            v.push(i);
        }
        v
    }

    fn bad(&self, out: &mut dyn Write, viol: &mut u64, prop: &str, clause: &str, detail: String) {
        *viol += 1;
        oracle(out, prop, clause, &format!("{} || after: {}", detail, self.hist.join("; ")));
    }

    /// one op; returns the answer string
    pub async fn op(&mut self, out: &mut dyn Write, line: &str, viol: &mut u64) {
        let t: Vec<&str> = line.split_whitespace().collect();
        let shown = shown_line(self.tag, line);
        let line = shown.as_str();
        self.hist.push(line.to_string());
        self.last_emitted = None;
        self.last_inds.clear();
        if self.dead {
            rec(out, line, "dead");
            return;
        }
        // the per-transaction task loop ends when the state is Terminated
        if verif::recv_state(&self.t) == TransactionState::Terminated && t[1] != "adv" {
            rec(out, line, "terminated");
            return;
        }
        let mut emitted: Option<PDU> = None;
        let mut res = "ok".to_string();
        let mut delivered_pdu: Option<PDU> = None;
        let fs_before = fs_listing(&self.root);
        match t[1] {
            "pdu" => {
                let bytes = unhex(t[2]);
                match PDU::decode(&mut &bytes[..]) {
                    Ok(p) => {
                        delivered_pdu = Some(p.clone());
                        self.last_pdu_ms = self.active_ms;
                        let r = catch_unwind(AssertUnwindSafe(|| self.t.process_pdu(p)));
                        match r {
                            Ok(Ok(())) => {}
                            Ok(Err(e)) => {
                                res = format!("err:{}", terr_name(&e));
                                // the task loop ends the transaction task on any error but UnexpectedPDU
                                if !matches!(e, TransactionError::UnexpectedPDU(..)) {
                                    self.dead = true;
                                }
                            }
                            Err(_) => {
                                res = "panic".into();
                                self.dead = true;
                            }
                        }
                    }
                    Err(e) => res = format!("undecodable:{}", err_name(&e)),
                }
            }
            "send" => {
                if verif::recv_has_pdu_to_send(&self.t) {
                    let tx = self.pdu_tx.clone();
                    let permit = tx.try_reserve().expect("permit");
                    let r = catch_unwind(AssertUnwindSafe(|| verif::recv_send_pdu(&mut self.t, permit)));
                    match r {
                        Ok(Ok(())) => {}
                        Ok(Err(e)) => {
                            res = format!("err:{}", terr_name(&e));
                            self.dead = true;
                        }
                        Err(_) => {
                            res = "panic".into();
                            self.dead = true;
                        }
                    }
                    if let Ok((_dest, p)) = self.pdu_rx.try_recv() {
                        emitted = Some(p);
                    }
                } else {
                    res = "nothing".into();
                }
            }
            "adv" => {
                let ms: u64 = t[2].parse().unwrap();
                self.now_ms += ms;
                if !self.truth.suspended {
                    self.active_ms += ms;
                }
                tokio::time::advance(Duration::from_millis(ms)).await;
            }
            // the task loop calls handle_timeout() only after sleep(until_timeout()) has elapsed
            "timeout" if verif::recv_until_timeout(&self.t) != Duration::ZERO => res = "notdue".into(),
            "timeout" => {
                let r = catch_unwind(AssertUnwindSafe(|| self.t.handle_timeout()));
                match r {
                    Ok(Ok(())) => {}
                    Ok(Err(e)) => {
                        res = format!("err:{}", terr_name(&e));
                        self.dead = true;
                    }
                    Err(_) => {
                        res = "panic".into();
                        self.dead = true;
                    }
                }
            }
            "cancel" => {
                let _ = self.t.cancel();
                self.truth.cancelled = true;
            }
            "suspend" => {
                let _ = self.t.suspend();
            }
            "resume" => {
                let _ = self.t.resume();
            }
            "report" => {
                let _ = self.t.send_report(None);
            }
            "abandon" => self.t.shutdown(),
            _ => res = "bad-op".into(),
        }
        let inds = self.settle().await;
        self.last_inds = inds.clone();
        self.last_emitted = emitted.clone();
        let snap = self.t.verif_snapshot();
        let has = verif::recv_has_pdu_to_send(&self.t);
        let until = verif::recv_until_timeout(&self.t);
        let fs = fs_listing(&self.root);
        let ans = format!(
            "res={} pdu={} ind=[{}] st={} has={} until={} fs={}",
            res,
            emitted.as_ref().map_or("-".to_string(), |p| hex(&p.clone().encode())),
            inds.iter().map(ind_repr).collect::<Vec<_>>().join(";"),
            snap,
            has as u8,
            if until == Duration::MAX { "max".to_string() } else { until.as_nanos().to_string() },
            fs
        );
        rec(out, line, &ans);
        self.oracles(out, viol, &t, delivered_pdu, emitted, &inds, &snap, &fs_before, &fs);
    }

    #[allow(clippy::too_many_arguments)]
    fn oracles(&mut self, out: &mut dyn Write, viol: &mut u64, t: &[&str], delivered: Option<PDU>, emitted: Option<PDU>, inds: &[Indication], snap: &str, fs_before: &str, fs_after: &str) {
        let field = |k: &str| -> String {
            snap.split_whitespace().find_map(|kv| kv.strip_prefix(&format!("{}=", k)).map(|s| s.to_string())).unwrap_or_default()
        };
        let state_suspended_before = self.truth.suspended;
        // --- track what was delivered
        if let Some(p) = &delivered {
            match &p.payload {
                PDUPayload::FileData(FileDataPDU::Unsegmented(d)) => {
                    if !d.file_data.is_empty() {
                        union_insert(&mut self.truth.delivered, d.offset, d.offset + d.file_data.len() as u64);
                    }
                }
                PDUPayload::Directive(Operations::Metadata(m)) => {
                    if !self.truth.meta_delivered {
                        self.truth.meta_delivered = true;
                        self.truth.dest = Some(m.destination_filename.to_string());
                        // filestore requests that name the destination file change it legitimately after the copy
                        let norm = |p: &str| p.trim_start_matches('/').to_string();
                        let d = norm(m.destination_filename.as_str());
                        self.truth.dest_in_requests = m.options.iter().any(|t| match t {
                            MetadataTLV::FileStoreRequest(r) => norm(r.first_filename.as_str()) == d || norm(r.second_filename.as_str()) == d,
                            _ => false,
                        });
                        self.truth.closure = m.closure_requested;
                        self.truth.transfer = !m.source_filename.as_str().is_empty();
                    }
                }
                PDUPayload::Directive(Operations::EoF(e)) => {
                    if e.condition == Condition::NoError {
                        if self.truth.file.as_ref().map_or(false, |f| f.len() as u64 != e.file_size) {
                            self.truth.untruthful = true;
                        }
                        self.truth.eof_size = Some(e.file_size);
                    } else {
                        self.truth.cancelled = true;
                    }
                }
                _ => {}
            }
        }
        if let Some(n) = self.truth.eof_size {
            // a truthful sender never sends data beyond the size its EOF announces
            if self.truth.delivered.iter().any(|r| r.1 > n) {
                self.truth.untruthful = true;
            }
        }
        // --- C09 / C20: the receiver's progress figure is the number of distinct bytes delivered
        let rx: u64 = field("rx").parse().unwrap_or(0);
        if rx != union_total(&self.truth.delivered) {
            self.bad(out, viol, "C20", "recv_progress", format!("receiver progress {} but {} distinct bytes were delivered", rx, union_total(&self.truth.delivered)));
        }
        for i in inds {
            match i {
                Indication::Fault(f) | Indication::Abandon(f) => {
                    if f.progress != union_total(&self.truth.delivered) {
                        self.bad(out, viol, "C20", "recv_progress_ind", format!("{} but {} distinct bytes held", ind_repr(i), union_total(&self.truth.delivered)));
                    }
                }
                Indication::Resumed(r) => {
                    if r.progress != union_total(&self.truth.delivered) {
                        self.bad(out, viol, "C20", "recv_progress_ind", format!("{} but {} distinct bytes held", ind_repr(i), union_total(&self.truth.delivered)));
                    }
                }
                _ => {}
            }
        }
        // --- indications
        for i in inds {
            match i {
                Indication::Finished(f) => {
                    self.truth.n_finished_ind += 1;
                    let success = f.report.condition == Condition::NoError && f.delivery_code == DeliveryCode::Complete;
                    let late_pdu = t[1] == "pdu" && !matches!(&delivered, Some(PDU { payload: PDUPayload::Directive(Operations::EoF(e)), .. }) if e.condition != Condition::NoError);
                    if self.truth.success_reported && late_pdu && !self.truth.untruthful {
                        // C04: a completed delivery is final (user cancels, peer cancels and the
                        // receiver's own limit faults may still end the transaction)
                        self.bad(out, viol, "C04", "finished_again", format!("a second Finished indication {} after a successful delivery was reported", ind_repr(i)));
                    }
                    let complete = self.truth.meta_delivered && self.truth.eof_size.map_or(false, |n| !self.truth.transfer || missing(&self.truth.delivered, n).is_empty());
                    if !success && f.delivery_code == DeliveryCode::Complete && !complete {
                        // C18 / C01: whatever the condition, the delivery code says "complete" only when it is
                        let prop = if self.cfg.mode == TransmissionMode::Unacknowledged { "C18" } else { "C01" };
                        self.bad(out, viol, prop, "delivery_code_complete_without_data", format!("{} carries delivery code Complete although metadata/data are missing (meta={}, eof={:?}, held={:?})", ind_repr(i), self.truth.meta_delivered, self.truth.eof_size, self.truth.delivered));
                    }
                    if success {
                        // C01 / C18: success only with metadata and every byte of [0,size) delivered
                        if !complete {
                            let prop = if self.cfg.mode == TransmissionMode::Unacknowledged { "C18" } else { "C01" };
                            self.bad(out, viol, prop, "complete_without_data", format!("{} reported although metadata/data are missing (meta={}, eof={:?}, held={:?})", ind_repr(i), self.truth.meta_delivered, self.truth.eof_size, self.truth.delivered));
                        }
                        if f.file_status == FileStatusCode::Retained && !self.truth.untruthful && !self.truth.dest_in_requests {
                            if let (Some(file), Some(dest)) = (&self.truth.file, &self.truth.dest) {
                                let got = std::fs::read(self.root.join(dest)).ok();
                                if got.as_deref() != Some(&file[..]) {
                                    self.bad(out, viol, "C01", "delivered_equals_source", format!("success reported but the destination file differs from the source (len {:?} vs {})", got.map(|g| g.len()), file.len()));
                                }
                            }
                        }
                        self.truth.success_reported = true;
                        self.truth.fs_after_success = Some(fs_after.to_string());
                    }
                }
                Indication::Fault(f) => {
                    // C17: limit faults never earlier than `limit` full timeouts after the last progress
                    // (times are un-suspended time: a suspension does not count)
                    if f.condition == Condition::InactivityDetected && self.active_ms < self.last_pdu_ms + self.cfg.max as u64 * self.cfg.ti as u64 * 1000 {
                        self.bad(out, viol, "C17", "inactivity_not_early", format!("{} at {} ms but the last PDU was processed at {} ms (limit {} x {} s)", ind_repr(i), self.active_ms, self.last_pdu_ms, self.cfg.max, self.cfg.ti));
                    }
                    if f.condition == Condition::PositiveLimitReached {
                        if let Some(t0) = self.first_fin_ms {
                            if self.active_ms < t0 + self.cfg.max as u64 * self.cfg.ta as u64 * 1000 {
                                self.bad(out, viol, "C17", "ack_not_early", format!("{} at {} ms but Finished was first sent at {} ms (limit {} x {} s)", ind_repr(i), self.active_ms, t0, self.cfg.max, self.cfg.ta));
                            }
                        }
                    }
                    if f.condition == Condition::PositiveLimitReached && self.cfg.mode == TransmissionMode::Unacknowledged {
                        // C18: nothing is acknowledged in unacknowledged mode, so a missing ACK of the
                        // closure Finished PDU is no fault and cannot change the outcome reported
                        self.bad(out, viol, "C18", "closure_no_ack_fault", format!("{} declared by an unacknowledged receiver (no ACK is ever due)", ind_repr(i)));
                    }
                    if self.truth.success_reported && !self.truth.untruthful && (f.condition == Condition::FileChecksumFailure || f.condition == Condition::FilesizeError) {
                        self.bad(out, viol, "C04", "integrity_fault_after_success", format!("{} after a successful delivery was reported", ind_repr(i)));
                    }
                    let timer_fault = matches!(f.condition, Condition::PositiveLimitReached | Condition::NakLimitReached | Condition::InactivityDetected);
                    if state_suspended_before && t[1] != "resume" && timer_fault {
                        self.bad(out, viol, "C19", "fault_while_suspended", format!("{} declared while suspended", ind_repr(i)));
                    }
                }
                Indication::Suspended(_) => self.truth.suspended = true,
                Indication::Resumed(_) => {
                    self.truth.suspended = false;
                }
                _ => {}
            }
        }
        // --- C04: nothing on disk changes after the success report (same listing)
        if let Some(f) = &self.truth.fs_after_success {
            if f != fs_after && self.truth.success_reported && !inds.iter().any(|i| matches!(i, Indication::Finished(_))) {
                self.bad(out, viol, "C04", "fs_changed_after_success", format!("filestore changed after the success report: {} -> {}", f, fs_after));
            }
        }
        // --- C10: the destination name is only ever written by the step that reports success
        // (with CheckLimitReached configured to be ignored an incomplete unacknowledged transfer is stored on purpose)
        let ignore_check_limit = self.cfg.fho.split(';').any(|p| p == "10:i");
        if fs_before != fs_after && !ignore_check_limit && !inds.iter().any(|i| matches!(i, Indication::Finished(f) if f.report.condition == Condition::NoError || f.delivery_code == DeliveryCode::Complete)) && !self.truth.success_reported {
            self.bad(out, viol, "C10", "no_partial", format!("filestore changed without a completion report: {} -> {}", fs_before, fs_after));
        }
        // --- emitted PDU
        if let Some(p) = &emitted {
            let kind = match &p.payload {
                PDUPayload::Directive(Operations::Nak(_)) => "NAK",
                PDUPayload::Directive(Operations::Finished(_)) => "Finished",
                PDUPayload::Directive(Operations::Ack(_)) => "ACK",
                PDUPayload::Directive(Operations::KeepAlive(_)) => "KeepAlive",
                _ => "other",
            };
            if self.cfg.mode == TransmissionMode::Unacknowledged && !(kind == "Finished" && self.truth.closure) {
                self.bad(out, viol, "C18", "recv_silent_link", format!("receiver in unacknowledged mode emitted {}", pdu_repr(p)));
            }
            if state_suspended_before && (kind == "NAK" || kind == "Finished") {
                self.bad(out, viol, "C19", "quiet", format!("suspended receiver emitted {}", pdu_repr(p)));
            }
            if p.header.direction != Direction::ToSender || p.header.source_entity_id != VariableID::from(SRC) || p.header.transaction_sequence_number != VariableID::from(SEQ) || p.header.pdu_data_field_length != p.payload.clone().encoded_len(p.header.large_file_flag) {
                self.bad(out, viol, "C08", "header", format!("emitted PDU with wrong header {}", pdu_repr(p)));
            }
            if let PDUPayload::Directive(Operations::KeepAlive(k)) = &p.payload {
                if k.progress != union_total(&self.truth.delivered) {
                    self.bad(out, viol, "C20", "keepalive", format!("keep-alive progress {} but {} distinct bytes held", k.progress, union_total(&self.truth.delivered)));
                }
            }
            if kind == "Finished" && self.first_fin_ms.is_none() {
                self.first_fin_ms = Some(self.active_ms);
            }
            if let PDUPayload::Directive(Operations::Nak(n)) = &p.payload {
                // C08 well-formedness
                if n.start_of_scope > n.end_of_scope {
                    self.bad(out, viol, "C08", "wf_scope", format!("NAK scope inverted {}", pdu_repr(p)));
                }
                for r in &n.segment_requests {
                    let (a, b) = (r.start_offset, r.end_offset);
                    if a == 0 && b == 0 {
                        // the marker may be stale when the metadata arrived after the list was
                        // computed; its creation is checked below (wf_meta_marker)
                        continue;
                    }
                    if a >= b {
                        self.bad(out, viol, "C08", "wf_empty_range", format!("empty or inverted request {}-{} in {}", a, b, pdu_repr(p)));
                    }
                    if a < n.start_of_scope || b > n.end_of_scope {
                        self.bad(out, viol, "C08", "wf_scope", format!("request {}-{} outside scope in {}", a, b, pdu_repr(p)));
                    }
                    if let Some(sz) = self.truth.eof_size {
                        // (file data beyond the announced size is outside C08's quantifier - hypothesis EvOk of C08_wellformed:
                        // a gap in front of such data is requested before the receiver can know where the file ends)
                        if b > sz && !self.truth.delivered.iter().any(|r| r.1 > sz) {
                            self.bad(out, viol, "C08", "wf_beyond_file", format!("request {}-{} beyond the file size {} in {}", a, b, sz, pdu_repr(p)));
                        }
                    }
                    // a requested byte must not be held already... (it may have arrived since the list was computed; only flag if held before the list was computed is unknowable here)
                }
                // (a NAK always carries at least one request, even with a segment size too small for one)
                if n.segment_requests.len() > 1 && p.header.pdu_data_field_length as u32 > self.cfg.seg as u32 + 1 {
                    self.bad(out, viol, "C08", "wf_size", format!("NAK data field {} exceeds the configured maximum {}", p.header.pdu_data_field_length, self.cfg.seg));
                }
                if !self.cfg.immediate && self.truth.eof_size.is_none() && !self.hist.iter().any(|h| h.contains("PROMPT")) {
                    // deferred: no unsolicited NAK before EOF (prompts are tagged by the generator)
                    self.bad(out, viol, "C08", "deferred_quiet", format!("NAK before EOF under the deferred procedure: {}", pdu_repr(p)));
                }
            }
        }
        // --- C10: an unacknowledged receiver with closure that cancels must tell the sender
        // (a Finished PDU) before it ends; ending by Abandon is the only exception
        if self.cfg.mode == TransmissionMode::Unacknowledged
            && self.truth.closure
            && field("st") == "Terminated"
            && field("rs") == "Cancelled"
            && self.first_fin_ms.is_none()
            && !self.truth.cancel_end_checked
        {
            self.truth.cancel_end_checked = true;
            // (an ACK(Finished) from the peer also ends it: then the peer claims to have the Finished PDU)
            let acked = matches!(&delivered, Some(PDU { payload: PDUPayload::Directive(Operations::Ack(_)), .. }));
            if !inds.iter().any(|i| matches!(i, Indication::Abandon(_))) && t[1] != "abandon" && !acked {
                self.bad(out, viol, "C10", "cancel_closure_finished", "cancelled with closure requested but terminated without ever sending the Finished PDU".into());
            }
        }
        // --- C08: a 0-0 marker is only ever queued while the metadata is missing
        {
            let naks = field("naks");
            let has_marker = naks.contains("[0-0") || naks.contains(",0-0");
            if has_marker && !self.truth.marker_queued && self.truth.meta_delivered {
                self.bad(out, viol, "C08", "wf_meta_marker", format!("0-0 request queued although the metadata has been received: naks={}", naks));
            }
            self.truth.marker_queued = has_marker;
        }
        // --- C08 exactness: right after EOF processing with zero delay, the queued NAKs are exactly the missing ranges
        if let Some(p) = &delivered {
            if let PDUPayload::Directive(Operations::EoF(e)) = &p.payload {
                if e.condition == Condition::NoError && self.cfg.mode == TransmissionMode::Acknowledged && self.cfg.delay_ms == 0 && field("rs") == "ReceiveData" && field("st") == "Active" {
                    let naks = field("naks");
                    let mut exp: Vec<String> = vec![];
                    if !self.truth.meta_delivered {
                        exp.push("0-0".into());
                    }
                    for (a, b) in missing(&self.truth.delivered, e.file_size) {
                        exp.push(format!("{}-{}", a, b));
                    }
                    let exp = format!("[{}]", exp.join(","));
                    if naks != exp && union_total(&self.truth.delivered) == union_total(&missing(&missing(&self.truth.delivered, e.file_size), e.file_size)) {
                        self.bad(out, viol, "C08", "exact_after_eof", format!("after EOF the NAK queue is {} but the missing ranges are {}", naks, exp));
                    }
                }
            }
        }
    }
}

// ------------------------------------------------------------------ sender case

#[derive(Clone)]
pub struct SendCfg {
    pub mode: TransmissionMode,
    pub seg: u16,
    pub crc: CRCFlag,
    pub max: u32,
    pub ti: i64,
    pub ta: i64,
    pub tn: i64,
    pub closure: bool,
    pub cktype: ChecksumType,
    pub fho: String,
    pub file: String, // file spec, `-` for no file (filestore-request-only transaction)
    pub nreq: usize,
}
impl SendCfg {
    pub fn line(&self) -> String {
        format!(
            "send new {} {} {} {} {} {} {} {} {} {} {} {}",
            if self.mode == TransmissionMode::Acknowledged { "ack" } else { "unack" },
            self.seg,
            self.crc as u8,
            self.max,
            self.ti,
            self.ta,
            self.tn,
            self.closure as u8,
            self.cktype as u8,
            self.fho,
            self.file,
            self.nreq
        )
    }
    pub fn parse(t: &[&str]) -> SendCfg {
        SendCfg {
            mode: if t[0] == "ack" { TransmissionMode::Acknowledged } else { TransmissionMode::Unacknowledged },
            seg: t[1].parse().unwrap(),
            crc: if t[2] == "1" { CRCFlag::Present } else { CRCFlag::NotPresent },
            max: t[3].parse().unwrap(),
            ti: t[4].parse().unwrap(),
            ta: t[5].parse().unwrap(),
            tn: t[6].parse().unwrap(),
            closure: t[7] == "1",
            cktype: if t[8] == "15" { ChecksumType::Null } else { ChecksumType::Modular },
            fho: t[9].to_string(),
            file: t[10].to_string(),
            nreq: t[11].parse().unwrap(),
        }
    }
}

pub fn std_requests(n: usize) -> Vec<FileStoreRequest> {
    let all = vec![
        FileStoreRequest { action_code: FileStoreAction::CreateFile, first_filename: "new.txt".into(), second_filename: "".into() },
        FileStoreRequest { action_code: FileStoreAction::AppendFile, first_filename: "old".into(), second_filename: "d/x".into() },
        FileStoreRequest { action_code: FileStoreAction::DeleteFile, first_filename: "nope".into(), second_filename: "".into() },
        FileStoreRequest { action_code: FileStoreAction::CreateDirectory, first_filename: "e".into(), second_filename: "".into() },
    ];
    all.into_iter().take(n).collect()
}

pub struct SendCase {
    pub cfg: SendCfg,
    pub t: SendTransaction<NativeFileStore>,
    pub root: Utf8PathBuf,
    pub file: Vec<u8>,
    pub ind_rx: Receiver<Indication>,
    pub pdu_tx: Sender<(VariableID, PDU)>,
    pub pdu_rx: Receiver<(VariableID, PDU)>,
    pub hist: Vec<String>,
    pub dead: bool,
    // truth for the oracles
    pub first_pass_next: u64,
    pub max_sent: u64,
    pub pending_nak: Vec<(u64, u64)>, // bytes requested by NAKs and not yet answered (inside the file)
    pub meta_requested: u32,
    pub suspended: bool,
    pub eof_seen: bool,
    pub n_kinds: HashMap<&'static str, u32>,
    pub last_progress: u64,
    pub now_ms: u64,
    pub last_pdu_ms: Option<u64>,
    pub first_eof_ms: Option<u64>,
    pub requested_total: u64,
    pub retx_total: u64,
    pub tag: Option<&'static str>,
    pub last_emitted: Option<PDU>,
    pub last_inds: Vec<Indication>,
}

impl SendCase {
    pub fn new(base: &Utf8Path, n: u64, cfg: SendCfg) -> SendCase {
        let root = base.join(format!("s{}", n));
        let _ = std::fs::remove_dir_all(&root);
        std::fs::create_dir_all(&root).unwrap();
        let file = if cfg.file == "-" { vec![] } else { file_of(&cfg.file) };
        if cfg.file != "-" {
            std::fs::write(root.join("src.bin"), &file).unwrap();
        }
        let filestore = Arc::new(NativeFileStore::new(&root));
        let (ind_tx, ind_rx) = channel(100000);
        let (pdu_tx, pdu_rx) = channel(1);
        let fss = FileSizeFlag::Small;
        let config = TransactionConfig {
            source_entity_id: VariableID::from(SRC),
            destination_entity_id: VariableID::from(DST),
            transmission_mode: cfg.mode,
            sequence_number: VariableID::from(SEQ),
            file_size_flag: fss,
            fault_handler_override: parse_fho(&cfg.fho),
            file_size_segment: cfg.seg,
            crc_flag: cfg.crc,
            segment_metadata_flag: SegmentedData::NotPresent,
            max_count: cfg.max,
            inactivity_timeout: cfg.ti,
            ack_timeout: cfg.ta,
            nak_timeout: cfg.tn,
        };
        let metadata = Metadata {
            source_filename: if cfg.file == "-" { "".into() } else { "src.bin".into() },
            destination_filename: if cfg.file == "-" { "".into() } else { "out/dst.bin".into() },
            file_size: file.len() as u64,
            filestore_requests: std_requests(cfg.nreq),
            message_to_user: vec![MessageToUser { message_text: b"hi".to_vec() }],
            closure_requested: cfg.closure,
            checksum_type: cfg.cktype,
        };
        let t = SendTransaction::new(config, metadata, filestore, ind_tx).expect("send new");
        SendCase {
            cfg,
            t,
            root,
            file,
            ind_rx,
            pdu_tx,
            pdu_rx,
            hist: vec![],
            dead: false,
            first_pass_next: 0,
            max_sent: 0,
            pending_nak: vec![],
            meta_requested: 0,
            suspended: false,
            eof_seen: false,
            n_kinds: HashMap::new(),
            last_progress: 0,
            now_ms: 0,
            last_pdu_ms: None,
            first_eof_ms: None,
            requested_total: 0,
            retx_total: 0,
            tag: None,
            last_emitted: None,
            last_inds: vec![],
        }
    }

    pub async fn settle(&mut self) -> Vec<Indication> {
        for _ in 0..4 {
            tokio::task::yield_now().await;
        }
        let mut v = vec![];
        while let Ok(i) = self.ind_rx.try_recv() {
            v.push(i);
        }
        v
    }

    fn bad(&self, out: &mut dyn Write, viol: &mut u64, prop: &str, clause: &str, detail: String) {
        *viol += 1;
        oracle(out, prop, clause, &format!("{} || after: {}", detail, self.hist.join("; ")));
    }

    pub async fn op(&mut self, out: &mut dyn Write, line: &str, viol: &mut u64) {
        let t: Vec<&str> = line.split_whitespace().collect();
        let shown = shown_line(self.tag, line);
        let line = shown.as_str();
        self.hist.push(line.to_string());
        self.last_emitted = None;
        self.last_inds.clear();
        if self.dead {
            rec(out, line, "dead");
            return;
        }
        if verif::send_state(&self.t) == TransactionState::Terminated && t[1] != "adv" {
            rec(out, line, "terminated");
            return;
        }
        let mut emitted: Option<PDU> = None;
        let mut delivered: Option<PDU> = None;
        let mut res = "ok".to_string();
        macro_rules! guard {
            ($e:expr) => {
                match catch_unwind(AssertUnwindSafe(|| $e)) {
                    Ok(Ok(())) => {}
                    Ok(Err(e)) => {
                        res = format!("err:{}", terr_name(&e));
                        if !matches!(e, TransactionError::UnexpectedPDU(..)) {
                            self.dead = true;
                        }
                    }
                    Err(_) => {
                        res = "panic".into();
                        self.dead = true;
                    }
                }
            };
        }
        let was_suspended = self.suspended;
        match t[1] {
            "pdu" => {
                let bytes = unhex(t[2]);
                match PDU::decode(&mut &bytes[..]) {
                    Ok(p) => {
                        delivered = Some(p.clone());
                        self.last_pdu_ms = Some(self.now_ms);
                        guard!(self.t.process_pdu(p));
                    }
                    Err(e) => res = format!("undecodable:{}", err_name(&e)),
                }
            }
            "send" => {
                if verif::send_has_pdu_to_send(&self.t) {
                    let tx = self.pdu_tx.clone();
                    let permit = tx.try_reserve().expect("permit");
                    guard!(verif::send_send_pdu(&mut self.t, permit));
                    if let Ok((_d, p)) = self.pdu_rx.try_recv() {
                        emitted = Some(p);
                    }
                } else {
                    res = "nothing".into();
                }
            }
            "adv" => {
                let ms: u64 = t[2].parse().unwrap();
                if !self.suspended {
                    self.now_ms += ms;
                }
                tokio::time::advance(Duration::from_millis(ms)).await;
            }
            "timeout" if verif::send_until_timeout(&self.t) != Duration::ZERO => res = "notdue".into(),
            "timeout" => guard!(self.t.handle_timeout()),
            "cancel" => guard!(self.t.cancel()),
            "suspend" => guard!(self.t.suspend()),
            "resume" => guard!(self.t.resume()),
            "report" => guard!(self.t.send_report(None)),
            "abandon" => self.t.shutdown(),
            "prompt" => verif::send_prepare_prompt(&mut self.t, if t[2] == "nak" { NakOrKeepAlive::Nak } else { NakOrKeepAlive::KeepAlive }),
            _ => res = "bad-op".into(),
        }
        let inds = self.settle().await;
        self.last_inds = inds.clone();
        self.last_emitted = emitted.clone();
        let snap = if self.dead { "dead".to_string() } else { self.t.verif_snapshot() };
        let has = verif::send_has_pdu_to_send(&self.t);
        let until = verif::send_until_timeout(&self.t);
        let ans = format!(
            "res={} pdu={} ind=[{}] st={} has={} until={}",
            res,
            emitted.as_ref().map_or("-".to_string(), |p| hex(&p.clone().encode())),
            inds.iter().map(ind_repr).collect::<Vec<_>>().join(";"),
            snap,
            has as u8,
            if until == Duration::MAX { "max".to_string() } else { until.as_nanos().to_string() },
        );
        rec(out, line, &ans);
        // ---------------- oracles
        let field = |k: &str| -> String { snap.split_whitespace().find_map(|kv| kv.strip_prefix(&format!("{}=", k)).map(|s| s.to_string())).unwrap_or_default() };
        let n = self.file.len() as u64;
        if let Some(p) = &delivered {
            if let PDUPayload::Directive(Operations::Nak(nak)) = &p.payload {
                if self.cfg.mode == TransmissionMode::Acknowledged {
                    for r in &nak.segment_requests {
                        if r.start_offset == 0 && r.end_offset == 0 {
                            self.meta_requested += 1;
                        } else if r.start_offset < r.end_offset {
                            let (a, b) = (r.start_offset.min(n), r.end_offset.min(n));
                            if a < b {
                                union_insert(&mut self.pending_nak, a, b);
                                self.requested_total += b - a;
                            }
                        }
                    }
                }
            }
        }
        for i in &inds {
            match i {
                Indication::Suspended(_) => self.suspended = true,
                Indication::Resumed(r) => {
                    self.suspended = false;
                    if r.progress != self.max_sent {
                        self.bad(out, viol, "C20", "send_progress_ind", format!("{} but the highest offset transmitted is {}", ind_repr(i), self.max_sent));
                    }
                }
                Indication::Fault(f) => {
                    if f.progress != self.max_sent {
                        self.bad(out, viol, "C20", "send_progress_ind", format!("{} but the highest offset transmitted is {}", ind_repr(i), self.max_sent));
                    }
                    if f.condition == Condition::InactivityDetected {
                        let t0 = self.last_pdu_ms.unwrap_or(self.first_eof_ms.unwrap_or(0));
                        if self.now_ms < t0 + self.cfg.max as u64 * self.cfg.ti as u64 * 1000 {
                            self.bad(out, viol, "C17", "inactivity_not_early", format!("{} at {} ms but the last progress was at {} ms (limit {} x {} s)", ind_repr(i), self.now_ms, t0, self.cfg.max, self.cfg.ti));
                        }
                    }
                    if f.condition == Condition::PositiveLimitReached {
                        if let Some(t0) = self.first_eof_ms {
                            if self.now_ms < t0 + self.cfg.max as u64 * self.cfg.ta as u64 * 1000 {
                                self.bad(out, viol, "C17", "ack_not_early", format!("{} at {} ms but the EOF was first sent at {} ms (limit {} x {} s)", ind_repr(i), self.now_ms, t0, self.cfg.max, self.cfg.ta));
                            }
                        }
                    }
                    let timer_fault = matches!(f.condition, Condition::PositiveLimitReached | Condition::NakLimitReached | Condition::InactivityDetected);
                    if was_suspended && t[1] != "resume" && timer_fault {
                        self.bad(out, viol, "C19", "fault_while_suspended", format!("{} declared while suspended", ind_repr(i)));
                    }
                }
                Indication::Abandon(f) => {
                    if f.progress != self.max_sent {
                        self.bad(out, viol, "C20", "send_progress_ind", format!("{} but the highest offset transmitted is {}", ind_repr(i), self.max_sent));
                    }
                }
                _ => {}
            }
        }
        if let Some(p) = &emitted {
            let h = &p.header;
            if h.direction != Direction::ToReceiver
                || h.source_entity_id != VariableID::from(SRC)
                || h.destination_entity_id != VariableID::from(DST)
                || h.transaction_sequence_number != VariableID::from(SEQ)
                || h.transmission_mode != self.cfg.mode
                || h.crc_flag != self.cfg.crc
                || h.pdu_data_field_length != p.payload.clone().encoded_len(h.large_file_flag)
            {
                self.bad(out, viol, "C07", "header", format!("emitted PDU with wrong header {}", pdu_repr(p)));
            }
            let kind: &'static str = match &p.payload {
                PDUPayload::FileData(_) => "FileData",
                PDUPayload::Directive(Operations::Metadata(_)) => "Metadata",
                PDUPayload::Directive(Operations::EoF(_)) => "EOF",
                PDUPayload::Directive(Operations::Ack(_)) => "ACK",
                PDUPayload::Directive(Operations::Prompt(_)) => "Prompt",
                _ => "other",
            };
            *self.n_kinds.entry(kind).or_insert(0) += 1;
            if was_suspended && (kind == "FileData" || kind == "Metadata" || kind == "EOF") {
                self.bad(out, viol, "C19", "quiet", format!("suspended sender emitted {}", pdu_repr(p)));
            }
            match &p.payload {
                PDUPayload::FileData(FileDataPDU::Unsegmented(d)) => {
                    let (off, len) = (d.offset, d.file_data.len() as u64);
                    if len > self.cfg.seg as u64 {
                        self.bad(out, viol, "C07", "data_size", format!("file data of {} bytes exceeds the segment size {}", len, self.cfg.seg));
                    }
                    if off + len > n || d.file_data[..] != self.file[off.min(n) as usize..(off + len).min(n) as usize] {
                        self.bad(out, viol, "C07", "data_bytes", format!("file data at {} (+{}) is not the source file's bytes (file size {})", off, len, n));
                    }
                    // inside the union of everything requested so far (clamped to the file)
                    let inside_nak = len > 0 && missing(&self.pending_nak, off + len).iter().all(|&(a, b)| b <= off || a >= off + len);
                    let first_pass_done = self.first_pass_next >= n && (n > 0 || self.n_kinds["FileData"] > 1);
                    let expected_first = off == self.first_pass_next && len == (self.cfg.seg as u64).min(n - off.min(n));
                    let is_retx = inside_nak && (first_pass_done || !expected_first);
                    if is_retx {
                        self.retx_total += len;
                        if self.retx_total > self.requested_total {
                            self.bad(out, viol, "C07", "nak_answer", format!("{} bytes retransmitted but only {} requested", self.retx_total, self.requested_total));
                        }
                    } else {
                        // first pass: tiles the file in order
                        if off != self.first_pass_next {
                            self.bad(out, viol, "C07", "tiling", format!("first-pass data at offset {} but {} expected", off, self.first_pass_next));
                        }
                        let exp_len = (self.cfg.seg as u64).min(n - off.min(n));
                        if len != exp_len {
                            self.bad(out, viol, "C07", "tiling", format!("first-pass data at offset {} has length {} but {} expected", off, len, exp_len));
                        }
                        if first_pass_done {
                            self.bad(out, viol, "C07", "nak_answer", format!("file data at {} (+{}) after the first pass without a pending request for it", off, len));
                        }
                        self.first_pass_next = off + len;
                    }
                    self.max_sent = self.max_sent.max((off + len).min(n));
                    if self.cfg.mode == TransmissionMode::Unacknowledged && is_retx {
                        self.bad(out, viol, "C18", "send_shape", "retransmission in unacknowledged mode".into());
                    }
                }
                PDUPayload::Directive(Operations::Metadata(m)) => {
                    if m.file_size != n || m.closure_requested != self.cfg.closure || m.checksum_type != self.cfg.cktype || m.options.len() != self.cfg.nreq + 1 {
                        self.bad(out, viol, "C07", "meta_eof", format!("metadata does not state the true size/closure/checksum type/options: {}", pdu_repr(p)));
                    }
                    if self.n_kinds["Metadata"] > 1 {
                        if self.meta_requested == 0 {
                            self.bad(out, viol, "C07", "nak_answer", "metadata retransmitted without a 0-0 request".into());
                        } else {
                            self.meta_requested -= 1;
                        }
                    }
                }
                PDUPayload::Directive(Operations::EoF(e)) => {
                    self.eof_seen = true;
                    if self.first_eof_ms.is_none() || (e.condition != Condition::NoError && self.n_kinds.get("EOFc").is_none()) {
                        self.first_eof_ms = Some(self.now_ms);
                        if e.condition != Condition::NoError {
                            self.n_kinds.insert("EOFc", 1);
                        }
                    }
                    if e.condition == Condition::NoError {
                        let ck = if self.cfg.file == "-" || self.cfg.cktype == ChecksumType::Null { 0 } else { cksum_spec(&self.file) };
                        if e.file_size != n || e.checksum != ck {
                            self.bad(out, viol, "C07", "meta_eof", format!("EOF states size {} checksum {} but the file has {} / {}", e.file_size, e.checksum, n, ck));
                        }
                        if self.first_pass_next != n {
                            self.bad(out, viol, "C07", "tiling", format!("EOF sent after the first pass reached {} of {}", self.first_pass_next, n));
                        }
                    }
                    if self.cfg.mode == TransmissionMode::Unacknowledged && e.condition == Condition::NoError && self.n_kinds["EOF"] > 1 && !self.cfg.closure {
                        self.bad(out, viol, "C18", "send_shape", "EOF retransmitted in unacknowledged mode without closure".into());
                    }
                }
                _ => {}
            }
        }
        // C20: sender progress figure = highest offset transmitted in the first pass, monotone, <= file size
        if !self.dead {
            let sent: u64 = field("sent").parse().unwrap_or(0);
            if sent != self.max_sent {
                self.bad(out, viol, "C20", "send_progress", format!("sender progress {} but the highest offset transmitted is {}", sent, self.max_sent));
            }
            if sent < self.last_progress || sent > n {
                self.bad(out, viol, "C20", "send_progress", format!("sender progress {} decreased from {} or exceeds the file size {}", sent, self.last_progress, n));
            }
            self.last_progress = sent;
        }
        // C18: without closure the sender ends on EOF, with closure it must stay alive until Finished/limits
        if self.cfg.mode == TransmissionMode::Unacknowledged && emitted.as_ref().map_or(false, |p| matches!(p.payload, PDUPayload::Directive(Operations::EoF(ref e)) if e.condition == Condition::NoError)) {
            let terminated = field("st") == "Terminated";
            if self.cfg.closure && terminated {
                self.bad(out, viol, "C18", "closure_wait", "sender with closure requested terminated right after EOF instead of waiting for Finished".into());
            }
            if !self.cfg.closure && !terminated {
                self.bad(out, viol, "C18", "no_closure_end", "sender without closure did not end on EOF".into());
            }
        }
    }
}

// ------------------------------------------------------------------ generators

fn fd(off: u64, data: &[u8], mode: TransmissionMode, crc: CRCFlag, fss: FileSizeFlag) -> PDU {
    mk(Direction::ToReceiver, mode, crc, fss, PDUPayload::FileData(FileDataPDU::Unsegmented(UnsegmentedFileData { offset: off, file_data: data.to_vec() })))
}

#[allow(clippy::too_many_arguments)]
pub fn metadata_pdu(file: &[u8], dest: &str, src: &str, closure: bool, ck: ChecksumType, nreq: usize, mode: TransmissionMode, crc: CRCFlag, fss: FileSizeFlag) -> PDU {
    let mut options: Vec<MetadataTLV> = std_requests(nreq).into_iter().map(MetadataTLV::FileStoreRequest).collect();
    options.push(MetadataTLV::MessageToUser(MessageToUser { message_text: b"hi".to_vec() }));
    mk(
        Direction::ToReceiver,
        mode,
        crc,
        fss,
        PDUPayload::Directive(Operations::Metadata(MetadataPDU {
            closure_requested: closure,
            checksum_type: ck,
            file_size: file.len() as u64,
            source_filename: src.into(),
            destination_filename: dest.into(),
            options,
        })),
    )
}

pub fn eof_pdu(file: &[u8], ck: ChecksumType, cond: Condition, mode: TransmissionMode, crc: CRCFlag, fss: FileSizeFlag) -> PDU {
    mk(
        Direction::ToReceiver,
        mode,
        crc,
        fss,
        PDUPayload::Directive(Operations::EoF(EndOfFile {
            condition: cond,
            checksum: if ck == ChecksumType::Null { 0 } else { cksum_spec(file) },
            file_size: file.len() as u64,
            fault_location: if cond == Condition::NoError { None } else { Some(VariableID::from(SRC)) },
        })),
    )
}

fn hexpdu(p: &PDU) -> String {
    hex(&p.clone().encode())
}

/// a random receiver script around a truthful sender transferring `file`
fn gen_recv_script(rng: &mut Rng, cfg: &RecvCfg, file: &[u8], closure: bool, ck: ChecksumType, nreq: usize, transfer: bool) -> Vec<String> {
    let (mode, crc, fss) = (cfg.mode, cfg.crc, cfg.fss);
    let seg = (cfg.seg as usize).min(64).max(1);
    // destination names: mostly a fresh file; sometimes an existing file (overwritten), a
    // directory or a missing parent directory (both rejected by the filestore)
    let dest_pick = *rng.pick(&["out.bin", "out.bin", "out.bin", "out.bin", "out.bin", "out.bin", "old", "d", "nodir/out.bin", "d/new.bin"]);
    let (src, dest) = if transfer { ("src.bin", dest_pick) } else { ("", "") };
    let md = metadata_pdu(file, dest, src, closure, ck, nreq, mode, crc, fss);
    let mut events: Vec<String> = vec![];
    let mut data: Vec<String> = vec![];
    let mut off = 0;
    while off < file.len() {
        let l = seg.min(file.len() - off);
        data.push(format!("recv pdu {}", hexpdu(&fd(off as u64, &file[off..off + l], mode, crc, fss))));
        off += l;
    }
    let eof = {
        let mut e = eof_pdu(file, ck, Condition::NoError, mode, crc, fss);
        if rng.chance(1, 12) {
            // a corrupted file (as the receiver sees it): the EOF checksum does not match
            if let PDUPayload::Directive(Operations::EoF(x)) = &mut e.payload {
                x.checksum = x.checksum.wrapping_add(1 + rng.below(3) as u32);
            }
        }
        if rng.chance(1, 15) && file.len() > 3 {
            // an EOF announcing fewer bytes than the data PDUs carry (FilesizeError at the receiver)
            if let PDUPayload::Directive(Operations::EoF(x)) = &mut e.payload {
                x.file_size -= 1 + rng.below(3);
            }
        }
        format!("recv pdu {}", hexpdu(&e))
    };
    // base order with faults
    let mut base: Vec<String> = vec![];
    if !rng.chance(1, 6) {
        base.push(format!("recv pdu {}", hexpdu(&md)));
    }
    let mut lost: Vec<String> = vec![];
    for d in &data {
        if rng.chance(1, 5) {
            lost.push(d.clone());
        } else {
            base.push(d.clone());
            if rng.chance(1, 10) {
                base.push(d.clone());
            }
        }
    }
    if rng.chance(1, 4) && base.len() > 2 {
        let i = rng.below(base.len() as u64 - 1) as usize;
        base.swap(i, i + 1);
    }
    // re-segmented data (a sender with another segment size, a relay that re-packs): truthful
    // ranges that start and end anywhere, so that they overlap, bridge and swallow held segments
    if rng.chance(1, 3) && file.len() > 2 {
        for _ in 0..1 + rng.below(4) {
            let a = rng.below(file.len() as u64 - 1) as usize;
            let l = 1 + rng.below(((file.len() - a) as u64).min(3 * seg as u64 + 2)) as usize;
            let l = l.min(file.len() - a);
            let at = rng.below(base.len() as u64 + 1) as usize;
            base.insert(at, format!("recv pdu {}", hexpdu(&fd(a as u64, &file[a..a + l], mode, crc, fss))));
        }
    }
    if rng.chance(1, 8) {
        // EOF first
        base.insert(0, eof.clone());
    }
    base.push(eof.clone());
    // retransmissions of what was lost (as a sender answering NAKs would), metadata again
    let mut tail: Vec<String> = vec![];
    if rng.chance(3, 4) {
        tail.push(format!("recv pdu {}", hexpdu(&md)));
        for l in &lost {
            if !rng.chance(1, 6) {
                tail.push(l.clone());
            }
        }
    }
    if rng.chance(1, 2) {
        tail.push(eof.clone());
    }
    // stragglers after completion
    if rng.chance(1, 2) && !data.is_empty() {
        tail.push(rng.pick(&data).clone());
    }
    if rng.chance(1, 3) {
        tail.push(eof.clone());
        tail.push(format!("recv pdu {}", hexpdu(&md)));
    }
    let ack_fin = mk(
        Direction::ToReceiver,
        mode,
        crc,
        fss,
        PDUPayload::Directive(Operations::Ack(PositiveAcknowledgePDU {
            directive: PDUDirective::Finished,
            directive_subtype_code: ACKSubDirective::Finished,
            condition: Condition::NoError,
            transaction_status: TransactionStatus::Active,
        })),
    );
    let prompt_nak = mk(Direction::ToReceiver, mode, crc, fss, PDUPayload::Directive(Operations::Prompt(PromptPDU { nak_or_keep_alive: NakOrKeepAlive::Nak })));
    let prompt_ka = mk(Direction::ToReceiver, mode, crc, fss, PDUPayload::Directive(Operations::Prompt(PromptPDU { nak_or_keep_alive: NakOrKeepAlive::KeepAlive })));
    let eof_cancel = eof_pdu(file, ck, Condition::CancelReceived, mode, crc, fss);
    let mut all: Vec<String> = base.into_iter().chain(tail).collect();
    // stray file data beyond the announced file size (a confused or replaying sender): before the EOF it is a
    // FilesizeError at the EOF, after the EOF nothing checks it - the bytes are held, the progress counter
    // counts them, and the account of what is missing inside the file must not be disturbed by them
    if rng.chance(1, 5) && transfer {
        for _ in 0..1 + rng.below(2) {
            let a = file.len() + rng.below(2 * seg as u64 + 1) as usize;
            let l = 1 + rng.below(2 * seg as u64) as usize;
            let bytes = rng.bytes(l);
            let pdu = format!("recv pdu {}", hexpdu(&fd(a as u64, &bytes, mode, crc, fss)));
            if rng.chance(1, 2) {
                all.push(pdu);
            } else {
                let at = rng.below(all.len() as u64 + 1) as usize;
                all.insert(at, pdu);
            }
        }
    }
    let user_at = if rng.chance(1, 3) { Some(rng.below(all.len() as u64 + 1) as usize) } else { None };
    let user_kind = rng.below(4);
    for (i, ev) in all.iter().enumerate() {
        if Some(i) == user_at {
            match user_kind {
                0 => events.push("recv cancel".into()),
                1 => {
                    events.push("recv suspend".into());
                    if rng.chance(1, 2) {
                        // a PDU that was in flight arrives while suspended
                        events.push(ev.clone());
                    }
                    events.push(format!("recv adv {}", rng.pick(&[0u64, 500, 3000, 20000])));
                    events.push("recv timeout".into());
                    events.push("recv send".into());
                    events.push("recv resume".into());
                }
                2 => events.push(format!("recv pdu {}", hexpdu(&eof_cancel))),
                _ => events.push("recv report".into()),
            }
        }
        events.push(ev.clone());
        // the task loop: drain sends, occasionally let time pass and handle timeouts
        let nsend = rng.below(3);
        for _ in 0..nsend {
            events.push("recv send".into());
        }
        if rng.chance(1, 6) {
            events.push(format!("recv adv {}", rng.pick(&[1u64, 400, 999, 1000, 1001, 2500, 5000])));
            events.push("recv timeout".into());
            events.push("recv send".into());
        }
        if rng.chance(1, 12) {
            // the generator marks prompt ops with the word PROMPT for the deferred-quiet oracle
            let p = if rng.chance(1, 2) { &prompt_nak } else { &prompt_ka };
            events.push(format!("recv pdu {} PROMPT", hexpdu(p)));
            events.push("recv send".into());
        }
    }
    // wind down: timeouts until the limits are reached, ack of finished somewhere
    let rounds = cfg.max as u64 * 3 + 4;
    let ack_at = if rng.chance(1, 2) { rng.below(rounds) } else { u64::MAX };
    for k in 0..rounds {
        if k == ack_at {
            events.push(format!("recv pdu {}", hexpdu(&ack_fin)));
        }
        events.push("recv send".into());
        events.push("recv send".into());
        let t = *rng.pick(&[cfg.ta.max(1) as u64 * 1000, cfg.ti.max(1) as u64 * 1000, cfg.tn.max(1) as u64 * 1000 - 1, 1]);
        events.push(format!("recv adv {}", t));
        events.push("recv timeout".into());
    }
    events.push("recv send".into());
    events
}

fn gen_send_script(rng: &mut Rng, cfg: &SendCfg, file: &[u8]) -> Vec<String> {
    let (mode, crc, fss) = (cfg.mode, cfg.crc, FileSizeFlag::Small);
    let n = file.len() as u64;
    let seg = cfg.seg as u64;
    let mut ev: Vec<String> = vec![];
    let nak = |rng: &mut Rng| -> String {
        let k = rng.below(4);
        let mut reqs = vec![];
        for _ in 0..k {
            let a = rng.below(n + 3);
            let b = match rng.below(6) {
                0 => a,
                1 => a.saturating_sub(1),
                2 => n + rng.below(50),
                3 => a + seg * 2 + 1,
                _ => a + rng.below(seg + 2),
            };
            reqs.push(SegmentRequestForm { start_offset: a, end_offset: b });
        }
        if rng.chance(1, 4) {
            reqs.push(SegmentRequestForm { start_offset: 0, end_offset: 0 });
        }
        let p = mk(
            Direction::ToSender,
            mode,
            crc,
            fss,
            PDUPayload::Directive(Operations::Nak(NegativeAcknowledgmentPDU { start_of_scope: 0, end_of_scope: n, segment_requests: reqs })),
        );
        format!("send pdu {}", hexpdu(&p))
    };
    let ack_eof = mk(
        Direction::ToSender,
        mode,
        crc,
        fss,
        PDUPayload::Directive(Operations::Ack(PositiveAcknowledgePDU { directive: PDUDirective::EoF, directive_subtype_code: ACKSubDirective::Other, condition: Condition::NoError, transaction_status: TransactionStatus::Active })),
    );
    let fin = |c: Condition| {
        mk(
            Direction::ToSender,
            mode,
            crc,
            fss,
            PDUPayload::Directive(Operations::Finished(Finished {
                condition: c,
                delivery_code: if c == Condition::NoError { DeliveryCode::Complete } else { DeliveryCode::Incomplete },
                file_status: if c == Condition::NoError { FileStatusCode::Retained } else { FileStatusCode::Unreported },
                filestore_response: vec![],
                fault_location: None,
            })),
        )
    };
    let ka = mk(Direction::ToSender, mode, crc, fss, PDUPayload::Directive(Operations::KeepAlive(KeepAlivePDU { progress: rng.below(n + 1) })));
    let nseg = if seg == 0 { 1 } else { n / seg + 2 };
    let user_at = if rng.chance(1, 3) { Some(rng.below(nseg + 4)) } else { None };
    let user_kind = rng.below(4);
    let mut k = 0u64;
    // first pass with interleaved NAKs
    for _ in 0..(nseg + 3) {
        if Some(k) == user_at {
            match user_kind {
                0 => ev.push("send cancel".into()),
                1 => {
                    ev.push("send suspend".into());
                    ev.push("send send".into());
                    ev.push(format!("send adv {}", rng.pick(&[0u64, 700, 4000, 30000])));
                    ev.push("send timeout".into());
                    ev.push("send send".into());
                    ev.push("send resume".into());
                }
                2 => ev.push(format!("send prompt {}", if rng.chance(1, 2) { "nak" } else { "ka" })),
                _ => ev.push("send report".into()),
            }
        }
        ev.push("send send".into());
        if mode == TransmissionMode::Acknowledged && rng.chance(1, 5) {
            ev.push(nak(rng));
        }
        if rng.chance(1, 10) {
            ev.push(format!("send pdu {}", hexpdu(&ka)));
        }
        k += 1;
    }
    // after EOF: NAK rounds, ack, finished, timeouts
    let rounds = cfg.max as u64 * 2 + 4;
    let ack_at = if rng.chance(2, 3) { rng.below(rounds) } else { u64::MAX };
    let fin_at = if rng.chance(2, 3) { rng.below(rounds) } else { u64::MAX };
    // user requests while waiting for the receiver (also after a cancel: cancel, suspend, resume ...)
    let mut late_user: Vec<(u64, &'static str)> = vec![];
    if rng.chance(1, 3) {
        for _ in 0..rng.range(1, 4) {
            late_user.push((rng.below(rounds), *rng.pick(&["cancel", "suspend", "resume", "resume", "report"])));
        }
        late_user.sort();
    }
    for r in 0..rounds {
        if mode == TransmissionMode::Acknowledged && rng.chance(1, 3) {
            ev.push(nak(rng));
        }
        for _ in 0..rng.below(4) {
            ev.push("send send".into());
        }
        for (at, op) in late_user.iter() {
            if *at == r {
                ev.push(format!("send {}", op));
                ev.push("send send".into());
            }
        }
        if r == ack_at {
            ev.push(format!("send pdu {}", hexpdu(&ack_eof)));
        }
        if r == fin_at {
            ev.push(format!("send pdu {}", hexpdu(&fin(if rng.chance(1, 4) { Condition::CancelReceived } else { Condition::NoError }))));
            ev.push("send send".into());
        }
        let t = *rng.pick(&[cfg.ta.max(1) as u64 * 1000, cfg.ti.max(1) as u64 * 1000, cfg.ta.max(1) as u64 * 1000 - 1, 1]);
        ev.push(format!("send adv {}", t));
        ev.push("send timeout".into());
        ev.push("send send".into());
    }
    ev
}

/// C03 exemptions: a limit fault that the user configured to be ignored or to suspend
pub fn c03_exempt(fho: &str) -> bool {
    fho.split(';').any(|p| {
        let mut it = p.split(':');
        let c = it.next().unwrap_or("");
        let a = it.next().unwrap_or("");
        matches!(c, "1" | "7" | "8" | "10") && (a == "i" || a == "s")
    })
}

/// a limit fault of a transaction configured to be ignored: the hypothesis `NoIgnore` of the
/// C03 bound theorems does not hold
pub fn c03_ignores(fho: &str) -> bool {
    fho.split(';').any(|p| {
        let mut it = p.split(':');
        let c = it.next().unwrap_or("");
        let a = it.next().unwrap_or("");
        matches!(c, "1" | "7" | "8") && a == "i"
    })
}

impl RecvCase {
    /// the shared clock was advanced by an op recorded for the other party
    pub fn note_adv(&mut self, ms: u64) {
        self.now_ms += ms;
        if !self.truth.suspended {
            self.active_ms += ms;
        }
    }
    pub fn state(&self) -> TransactionState {
        verif::recv_state(&self.t)
    }
    pub fn has_pdu(&self) -> bool {
        verif::recv_has_pdu_to_send(&self.t)
    }
    pub fn until(&self) -> Duration {
        verif::recv_until_timeout(&self.t)
    }
}

impl RecvCase {
    /// the task loop with a peer that has fallen silent: send while there is something to send,
    /// otherwise sleep until the next timer and handle the timeout
    pub async fn drain(&mut self, out: &mut dyn Write, viol: &mut u64) {
        if self.dead {
            return;
        }
        let t0 = self.now_ms;
        let bound_ms = 4 * (self.cfg.max as u64 + 1) * (self.cfg.ti.max(1) + self.cfg.ta.max(1) + self.cfg.tn.max(1)) as u64 * 1000 + 4 * self.cfg.delay_ms + 5000;
        let mut steps = 0u32;
        // the bound of theorems C03_recv_bounded_wakeups / C03_recv_bounded_time, evaluated on the real
        // transaction: phi <= 10 + 8 x limit + delayed checks pending, one inactivity period per unit
        let pending = {
            let snap = self.t.verif_snapshot();
            let d = snap.split("delayed=[").nth(1).and_then(|r| r.split(']').next()).unwrap_or("");
            if d.is_empty() { 0 } else { d.split(',').count() as u64 }
        };
        let phi_bound = 10 + 8 * self.cfg.max as u64 + pending;
        let theorem_applies = !c03_ignores(&self.cfg.fho) && self.cfg.ti > 0 && self.cfg.ta > 0 && self.cfg.tn > 0;
        let mut wakes = 0u64;
        while verif::recv_state(&self.t) != TransactionState::Terminated && !self.dead {
            if verif::recv_state(&self.t) == TransactionState::Suspended {
                return; // suspended by the user or a handler: allowed to wait
            }
            if theorem_applies && (wakes > phi_bound || self.now_ms - t0 > phi_bound * self.cfg.ti as u64 * 1000 + wakes) {
                self.bad(out, viol, "C03", "within_potential", format!("{} timer wake-ups / {} ms after the peer fell silent; the theorem's bound is {} wake-ups of at most {} s each", wakes, self.now_ms - t0, phi_bound, self.cfg.ti));
                return;
            }
            steps += 1;
            if steps > 5000 || self.now_ms - t0 > bound_ms {
                if !c03_exempt(&self.cfg.fho) {
                    self.bad(out, viol, "C03", "bounded", format!("still alive {} ms ({} loop iterations) after the peer fell silent; bound {} ms", self.now_ms - t0, steps, bound_ms));
                }
                return;
            }
            if verif::recv_has_pdu_to_send(&self.t) {
                self.op(out, "recv send", viol).await;
                continue;
            }
            let u = verif::recv_until_timeout(&self.t);
            if u == Duration::MAX {
                self.bad(out, viol, "C03", "never_stuck", "nothing to send and no timer running: the task would sleep forever".into());
                return;
            }
            let ms = (u.as_nanos() as u64 + 999_999) / 1_000_000;
            if ms > 0 {
                self.op(out, &format!("recv adv {}", ms), viol).await;
            }
            wakes += 1;
            self.op(out, "recv timeout", viol).await;
        }
    }
}

impl RecvCase {
    fn snap_has(&self, what: &str) -> bool {
        self.t.verif_snapshot().split_whitespace().any(|w| w == what || w.ends_with(&format!("={}", what)) || w == format!("st={}", what))
    }

    /// The receiver's NAK loop over a lossy link, played as the theorems `C02_lossy_rounds_fair` / `fair_sched`
    /// (Props/C02x.lean) quantify it: Metadata, part of the file data and the EOF are in; then round after round the
    /// clock is advanced into the second period of the NAK timer, the expiry is handled, the rebuilt queue is
    /// transmitted, and the link lets through some of what is missing (or a duplicate, or nothing) - never `limit - 1`
    /// fruitless rounds in a row, never `limit` inactivity periods without a delivery.  The theorems' conclusions are
    /// checked on the real transaction: no limit is declared on the way, and once everything has got through the
    /// delivery is reported Finished / NoError / Complete.  Every op is also answered by the Lean model.
    pub async fn nak_loop(&mut self, out: &mut dyn Write, viol: &mut u64, rng: &mut Rng, file: &[u8], md: &PDU, eof: &PDU) {
        let (mode, crc, fss) = (self.cfg.mode, self.cfg.crc, self.cfg.fss);
        let seg = self.cfg.seg as usize;
        let m = self.cfg.max as u64;
        let (tn, ti) = (self.cfg.tn as u64 * 1000, self.cfg.ti as u64 * 1000);
        let mut pieces: Vec<(usize, usize)> = vec![];
        let mut off = 0;
        while off < file.len() {
            let l = seg.min(file.len() - off);
            pieces.push((off, l));
            off += l;
        }
        // which pieces are lost on the first pass: at least one
        let mut missing: Vec<(usize, usize)> = pieces.iter().cloned().filter(|_| rng.chance(1, 2)).collect();
        if missing.is_empty() {
            missing.push(*rng.pick(&pieces));
        }
        self.op(out, &format!("recv pdu {}", hexpdu(md)), viol).await;
        for (o, l) in pieces.iter().cloned().filter(|p| !missing.contains(p)) {
            self.op(out, &format!("recv pdu {}", hexpdu(&fd(o as u64, &file[o..o + l], mode, crc, fss))), viol).await;
        }
        self.op(out, &format!("recv pdu {}", hexpdu(eof)), viol).await;
        let mut guard = 0;
        while verif::recv_has_pdu_to_send(&self.t) && guard < 64 {
            self.op(out, "recv send", viol).await;
            guard += 1;
        }
        // every third loop starts with a suspension in mid-recovery (`C19_resume_lossy_rounds`, Props/C19l.lean): the
        // Resume.request rebuilds the queue and starts both counters afresh, so the fairness conditions count from it
        if rng.chance(1, 3) {
            self.op(out, "recv suspend", viol).await;
            self.op(out, &format!("recv adv {}", 500 + rng.below(6000)), viol).await;
            self.op(out, "recv resume", viol).await;
            guard = 0;
            while verif::recv_has_pdu_to_send(&self.t) && guard < 64 {
                self.op(out, "recv send", viol).await;
                guard += 1;
            }
        }
        // the loop's starting state: NAK counter running since the last NAK (`tp`), `j` fruitless rounds so far,
        // last delivery at `a`
        let mut tp = self.now_ms;
        let mut j = 0u64;
        let mut a = self.now_ms;
        let mut new_since_nak = false;
        let mut rounds = 0u64;
        while !missing.is_empty() && !self.dead && rounds < 40 {
            rounds += 1;
            if !self.snap_has("rs=ReceiveData") || !self.snap_has("cond=NoError") {
                self.bad(out, viol, "C02", "nak_loop_within_limits", format!("a fair lossy schedule (round {}, {} fruitless in a row, limit {}) but the receiver left the collecting phase: {}", rounds, j, m, self.t.verif_snapshot()));
                return;
            }
            // the wake-up: some time in the second period of the NAK timer
            let t = tp + tn + rng.below(tn);
            if new_since_nak { j = 0 } else { j += 1 }
            self.op(out, &format!("recv adv {}", t - self.now_ms), viol).await;
            self.op(out, "recv timeout", viol).await;
            guard = 0;
            while verif::recv_has_pdu_to_send(&self.t) && guard < 64 {
                self.op(out, "recv send", viol).await;
                guard += 1;
            }
            tp = t;
            new_since_nak = false;
            // what the link lets through: it must be something new when one more fruitless round would reach the NAK
            // limit, and something at all when the next wake-up could lie `limit` inactivity periods after `a`
            let must_new = j + 2 >= m || rounds >= 30;
            let must_any = t + 2 * tn >= a + m * ti;
            let mut dt = 1 + rng.below(40);
            if must_new || rng.chance(1, 2) {
                let k = 1 + rng.below(missing.len() as u64) as usize;
                for _ in 0..k.min(missing.len()) {
                    let i = rng.below(missing.len() as u64) as usize;
                    let (o, l) = missing.remove(i);
                    self.op(out, &format!("recv adv {}", dt), viol).await;
                    self.op(out, &format!("recv pdu {}", hexpdu(&fd(o as u64, &file[o..o + l], mode, crc, fss))), viol).await;
                    a = self.now_ms;
                    dt = 1 + rng.below(20);
                    new_since_nak = true;
                    if rounds < 30 && rng.chance(1, 3) {
                        break;
                    }
                }
            } else if must_any || rng.chance(1, 3) {
                // a duplicate of something the receiver holds (or the Metadata again)
                let held: Vec<(usize, usize)> = pieces.iter().cloned().filter(|p| !missing.contains(p)).collect();
                self.op(out, &format!("recv adv {}", dt), viol).await;
                if held.is_empty() || rng.chance(1, 4) {
                    self.op(out, &format!("recv pdu {}", hexpdu(md)), viol).await;
                } else {
                    let (o, l) = *rng.pick(&held);
                    self.op(out, &format!("recv pdu {}", hexpdu(&fd(o as u64, &file[o..o + l], mode, crc, fss))), viol).await;
                }
                a = self.now_ms;
            }
        }
        if self.dead {
            return;
        }
        if !(self.snap_has("rs=Finished") && self.snap_has("cond=NoError") && self.snap_has("dc=Complete")) {
            self.bad(out, viol, "C02", "nak_loop_completes", format!("every missing byte got through within a fair lossy schedule of {} rounds but the delivery is not reported Finished / NoError / Complete: {}", rounds, self.t.verif_snapshot()));
        }
    }
}

impl RecvCase {
    /// The Finished PDU lost again and again, played as `recv_finished_repeated` / `C02_lost_finisheds_round`
    /// (Props/C02z.lean) quantify it: the whole file is delivered, the ACK of the EOF and the Finished PDU go out;
    /// then expiry after expiry of the positive-ACK timer is serviced within the following period, fewer than `limit`
    /// of them.  Checked on the real transaction: every expiry is followed by the transmission of that same Finished
    /// PDU, no limit is declared, the outcome stays as reported.
    pub async fn fin_loop(&mut self, out: &mut dyn Write, viol: &mut u64, rng: &mut Rng, file: &[u8], md: &PDU, eof: &PDU) {
        let (mode, crc, fss) = (self.cfg.mode, self.cfg.crc, self.cfg.fss);
        let seg = self.cfg.seg as usize;
        let m = self.cfg.max as u64;
        let (ta, ti) = (self.cfg.ta as u64 * 1000, self.cfg.ti as u64 * 1000);
        self.op(out, &format!("recv pdu {}", hexpdu(md)), viol).await;
        let mut off = 0;
        while off < file.len() {
            let l = seg.min(file.len() - off);
            self.op(out, &format!("recv pdu {}", hexpdu(&fd(off as u64, &file[off..off + l], mode, crc, fss))), viol).await;
            off += l;
        }
        self.op(out, &format!("recv pdu {}", hexpdu(eof)), viol).await;
        let mut first: Option<PDU> = None;
        let mut guard = 0;
        while verif::recv_has_pdu_to_send(&self.t) && guard < 8 {
            self.op(out, "recv send", viol).await;
            if let Some(p) = &self.last_emitted {
                if matches!(p.payload, PDUPayload::Directive(Operations::Finished(_))) {
                    first = Some(p.clone());
                }
            }
            guard += 1;
        }
        let first = match first {
            Some(p) => p,
            None => {
                self.bad(out, viol, "C02", "fin_loop_starts", format!("the whole file was delivered but no Finished PDU was transmitted: {}", self.t.verif_snapshot()));
                return;
            }
        };
        let a = self.now_ms;
        let mut tp = self.now_ms;
        // fewer than `limit` expiries, and all of them less than `limit` inactivity periods after the last PDU
        let mut k = 0u64;
        while k + 1 < m && !self.dead {
            let t = tp + ta + rng.below(ta);
            if t >= a + m * ti {
                break;
            }
            k += 1;
            self.op(out, &format!("recv adv {}", t - self.now_ms), viol).await;
            self.op(out, "recv timeout", viol).await;
            self.op(out, "recv send", viol).await;
            let same = self.last_emitted.as_ref().map_or(false, |p| p.payload == first.payload);
            if !same || !self.snap_has("rs=Finished") || !self.snap_has("cond=NoError") {
                self.bad(out, viol, "C02", "fin_loop_repeats", format!("expiry {} of {} allowed (limit {}): the Finished PDU was not repeated or the outcome changed: emitted {:?}, {}", k, m - 1, m, self.last_emitted.as_ref().map(hexpdu), self.t.verif_snapshot()));
                return;
            }
            tp = t;
        }
    }
}

impl RecvCase {
    /// The Metadata PDU lost again and again, played as `md_repeated` / `C02_lost_metadatas_round` (Props/C02m.lean)
    /// quantify it: every byte of the file and the EOF are in, the Metadata is not; then expiry after expiry of the NAK
    /// timer is serviced within the following period, fewer than `limit` of them.  Checked on the real transaction:
    /// every expiry is followed by a NAK whose requests contain the 0-0 marker, no limit is declared, and the Metadata
    /// PDU arriving at the end completes the delivery.
    pub async fn md_loop(&mut self, out: &mut dyn Write, viol: &mut u64, rng: &mut Rng, file: &[u8], md: &PDU, eof: &PDU) {
        let (mode, crc, fss) = (self.cfg.mode, self.cfg.crc, self.cfg.fss);
        let seg = self.cfg.seg as usize;
        let m = self.cfg.max as u64;
        let (tn, ti) = (self.cfg.tn as u64 * 1000, self.cfg.ti as u64 * 1000);
        let mut off = 0;
        while off < file.len() {
            let l = seg.min(file.len() - off);
            self.op(out, &format!("recv pdu {}", hexpdu(&fd(off as u64, &file[off..off + l], mode, crc, fss))), viol).await;
            off += l;
        }
        self.op(out, &format!("recv pdu {}", hexpdu(eof)), viol).await;
        let mut guard = 0;
        while verif::recv_has_pdu_to_send(&self.t) && guard < 16 {
            self.op(out, "recv send", viol).await;
            guard += 1;
        }
        let a = self.now_ms;
        let mut tp = self.now_ms;
        let mut k = 0u64;
        while k + 1 < m && !self.dead {
            let t = tp + tn + rng.below(tn);
            if t >= a + m * ti {
                break;
            }
            k += 1;
            self.op(out, &format!("recv adv {}", t - self.now_ms), viol).await;
            self.op(out, "recv timeout", viol).await;
            let mut marker = false;
            guard = 0;
            while verif::recv_has_pdu_to_send(&self.t) && guard < 16 {
                self.op(out, "recv send", viol).await;
                if let Some(PDU { payload: PDUPayload::Directive(Operations::Nak(n)), .. }) = &self.last_emitted {
                    marker |= n.segment_requests.iter().any(|r| r.start_offset == 0 && r.end_offset == 0);
                }
                guard += 1;
            }
            if !marker || !self.snap_has("rs=ReceiveData") || !self.snap_has("cond=NoError") {
                self.bad(out, viol, "C02", "md_loop_repeats", format!("expiry {} (limit {}): no NAK carrying the 0-0 marker went out, or the receiver left the collecting phase: {}", k, m, self.t.verif_snapshot()));
                return;
            }
            tp = t;
        }
        if self.dead {
            return;
        }
        self.op(out, &format!("recv adv {}", 1 + rng.below(40)), viol).await;
        self.op(out, &format!("recv pdu {}", hexpdu(md)), viol).await;
        if !(self.snap_has("rs=Finished") && self.snap_has("cond=NoError") && self.snap_has("dc=Complete")) {
            self.bad(out, viol, "C02", "md_loop_completes", format!("the Metadata PDU arrived after {} repeated requests but the delivery is not reported Finished / NoError / Complete: {}", k, self.t.verif_snapshot()));
        }
    }
}

impl SendCase {
    fn snap_has(&mut self, what: &str) -> bool {
        self.t.verif_snapshot().split_whitespace().any(|w| w == what || w.ends_with(&format!("={}", what)))
    }

    /// The EOF lost again and again, played as `waits_repeated` / `C02_lost_eofs_round` / `C10_lost_cancel_eofs_round`
    /// (Props/C02z.lean) quantify it: the sender transmits the whole file and its EOF (or is cancelled and transmits
    /// its EOF(cancel)); then expiry after expiry of the positive-ACK timer is serviced within the following period,
    /// fewer than `limit` of them.  Checked on the real transaction: every expiry is followed by the transmission of
    /// that same EOF and no limit is declared.
    pub async fn eof_loop(&mut self, out: &mut dyn Write, viol: &mut u64, rng: &mut Rng, cancel_after: Option<u64>) {
        let m = self.cfg.max as u64;
        let (ta, ti) = (self.cfg.ta as u64 * 1000, self.cfg.ti as u64 * 1000);
        let mut first: Option<PDU> = None;
        let mut sent = 0u64;
        let mut guard = 0;
        while verif::send_has_pdu_to_send(&self.t) && guard < 200 && first.is_none() {
            if Some(sent) == cancel_after {
                self.op(out, "send cancel", viol).await;
            }
            self.op(out, "send send", viol).await;
            sent += 1;
            if let Some(p) = &self.last_emitted {
                if matches!(p.payload, PDUPayload::Directive(Operations::EoF(_))) {
                    first = Some(p.clone());
                }
            }
            guard += 1;
        }
        let first = match first {
            Some(p) => p,
            None => {
                let snap = self.t.verif_snapshot();
                self.bad(out, viol, "C02", "eof_loop_starts", format!("no EOF was transmitted: {}", snap));
                return;
            }
        };
        let phase = if cancel_after.is_some() { "ss=Cancelled" } else { "ss=SendEof" };
        let a = self.now_ms;
        let mut tp = self.now_ms;
        let mut k = 0u64;
        while k + 1 < m && !self.dead {
            let t = tp + ta + rng.below(ta);
            if t >= a + m * ti {
                break;
            }
            k += 1;
            self.op(out, &format!("send adv {}", t - self.now_ms), viol).await;
            self.op(out, "send timeout", viol).await;
            self.op(out, "send send", viol).await;
            let same = self.last_emitted.as_ref().map_or(false, |p| p.payload == first.payload);
            if !same || !self.snap_has(phase) || !self.snap_has("st=Active") {
                let prop = if cancel_after.is_some() { "C10" } else { "C02" };
                let emitted = self.last_emitted.as_ref().map(hexpdu);
                let snap = self.t.verif_snapshot();
                self.bad(out, viol, prop, "eof_loop_repeats", format!("expiry {} of {} allowed (limit {}): the EOF was not repeated or the sender stopped waiting: emitted {:?}, {}", k, m - 1, m, emitted, snap));
                return;
            }
            tp = t;
        }
    }
}

impl SendCase {
    pub fn note_adv(&mut self, ms: u64) {
        if !self.suspended {
            self.now_ms += ms;
        }
    }
    pub fn state(&self) -> TransactionState {
        verif::send_state(&self.t)
    }
    pub fn has_pdu(&self) -> bool {
        verif::send_has_pdu_to_send(&self.t)
    }
    pub fn until(&self) -> Duration {
        verif::send_until_timeout(&self.t)
    }
}

impl SendCase {
    pub async fn drain(&mut self, out: &mut dyn Write, viol: &mut u64) {
        if self.dead {
            return;
        }
        let t0 = self.now_ms;
        let bound_ms = 4 * (self.cfg.max as u64 + 1) * (self.cfg.ti.max(1) + self.cfg.ta.max(1)) as u64 * 1000 + 5000;
        let mut steps = 0u32;
        // the bound of theorem C03_send_bounded_time on the real transaction: tau <= 2 + 4 x limit
        // wake-ups of at most max(ACK timeout, inactivity timeout) each
        let tau_bound = 2 + 4 * self.cfg.max as u64;
        let theorem_applies = !c03_ignores(&self.cfg.fho) && self.cfg.ti > 0 && self.cfg.ta > 0;
        let mut wakes = 0u64;
        while verif::send_state(&self.t) != TransactionState::Terminated && !self.dead {
            if verif::send_state(&self.t) == TransactionState::Suspended {
                return;
            }
            if theorem_applies && (wakes > tau_bound || self.now_ms - t0 > tau_bound * self.cfg.ti.max(self.cfg.ta) as u64 * 1000 + wakes) {
                self.bad(out, viol, "C03", "within_potential", format!("{} timer wake-ups / {} ms after the peer fell silent; the theorem's bound is {} wake-ups of at most {} s each", wakes, self.now_ms - t0, tau_bound, self.cfg.ti.max(self.cfg.ta)));
                return;
            }
            steps += 1;
            if steps > 5000 || self.now_ms - t0 > bound_ms {
                if !c03_exempt(&self.cfg.fho) {
                    self.bad(out, viol, "C03", "bounded", format!("still alive {} ms ({} loop iterations) after the peer fell silent; bound {} ms", self.now_ms - t0, steps, bound_ms));
                }
                return;
            }
            if verif::send_has_pdu_to_send(&self.t) {
                self.op(out, "send send", viol).await;
                continue;
            }
            let u = verif::send_until_timeout(&self.t);
            if u == Duration::MAX {
                self.bad(out, viol, "C03", "never_stuck", "nothing to send and no timer running: the task would sleep forever".into());
                return;
            }
            let ms = (u.as_nanos() as u64 + 999_999) / 1_000_000;
            if ms > 0 {
                self.op(out, &format!("send adv {}", ms), viol).await;
            }
            wakes += 1;
            self.op(out, "send timeout", viol).await;
        }
    }
}

pub fn runtime() -> tokio::runtime::Runtime {
    tokio::runtime::Builder::new_current_thread().enable_time().start_paused(true).build().unwrap()
}

pub fn tmp_base(tag: &str) -> (tempfile::TempDir, Utf8PathBuf) {
    let td = tempfile::Builder::new().prefix(&format!("cfdp-verif-{}-", tag)).tempdir().expect("tempdir");
    let p = Utf8PathBuf::from_path_buf(td.path().to_path_buf()).unwrap();
    (td, p)
}

pub fn run_recv(opts: &Opts, out: &mut dyn Write) {
    let (_td, base) = tmp_base("recv");
    let rt = runtime();
    let mut viol = 0u64;
    let mut cases = 0u64;
    rt.block_on(async {
        if let Some(p) = &opts.replay {
            let mut case: Option<RecvCase> = None;
            for line in std::fs::read_to_string(p).expect("replay").lines() {
                let line = line.split('\t').next().unwrap().trim();
                let t: Vec<&str> = line.split_whitespace().collect();
                if t.len() < 2 || t[0] != "recv" {
                    continue;
                }
                if t[1] == "new" {
                    if let Some(c) = case.take() {
                        let _ = std::fs::remove_dir_all(&c.root);
                    }
                    cases += 1;
                    let mut c = RecvCase::new(&base, cases, RecvCfg::parse(&t[2..]));
                    c.hist.push(line.to_string());
                    let inds = c.settle().await;
                    rec(out, line, &format!("ok ind=[{}] st={} fs={}", inds.iter().map(ind_repr).collect::<Vec<_>>().join(";"), c.t.verif_snapshot(), fs_listing(&c.root)));
                    case = Some(c);
                } else if let Some(c) = case.as_mut() {
                    c.op(out, line, &mut viol).await;
                }
            }
            return;
        }
        let mut rng = Rng::new(opts.seed, "recv");
        let ncases = if opts.thorough { 6000 } else { 500 };
        for _ in 0..ncases {
            cases += 1;
            // sizes that are / are not a multiple of a NAK segment request (8 or 16 octets)
            let seg = *rng.pick(&[16u16, 24, 32, 64, 20, 28, 44]);
            let cfg = RecvCfg {
                mode: if rng.chance(2, 3) { TransmissionMode::Acknowledged } else { TransmissionMode::Unacknowledged },
                fss: if rng.chance(1, 6) { FileSizeFlag::Large } else { FileSizeFlag::Small },
                seg,
                crc: if rng.chance(1, 4) { CRCFlag::Present } else { CRCFlag::NotPresent },
                max: rng.range(1, 3) as u32,
                ti: *rng.pick(&[1i64, 2, 5]),
                ta: *rng.pick(&[1i64, 2]),
                tn: *rng.pick(&[1i64, 3]),
                immediate: rng.chance(1, 2),
                delay_ms: *rng.pick(&[0u64, 0, 300]),
                fho: rng.pick(&["-", "-", "8:a", "1:i", "7:s", "5:i", "6:i", "8:s;1:a", "10:i", "10:a", "10:s;5:i", "6:i;5:i", "4:i", "4:s", "5:a"]).to_string(),
            };
            let segu = seg as usize;
            let len = *rng.pick(&[0usize, 1, segu - 1, segu, segu + 1, 3 * segu, 3 * segu + 5, 2 * segu - 1]);
            let spec = match rng.below(4) {
                0 => format!("zero:{}", len),
                1 => format!("neutral:{}", len),
                _ => format!("lin:{}:{}:{}", len, rng.range(1, 50), rng.below(256)),
            };
            let file = file_of(&spec);
            let closure = rng.chance(1, 2);
            let ck = if rng.chance(1, 4) { ChecksumType::Null } else { ChecksumType::Modular };
            let nreq = *rng.pick(&[0usize, 0, 2, 4]);
            let transfer = !rng.chance(1, 8);
            let mut c = RecvCase::new(&base, cases, cfg.clone());
            c.truth.file = if transfer { Some(file.clone()) } else { None };
            let line = cfg.line();
            c.hist.push(line.clone());
            let inds = c.settle().await;
            rec(out, &line, &format!("ok ind=[{}] st={} fs={}", inds.iter().map(ind_repr).collect::<Vec<_>>().join(";"), c.t.verif_snapshot(), fs_listing(&c.root)));
            let mut script = gen_recv_script(&mut rng, &cfg, &file, closure, ck, nreq, transfer);
            if rng.chance(1, 3) {
                // blackout: the peer falls silent for good at a random point of the exchange
                let k = rng.below(script.len() as u64 + 1) as usize;
                script.truncate(k);
            }
            for l in script {
                c.op(out, &l, &mut viol).await;
            }
            // C03: left alone (peer silent for good) the task loop must end the transaction in bounded time
            c.drain(out, &mut viol).await;
            let _ = std::fs::remove_dir_all(&c.root);
        }
    });
    // unsorted request queues: immediate NAK procedure with a delay, an early gap whose check has fired (and whose
    // retransmission is lost), then a later gap followed at once by the EOF, so that the later gap's check and the
    // whole-file check fire in the same handle_timeout: the queue is [(later), (early), (later)] when the NAK goes out
    let mut unsorted = 0u64;
    if opts.replay.is_none() {
        rt.block_on(async {
            let mut rng = Rng::new(opts.seed, "recv-unsorted");
            let n = if opts.thorough { 200 } else { 20 };
            for _ in 0..n {
                cases += 1;
                unsorted += 1;
                let seg = *rng.pick(&[16u16, 24, 32, 64]);
                let delay = *rng.pick(&[200u64, 300, 400]);
                let cfg = RecvCfg {
                    mode: TransmissionMode::Acknowledged,
                    fss: if rng.chance(1, 6) { FileSizeFlag::Large } else { FileSizeFlag::Small },
                    seg,
                    crc: if rng.chance(1, 4) { CRCFlag::Present } else { CRCFlag::NotPresent },
                    max: rng.range(2, 4) as u32,
                    ti: *rng.pick(&[2i64, 5]),
                    ta: *rng.pick(&[1i64, 2]),
                    tn: *rng.pick(&[1i64, 3]),
                    immediate: true,
                    delay_ms: delay,
                    fho: "-".to_string(),
                };
                let segu = seg as usize;
                let nseg = 4 + rng.below(5) as usize;
                let len = nseg * segu - rng.below(segu as u64 / 2) as usize;
                let file = file_of(&format!("lin:{}:{}:{}", len, rng.range(1, 50), rng.below(256)));
                let ck = if rng.chance(1, 4) { ChecksumType::Null } else { ChecksumType::Modular };
                // with the Metadata missing the 0-0 marker leads every queue; mostly it is there
                let with_md = !rng.chance(1, 5);
                let md = metadata_pdu(&file, "out.bin", "src.bin", rng.chance(1, 2), ck.clone(), 0, cfg.mode, cfg.crc, cfg.fss);
                let eof = eof_pdu(&file, ck, Condition::NoError, cfg.mode, cfg.crc, cfg.fss);
                let mut c = RecvCase::new(&base, cases, cfg.clone());
                c.truth.file = Some(file.clone());
                let line = cfg.line();
                c.hist.push(line.clone());
                let inds = c.settle().await;
                rec(out, &line, &format!("ok ind=[{}] st={} fs={}", inds.iter().map(ind_repr).collect::<Vec<_>>().join(";"), c.t.verif_snapshot(), fs_listing(&c.root)));
                let piece = |i: usize| -> String {
                    let o = i * segu;
                    let l = segu.min(file.len() - o);
                    format!("recv pdu {}", hexpdu(&fd(o as u64, &file[o..o + l], cfg.mode, cfg.crc, cfg.fss)))
                };
                // the early gap: segment `ea` lost, the next one arrives
                let ea = rng.below(nseg as u64 - 3) as usize;
                let la = ea + 2 + rng.below((nseg - ea - 2) as u64 - 0) as usize;
                let la = la.min(nseg - 2);
                if with_md {
                    c.op(out, &format!("recv pdu {}", hexpdu(&md)), &mut viol).await;
                }
                for i in 0..ea {
                    c.op(out, &piece(i), &mut viol).await;
                }
                c.op(out, &piece(ea + 1), &mut viol).await;
                // its check fires, the NAK goes out, the retransmission is lost
                c.op(out, &format!("recv adv {}", delay), &mut viol).await;
                c.op(out, "recv timeout", &mut viol).await;
                let mut guard = 0;
                while verif::recv_has_pdu_to_send(&c.t) && guard < 8 {
                    c.op(out, "recv send", &mut viol).await;
                    guard += 1;
                }
                // the later gap: segment `la` lost, everything after it and the EOF arrive back to back
                for i in (ea + 2)..nseg {
                    if i != la {
                        c.op(out, &piece(i), &mut viol).await;
                    }
                }
                c.op(out, &format!("recv pdu {}", hexpdu(&eof)), &mut viol).await;
                guard = 0;
                while verif::recv_has_pdu_to_send(&c.t) && guard < 8 {
                    c.op(out, "recv send", &mut viol).await;
                    guard += 1;
                }
                c.op(out, &format!("recv adv {}", delay), &mut viol).await;
                c.op(out, "recv timeout", &mut viol).await;
                guard = 0;
                while verif::recv_has_pdu_to_send(&c.t) && guard < 16 {
                    c.op(out, "recv send", &mut viol).await;
                    guard += 1;
                }
                c.drain(out, &mut viol).await;
                let _ = std::fs::remove_dir_all(&c.root);
            }
        });
    }
    // the NAK loop under fair loss (theorem-shaped schedules, the theorems' conclusions as oracles)
    let mut loops = 0u64;
    if opts.replay.is_none() {
        rt.block_on(async {
            let mut rng = Rng::new(opts.seed, "recv-nakloop");
            let n = if opts.thorough { 400 } else { 40 };
            for _ in 0..n {
                cases += 1;
                loops += 1;
                let seg = *rng.pick(&[16u16, 24, 32]);
                let cfg = RecvCfg {
                    mode: TransmissionMode::Acknowledged,
                    fss: if rng.chance(1, 6) { FileSizeFlag::Large } else { FileSizeFlag::Small },
                    seg,
                    crc: if rng.chance(1, 4) { CRCFlag::Present } else { CRCFlag::NotPresent },
                    max: rng.range(3, 5) as u32,
                    ti: *rng.pick(&[2i64, 3, 5]),
                    ta: *rng.pick(&[1i64, 2]),
                    tn: 1,
                    immediate: rng.chance(1, 2),
                    delay_ms: 0,
                    fho: "-".to_string(),
                };
                let segu = seg as usize;
                let len = *rng.pick(&[segu, segu + 1, 3 * segu, 3 * segu + 5, 6 * segu - 1, 9 * segu]);
                let file = file_of(&format!("lin:{}:{}:{}", len, rng.range(1, 50), rng.below(256)));
                let ck = if rng.chance(1, 4) { ChecksumType::Null } else { ChecksumType::Modular };
                let md = metadata_pdu(&file, "out.bin", "src.bin", rng.chance(1, 2), ck.clone(), 0, cfg.mode, cfg.crc, cfg.fss);
                let eof = eof_pdu(&file, ck, Condition::NoError, cfg.mode, cfg.crc, cfg.fss);
                let mut c = RecvCase::new(&base, cases, cfg.clone());
                c.truth.file = Some(file.clone());
                let line = cfg.line();
                c.hist.push(line.clone());
                let inds = c.settle().await;
                rec(out, &line, &format!("ok ind=[{}] st={} fs={}", inds.iter().map(ind_repr).collect::<Vec<_>>().join(";"), c.t.verif_snapshot(), fs_listing(&c.root)));
                if loops % 4 == 0 {
                    c.fin_loop(out, &mut viol, &mut rng, &file, &md, &eof).await;
                } else if loops % 4 == 2 {
                    c.md_loop(out, &mut viol, &mut rng, &file, &md, &eof).await;
                } else {
                    c.nak_loop(out, &mut viol, &mut rng, &file, &md, &eof).await;
                }
                c.drain(out, &mut viol).await;
                let _ = std::fs::remove_dir_all(&c.root);
            }
        });
    }
    stat(out, &format!("engine=recv cases={} nak_loops={} unsorted_queues={} oracle_violations={}", cases, loops, unsorted, viol));
}

pub fn run_send(opts: &Opts, out: &mut dyn Write) {
    let (_td, base) = tmp_base("send");
    let rt = runtime();
    let mut viol = 0u64;
    let mut cases = 0u64;
    rt.block_on(async {
        if let Some(p) = &opts.replay {
            let mut case: Option<SendCase> = None;
            for line in std::fs::read_to_string(p).expect("replay").lines() {
                let line = line.split('\t').next().unwrap().trim();
                let t: Vec<&str> = line.split_whitespace().collect();
                if t.len() < 2 || t[0] != "send" {
                    continue;
                }
                if t[1] == "new" {
                    if let Some(c) = case.take() {
                        let _ = std::fs::remove_dir_all(&c.root);
                    }
                    cases += 1;
                    let mut c = SendCase::new(&base, cases, SendCfg::parse(&t[2..]));
                    c.hist.push(line.to_string());
                    let inds = c.settle().await;
                    let snap = c.t.verif_snapshot();
                    rec(out, line, &format!("ok ind=[{}] st={}", inds.iter().map(ind_repr).collect::<Vec<_>>().join(";"), snap));
                    case = Some(c);
                } else if let Some(c) = case.as_mut() {
                    c.op(out, line, &mut viol).await;
                }
            }
            return;
        }
        let mut rng = Rng::new(opts.seed, "send");
        let ncases = if opts.thorough { 6000 } else { 500 };
        for _ in 0..ncases {
            cases += 1;
            let seg = *rng.pick(&[16u16, 24, 32, 64]);
            let segu = seg as usize;
            let len = *rng.pick(&[0usize, 1, segu - 1, segu, segu + 1, 3 * segu, 3 * segu + 5, 5 * segu - 1]);
            let nofile = rng.chance(1, 10);
            let cfg = SendCfg {
                mode: if rng.chance(2, 3) { TransmissionMode::Acknowledged } else { TransmissionMode::Unacknowledged },
                seg,
                crc: if rng.chance(1, 4) { CRCFlag::Present } else { CRCFlag::NotPresent },
                max: rng.range(1, 3) as u32,
                ti: *rng.pick(&[1i64, 2, 5]),
                ta: *rng.pick(&[1i64, 2]),
                tn: 1,
                closure: rng.chance(1, 2),
                cktype: if rng.chance(1, 4) { ChecksumType::Null } else { ChecksumType::Modular },
                fho: rng.pick(&["-", "-", "8:a", "1:i", "1:s", "8:s;1:a", "8:i"]).to_string(),
                file: if nofile { "-".into() } else { format!("lin:{}:{}:{}", len, rng.range(1, 50), rng.below(256)) },
                nreq: *rng.pick(&[0usize, 2]),
            };
            let mut c = SendCase::new(&base, cases, cfg.clone());
            let line = cfg.line();
            c.hist.push(line.clone());
            let inds = c.settle().await;
            let snap = c.t.verif_snapshot();
            rec(out, &line, &format!("ok ind=[{}] st={}", inds.iter().map(ind_repr).collect::<Vec<_>>().join(";"), snap));
            let file = c.file.clone();
            let mut script = gen_send_script(&mut rng, &cfg, &file);
            if rng.chance(1, 3) {
                let k = rng.below(script.len() as u64 + 1) as usize;
                script.truncate(k);
            }
            for l in script {
                c.op(out, &l, &mut viol).await;
            }
            c.drain(out, &mut viol).await;
            let _ = std::fs::remove_dir_all(&c.root);
        }
    });
    // the EOF lost again and again (theorem-shaped schedules, the theorems' conclusions as oracles)
    let mut loops = 0u64;
    if opts.replay.is_none() {
        rt.block_on(async {
            let mut rng = Rng::new(opts.seed, "send-eofloop");
            let n = if opts.thorough { 300 } else { 30 };
            for _ in 0..n {
                cases += 1;
                loops += 1;
                let seg = *rng.pick(&[16u16, 32, 64]);
                let segu = seg as usize;
                let len = *rng.pick(&[1usize, segu, 3 * segu + 5, 5 * segu - 1]);
                let cfg = SendCfg {
                    mode: TransmissionMode::Acknowledged,
                    seg,
                    crc: if rng.chance(1, 4) { CRCFlag::Present } else { CRCFlag::NotPresent },
                    max: rng.range(3, 5) as u32,
                    ti: *rng.pick(&[2i64, 3, 5]),
                    ta: *rng.pick(&[1i64, 2]),
                    tn: 1,
                    closure: rng.chance(1, 2),
                    cktype: if rng.chance(1, 4) { ChecksumType::Null } else { ChecksumType::Modular },
                    fho: "-".to_string(),
                    file: format!("lin:{}:{}:{}", len, rng.range(1, 50), rng.below(256)),
                    nreq: 0,
                };
                let mut c = SendCase::new(&base, cases, cfg.clone());
                let line = cfg.line();
                c.hist.push(line.clone());
                let inds = c.settle().await;
                let snap = c.t.verif_snapshot();
                rec(out, &line, &format!("ok ind=[{}] st={}", inds.iter().map(ind_repr).collect::<Vec<_>>().join(";"), snap));
                let cancel_after = if loops % 3 == 0 { Some(rng.below(3)) } else { None };
                c.eof_loop(out, &mut viol, &mut rng, cancel_after).await;
                c.drain(out, &mut viol).await;
                let _ = std::fs::remove_dir_all(&c.root);
            }
        });
    }
    stat(out, &format!("engine=send cases={} eof_loops={} oracle_violations={}", cases, loops, viol));
}
