//! `daemon` engine: two real `Daemon`s (entities 1 and 2) on the paused tokio clock, joined by an
//! in-memory link with a seeded fault plan (drop / duplicate / delay per PDU index and direction),
//! plus injected stray and replayed PDUs.  No Lean model answers these op lines (the daemon's routing
//! is modelled in lean/Cfdp/Model/Daemon.lean and compared at the level of the set of receive
//! transactions spawned: op `daemon spawned …`); the rest is implementation-level oracles:
//!   C02 recovers / both_end / same_outcome      (acknowledged mode, bounded faults)
//!   C11 own_file / distinct_ids / daemon_alive / stray_ends / others_unaffected
//!   C01 delivered_equals_source, C03 bounded (at daemon level)
use crate::txn::lin;
use crate::util::*;
use crate::Opts;
use async_trait::async_trait;
use camino::{Utf8Path, Utf8PathBuf};
use cfdp_core::daemon::{EntityConfig, Indication, NakProcedure, PutRequest, UserPrimitive};
use cfdp_core::filestore::{ChecksumType, FileStore, FileStoreResult, NativeFileStore};
use cfdp_core::pdu::*;
use cfdp_core::transaction::{TransactionID, TransactionState};
use cfdp_daemon::transport::PDUTransport;
use cfdp_daemon::Daemon;
use std::collections::{BTreeMap, BTreeSet, HashMap};
use std::io::{Error as IoError, ErrorKind, Write};
use std::sync::Arc;
use std::time::Duration;
use tokio::sync::mpsc::{channel, unbounded_channel, Receiver, Sender, UnboundedReceiver, UnboundedSender};
use tokio::sync::oneshot;

struct SimTransport {
    me: u16,
    to_net: UnboundedSender<(u16, VariableID, PDU)>,
    from_net: Receiver<PDU>,
}

#[async_trait]
impl PDUTransport for SimTransport {
    async fn request(&mut self, destination: VariableID, pdu: PDU) -> Result<(), IoError> {
        self.to_net.send((self.me, destination, pdu)).map_err(|_| IoError::from(ErrorKind::ConnectionAborted))
    }
    async fn receive(&mut self) -> Result<PDU, IoError> {
        match self.from_net.recv().await {
            Some(p) => Ok(p),
            // the simulation is being torn down: stay quiet (the default pdu_handler would otherwise
            // poll a closed channel in a tight loop)
            None => std::future::pending().await,
        }
    }
}

/// the transport towards an entity whose link has stalled: a request never completes, nothing is ever received.
/// Transactions with that entity cannot get their PDUs out; everybody else must not notice.
struct StalledTransport;

#[async_trait]
impl PDUTransport for StalledTransport {
    async fn request(&mut self, _destination: VariableID, _pdu: PDU) -> Result<(), IoError> {
        std::future::pending().await
    }
    async fn receive(&mut self) -> Result<PDU, IoError> {
        std::future::pending().await
    }
}

/// the native filestore, optionally with a slow scratch-file allocation (a device that has to wake up):
/// while the receive transaction waits for it, the PDUs routed to it pile up in its command channel
struct SlowStore {
    inner: NativeFileStore,
    tempfile_delay: Duration,
}

impl FileStore for SlowStore {
    fn get_native_path<P: AsRef<Utf8Path>>(&self, path: P) -> Utf8PathBuf {
        self.inner.get_native_path(path)
    }
    fn create_file<P: AsRef<Utf8Path>>(&self, path: P) -> FileStoreResult<()> {
        self.inner.create_file(path)
    }
    fn delete_file<P: AsRef<Utf8Path>>(&self, path: P) -> FileStoreResult<()> {
        self.inner.delete_file(path)
    }
    fn rename_file<P: AsRef<Utf8Path>, U: AsRef<Utf8Path>>(&self, from: P, to: U) -> FileStoreResult<()> {
        self.inner.rename_file(from, to)
    }
    fn append_file<P: AsRef<Utf8Path>, U: AsRef<Utf8Path>>(&self, a: P, b: U) -> FileStoreResult<()> {
        self.inner.append_file(a, b)
    }
    fn replace_file<P: AsRef<Utf8Path>, U: AsRef<Utf8Path>>(&self, a: P, b: U) -> FileStoreResult<()> {
        self.inner.replace_file(a, b)
    }
    fn create_directory<P: AsRef<Utf8Path>>(&self, path: P) -> FileStoreResult<()> {
        self.inner.create_directory(path)
    }
    fn remove_directory<P: AsRef<Utf8Path>>(&self, path: P) -> FileStoreResult<()> {
        self.inner.remove_directory(path)
    }
    fn list_directory<P: AsRef<Utf8Path>>(&self, path: P) -> FileStoreResult<String> {
        self.inner.list_directory(path)
    }
    fn open<P: AsRef<Utf8Path>>(&self, path: P, options: &mut std::fs::OpenOptions) -> FileStoreResult<std::fs::File> {
        self.inner.open(path, options)
    }
    fn open_tempfile(&self) -> FileStoreResult<std::fs::File> {
        if !self.tempfile_delay.is_zero() {
            std::thread::sleep(self.tempfile_delay);
        }
        self.inner.open_tempfile()
    }
    fn get_size<P: AsRef<Utf8Path>>(&self, path: P) -> FileStoreResult<u64> {
        self.inner.get_size(path)
    }
}

#[derive(Clone, Debug, PartialEq)]
enum Fault {
    Drop,
    Dup,
    Delay(u64), // ms
}

#[derive(Clone)]
struct Cfg {
    seg: u16,
    max: u32,
    ti: i64,
    ta: i64,
    tn: i64,
    crc: bool,
    closure: bool,
    nak: NakProcedure,
}

fn entity_config(c: &Cfg) -> EntityConfig {
    EntityConfig {
        fault_handler_override: HashMap::new(),
        file_size_segment: c.seg,
        default_transaction_max_count: c.max,
        inactivity_timeout: c.ti,
        ack_timeout: c.ta,
        nak_timeout: c.tn,
        crc_flag: if c.crc { CRCFlag::Present } else { CRCFlag::NotPresent },
        closure_requested: c.closure,
        checksum_type: ChecksumType::Modular,
        nak_procedure: c.nak.clone(),
    }
}

struct Node {
    prim_tx: Sender<UserPrimitive>,
    ind_rx: Receiver<Indication>,
    inject_tx: Sender<PDU>,
    root: Utf8PathBuf,
    handle: tokio::task::JoinHandle<()>,
}

fn vid(n: u16) -> VariableID {
    VariableID::from(n)
}

fn start_node(me: u16, peers: &[u16], base: &Utf8PathBuf, cfg: &Cfg, to_net: UnboundedSender<(u16, VariableID, PDU)>, slow_ms: u64, stalled_peer: bool, seq0: VariableID) -> Node {
    let root = base.join(format!("e{}", me));
    let _ = std::fs::remove_dir_all(&root);
    std::fs::create_dir_all(&root).unwrap();
    let filestore = Arc::new(SlowStore { inner: NativeFileStore::new(&root), tempfile_delay: Duration::from_millis(slow_ms) });
    let (prim_tx, prim_rx) = channel(100);
    let (ind_tx, ind_rx) = channel(100000);
    let (inject_tx, from_net) = channel(100000);
    let transport = SimTransport { me, to_net, from_net };
    let mut map: HashMap<Vec<EntityID>, Box<dyn PDUTransport + Send>> = HashMap::new();
    map.insert(peers.iter().map(|p| vid(*p)).collect(), Box::new(transport));
    if stalled_peer {
        map.insert(vec![vid(3)], Box::new(StalledTransport));
    }
    // the configuration of every peer is given explicitly; the default configuration (used for entities that are
    // not listed) has timers of ten minutes, so a transaction that runs with it cannot meet the bounds of the scenario
    let mut per_entity: HashMap<EntityID, EntityConfig> = HashMap::new();
    for e in [1u16, 2, 3, 77] {
        if e != me {
            per_entity.insert(vid(e), entity_config(cfg));
        }
    }
    let mut fallback = entity_config(cfg);
    fallback.inactivity_timeout = 600;
    fallback.ack_timeout = 600;
    fallback.nak_timeout = 600;
    let mut daemon = Daemon::new(vid(me), seq0, map, filestore, per_entity, fallback, prim_rx, ind_tx);
    let handle = tokio::task::spawn(async move {
        let _ = daemon.manage_transactions().await;
    });
    Node { prim_tx, ind_rx, inject_tx, root, handle }
}

struct Job {
    from: u16,
    to: u16,
    mode: TransmissionMode,
    file: Vec<u8>,
    src: String,
    dst: String,
    id: Option<TransactionID>,
    /// the source file does not exist: the Put request cannot start a transaction
    ghost: bool,
    /// a user command for this transaction, issued at the sending daemon
    cmd: JobCmd,
}

/// user commands addressed to a transaction through its daemon (`UserPrimitive`)
#[derive(Clone, Debug, PartialEq)]
enum JobCmd {
    None,
    /// Cancel as soon as the Put has been answered
    CancelAtPut,
    /// Suspend as soon as the Put has been answered, Resume `resume_ms` later
    SuspendAtPut { resume_ms: u64 },
    /// Report request at this time
    ReportAt(u64),
    /// Cancel at the receiving daemon at this time (the scenario keeps the EOF on the link for longer)
    CancelAtRecv(u64),
}

#[derive(Default, Clone)]
struct Outcome {
    recv_finished: Vec<(Condition, DeliveryCode, FileStatusCode)>,
    send_finished: Vec<(Condition, DeliveryCode)>,
    reports: u32,
}

fn kind_of(p: &PDU) -> &'static str {
    match &p.payload {
        PDUPayload::FileData(_) => "data",
        PDUPayload::Directive(Operations::EoF(_)) => "eof",
        PDUPayload::Directive(Operations::Finished(_)) => "fin",
        PDUPayload::Directive(Operations::Ack(_)) => "ack",
        PDUPayload::Directive(Operations::Metadata(_)) => "md",
        PDUPayload::Directive(Operations::Nak(_)) => "nak",
        PDUPayload::Directive(Operations::Prompt(_)) => "prompt",
        PDUPayload::Directive(Operations::KeepAlive(_)) => "ka",
    }
}

struct Scenario {
    cfg: Cfg,
    jobs: Vec<Job>,
    /// (from entity, index of the PDU in that direction) -> fault
    plan: BTreeMap<(u16, u64), Fault>,
    /// (from entity, PDU kind, occurrence of that kind in that direction) -> fault
    kplan: BTreeMap<(u16, &'static str, u64), Fault>,
    /// (at ms, to entity, pdu, take the sequence number of this job's transaction)
    strays: Vec<(u64, u16, PDU, Option<usize>)>,
    /// entity 2's filestore takes this long to hand out a scratch file (real-time scenarios only)
    slow_ms: u64,
    /// stop as soon as every job has ended at both entities (real-time scenarios)
    early_exit: bool,
    /// no link fault loses anything for good: every transaction must succeed, exactly once (C11 others_unaffected)
    isolation: bool,
    /// both daemons also have a transport towards entity 3, and that link has stalled
    stalled_peer: bool,
    horizon_s: u64,
    bounded: bool, // the fault plan is "bounded" in the sense of C02
}

/// what the daemon's routing looks at: direction, source entity, sequence number, destination entity
fn hdr_repr(p: &PDU) -> String {
    format!(
        "{}:{}:{}:{}",
        if p.header.direction == Direction::ToReceiver { "R" } else { "S" },
        p.header.source_entity_id.to_u64(),
        p.header.transaction_sequence_number.to_u64(),
        p.header.destination_entity_id.to_u64()
    )
}

fn id_repr(id: &TransactionID) -> String {
    format!("{}.{}", id.0.to_u64(), id.1.to_u64())
}

async fn run_scenario(out: &mut dyn Write, viol: &mut u64, base: &Utf8PathBuf, sc: Scenario, tag: &str, tally: &mut BTreeMap<&'static str, u64>) {
    let (to_net, mut net_rx): (UnboundedSender<(u16, VariableID, PDU)>, UnboundedReceiver<(u16, VariableID, PDU)>) = unbounded_channel();
    let mut nodes: BTreeMap<u16, Node> = BTreeMap::new();
    // where the daemons' sequence counters start: mostly at 1, in a third of the scenarios each just below the top of a
    // one-octet / two-octet counter, so that the Puts of the scenario take it across the boundary (ids must stay distinct)
    let seq_of = |x: u64| -> VariableID {
        match x % 3 {
            0 => VariableID::from(1u16),
            1 => VariableID::from(254u8),
            _ => VariableID::from(65534u16),
        }
    };
    let mix = sc.cfg.seg as u64 + sc.jobs.len() as u64 + sc.cfg.max as u64;
    nodes.insert(1, start_node(1, &[2], base, &sc.cfg, to_net.clone(), 0, sc.stalled_peer, seq_of(mix)));
    nodes.insert(2, start_node(2, &[1], base, &sc.cfg, to_net.clone(), sc.slow_ms, sc.stalled_peer, seq_of(mix + 1)));
    let inject: BTreeMap<u16, Sender<PDU>> = nodes.iter().map(|(k, n)| (*k, n.inject_tx.clone())).collect();
    // ---- the link
    let plan = sc.plan.clone();
    let kplan = sc.kplan.clone();
    let log: Arc<std::sync::Mutex<Vec<String>>> = Arc::new(std::sync::Mutex::new(vec![]));
    let log2 = log.clone();
    // every PDU handed to the link: (ms, from entity, source entity of the transaction, sequence number, towards the receiver, condition of an EOF)
    let sent: Arc<std::sync::Mutex<Vec<(u64, u16, u64, u64, bool, Option<Condition>)>>> = Arc::new(std::sync::Mutex::new(vec![]));
    let sent2 = sent.clone();
    let inj2 = inject.clone();
    let delivered: Arc<std::sync::Mutex<BTreeMap<u16, Vec<String>>>> = Arc::new(std::sync::Mutex::new(BTreeMap::new()));
    let delivered2 = delivered.clone();
    let delivered3 = delivered.clone();
    let t0 = tokio::time::Instant::now();
    let in_order = sc.early_exit;
    let net = tokio::task::spawn(async move {
        let mut count: BTreeMap<u16, u64> = BTreeMap::new();
        let mut kcount: BTreeMap<(u16, &'static str), u64> = BTreeMap::new();
        while let Some((from, dest, pdu)) = net_rx.recv().await {
            let idx = {
                let c = count.entry(from).or_insert(0);
                *c += 1;
                *c - 1
            };
            let to = dest.to_u64() as u16;
            let now = t0.elapsed().as_millis();
            let kidx = {
                let c = kcount.entry((from, kind_of(&pdu))).or_insert(0);
                *c += 1;
                *c - 1
            };
            let fault = plan.get(&(from, idx)).cloned().or_else(|| kplan.get(&(from, kind_of(&pdu), kidx)).cloned());
            log2.lock().unwrap().push(format!("{}ms {}->{} #{} {} {:?}", now, from, to, idx, kind_of(&pdu), fault));
            sent2.lock().unwrap().push((now as u64, from, pdu.header.source_entity_id.to_u64(), pdu.header.transaction_sequence_number.to_u64(), pdu.header.direction == Direction::ToReceiver, match &pdu.payload { PDUPayload::Directive(Operations::EoF(e)) => Some(e.condition), _ => None }));
            let Some(tx) = inj2.get(&to).cloned() else { continue };
            let (copies, delay) = match fault {
                Some(Fault::Drop) => (0, 0),
                Some(Fault::Dup) => (2, 0),
                Some(Fault::Delay(d)) => (1, d),
                None => (1, 0),
            };
            for _ in 0..copies {
                delivered2.lock().unwrap().entry(to).or_default().push(hdr_repr(&pdu));
                if in_order {
                    // real-time scenarios: an order-preserving link (worker threads would race otherwise)
                    let _ = tx.send(pdu.clone()).await;
                    continue;
                }
                let tx = tx.clone();
                let pdu = pdu.clone();
                tokio::task::spawn(async move {
                    tokio::time::sleep(Duration::from_millis(10 + delay)).await;
                    let _ = tx.send(pdu).await;
                });
            }
        }
    });
    if std::env::var("DAEMON_DEBUG").is_ok() {
        eprintln!("[{}] nodes started seg={} max={} ti={} ta={} tn={} crc={} closure={} nak={:?} plan={:?} files={:?}", tag, sc.cfg.seg, sc.cfg.max, sc.cfg.ti, sc.cfg.ta, sc.cfg.tn, sc.cfg.crc, sc.cfg.closure, sc.cfg.nak, sc.plan, sc.jobs.iter().map(|j| j.file.len()).collect::<Vec<_>>());
    }
    // ---- the users: put the source files in place and issue the requests
    let mut jobs = sc.jobs;
    for j in jobs.iter_mut() {
        if !j.ghost {
            std::fs::write(nodes[&j.from].root.join(&j.src), &j.file).unwrap();
        }
        let (tx, rx) = oneshot::channel();
        let req = PutRequest {
            source_filename: j.src.clone().into(),
            destination_filename: j.dst.clone().into(),
            destination_entity_id: vid(j.to),
            transmission_mode: j.mode,
            filestore_requests: vec![],
            message_to_user: vec![],
        };
        nodes[&j.from].prim_tx.send(UserPrimitive::Put(req, tx)).await.unwrap();
        j.id = rx.await.ok();
        if let Some(id) = j.id {
            if matches!(j.cmd, JobCmd::CancelAtPut | JobCmd::SuspendAtPut { .. }) {
                // a user polling the status first: the transaction's command queue (10 entries at a sender) is busy
                // when the command arrives
                for _ in 0..10 {
                    let (rtx, _rrx) = oneshot::channel();
                    let _ = nodes[&j.from].prim_tx.send(UserPrimitive::Report(id, rtx)).await;
                }
            }
            match &j.cmd {
                JobCmd::CancelAtPut => {
                    let _ = nodes[&j.from].prim_tx.send(UserPrimitive::Cancel(id)).await;
                }
                JobCmd::SuspendAtPut { .. } => {
                    let _ = nodes[&j.from].prim_tx.send(UserPrimitive::Suspend(id)).await;
                }
                _ => {}
            }
        }
    }
    // ---- later user commands
    let reports: Arc<std::sync::Mutex<Vec<(usize, Option<TransactionID>)>>> = Arc::new(std::sync::Mutex::new(vec![]));
    let mut cmd_tasks = vec![];
    // ---- user primitives that come too late or address nothing that is suspended (isolation scenarios): a
    // Resume.request for every undisturbed job at its sending daemon (150, 600, 1100 ms after the Puts) and at its
    // receiving daemon (350, 900 ms) - while the transaction runs, in the second between its end and the cleanup of
    // its entry, and after that.  None of them may stop a daemon or change any outcome (oracles daemon_alive,
    // others_unaffected, put_answered for the jobs that follow).
    if sc.isolation && !sc.early_exit {
        for j in jobs.iter() {
            let Some(id) = j.id else { continue };
            if j.cmd != JobCmd::None {
                continue;
            }
            let txs = nodes[&j.from].prim_tx.clone();
            let txr = nodes[&j.to].prim_tx.clone();
            *tally.entry("stale_resumes").or_insert(0) += 5;
            cmd_tasks.push(tokio::task::spawn(async move {
                let start = tokio::time::Instant::now();
                for (at, at_receiver) in [(150u64, false), (350, true), (600, false), (900, true), (1100, false)] {
                    tokio::time::sleep_until(start + Duration::from_millis(at)).await;
                    let _ = if at_receiver { txr.send(UserPrimitive::Resume(id)).await } else { txs.send(UserPrimitive::Resume(id)).await };
                }
            }));
        }
    }
    for (k, j) in jobs.iter().enumerate() {
        let Some(id) = j.id else { continue };
        let tx = nodes[&j.from].prim_tx.clone();
        match j.cmd.clone() {
            JobCmd::SuspendAtPut { resume_ms } => cmd_tasks.push(tokio::task::spawn(async move {
                tokio::time::sleep(Duration::from_millis(resume_ms)).await;
                for _ in 0..10 {
                    let (rtx, _rrx) = oneshot::channel();
                    let _ = tx.send(UserPrimitive::Report(id, rtx)).await;
                }
                let _ = tx.send(UserPrimitive::Resume(id)).await;
            })),
            JobCmd::CancelAtRecv(at) => {
                let tx = nodes[&j.to].prim_tx.clone();
                cmd_tasks.push(tokio::task::spawn(async move {
                    tokio::time::sleep(Duration::from_millis(at)).await;
                    let _ = tx.send(UserPrimitive::Cancel(id)).await;
                }))
            }
            JobCmd::ReportAt(at) => {
                let reports = reports.clone();
                cmd_tasks.push(tokio::task::spawn(async move {
                    tokio::time::sleep(Duration::from_millis(at)).await;
                    let (rtx, rrx) = oneshot::channel();
                    if tx.send(UserPrimitive::Report(id, rtx)).await.is_ok() {
                        // no answer = the transaction has ended already
                        if let Ok(Ok(r)) = tokio::time::timeout(Duration::from_millis(500), rrx).await {
                            reports.lock().unwrap().push((k, Some(r.id)));
                        } else {
                            reports.lock().unwrap().push((k, None));
                        }
                    }
                }))
            }
            _ => {}
        }
    }
    if std::env::var("DAEMON_DEBUG").is_ok() {
        eprintln!("[{}] puts done", tag);
        let l = log.clone();
        let tg = tag.to_string();
        std::thread::spawn(move || {
            std::thread::sleep(std::time::Duration::from_secs(6));
            eprintln!("[{}] WATCHDOG link log:", tg);
            for x in l.lock().unwrap().iter().rev().take(30).rev() {
                eprintln!("   {}", x);
            }
        });
    }
    // ---- strays
    let mut strays = sc.strays.clone();
    strays.sort_by_key(|s| s.0);
    let inj3 = inject.clone();
    let job_seq: Vec<Option<VariableID>> = jobs.iter().map(|j| j.id.as_ref().map(|i| i.1)).collect();
    // when the last stray PDU of a transaction nobody runs was handed to an entity (ms), per (entity, transaction id)
    let stray_last: Arc<std::sync::Mutex<BTreeMap<(u16, String), u128>>> = Arc::new(std::sync::Mutex::new(BTreeMap::new()));
    let stray_last3 = stray_last.clone();
    let stray_task = tokio::task::spawn(async move {
        let start = tokio::time::Instant::now();
        for (at, to, mut pdu, seq_of) in strays {
            if let Some(k) = seq_of {
                // a foreign PDU whose sequence number collides with a live transaction's
                match job_seq.get(k).cloned().flatten() {
                    Some(seq) => pdu.header.transaction_sequence_number = seq,
                    None => continue,
                }
            }
            tokio::time::sleep_until(start + Duration::from_millis(at)).await;
            if let Some(tx) = inj3.get(&to) {
                delivered3.lock().unwrap().entry(to).or_default().push(hdr_repr(&pdu));
                if seq_of.is_none() && pdu.header.direction == Direction::ToReceiver {
                    let id = TransactionID(pdu.header.source_entity_id, pdu.header.transaction_sequence_number);
                    stray_last3.lock().unwrap().insert((to, id_repr(&id)), t0.elapsed().as_millis());
                }
                let _ = tx.send(pdu).await;
            }
        }
    });
    // ---- let virtual time pass, collecting indications
    let mut outcomes: BTreeMap<(u16, String), Outcome> = BTreeMap::new();
    let mut seen_recv_ids: BTreeMap<u16, BTreeSet<String>> = BTreeMap::new();
    let mut end_ms: BTreeMap<String, u128> = BTreeMap::new();
    // when the receiving user first saw a successful Finished indication (polled every tick)
    let mut success_ms: BTreeMap<(u16, String), u128> = BTreeMap::new();
    let horizon = Duration::from_secs(sc.horizon_s);
    let mut elapsed = Duration::ZERO;
    while elapsed < horizon {
        let tick = Duration::from_millis(if sc.early_exit { 50 } else { 250 });
        tokio::time::sleep(tick).await;
        elapsed += tick;
        for (e, n) in nodes.iter_mut() {
            while let Ok(ind) = n.ind_rx.try_recv() {
                match ind {
                    Indication::Finished(f) => {
                        let key = (*e, id_repr(&f.id));
                        let o = outcomes.entry(key).or_default();
                        // a Finished indication at the source entity of the transaction is the sender's
                        if f.id.0 == vid(*e) {
                            o.send_finished.push((f.report.condition, f.delivery_code));
                        } else {
                            o.recv_finished.push((f.report.condition, f.delivery_code, f.file_status));
                            if f.report.condition == Condition::NoError && f.delivery_code == DeliveryCode::Complete {
                                success_ms.entry((*e, id_repr(&f.id))).or_insert(t0.elapsed().as_millis());
                            }
                        }
                    }
                    Indication::Report(r) => {
                        let key = (*e, id_repr(&r.id));
                        outcomes.entry(key.clone()).or_default().reports += 1;
                        if r.id.0 != vid(*e) {
                            seen_recv_ids.entry(*e).or_default().insert(id_repr(&r.id));
                        }
                        if r.state == TransactionState::Terminated {
                            end_ms.entry(format!("{}@{}", id_repr(&r.id), e)).or_insert(t0.elapsed().as_millis());
                        }
                    }
                    _ => {}
                }
            }
        }
        if sc.early_exit && jobs.iter().all(|j| j.id.as_ref().map_or(true, |id| [j.from, j.to].iter().all(|e| end_ms.contains_key(&format!("{}@{}", id_repr(id), e))))) {
            break;
        }
    }
    stray_task.abort();
    for t in cmd_tasks {
        t.abort();
    }
    if std::env::var("DAEMON_DEBUG").is_ok() { eprintln!("[{}] horizon reached", tag); }
    // ---- oracles
    let ctx = || format!("scenario {} || link log: {}", tag, log.lock().unwrap().iter().take(120).cloned().collect::<Vec<_>>().join(" | "));
    let mut ids: Vec<String> = vec![];
    for j in &jobs {
        if j.ghost {
            // no transaction can start; should the daemon hand out an id all the same, it must not be anyone else's
            if let Some(id) = &j.id {
                ids.push(format!("{}:{}", j.from, id_repr(id)));
            }
            *tally.entry("ghost_puts").or_insert(0) += 1;
            continue;
        }
        let Some(id) = &j.id else {
            *viol += 1;
            oracle(out, "C11", "put_answered", &format!("Put request got no transaction id || {}", ctx()));
            continue;
        };
        let idr = id_repr(id);
        ids.push(format!("{}:{}", j.from, idr));
        let dst_path = nodes[&j.to].root.join(&j.dst);
        let got = std::fs::read(&dst_path).ok();
        let r = outcomes.get(&(j.to, idr.clone())).cloned().unwrap_or_default();
        let s = outcomes.get(&(j.from, idr.clone())).cloned().unwrap_or_default();
        let recv_success = r.recv_finished.iter().any(|x| x.0 == Condition::NoError && x.1 == DeliveryCode::Complete);
        let send_success = s.send_finished.iter().any(|x| x.0 == Condition::NoError && x.1 == DeliveryCode::Complete);
        *tally.entry("jobs").or_insert(0) += 1;
        if recv_success { *tally.entry("recv_success").or_insert(0) += 1; }
        if send_success { *tally.entry("send_success").or_insert(0) += 1; }
        if got.as_deref() == Some(&j.file[..]) { *tally.entry("file_identical").or_insert(0) += 1; }
        // C01 / C11: whatever is reported as delivered is this transaction's own file
        if recv_success && got.as_deref() != Some(&j.file[..]) {
            *viol += 1;
            oracle(out, "C11", "own_file", &format!("transaction {} reported success but {} holds {:?} bytes instead of its own {} || {}", idr, j.dst, got.as_ref().map(|g| g.len()), j.file.len(), ctx()));
        }
        if sc.stalled_peer {
            // C11: nothing is lost or late between entities 1 and 2 in this scenario, so every transfer is delivered within a few
            // link delays (10 ms each); the transaction of entity 3 that cannot get its answers out lives for seconds
            if let Some(t) = success_ms.get(&(j.to, idr.clone())) {
                if *t > 1000 {
                    *viol += 1;
                    oracle(out, "C11", "others_not_delayed", &format!("transaction {} was delivered after {} ms although nothing was lost or late on its link: held up behind the stalled peer's transaction || {}", idr, t, ctx()));
                }
            }
        }
        if send_success && !recv_success {
            *viol += 1;
            oracle(out, "C04", "sender_success_only_after_receiver", &format!("sender of {} reported success, receiver did not || {}", idr, ctx()));
        }
        // ---- user commands routed by the daemon
        match &j.cmd {
            JobCmd::CancelAtPut => {
                *tally.entry("cmd_cancel").or_insert(0) += 1;
                // C10 / C11: the Cancel reached this transaction: its sender reports the cancel condition,
                // and the receiver - if the exchange got that far - reports it too, or had completed before
                // (when the whole file and its EOF were out before the Cancel was seen and the receiver completed,
                // the Finished PDU coming back makes the sender report that outcome: the cancel took effect too
                // late - then the EOF(Cancel received) it transmitted is the evidence that the Cancel arrived)
                let eof_cancel_sent = sent.lock().unwrap().iter().any(|x| x.1 == j.from && x.2 == id.0.to_u64() && x.3 == id.1.to_u64() && x.5 == Some(Condition::CancelReceived));
                let sender_cancelled = eof_cancel_sent || s.send_finished.iter().any(|x| x.0 == Condition::CancelReceived);
                let recv_ok = r.recv_finished.first().map_or(true, |x| x.0 == Condition::CancelReceived || (x.0 == Condition::NoError && x.1 == DeliveryCode::Complete));
                if !sender_cancelled || !recv_ok {
                    *viol += 1;
                    oracle(out, "C10", "daemon_cancel", &format!("Cancel({}) was issued right after the Put but the sender finished {:?}, the receiver {:?} || {}", idr, s.send_finished, r.recv_finished, ctx()));
                }
                if !recv_success && got.is_some() {
                    *viol += 1;
                    oracle(out, "C10", "daemon_cancel_no_file", &format!("cancelled transaction {} left {} bytes under the destination name || {}", idr, got.as_ref().map_or(0, |g| g.len()), ctx()));
                }
                for e in [j.from, j.to] {
                    // (the receiving entity may never have heard of the transaction)
                    if e == j.from && !end_ms.contains_key(&format!("{}@{}", idr, e)) {
                        *viol += 1;
                        oracle(out, "C10", "daemon_cancel_ends", &format!("cancelled transaction {} has not ended at entity {} after {} s || {}", idr, e, sc.horizon_s, ctx()));
                    }
                }
                continue;
            }
            JobCmd::CancelAtRecv(_) => {
                *tally.entry("cmd_cancel_recv").or_insert(0) += 1;
                // C10: the EOF cannot have arrived before the Cancel, so the receiver cannot have completed: it reports
                // the cancel condition, so does the (reachable) sender, and nothing is left under the destination name
                let recv_cancelled = r.recv_finished.first().map_or(false, |x| x.0 == Condition::CancelReceived);
                let send_cancelled = s.send_finished.iter().any(|x| x.0 == Condition::CancelReceived) && !send_success;
                if !recv_cancelled || !send_cancelled {
                    *viol += 1;
                    oracle(out, "C10", "daemon_cancel_recv", &format!("Cancel({}) was issued at the receiving entity before the EOF could arrive but the receiver finished {:?}, the sender {:?} || {}", idr, r.recv_finished, s.send_finished, ctx()));
                }
                if got.is_some() {
                    *viol += 1;
                    oracle(out, "C10", "daemon_cancel_no_file", &format!("cancelled transaction {} left {} bytes under the destination name || {}", idr, got.as_ref().map_or(0, |g| g.len()), ctx()));
                }
                for e in [j.from, j.to] {
                    if !end_ms.contains_key(&format!("{}@{}", idr, e)) {
                        *viol += 1;
                        oracle(out, "C10", "daemon_cancel_ends", &format!("cancelled transaction {} has not ended at entity {} after {} s || {}", idr, e, sc.horizon_s, ctx()));
                    }
                }
                continue;
            }
            JobCmd::SuspendAtPut { resume_ms } => {
                *tally.entry("cmd_suspend").or_insert(0) += 1;
                // C19: while suspended the sender transmits nothing for this transaction
                let during: Vec<_> = sent.lock().unwrap().iter().filter(|x| x.1 == j.from && x.2 == id.0.to_u64() && x.3 == id.1.to_u64() && x.4 && x.0 >= 100 && x.0 + 20 < *resume_ms).cloned().collect();
                if !during.is_empty() {
                    *viol += 1;
                    oracle(out, "C19", "daemon_suspended_silent", &format!("transaction {} was suspended at its start and resumed after {} ms but transmitted at {:?} ms || {}", idr, resume_ms, during.iter().map(|x| x.0).collect::<Vec<_>>(), ctx()));
                }
                // ... and cannot end (its ACK of the Finished PDU cannot go out) before the Resume
                if let Some(t) = end_ms.get(&format!("{}@{}", idr, j.from)) {
                    if (*t as u64) + 20 < *resume_ms {
                        *viol += 1;
                        oracle(out, "C19", "daemon_suspended_silent", &format!("transaction {} was suspended at its start and resumed after {} ms but had ended at its sender after {} ms || {}", idr, resume_ms, t, ctx()));
                    }
                }
                // (that it completes after the Resume is part of others_unaffected below)
            }
            JobCmd::ReportAt(_) => {
                for (k2, got_id) in reports.lock().unwrap().iter() {
                    if jobs.get(*k2).map(|x| x.src.clone()) == Some(j.src.clone()) {
                        *tally.entry("cmd_report").or_insert(0) += 1;
                        if let Some(g) = got_id {
                            if g != id {
                                *viol += 1;
                                oracle(out, "C11", "report_own_id", &format!("Report({}) was answered for transaction {} || {}", idr, id_repr(g), ctx()));
                            }
                        }
                    }
                }
            }
            JobCmd::None => {}
        }
        if sc.isolation {
            // C11: nothing was lost on the link, so whatever else happened at the daemons (other
            // transactions, strays, replays) this transaction succeeds, and reports it exactly once
            // (a straggler - e.g. a retransmitted EOF that was slow on the link - arriving after the
            // end of its transaction legitimately starts a fresh receive transaction that ends by its
            // own limits, so later receiver outcomes under the same id are not held against it)
            let recv_once = r.recv_finished.first().map_or(false, |x| x.0 == Condition::NoError && x.1 == DeliveryCode::Complete);
            // (a Finished PDU the receiver had to repeat - e.g. while the sender was suspended - is reported again)
            let send_once = send_success && s.send_finished.iter().all(|x| x.0 == Condition::NoError && x.1 == DeliveryCode::Complete);
            let send_expected = j.mode == TransmissionMode::Acknowledged || sc.cfg.closure;
            if !recv_once || got.as_deref() != Some(&j.file[..]) || (send_expected && !send_once) || (!send_expected && s.send_finished.iter().any(|x| x.0 != Condition::NoError)) {
                *viol += 1;
                oracle(out, "C11", "others_unaffected", &format!("no PDU of {} was lost but receiver finished {:?}, sender finished {:?}, file ok: {} || {}", idr, r.recv_finished, s.send_finished, got.as_deref() == Some(&j.file[..]), ctx()));
            }
        }
        if sc.bounded && j.mode == TransmissionMode::Acknowledged {
            if !recv_success || got.as_deref() != Some(&j.file[..]) {
                *viol += 1;
                oracle(out, "C02", "recovers", &format!("bounded faults but {} was not delivered (receiver finished: {:?}, file ok: {}) || {}", idr, r.recv_finished, got.as_deref() == Some(&j.file[..]), ctx()));
            }
            if !send_success {
                *viol += 1;
                oracle(out, "C02", "same_outcome", &format!("bounded faults but the sender of {} did not report success ({:?}) || {}", idr, s.send_finished, ctx()));
            }
        }
        // C02 / C03: both ends have ended by the horizon
        for e in [j.from, j.to] {
            if !end_ms.contains_key(&format!("{}@{}", idr, e)) {
                *viol += 1;
                oracle(out, "C03", "daemon_bounded", &format!("transaction {} at entity {} has not ended after {} s || {}", idr, e, sc.horizon_s, ctx()));
            }
        }
    }
    // C11: a receive transaction started by a stray PDU that nobody continues ends by its own limits - the limits
    // configured for the entity it claims to come from: (limit + 2) periods of each of its three timers after the
    // last such PDU is more than the inactivity limit, the NAK limit and the positive-ACK limit of its closing
    // exchange together (the transactions of the stalled peer cannot transmit at all and are left out)
    {
        let bound_ms = ((sc.cfg.max as u128 + 2) * (sc.cfg.ti + sc.cfg.ta + sc.cfg.tn) as u128 + 5) * 1000;
        let total_ms = t0.elapsed().as_millis();
        let job_ids: BTreeSet<String> = jobs.iter().filter_map(|j| j.id.as_ref().map(id_repr)).collect();
        for ((e, idr), last) in stray_last.lock().unwrap().iter() {
            if job_ids.contains(idr) || (sc.stalled_peer && idr.starts_with("3.")) {
                continue;
            }
            let spawned = seen_recv_ids.get(e).map_or(false, |s| s.contains(idr));
            if spawned {
                *tally.entry("stray_started").or_insert(0) += 1;
            }
            if spawned && last + bound_ms <= total_ms && !end_ms.contains_key(&format!("{}@{}", idr, e)) {
                *viol += 1;
                oracle(out, "C11", "stray_ends_by_limits", &format!("receive transaction {} at entity {}, started by a stray PDU at {} ms that nobody continued, has not ended {} ms later (its limits allow {} ms) || {}", idr, e, last, total_ms - last, bound_ms, ctx()));
            }
        }
    }
    // C11: ids handed out are distinct per daemon
    {
        let mut sorted = ids.clone();
        sorted.sort();
        sorted.dedup();
        if sorted.len() != ids.len() {
            *viol += 1;
            oracle(out, "C11", "distinct_ids", &format!("transaction ids not distinct: {:?} || {}", ids, ctx()));
        }
    }
    // C11: the daemons are alive (strays did not stop them) and still serve requests
    for (e, n) in nodes.iter() {
        if n.handle.is_finished() {
            *viol += 1;
            oracle(out, "C11", "daemon_alive", &format!("daemon of entity {} stopped || {}", e, ctx()));
        }
    }
    // the routing correspondence: which receive transactions were spawned at each entity, given the
    // headers of the PDUs delivered to it (answered by the Lean model of `forward_pdu`)
    rec(out, "daemon new", "ok");
    for (e, _) in nodes.iter() {
        let mut set: Vec<String> = seen_recv_ids.get(e).map(|s| s.iter().cloned().collect()).unwrap_or_default();
        // numeric order of (entity, sequence number), as the model prints them
        set.sort_by_key(|x| {
            let mut it = x.split('.').map(|n| n.parse::<u64>().unwrap_or(u64::MAX));
            (it.next().unwrap_or(u64::MAX), it.next().unwrap_or(u64::MAX))
        });
        let hdrs = delivered.lock().unwrap().get(e).cloned().unwrap_or_default();
        let peers = match (*e == 1, sc.stalled_peer) {
            (true, false) => "2",
            (false, false) => "1",
            (true, true) => "2,3",
            (false, true) => "1,3",
        };
        rec(out, &format!("daemon route {} {} {}", e, peers, if hdrs.is_empty() { "-".to_string() } else { hdrs.join(",") }), &format!("spawned=[{}]", set.join(",")));
    }
    // the routing key `forward_pdu` used for every PDU it saw (hook trace), against the model's `key`
    {
        let trace: Vec<_> = cfdp_daemon::verif::ROUTE_TRACE.lock().map(|mut t| std::mem::take(&mut *t)).unwrap_or_default();
        let mut seen = BTreeSet::new();
        for (_entity, h, key) in trace {
            let hr = format!(
                "{}:{}:{}:{}",
                if h.direction == Direction::ToReceiver { "R" } else { "S" },
                h.source_entity_id.to_u64(),
                h.transaction_sequence_number.to_u64(),
                h.destination_entity_id.to_u64()
            );
            let line = (hr, id_repr(&key));
            *tally.entry("routed").or_insert(0) += 1;
            if seen.insert(line.clone()) {
                rec(out, &format!("daemon key {}", line.0), &format!("key={}", line.1));
            }
        }
    }
    *tally.entry("faults_planned").or_insert(0) += (sc.plan.len() + sc.kplan.len()) as u64;
    *tally.entry("faults_hit").or_insert(0) += log.lock().unwrap().iter().filter(|l| l.ends_with(")") ).count() as u64;
    *tally.entry("pdus_on_link").or_insert(0) += log.lock().unwrap().len() as u64;
    *tally.entry("strays").or_insert(0) += sc.strays.len() as u64;
    // ---- shut down
    for (_, n) in nodes.into_iter() {
        drop(n.prim_tx);
        n.handle.abort();
    }
    net.abort();
}

fn gen_cfg(rng: &mut Rng) -> Cfg {
    Cfg {
        seg: *rng.pick(&[32u16, 64, 128]),
        max: *rng.pick(&[3u32, 4]),
        ti: *rng.pick(&[2i64, 3]),
        ta: *rng.pick(&[1i64, 2]),
        tn: *rng.pick(&[1i64, 2]),
        crc: rng.chance(1, 3),
        closure: rng.chance(1, 2),
        nak: match rng.below(4) {
            0 => NakProcedure::Immediate(Duration::ZERO),
            1 => NakProcedure::Immediate(Duration::from_millis(300)),
            2 => NakProcedure::Deferred(Duration::from_millis(300)),
            _ => NakProcedure::Deferred(Duration::ZERO),
        },
    }
}

fn mk_pdu(dir: Direction, mode: TransmissionMode, src: u16, seq: u16, dst: u16, payload: PDUPayload) -> PDU {
    let len = payload.encoded_len(FileSizeFlag::Small);
    let pdu_type = match &payload {
        PDUPayload::FileData(_) => PDUType::FileData,
        _ => PDUType::FileDirective,
    };
    PDU {
        header: PDUHeader {
            version: U3::One,
            pdu_type,
            direction: dir,
            transmission_mode: mode,
            crc_flag: CRCFlag::NotPresent,
            large_file_flag: FileSizeFlag::Small,
            pdu_data_field_length: len,
            segmentation_control: SegmentationControl::NotPreserved,
            segment_metadata_flag: SegmentedData::NotPresent,
            source_entity_id: vid(src),
            transaction_sequence_number: vid(seq),
            destination_entity_id: vid(dst),
        },
        payload,
    }
}

pub fn run(opts: &Opts, out: &mut dyn Write) {
    let td = tempfile::Builder::new().prefix("cfdp-verif-daemon-").tempdir().expect("tempdir");
    let base = Utf8PathBuf::from_path_buf(td.path().to_path_buf()).unwrap();
    let new_rt = || tokio::runtime::Builder::new_current_thread().enable_time().start_paused(true).build().unwrap();
    let mut rng = Rng::new(opts.seed, "daemon");
    let mut viol = 0u64;
    let mut scenarios = 0u64;
    let mut tally: BTreeMap<&'static str, u64> = BTreeMap::new();
    let n_c02 = if opts.thorough { 400 } else { 40 };
    let n_c11 = if opts.thorough { 150 } else { 15 };
    // ---- C02: one acknowledged transfer, up to limit-1 faults over the first PDUs of each direction
    for k in 0..n_c02 {
        let cfg = gen_cfg(&mut rng);
        let segu = cfg.seg as usize;
        let len = *rng.pick(&[0usize, 1, segu - 1, segu, segu + 1, 3 * segu, 5 * segu + 7]);
        let file = lin(len, rng.range(1, 50), rng.below(256));
        let nfaults = rng.below(cfg.max as u64); // < limit
        let mut plan = BTreeMap::new();
        for _ in 0..nfaults {
            let from = *rng.pick(&[1u16, 1, 2]);
            let idx = rng.below(if from == 1 { (len / segu) as u64 + 4 } else { 4 });
            let f = match rng.below(3) {
                0 => Fault::Drop,
                1 => Fault::Dup,
                _ => Fault::Delay(*rng.pick(&[50u64, 200, 450])),
            };
            plan.insert((from, idx), f);
        }
        let mut kplan = BTreeMap::new();
        if rng.chance(1, 2) {
            // aim at specific PDU kinds instead: up to limit-1 faults, possibly several on the same
            // retransmitted PDU (its first, second ... transmission)
            plan.clear();
            let kinds: [(u16, &'static str); 7] = [(1, "md"), (1, "data"), (1, "eof"), (2, "ack"), (2, "nak"), (2, "fin"), (1, "ack")];
            let (from, kind) = *rng.pick(&kinds);
            for occ in 0..nfaults {
                let (f2, k2) = if rng.chance(2, 3) { (from, kind) } else { *rng.pick(&kinds) };
                let f = match rng.below(4) {
                    0 | 1 => Fault::Drop,
                    2 => Fault::Dup,
                    _ => Fault::Delay(*rng.pick(&[50u64, 200, 450])),
                };
                kplan.insert((f2, k2, if (f2, k2) == (from, kind) { occ } else { rng.below(2) }), f);
            }
        }
        let tag = format!("c02-{}-seed{}", k, opts.seed);
        let sc = Scenario {
            horizon_s: (cfg.max as u64 + 2) * (cfg.ti + cfg.ta + cfg.tn) as u64 * 3 + 20,
            cfg,
            jobs: vec![Job { from: 1, to: 2, mode: TransmissionMode::Acknowledged, file, src: "src0.bin".into(), dst: "dst0.bin".into(), id: None, ghost: false, cmd: JobCmd::None }],
            plan,
            kplan,
            strays: vec![],
            isolation: false,
            stalled_peer: false,
            slow_ms: 0,
            early_exit: false,
            bounded: true,
        };
        scenarios += 1;
        {
            // a fresh runtime per scenario: dropping it drops every task the daemons spawned
            let rt = new_rt();
            rt.block_on(run_scenario(out, &mut viol, &base, sc, &tag, &mut tally));
        }
    }
    // ---- C11: several concurrent transactions in both directions, mixed modes, strays and replays
    for k in 0..n_c11 {
        let cfg = gen_cfg(&mut rng);
        let segu = cfg.seg as usize;
        let njobs = 2 + rng.below(5) as usize;
        let mut jobs = vec![];
        for i in 0..njobs {
            let from = if rng.chance(1, 2) { 1 } else { 2 };
            // one transfer in four scenarios is long: more PDUs in one burst than a transaction's
            // command channel holds (back-pressure between the daemon's router and the task)
            let len = if i == 0 && k % 4 == 1 { 150 * segu + 5 } else { *rng.pick(&[0usize, 1, segu, 2 * segu + 3, 6 * segu]) };
            jobs.push(Job {
                from,
                to: 3 - from,
                mode: if rng.chance(2, 3) { TransmissionMode::Acknowledged } else { TransmissionMode::Unacknowledged },
                file: lin(len, 3 + i as u64, 17 * i as u64 + rng.below(7)),
                src: format!("src{}.bin", i),
                dst: format!("dst{}.bin", i),
                id: None,
                // one Put in six names a source file that does not exist
                ghost: rng.chance(1, 6),
                cmd: JobCmd::None,
            });
        }
        // user commands through the daemons: in every third scenario one transfer is cancelled or suspended
        // right after its Put (a file of six segments in acknowledged mode, so that it cannot be over before
        // the command is seen), and in every second one some transfer is asked for a report
        if k % 3 == 0 {
            if let Some(c) = jobs.iter().position(|j| !j.ghost) {
                jobs[c].mode = TransmissionMode::Acknowledged;
                jobs[c].file = lin(6 * segu, 5, 31 + k as u64);
                jobs[c].cmd = match rng.below(3) {
                    0 => JobCmd::CancelAtPut,
                    1 => JobCmd::SuspendAtPut { resume_ms: 1500 },
                    _ => JobCmd::CancelAtRecv(100),
                };
            }
        }
        if k % 2 == 0 {
            if let Some(c) = jobs.iter().rposition(|j| !j.ghost && j.cmd == JobCmd::None) {
                jobs[c].cmd = JobCmd::ReportAt(rng.below(300));
            }
        }
        let mut strays = vec![];
        let fin = |c: Condition, d: DeliveryCode| PDUPayload::Directive(Operations::Finished(Finished { condition: c, delivery_code: d, file_status: FileStatusCode::Retained, filestore_response: vec![], fault_location: None }));
        for _ in 0..(2 + rng.below(5)) {
            let kind = rng.below(18);
            let at = if kind >= 15 { rng.below(3000) } else if kind >= 12 { rng.below(700) } else if kind >= 9 { rng.below(3000) } else if kind >= 4 { rng.below(700) } else { rng.below(3000) };
            let job = rng.below(njobs as u64) as usize;
            // colliding strays go where the transaction they collide with lives
            let to = match kind {
                4..=6 | 9..=11 => jobs[job].from,
                7 | 8 | 12..=14 => jobs[job].to,
                _ => *rng.pick(&[1u16, 2]),
            };
            let foreign = *rng.pick(&[3u16, 77]);
            let (p, seq_of) = match kind {
                // a response addressed to a sender that does not exist
                0 => (mk_pdu(Direction::ToSender, TransmissionMode::Acknowledged, to, 900 + rng.below(50) as u16, 3 - to, fin(Condition::NoError, DeliveryCode::Complete)), None),
                // a PDU naming an entity without transport
                1 => (mk_pdu(Direction::ToReceiver, TransmissionMode::Acknowledged, 77, 5, to, PDUPayload::Directive(Operations::EoF(EndOfFile { condition: Condition::NoError, checksum: 0, file_size: 0, fault_location: None }))), None),
                // a stray that legitimately starts a receive transaction which nobody continues
                2 => (mk_pdu(Direction::ToReceiver, TransmissionMode::Acknowledged, 3 - to, 700 + rng.below(50) as u16, to, PDUPayload::FileData(FileDataPDU::Unsegmented(UnsegmentedFileData { offset: 0, file_data: vec![1, 2, 3] }))), None),
                3 => (mk_pdu(Direction::ToReceiver, TransmissionMode::Unacknowledged, 3 - to, 800 + rng.below(50) as u16, to, PDUPayload::Directive(Operations::EoF(EndOfFile { condition: Condition::NoError, checksum: 0, file_size: 0, fault_location: None }))), None),
                // responses of a foreign entity's transaction whose sequence number collides with a live send transaction here
                4 => (mk_pdu(Direction::ToSender, TransmissionMode::Acknowledged, foreign, 0, to, fin(Condition::FileChecksumFailure, DeliveryCode::Incomplete)), Some(job)),
                5 => (mk_pdu(Direction::ToSender, TransmissionMode::Acknowledged, foreign, 0, to, fin(Condition::CancelReceived, DeliveryCode::Incomplete)), Some(job)),
                6 => (mk_pdu(Direction::ToSender, TransmissionMode::Acknowledged, foreign, 0, to, PDUPayload::Directive(Operations::Ack(PositiveAcknowledgePDU { directive: PDUDirective::EoF, directive_subtype_code: ACKSubDirective::Other, condition: Condition::NoError, transaction_status: TransactionStatus::Active }))), Some(job)),
                // file data / a cancelling EOF of a foreign entity's transaction with a colliding sequence number
                7 => (mk_pdu(Direction::ToReceiver, TransmissionMode::Acknowledged, foreign, 0, to, PDUPayload::FileData(FileDataPDU::Unsegmented(UnsegmentedFileData { offset: 0, file_data: vec![0xEE; 9] }))), Some(job)),
                8 => (mk_pdu(Direction::ToReceiver, TransmissionMode::Acknowledged, foreign, 0, to, PDUPayload::Directive(Operations::EoF(EndOfFile { condition: Condition::CancelReceived, checksum: 0, file_size: 0, fault_location: Some(vid(foreign)) }))), Some(job)),
                // a PDU of one of this daemon's own send transactions reflected back to it (source = the daemon itself),
                // while the transaction runs, just after it ended, or long after
                9 => (mk_pdu(Direction::ToReceiver, jobs[job].mode, to, 0, 3 - to, PDUPayload::FileData(FileDataPDU::Unsegmented(UnsegmentedFileData { offset: 0, file_data: vec![0xAB; 5] }))), Some(job)),
                10 => (mk_pdu(Direction::ToReceiver, jobs[job].mode, to, 0, 3 - to, PDUPayload::Directive(Operations::EoF(EndOfFile { condition: Condition::NoError, checksum: 0, file_size: 0, fault_location: None }))), Some(job)),
                11 => (mk_pdu(Direction::ToReceiver, jobs[job].mode, to, 0, 3 - to, PDUPayload::Directive(Operations::Ack(PositiveAcknowledgePDU { directive: PDUDirective::Finished, directive_subtype_code: ACKSubDirective::Finished, condition: Condition::NoError, transaction_status: TransactionStatus::Terminated }))), Some(job)),
                // a PDU of the receiving side of a live transaction reflected back to the receiving daemon (source = the sender,
                // direction towards the sender): a Finished PDU, an ACK(EOF), a keep-alive - nothing a receive transaction expects
                12 => (mk_pdu(Direction::ToSender, jobs[job].mode, 3 - to, 0, to, fin(Condition::NoError, DeliveryCode::Complete)), Some(job)),
                13 => (mk_pdu(Direction::ToSender, jobs[job].mode, 3 - to, 0, to, PDUPayload::Directive(Operations::Ack(PositiveAcknowledgePDU { directive: PDUDirective::EoF, directive_subtype_code: ACKSubDirective::Other, condition: Condition::NoError, transaction_status: TransactionStatus::Active }))), Some(job)),
                14 => (mk_pdu(Direction::ToSender, jobs[job].mode, 3 - to, 0, to, PDUPayload::Directive(Operations::KeepAlive(KeepAlivePDU { progress: 3 }))), Some(job)),
                // a PDU of a foreign entity's transaction towards the peer, misdelivered here: its source has no transport at this
                // daemon (the PDU must be dropped), its addressee - the peer - has one
                16 => (mk_pdu(Direction::ToReceiver, TransmissionMode::Acknowledged, 77, 40 + rng.below(20) as u16, 3 - to, PDUPayload::Directive(Operations::EoF(EndOfFile { condition: Condition::NoError, checksum: 0, file_size: 0, fault_location: None }))), None),
                17 => (mk_pdu(Direction::ToReceiver, TransmissionMode::Unacknowledged, 77, 40 + rng.below(20) as u16, 3 - to, PDUPayload::FileData(FileDataPDU::Unsegmented(UnsegmentedFileData { offset: 0, file_data: vec![7; 3] }))), None),
                // a response of a foreign entity's transaction addressed to the peer, misdelivered here: no such transaction, a
                // transport for the addressee exists
                _ => (mk_pdu(Direction::ToSender, TransmissionMode::Acknowledged, foreign, 600 + rng.below(50) as u16, 3 - to, fin(Condition::NoError, DeliveryCode::Complete)), None),
            };
            strays.push((at, to, p, seq_of));
        }
        // every scenario has PDUs of the receiving side of its transactions reflected back to the receiving daemon while the
        // receive transaction is (most likely) alive: nothing a receive transaction expects, and nothing that may end it
        for i in 0..3u64 {
            let job = rng.below(njobs as u64) as usize;
            let to = jobs[job].to;
            let at = match i { 0 => rng.below(60), 1 => 60 + rng.below(200), _ => 260 + rng.below(400) };
            let p = match rng.below(3) {
                0 => mk_pdu(Direction::ToSender, jobs[job].mode, 3 - to, 0, to, fin(Condition::NoError, DeliveryCode::Complete)),
                1 => mk_pdu(Direction::ToSender, jobs[job].mode, 3 - to, 0, to, PDUPayload::Directive(Operations::Ack(PositiveAcknowledgePDU { directive: PDUDirective::EoF, directive_subtype_code: ACKSubDirective::Other, condition: Condition::NoError, transaction_status: TransactionStatus::Active }))),
                _ => mk_pdu(Direction::ToSender, jobs[job].mode, 3 - to, 0, to, PDUPayload::Directive(Operations::KeepAlive(KeepAlivePDU { progress: 3 }))),
            };
            strays.push((at, to, p, Some(job)));
        }
        // every scenario has a stray that starts a receive transaction which nobody continues, in either mode
        {
            let to = *rng.pick(&[1u16, 2]);
            let p = if rng.chance(1, 2) {
                mk_pdu(Direction::ToReceiver, TransmissionMode::Acknowledged, 3 - to, 750 + rng.below(50) as u16, to, PDUPayload::FileData(FileDataPDU::Unsegmented(UnsegmentedFileData { offset: 0, file_data: vec![1, 2, 3] })))
            } else {
                mk_pdu(Direction::ToReceiver, TransmissionMode::Acknowledged, 3 - to, 750 + rng.below(50) as u16, to, PDUPayload::Directive(Operations::EoF(EndOfFile { condition: Condition::NoError, checksum: 0, file_size: 3, fault_location: None })))
            };
            strays.push((rng.below(1000), to, p, None));
        }
        // every scenario has PDUs of the daemons' own send transactions reflected back to their originators, spread over the
        // time in which those transactions end and their entries are cleaned up (at most 1 s later)
        for _ in 0..3 {
            let job = rng.below(njobs as u64) as usize;
            let to = jobs[job].from;
            let at = rng.below(1800);
            let p = if rng.chance(1, 2) {
                mk_pdu(Direction::ToReceiver, jobs[job].mode, to, 0, 3 - to, PDUPayload::FileData(FileDataPDU::Unsegmented(UnsegmentedFileData { offset: 0, file_data: vec![0xAB; 5] })))
            } else {
                mk_pdu(Direction::ToReceiver, jobs[job].mode, to, 0, 3 - to, PDUPayload::Directive(Operations::EoF(EndOfFile { condition: Condition::NoError, checksum: 0, file_size: 0, fault_location: None })))
            };
            strays.push((at, to, p, Some(job)));
        }
        // keep the transactions alive for a while (nothing is lost): the EOF, Finished and ACK PDUs are late
        let mut kplan = BTreeMap::new();
        for (from, kind) in [(1u16, "eof"), (2, "eof"), (1, "fin"), (2, "fin"), (1, "ack"), (2, "ack")] {
            for occ in 0..njobs as u64 {
                if rng.chance(1, 2) {
                    kplan.insert((from, kind, occ), Fault::Delay(*rng.pick(&[200u64, 450, 700])));
                }
            }
        }
        if let Some(j) = jobs.iter().find(|j| matches!(j.cmd, JobCmd::CancelAtRecv(_))) {
            // every EOF of that sending entity stays on the link for 450 ms: the Cancel at the receiver comes first
            for occ in 0..(njobs as u64 + 4) {
                kplan.insert((j.from, "eof", occ), Fault::Delay(450));
            }
        }
        let tag = format!("c11-{}-seed{}", k, opts.seed);
        let sc = Scenario {
            horizon_s: (cfg.max as u64 + 2) * (cfg.ti + cfg.ta + cfg.tn) as u64 * 3 + 20,
            cfg,
            jobs,
            plan: BTreeMap::new(),
            kplan,
            strays,
            isolation: true,
            stalled_peer: false,
            slow_ms: 0,
            early_exit: false,
            bounded: true,
        };
        scenarios += 1;
        {
            // a fresh runtime per scenario: dropping it drops every task the daemons spawned
            let rt = new_rt();
            rt.block_on(run_scenario(out, &mut viol, &base, sc, &tag, &mut tally));
        }
    }
    // ---- C11, back-pressure: real time, several worker threads, a receiver whose filestore is slow to
    // hand out the scratch file, so the PDUs of a long transfer pile up behind its receive transaction
    // (more than its command channel holds) while a short transfer runs next to it.  Nothing is lost.
    let n_burst = if opts.thorough { 4 } else { 1 };
    for k in 0..n_burst {
        let cfg = Cfg { seg: 64, max: 3, ti: 20, ta: 20, tn: 20, crc: rng.chance(1, 2), closure: false, nak: NakProcedure::Deferred(Duration::ZERO) };
        let jobs = vec![
            Job { from: 1, to: 2, mode: TransmissionMode::Unacknowledged, file: lin(150 * 64 + 5 + 64 * rng.below(40) as usize, 7, 3), src: "long.bin".into(), dst: "long.out".into(), id: None, ghost: false, cmd: JobCmd::None },
            Job { from: 1, to: 2, mode: if rng.chance(1, 2) { TransmissionMode::Acknowledged } else { TransmissionMode::Unacknowledged }, file: lin(700, 11, 5), src: "short.bin".into(), dst: "short.out".into(), id: None, ghost: false, cmd: JobCmd::None },
        ];
        let tag = format!("c11-burst-{}-seed{}", k, opts.seed);
        let sc = Scenario { horizon_s: 15, cfg, jobs, plan: BTreeMap::new(), kplan: BTreeMap::new(), strays: vec![], isolation: true, stalled_peer: false, slow_ms: 400, early_exit: true, bounded: true };
        scenarios += 1;
        {
            let rt = tokio::runtime::Builder::new_multi_thread().worker_threads(4).enable_time().build().unwrap();
            rt.block_on(run_scenario(out, &mut viol, &base, sc, &tag, &mut tally));
        }
    }
    // ---- C11, a stalled peer: both daemons also talk to entity 3, whose link has stalled (requests never complete).
    // A transaction of entity 3 is kept busy at one daemon by a burst of replayed EOFs - more than a transaction's
    // command channel holds - and cannot get a single answer out; the transfers between 1 and 2 must not notice.
    let n_stall = if opts.thorough { 30 } else { 4 };
    for k in 0..n_stall {
        let cfg = gen_cfg(&mut rng);
        let segu = cfg.seg as usize;
        let mut jobs = vec![];
        for i in 0..2 + rng.below(2) as usize {
            let from = if i == 0 { 1 } else if i == 1 { 2 } else { *rng.pick(&[1u16, 2]) };
            jobs.push(Job {
                from,
                to: 3 - from,
                mode: if rng.chance(2, 3) { TransmissionMode::Acknowledged } else { TransmissionMode::Unacknowledged },
                file: lin(*rng.pick(&[1usize, segu, 2 * segu + 3, 6 * segu]), 3 + i as u64, 29 * i as u64 + rng.below(7)),
                src: format!("src{}.bin", i),
                dst: format!("dst{}.bin", i),
                id: None,
                ghost: false,
                cmd: JobCmd::None,
            });
        }
        let victim = *rng.pick(&[1u16, 2]);
        let mode = if rng.chance(3, 4) { TransmissionMode::Acknowledged } else { TransmissionMode::Unacknowledged };
        let burst = 120 + rng.below(300);
        let mut strays = vec![];
        for i in 0..burst {
            let p = if i % 7 == 3 {
                mk_pdu(Direction::ToReceiver, mode, 3, 7, victim, PDUPayload::FileData(FileDataPDU::Unsegmented(UnsegmentedFileData { offset: 0, file_data: vec![0x5A; 4] })))
            } else {
                mk_pdu(Direction::ToReceiver, mode, 3, 7, victim, PDUPayload::Directive(Operations::EoF(EndOfFile { condition: Condition::NoError, checksum: 0, file_size: 4, fault_location: None })))
            };
            strays.push((i / 100, victim, p, None));
        }
        let tag = format!("c11-stall-{}-seed{}", k, opts.seed);
        let sc = Scenario {
            horizon_s: (cfg.max as u64 + 2) * (cfg.ti + cfg.ta + cfg.tn) as u64 * 3 + 20,
            cfg,
            jobs,
            plan: BTreeMap::new(),
            kplan: BTreeMap::new(),
            strays,
            isolation: true,
            stalled_peer: true,
            slow_ms: 0,
            early_exit: false,
            bounded: true,
        };
        scenarios += 1;
        {
            let rt = new_rt();
            rt.block_on(run_scenario(out, &mut viol, &base, sc, &tag, &mut tally));
        }
    }
    let t: Vec<String> = tally.iter().map(|(k, v)| format!("{}={}", k, v)).collect();
    stat(out, &format!("engine=daemon scenarios={} oracle_violations={} {}", scenarios, viol, t.join(" ")));
}
