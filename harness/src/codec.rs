//! Engine `codec`: PDU encode/decode (cfdp-core/src/pdu*.rs), C05 C06 C15.
//!
//! op:     codec pdu <hex>
//! answer: ok <repr> elen=<encoded_len()> re=<hex of re-encoding> | err:<PDUError variant> | panic
//! The model decodes the same bytes, prints the same repr and re-encodes.
//!
//! oracles (implementation only):
//!   C05 roundtrip / length for every generated well-formed value
//!   C06 no panic, no allocation above the bound, canonical acceptance
//!   C15 CRC-detectable error patterns are rejected or decode to the original

use std::io::Write;
use std::panic::{catch_unwind, AssertUnwindSafe};
use std::sync::atomic::Ordering;

use camino::Utf8PathBuf;
use cfdp_core::filestore::ChecksumType;
use cfdp_core::pdu::*;

use crate::util::*;
use crate::{Opts, MAX_ALLOC};

// ---------------------------------------------------------------- canonical rendering

pub fn id_repr(id: &VariableID) -> String {
    match id {
        VariableID::U8(v) => format!("1:{}", v),
        VariableID::U16(v) => format!("2:{}", v),
        VariableID::U32(v) => format!("4:{}", v),
        VariableID::U64(v) => format!("8:{}", v),
    }
}
fn opt_id(id: &Option<VariableID>) -> String {
    id.as_ref().map_or("-".to_string(), id_repr)
}
fn hx(b: &[u8]) -> String {
    hex(b)
}
fn action_code(a: &FileStoreAction) -> u8 {
    a.clone() as u8
}
fn resp_repr(r: &FileStoreResponse) -> String {
    format!(
        "R[{},{},{},{}]",
        r.action_and_status.as_u8(),
        hx(r.first_filename.as_str().as_bytes()),
        hx(r.second_filename.as_str().as_bytes()),
        hx(&r.filestore_message)
    )
}
fn req_repr(r: &FileStoreRequest) -> String {
    format!(
        "REQ[{},{},{}]",
        action_code(&r.action_code),
        hx(r.first_filename.as_str().as_bytes()),
        hx(r.second_filename.as_str().as_bytes())
    )
}
fn tlv_repr(t: &MetadataTLV) -> String {
    match t {
        MetadataTLV::FileStoreRequest(r) => req_repr(r),
        MetadataTLV::FileStoreResponse(r) => resp_repr(r),
        MetadataTLV::MessageToUser(m) => format!("MSG[{}]", hx(&m.message_text)),
        MetadataTLV::FaultHandlerOverride(f) => format!("FHO[{}]", f.fault_handler_code.clone() as u8),
        MetadataTLV::FlowLabel(f) => format!("FL[{}]", hx(&f.value)),
        MetadataTLV::EntityID(i) => format!("EID[{}]", id_repr(i)),
    }
}
pub fn header_repr(h: &PDUHeader) -> String {
    format!(
        "H[{},{},{},{},{},{},{},{},{},{},{},{}]",
        h.version.clone() as u8,
        h.pdu_type.clone() as u8,
        h.direction.clone() as u8,
        h.transmission_mode as u8,
        h.crc_flag as u8,
        h.large_file_flag as u8,
        h.pdu_data_field_length,
        h.segmentation_control as u8,
        h.segment_metadata_flag as u8,
        id_repr(&h.source_entity_id),
        id_repr(&h.transaction_sequence_number),
        id_repr(&h.destination_entity_id)
    )
}
pub fn payload_repr(p: &PDUPayload) -> String {
    match p {
        PDUPayload::FileData(FileDataPDU::Unsegmented(d)) => format!("FD[{},{}]", d.offset, hx(&d.file_data)),
        PDUPayload::FileData(FileDataPDU::Segmented(d)) => format!(
            "FDS[{},{},{},{}]",
            d.record_continuation_state.clone() as u8,
            hx(&d.segment_metadata),
            d.offset,
            hx(&d.file_data)
        ),
        PDUPayload::Directive(op) => match op {
            Operations::EoF(e) => format!("EOF[{},{},{},{}]", e.condition as u8, e.checksum, e.file_size, opt_id(&e.fault_location)),
            Operations::Finished(f) => format!(
                "FIN[{},{},{},{{{}}},{}]",
                f.condition as u8,
                f.delivery_code as u8,
                f.file_status as u8,
                f.filestore_response.iter().map(resp_repr).collect::<Vec<_>>().join(";"),
                opt_id(&f.fault_location)
            ),
            Operations::Ack(a) => format!(
                "ACK[{},{},{},{}]",
                a.directive.clone() as u8,
                a.directive_subtype_code.clone() as u8,
                a.condition as u8,
                a.transaction_status as u8
            ),
            Operations::Metadata(m) => format!(
                "MD[{},{},{},{},{},{{{}}}]",
                m.closure_requested as u8,
                m.checksum_type as u8,
                m.file_size,
                hx(m.source_filename.as_str().as_bytes()),
                hx(m.destination_filename.as_str().as_bytes()),
                m.options.iter().map(tlv_repr).collect::<Vec<_>>().join(";")
            ),
            Operations::Nak(n) => format!(
                "NAK[{},{},{{{}}}]",
                n.start_of_scope,
                n.end_of_scope,
                n.segment_requests.iter().map(|s| format!("{}-{}", s.start_offset, s.end_offset)).collect::<Vec<_>>().join(";")
            ),
            Operations::Prompt(p) => format!("PROMPT[{}]", p.nak_or_keep_alive as u8),
            Operations::KeepAlive(k) => format!("KA[{}]", k.progress),
        },
    }
}
pub fn pdu_repr(p: &PDU) -> String {
    format!("{} {}", header_repr(&p.header), payload_repr(&p.payload))
}

pub fn err_name(e: &PDUError) -> &'static str {
    match e {
        PDUError::MessageType(_) => "MessageType",
        PDUError::UnexpectedMessage(..) => "UnexpectedMessage",
        PDUError::UnexpectedIdentifier(..) => "UnexpectedIdentifier",
        PDUError::InvalidCondition(_) => "InvalidCondition",
        PDUError::InvalidChecksumType(_) => "InvalidChecksumType",
        PDUError::InvalidDirection(_) => "InvalidDirection",
        PDUError::InvalidDirective(_) => "InvalidDirective",
        PDUError::InvalidDeliveryCode(_) => "InvalidDeliveryCode",
        PDUError::InvalidState(_) => "InvalidState",
        PDUError::InvalidFileStatus(_) => "InvalidFileStatus",
        PDUError::InvalidTraceControl(_) => "InvalidTraceControl",
        PDUError::InvalidTransmissionMode(_) => "InvalidTransmissionMode",
        PDUError::InvalidSegmentControl(_) => "InvalidSegmentControl",
        PDUError::InvalidTransactionStatus(_) => "InvalidTransactionStatus",
        PDUError::InvalidFileStoreAction(_) => "InvalidFileStoreAction",
        PDUError::InvalidFileStoreStatus(..) => "InvalidFileStoreStatus",
        PDUError::InvalidFaultHandlerCode(_) => "InvalidFaultHandlerCode",
        PDUError::InvalidACKDirectiveSubType(_) => "InvalidACKDirectiveSubType",
        PDUError::InvalidPrompt(_) => "InvalidPrompt",
        PDUError::InvalidVersion(_) => "InvalidVersion",
        PDUError::InvalidPDUType(_) => "InvalidPDUType",
        PDUError::InvalidCRCFlag(_) => "InvalidCRCFlag",
        PDUError::InvalidFileSizeFlag(_) => "InvalidFileSizeFlag",
        PDUError::InvalidSegmentMetadataFlag(_) => "InvalidSegmentMetadataFlag",
        PDUError::CRCFailure(..) => "CRCFailure",
        PDUError::ReadError(_) => "ReadError",
        PDUError::UnknownIDLength(_) => "UnknownIDLength",
        PDUError::InvalidFileName(_) => "InvalidFileName",
        PDUError::InvalidListingCode(_) => "InvalidListingCode",
    }
}

// ---------------------------------------------------------------- decoding one byte string

pub enum Outcome {
    Ok(PDU),
    Err(&'static str),
    Panic,
}

/// decode with panic capture; records the largest single allocation made during the call
pub fn decode_bytes(bytes: &[u8]) -> (Outcome, usize) {
    MAX_ALLOC.store(0, Ordering::Relaxed);
    let r = catch_unwind(AssertUnwindSafe(|| PDU::decode(&mut &bytes[..])));
    let max = MAX_ALLOC.load(Ordering::Relaxed);
    match r {
        Ok(Ok(p)) => (Outcome::Ok(p), max),
        Ok(Err(e)) => (Outcome::Err(err_name(&e)), max),
        Err(_) => (Outcome::Panic, max),
    }
}

/// `encode()` of an accepted PDU with its length field recomputed
fn relen(p: &PDU) -> PDU {
    let mut q = p.clone();
    q.header.pdu_data_field_length = q.payload.clone().encoded_len(q.header.large_file_flag);
    q
}

pub struct Ctx<'a> {
    pub out: &'a mut dyn Write,
    pub viol06: u64,
    pub viol05: u64,
    pub viol15: u64,
    pub n_ok: u64,
    pub n_err: u64,
    pub errs: std::collections::BTreeMap<&'static str, u64>,
    pub kinds: std::collections::BTreeMap<String, u64>,
}

pub const ALLOC_BOUND: usize = 256 * 1024;

impl<'a> Ctx<'a> {
    pub fn new(out: &'a mut dyn Write) -> Self {
        Ctx { out, viol06: 0, viol05: 0, viol15: 0, n_ok: 0, n_err: 0, errs: Default::default(), kinds: Default::default() }
    }

    /// one `codec pdu <hex>` record + the C06 oracle
    pub fn pdu_op(&mut self, bytes: &[u8]) -> Outcome {
        let op = format!("codec pdu {}", hex(bytes));
        let (o, max_alloc) = decode_bytes(bytes);
        match &o {
            Outcome::Ok(p) => {
                self.n_ok += 1;
                let kind = payload_repr(&p.payload);
                let kind = kind.split('[').next().unwrap().to_string();
                *self.kinds.entry(kind).or_insert(0) += 1;
                let elen = catch_unwind(AssertUnwindSafe(|| p.encoded_len()));
                let re = catch_unwind(AssertUnwindSafe(|| p.clone().encode()));
                match (elen, re) {
                    (Ok(elen), Ok(re)) => {
                        rec(self.out, &op, &format!("ok {} elen={} re={}", pdu_repr(p), elen, hex(&re)));
                    }
                    _ => {
                        rec(self.out, &op, &format!("ok {} reencode-panic", pdu_repr(p)));
                        self.viol06 += 1;
                        oracle(self.out, "C06", "canonical", &format!("re-encoding an accepted PDU panicked || ops: {}", op));
                    }
                }
                // canonical acceptance
                let q = relen(p);
                let r2 = catch_unwind(AssertUnwindSafe(|| PDU::decode(&mut &q.clone().encode()[..])));
                match r2 {
                    Ok(Ok(p2)) if p2 == q => {}
                    Ok(Ok(p2)) => {
                        self.viol06 += 1;
                        oracle(self.out, "C06", "canonical", &format!("accepted `{}` re-encodes to a PDU that decodes as `{}` || ops: {}", pdu_repr(&q), pdu_repr(&p2), op));
                    }
                    Ok(Err(e)) => {
                        self.viol06 += 1;
                        oracle(self.out, "C06", "canonical", &format!("accepted `{}` but its re-encoding is rejected ({}) || ops: {}", pdu_repr(&q), err_name(&e), op));
                    }
                    Err(_) => {
                        self.viol06 += 1;
                        oracle(self.out, "C06", "canonical", &format!("decoding the re-encoding panicked || ops: {}", op));
                    }
                }
            }
            Outcome::Err(e) => {
                self.n_err += 1;
                *self.errs.entry(e).or_insert(0) += 1;
                rec(self.out, &op, &format!("err:{}", e));
            }
            Outcome::Panic => {
                rec(self.out, &op, "panic");
                self.viol06 += 1;
                oracle(self.out, "C06", "total", &format!("PDU::decode panicked || ops: {}", op));
            }
        }
        if max_alloc > ALLOC_BOUND {
            self.viol06 += 1;
            oracle(self.out, "C06", "alloc", &format!("a single allocation of {} bytes during decode || ops: {}", max_alloc, op));
        }
        o
    }

    /// C05 oracle for a generated well-formed value (also emits the correspondence record)
    pub fn roundtrip(&mut self, p: &PDU) -> Vec<u8> {
        let enc = catch_unwind(AssertUnwindSafe(|| p.clone().encode()));
        let enc = match enc {
            Ok(e) => e,
            Err(_) => {
                self.viol05 += 1;
                oracle(self.out, "C05", "encode_panic", &format!("encode panicked for `{}`", pdu_repr(p)));
                return vec![];
            }
        };
        let announced = p.encoded_len() as usize + if p.header.crc_flag == CRCFlag::Present { 2 } else { 0 };
        if announced != enc.len() {
            self.viol05 += 1;
            oracle(self.out, "C05", "len", &format!("encoded_len {} but {} bytes produced for `{}` || ops: codec pdu {}", announced, enc.len(), pdu_repr(p), hex(&enc)));
        }
        // the same value with its length field taken from the bytes the payload really encodes to: when the announced
        // length is wrong the encoding above is not a PDU at all, and this one is what a correct peer would put on the
        // wire - it goes through the C06 oracles (accepted => canonical) like any other byte string
        let actual = catch_unwind(AssertUnwindSafe(|| p.payload.clone().encode(p.header.large_file_flag).len()));
        if let Ok(actual) = actual {
            if actual <= u16::MAX as usize && actual as u16 != p.header.pdu_data_field_length {
                let mut w = p.clone();
                w.header.pdu_data_field_length = actual as u16;
                if let Ok(wire) = catch_unwind(AssertUnwindSafe(|| w.encode())) {
                    let _ = self.pdu_op(&wire);
                }
            }
        }
        match self.pdu_op(&enc) {
            Outcome::Ok(q) => {
                if &q != p {
                    self.viol05 += 1;
                    oracle(self.out, "C05", "roundtrip", &format!("`{}` decodes as `{}` || ops: codec pdu {}", pdu_repr(p), pdu_repr(&q), hex(&enc)));
                }
            }
            Outcome::Err(e) => {
                self.viol05 += 1;
                oracle(self.out, "C05", "roundtrip", &format!("`{}` is rejected ({}) || ops: codec pdu {}", pdu_repr(p), e, hex(&enc)));
            }
            Outcome::Panic => {
                self.viol05 += 1;
                oracle(self.out, "C05", "roundtrip", &format!("decoding `{}` panicked || ops: codec pdu {}", pdu_repr(p), hex(&enc)));
            }
        }
        enc
    }
}

// ---------------------------------------------------------------- value generators

pub fn gen_id(rng: &mut Rng, width: u8) -> VariableID {
    let r = rng.next();
    let pick = |max: u64| -> u64 {
        match r % 5 {
            0 => 0,
            1 => max,
            2 => 1,
            _ => (r >> 8) % max.max(1),
        }
    };
    match width {
        1 => VariableID::U8(pick(u8::MAX as u64) as u8),
        2 => VariableID::U16(pick(u16::MAX as u64) as u16),
        4 => VariableID::U32(pick(u32::MAX as u64) as u32),
        _ => VariableID::U64(pick(u64::MAX)),
    }
}
const WIDTHS: [u8; 4] = [1, 2, 4, 8];

pub const CONDITIONS: [Condition; 14] = [
    Condition::NoError,
    Condition::PositiveLimitReached,
    Condition::KeepAliveLimitReached,
    Condition::InvalidTransmissionMode,
    Condition::FileStoreRejection,
    Condition::FileChecksumFailure,
    Condition::FilesizeError,
    Condition::NakLimitReached,
    Condition::InactivityDetected,
    Condition::InvalidFileStructure,
    Condition::CheckLimitReached,
    Condition::UnsupportedChecksumType,
    Condition::SuspendReceived,
    Condition::CancelReceived,
];
const VERSIONS: [U3; 8] = [U3::Zero, U3::One, U3::Two, U3::Three, U3::Four, U3::Five, U3::Six, U3::Seven];
const TSTATUS: [TransactionStatus; 4] = [TransactionStatus::Undefined, TransactionStatus::Active, TransactionStatus::Terminated, TransactionStatus::Unrecognized];
const FSTATUS: [FileStatusCode; 4] = [FileStatusCode::Discarded, FileStatusCode::FileStoreRejection, FileStatusCode::Retained, FileStatusCode::Unreported];
pub const ACTIONS: [FileStoreAction; 9] = [
    FileStoreAction::CreateFile,
    FileStoreAction::DeleteFile,
    FileStoreAction::RenameFile,
    FileStoreAction::AppendFile,
    FileStoreAction::ReplaceFile,
    FileStoreAction::CreateDirectory,
    FileStoreAction::RemoveDirectory,
    FileStoreAction::DenyFile,
    FileStoreAction::DenyDirectory,
];

fn gen_name(rng: &mut Rng) -> Utf8PathBuf {
    let choices = ["", "a", "dir/file.txt", "/abs/p", "é/ü", "../x", "name with space"];
    match rng.below(10) {
        0 => Utf8PathBuf::from("x".repeat(255)),
        1 => Utf8PathBuf::from("y".repeat(254)),
        2 => Utf8PathBuf::from("é".repeat(127)),
        _ => Utf8PathBuf::from(*rng.pick(&choices)),
    }
}
fn gen_blob(rng: &mut Rng, max: usize) -> Vec<u8> {
    let n = match rng.below(8) {
        0 => 0,
        1 => max,
        2 => max.saturating_sub(1),
        3 => 1,
        _ => rng.below(12) as usize,
    };
    rng.bytes(n.min(max))
}
pub fn all_statuses(action: &FileStoreAction) -> Vec<FileStoreStatus> {
    (0u8..16).filter_map(|s| FileStoreStatus::get_status(action, s).ok()).collect()
}
fn gen_response(rng: &mut Rng, small: bool) -> FileStoreResponse {
    let a = rng.pick(&ACTIONS).clone();
    let sts = all_statuses(&a);
    let st = *rng.pick(&sts);
    let (n1, n2, msg) = if small {
        let k = rng.below(4) as usize;
        (Utf8PathBuf::from(*rng.pick(&["", "a", "d/e"])), Utf8PathBuf::from(*rng.pick(&["", "b"])), rng.bytes(k))
    } else {
        (gen_name(rng), gen_name(rng), gen_blob(rng, 255))
    };
    FileStoreResponse { action_and_status: st, first_filename: n1, second_filename: n2, filestore_message: msg }
}
fn gen_request(rng: &mut Rng) -> FileStoreRequest {
    FileStoreRequest { action_code: rng.pick(&ACTIONS).clone(), first_filename: gen_name(rng), second_filename: gen_name(rng) }
}
fn gen_tlv(rng: &mut Rng) -> MetadataTLV {
    match rng.below(6) {
        0 => MetadataTLV::FileStoreRequest(gen_request(rng)),
        1 => MetadataTLV::FileStoreResponse(gen_response(rng, false)),
        2 => MetadataTLV::MessageToUser(MessageToUser { message_text: gen_blob(rng, 255) }),
        3 => MetadataTLV::FaultHandlerOverride(FaultHandlerOverride {
            fault_handler_code: rng
                .pick(&[HandlerCode::NoticeOfCancellation, HandlerCode::NoticeOfSuspension, HandlerCode::IgnoreError, HandlerCode::AbandonTransaction])
                .clone(),
        }),
        4 => MetadataTLV::FlowLabel(FlowLabel { value: gen_blob(rng, 255) }),
        _ => {
            let w = *rng.pick(&WIDTHS);
            MetadataTLV::EntityID(gen_id(rng, w))
        }
    }
}
fn gen_size(rng: &mut Rng, large: bool) -> u64 {
    let max = if large { u64::MAX } else { u32::MAX as u64 };
    match rng.below(6) {
        0 => 0,
        1 => max,
        2 => max - 1,
        3 => 1,
        _ => rng.next() % max,
    }
}

/// a well-formed payload (within the wire format's own limits) of kind k (0..=8)
pub fn gen_payload(rng: &mut Rng, k: u64, large: bool, budget: usize) -> (PDUPayload, bool) {
    // returns (payload, segmented?)
    match k {
        0 => {
            let c = *rng.pick(&CONDITIONS);
            let fault = if c == Condition::NoError {
                None
            } else {
                let w = *rng.pick(&WIDTHS);
                Some(gen_id(rng, w))
            };
            (PDUPayload::Directive(Operations::EoF(EndOfFile { condition: c, checksum: rng.next() as u32, file_size: gen_size(rng, large), fault_location: fault })), false)
        }
        1 => {
            let c = *rng.pick(&CONDITIONS);
            let fault = if c == Condition::NoError || rng.chance(1, 3) {
                None
            } else {
                let w = *rng.pick(&WIDTHS);
                Some(gen_id(rng, w))
            };
            let n = rng.below(4) as usize;
            let mut resps = vec![];
            for _ in 0..n {
                // a response must fit a TLV (<= 255) : keep them small unless alone
                let small = n > 1 || rng.chance(1, 2);
                let r = gen_response(rng, small);
                if r.encoded_len() <= 255 {
                    resps.push(r);
                }
            }
            (
                PDUPayload::Directive(Operations::Finished(Finished {
                    condition: c,
                    delivery_code: *rng.pick(&[DeliveryCode::Complete, DeliveryCode::Incomplete]),
                    file_status: *rng.pick(&FSTATUS),
                    filestore_response: resps,
                    fault_location: fault,
                })),
                false,
            )
        }
        2 => {
            let (d, s) = if rng.chance(1, 2) { (PDUDirective::EoF, ACKSubDirective::Other) } else { (PDUDirective::Finished, ACKSubDirective::Finished) };
            (
                PDUPayload::Directive(Operations::Ack(PositiveAcknowledgePDU {
                    directive: d,
                    directive_subtype_code: s,
                    condition: *rng.pick(&CONDITIONS),
                    transaction_status: *rng.pick(&TSTATUS),
                })),
                false,
            )
        }
        3 => {
            let mut opts = vec![];
            let n = rng.below(5);
            let mut used = 600usize;
            for _ in 0..n {
                let t = gen_tlv(rng);
                used += t.encoded_len() as usize;
                if used < budget {
                    opts.push(t);
                }
            }
            (
                PDUPayload::Directive(Operations::Metadata(MetadataPDU {
                    closure_requested: rng.chance(1, 2),
                    checksum_type: *rng.pick(&[ChecksumType::Modular, ChecksumType::Null]),
                    file_size: gen_size(rng, large),
                    source_filename: gen_name(rng),
                    destination_filename: gen_name(rng),
                    options: opts,
                })),
                false,
            )
        }
        4 => {
            let n = rng.below(6);
            let reqs = (0..n)
                .map(|_| SegmentRequestForm { start_offset: gen_size(rng, large), end_offset: gen_size(rng, large) })
                .collect();
            (
                PDUPayload::Directive(Operations::Nak(NegativeAcknowledgmentPDU {
                    start_of_scope: gen_size(rng, large),
                    end_of_scope: gen_size(rng, large),
                    segment_requests: reqs,
                })),
                false,
            )
        }
        5 => (PDUPayload::Directive(Operations::Prompt(PromptPDU { nak_or_keep_alive: *rng.pick(&[NakOrKeepAlive::Nak, NakOrKeepAlive::KeepAlive]) })), false),
        6 => (PDUPayload::Directive(Operations::KeepAlive(KeepAlivePDU { progress: gen_size(rng, large) })), false),
        7 => (PDUPayload::FileData(FileDataPDU::Unsegmented(UnsegmentedFileData { offset: gen_size(rng, large), file_data: gen_blob(rng, 40) })), false),
        _ => (
            PDUPayload::FileData(FileDataPDU::Segmented(SegmentedFileData {
                record_continuation_state: rng
                    .pick(&[RecordContinuationState::First, RecordContinuationState::Last, RecordContinuationState::Unsegmented, RecordContinuationState::Interim])
                    .clone(),
                segment_metadata: gen_blob(rng, 63),
                offset: gen_size(rng, large),
                file_data: gen_blob(rng, 40),
            })),
            true,
        ),
    }
}

#[allow(clippy::too_many_arguments)]
pub fn mk_pdu(rng: &mut Rng, payload: PDUPayload, segmented: bool, large: bool, crc: bool, idw: u8, seqw: u8, bits: u64) -> PDU {
    let is_fd = matches!(payload, PDUPayload::FileData(_));
    let len = payload.clone().encoded_len(if large { FileSizeFlag::Large } else { FileSizeFlag::Small });
    PDU {
        header: PDUHeader {
            version: VERSIONS[(bits % 8) as usize].clone(),
            pdu_type: if is_fd { PDUType::FileData } else { PDUType::FileDirective },
            direction: if bits & 8 != 0 { Direction::ToSender } else { Direction::ToReceiver },
            transmission_mode: if bits & 16 != 0 { TransmissionMode::Unacknowledged } else { TransmissionMode::Acknowledged },
            crc_flag: if crc { CRCFlag::Present } else { CRCFlag::NotPresent },
            large_file_flag: if large { FileSizeFlag::Large } else { FileSizeFlag::Small },
            pdu_data_field_length: len,
            segmentation_control: if bits & 32 != 0 { SegmentationControl::Preserved } else { SegmentationControl::NotPreserved },
            segment_metadata_flag: if is_fd {
                if segmented { SegmentedData::Present } else { SegmentedData::NotPresent }
            } else if bits & 64 != 0 {
                SegmentedData::Present
            } else {
                SegmentedData::NotPresent
            },
            source_entity_id: gen_id(rng, idw),
            transaction_sequence_number: gen_id(rng, seqw),
            destination_entity_id: gen_id(rng, idw),
        },
        payload,
    }
}

/// a small fixed corpus: one PDU of every kind x both size flags x CRC on/off
pub fn corpus(rng: &mut Rng) -> Vec<PDU> {
    let mut v = vec![];
    for k in 0..9u64 {
        for large in [false, true] {
            for crc in [false, true] {
                let (p, seg) = gen_payload(rng, k, large, 2000);
                let idw = *rng.pick(&WIDTHS);
                let seqw = *rng.pick(&WIDTHS);
                let bits = rng.next();
                v.push(mk_pdu(rng, p, seg, large, crc, idw, seqw, bits));
            }
        }
    }
    v
}

// ---------------------------------------------------------------- C15: CRC error patterns

fn crc_patterns(ctx: &mut Ctx, rng: &mut Rng, p: &PDU, enc: &[u8], thorough: bool, evals: &mut u64) {
    let nbits = (enc.len() - 4) * 8;
    let flip = |bits: &[usize]| -> Vec<u8> {
        let mut b = enc.to_vec();
        for &i in bits {
            b[4 + i / 8] ^= 0x80 >> (i % 8);
        }
        b
    };
    let mut check = |ctx: &mut Ctx, b: Vec<u8>, what: String| {
        *evals += 1;
        let (o, _) = decode_bytes(&b);
        match o {
            Outcome::Ok(q) if &q != p => {
                ctx.viol15 += 1;
                oracle(ctx.out, "C15", "detects", &format!("{}: `{}` accepted as `{}` || ops: codec pdu {} ; codec pdu {}", what, pdu_repr(p), pdu_repr(&q), hex(enc), hex(&b)));
                // correspondence record for the accepted corruption
                rec(ctx.out, &format!("codec pdu {}", hex(&b)), &format!("ok {} elen={} re={}", pdu_repr(&q), q.encoded_len(), hex(&q.clone().encode())));
            }
            Outcome::Panic => {
                ctx.viol06 += 1;
                oracle(ctx.out, "C06", "total", &format!("PDU::decode panicked || ops: codec pdu {}", hex(&b)));
            }
            _ => {}
        }
    };
    // every single-bit flip
    for i in 0..nbits {
        check(ctx, flip(&[i]), format!("single bit {}", i));
    }
    // pairs within a window
    let win = if thorough { 200 } else { 48 };
    for i in 0..nbits {
        for d in 1..=win {
            if i + d < nbits && (thorough || rng.chance(1, 3)) {
                check(ctx, flip(&[i, i + d]), format!("bit pair {} {}", i, i + d));
            }
        }
    }
    // bursts of length <= 16 (first and last bit of the burst set)
    let npat = if thorough { 400 } else { 40 };
    for i in 0..nbits {
        for _ in 0..(if thorough { 6 } else { 2 }) {
            let len = rng.range(2, 16) as usize;
            if i + len > nbits {
                continue;
            }
            let mut bits = vec![i, i + len - 1];
            for j in 1..len - 1 {
                if rng.chance(1, 2) {
                    bits.push(i + j);
                }
            }
            check(ctx, flip(&bits), format!("burst at {} len {}", i, len));
        }
    }
    // odd number of flips anywhere
    for _ in 0..npat {
        let k = 1 + 2 * rng.below(4) as usize;
        let mut bits: Vec<usize> = vec![];
        while bits.len() < k {
            let b = rng.below(nbits as u64) as usize;
            if !bits.contains(&b) {
                bits.push(b);
            }
        }
        check(ctx, flip(&bits), format!("odd weight {}", k));
    }
}

// ---------------------------------------------------------------- run

/// CRC-16/IBM-3740 written independently of the crate (only used to repair the CRC of mutated inputs)
fn crc_ccitt(data: &[u8]) -> u16 {
    let mut crc: u16 = 0xffff;
    for &b in data {
        crc ^= (b as u16) << 8;
        for _ in 0..8 {
            crc = if crc & 0x8000 != 0 { (crc << 1) ^ 0x1021 } else { crc << 1 };
        }
    }
    crc
}

pub fn run(opts: &Opts, out: &mut dyn Write) {
    let mut ctx = Ctx::new(out);
    if let Some(p) = &opts.replay {
        for line in std::fs::read_to_string(p).expect("replay").lines() {
            let line = line.split('\t').next().unwrap().trim();
            let t: Vec<&str> = line.split_whitespace().collect();
            if t.len() == 3 && t[0] == "codec" && t[1] == "pdu" {
                ctx.pdu_op(&unhex(t[2]));
            }
        }
        let s = format!("engine=codec replay=1 oracle_violations={}", ctx.viol05 + ctx.viol06 + ctx.viol15);
        stat(ctx.out, &s);
        return;
    }
    let mut rng = Rng::new(opts.seed, "codec");
    let mut cases = 0u64;
    // 1. well-formed values: every kind x id widths x size flag x crc, several random instances
    let reps = if opts.thorough { 60 } else { 6 };
    let mut by_kind: Vec<Vec<Vec<u8>>> = vec![vec![]; 9];
    for k in 0..9u64 {
        for &idw in &WIDTHS {
            for &seqw in &WIDTHS {
                for large in [false, true] {
                    for crc in [false, true] {
                        for _ in 0..reps {
                            let (p, seg) = gen_payload(&mut rng, k, large, 60000);
                            let bits = rng.next();
                            let pdu = mk_pdu(&mut rng, p, seg, large, crc, idw, seqw, bits);
                            let enc = ctx.roundtrip(&pdu);
                            cases += 1;
                            if enc.len() <= 400 && (by_kind[k as usize].len() < 60 || rng.chance(1, 20)) {
                                by_kind[k as usize].push(enc);
                            }
                        }
                    }
                }
            }
        }
    }
    // the sample that gets mutated: round-robin over the PDU kinds (so every decoder is reached),
    // in a seeded random order within each kind
    for v in by_kind.iter_mut() {
        for i in (1..v.len()).rev() {
            let j = rng.below(i as u64 + 1) as usize;
            v.swap(i, j);
        }
    }
    let mut good: Vec<Vec<u8>> = vec![];
    let longest = by_kind.iter().map(|v| v.len()).max().unwrap_or(0);
    for i in 0..longest {
        for v in by_kind.iter() {
            if let Some(e) = v.get(i) {
                good.push(e.clone());
            }
        }
    }
    // exhaustive discrete fields of the header with a fixed payload
    for bits in 0..128u64 {
        for crc in [false, true] {
            for large in [false, true] {
                let (p, seg) = gen_payload(&mut rng, 2, large, 1000);
                let pdu = mk_pdu(&mut rng, p, seg, large, crc, 2, 2, bits);
                ctx.roundtrip(&pdu);
                cases += 1;
            }
        }
    }
    // 2. malformed stream
    //  2a. every truncation and every single-byte mutation of a sample of good encodings
    let sample = if opts.thorough { 450 } else { 72 };
    for enc in good.iter().take(sample) {
        if enc.len() > 400 {
            continue;
        }
        let has_crc = enc[0] & 0x02 != 0 && enc.len() >= 6 && crc_ccitt(&enc[..enc.len() - 2]).to_be_bytes() == enc[enc.len() - 2..];
        for n in 0..enc.len() {
            ctx.pdu_op(&enc[..n]);
            cases += 1;
        }
        for i in 0..enc.len() {
            for v in [0u8, 1, 2, 0x7f, 0x80, 0xfe, 0xff, enc[i].wrapping_add(1), enc[i] ^ 0x10] {
                if v != enc[i] {
                    let mut b = enc.clone();
                    b[i] = v;
                    ctx.pdu_op(&b);
                    cases += 1;
                    if has_crc && i < enc.len() - 2 {
                        // the same mutation with a matching CRC, so that it reaches the decoder behind the CRC check
                        let n = b.len();
                        let c = crc_ccitt(&b[..n - 2]).to_be_bytes();
                        b[n - 2..].copy_from_slice(&c);
                        ctx.pdu_op(&b);
                        cases += 1;
                    }
                }
            }
        }
        // extra trailing bytes
        let mut b = enc.clone();
        b.extend_from_slice(&[0xAA, 0xBB, 0xCC]);
        ctx.pdu_op(&b);
    }
    //  2b. all short prefixes over a small alphabet
    let alpha = [0x00u8, 0x01, 0x02, 0x04, 0x07, 0x22, 0x24, 0x2a, 0x30, 0x7f, 0x80, 0xff];
    let maxlen = if opts.thorough { 5 } else { 4 };
    for len in 0..=maxlen {
        let total = alpha.len().pow(len as u32);
        for idx in 0..total {
            let mut x = idx;
            let mut b = vec![];
            for _ in 0..len {
                b.push(alpha[x % alpha.len()]);
                x /= alpha.len();
            }
            ctx.pdu_op(&b);
            cases += 1;
        }
    }
    //  2c. length / flag fields forced to boundary values
    for enc in good.iter().take(sample) {
        for l in [0u16, 1, 2, 3, 255, 256, 65533, 65534, 65535] {
            for flagbits in [0u8, 2] {
                let mut b = enc.clone();
                if b.len() >= 4 {
                    b[0] = (b[0] & !2) | flagbits;
                    b[1..3].copy_from_slice(&l.to_be_bytes());
                    ctx.pdu_op(&b);
                    cases += 1;
                }
            }
        }
    }
    //  2d. random bytes behind a plausible header
    for _ in 0..(if opts.thorough { 200000 } else { 8000 }) {
        let n = rng.below(40) as usize;
        let mut b = rng.bytes(n + 4);
        b[0] = (b[0] & 0x1f) | 0x20;
        let l = rng.below(n as u64 + 3) as u16;
        b[1..3].copy_from_slice(&l.to_be_bytes());
        b[3] &= 0x99; // id widths 1 or 2
        ctx.pdu_op(&b);
        cases += 1;
    }
    // 3. CRC error patterns over the corpus (CRC on)
    let mut evals15 = 0u64;
    let corp = corpus(&mut rng);
    for p in corp.iter().filter(|p| p.header.crc_flag == CRCFlag::Present) {
        let enc = ctx.roundtrip(p);
        if enc.len() > 4 && enc.len() < (if opts.thorough { 400 } else { 120 }) {
            crc_patterns(&mut ctx, &mut rng, p, &enc, opts.thorough, &mut evals15);
        }
    }
    let n_userops = userops_oracle(&mut ctx, &mut rng, opts.thorough);
    let errs: Vec<String> = ctx.errs.iter().map(|(k, v)| format!("{}:{}", k, v)).collect();
    let kinds: Vec<String> = ctx.kinds.iter().map(|(k, v)| format!("{}:{}", k, v)).collect();
    let s = format!(
        "engine=codec cases={} userop_oracle_cases={} accepted={} rejected={} c15_evals={} viol05={} viol06={} viol15={} errkinds={} okkinds={}",
        cases,
        n_userops,
        ctx.n_ok,
        ctx.n_err,
        evals15,
        ctx.viol05,
        ctx.viol06,
        ctx.viol15,
        errs.join(","),
        kinds.join(",")
    );
    stat(ctx.out, &s);
}

// ---------------------------------------------------------------- user operations & reports (oracle only)

fn gen_userops(rng: &mut Rng) -> Vec<UserOperation> {
    let mut v = vec![];
    for &w1 in &WIDTHS {
        for &w2 in &WIDTHS {
            let a = gen_id(rng, w1);
            let b = gen_id(rng, w2);
            v.push(UserOperation::OriginatingTransactionIDMessage(OriginatingTransactionIDMessage { source_entity_id: a, transaction_sequence_number: b }));
            v.push(UserOperation::Request(UserRequest::RemoteStatusReport(RemoteStatusReportRequest {
                source_entity_id: a,
                transaction_sequence_number: b,
                report_filename: gen_name(rng),
            })));
            v.push(UserOperation::Request(UserRequest::RemoteSuspend(RemoteSuspendRequest { source_entity_id: a, transaction_sequence_number: b })));
            v.push(UserOperation::Request(UserRequest::RemoteResume(RemoteResumeRequest { source_entity_id: a, transaction_sequence_number: b })));
            for st in TSTATUS {
                for flag in [false, true] {
                    v.push(UserOperation::Response(UserResponse::RemoteStatusReport(RemoteStatusReportResponse {
                        transaction_status: st,
                        response_code: flag,
                        source_entity_id: a,
                        transaction_sequence_number: b,
                    })));
                    v.push(UserOperation::Response(UserResponse::RemoteSuspend(RemoteSuspendResponse {
                        suspend_indication: flag,
                        transaction_status: st,
                        source_entity_id: a,
                        transaction_sequence_number: b,
                    })));
                    v.push(UserOperation::Response(UserResponse::RemoteResume(RemoteResumeResponse {
                        suspend_indication: flag,
                        transaction_status: st,
                        source_entity_id: a,
                        transaction_sequence_number: b,
                    })));
                }
            }
        }
        let a = gen_id(rng, w1);
        v.push(UserOperation::ProxyOperation(ProxyOperation::ProxyPutRequest(ProxyPutRequest {
            destination_entity_id: a,
            source_filename: gen_name(rng),
            destination_filename: gen_name(rng),
        })));
    }
    for _ in 0..6 {
        v.push(UserOperation::ProxyOperation(ProxyOperation::ProxyMessageToUser(MessageToUser { message_text: gen_blob(rng, 200) })));
        let mut rq = gen_request(rng);
        rq.first_filename = Utf8PathBuf::from("a/b");
        rq.second_filename = Utf8PathBuf::from("c");
        v.push(UserOperation::ProxyOperation(ProxyOperation::ProxyFileStoreRequest(rq.clone())));
        v.push(UserOperation::SFOFileStoreRequest(rq));
        let rs = gen_response(rng, true);
        v.push(UserOperation::Response(UserResponse::ProxyFileStore(rs.clone())));
        v.push(UserOperation::SFOFileStoreResponse(rs));
        v.push(UserOperation::ProxyOperation(ProxyOperation::ProxyFlowLabel(FlowLabel { value: gen_blob(rng, 200) })));
        v.push(UserOperation::SFOFlowLabel(FlowLabel { value: gen_blob(rng, 200) }));
        v.push(UserOperation::SFOMessageToUser(MessageToUser { message_text: gen_blob(rng, 200) }));
        v.push(UserOperation::Request(UserRequest::DirectoryListing(DirectoryListingRequest { directory_name: gen_name(rng), directory_filename: gen_name(rng) })));
        for code in [ListingResponseCode::Successful, ListingResponseCode::Unsuccessful] {
            v.push(UserOperation::Response(UserResponse::DirectoryListing(DirectoryListingResponse {
                response_code: code,
                directory_name: gen_name(rng),
                directory_filename: gen_name(rng),
            })));
        }
    }
    for hc in [HandlerCode::NoticeOfCancellation, HandlerCode::NoticeOfSuspension, HandlerCode::IgnoreError, HandlerCode::AbandonTransaction] {
        v.push(UserOperation::ProxyOperation(ProxyOperation::ProxyFaultHandlerOverride(FaultHandlerOverride { fault_handler_code: hc.clone() })));
        v.push(UserOperation::SFOFaultHandlerOverride(FaultHandlerOverride { fault_handler_code: hc }));
    }
    for m in [TransmissionMode::Acknowledged, TransmissionMode::Unacknowledged] {
        v.push(UserOperation::ProxyOperation(ProxyOperation::ProxyTransmissionMode(m)));
    }
    v.push(UserOperation::ProxyOperation(ProxyOperation::ProxyPutCancel));
    for c in CONDITIONS {
        for d in [DeliveryCode::Complete, DeliveryCode::Incomplete] {
            for f in FSTATUS {
                v.push(UserOperation::Response(UserResponse::ProxyPut(ProxyPutResponse { condition: c, delivery_code: d, file_status: f })));
            }
        }
    }
    v
}

/// the answer line of `codec userop <hex>`: what the real decoder makes of the bytes
fn userop_answer(b: &[u8]) -> String {
    match catch_unwind(AssertUnwindSafe(|| UserOperation::decode(&mut &b[..]))) {
        Err(_) => "panic".into(),
        Ok(Err(e)) => format!("err:{}", err_name(&e)),
        Ok(Ok(op)) => match catch_unwind(AssertUnwindSafe(|| (op.encoded_len(), op.clone().encode()))) {
            Ok((l, enc)) => format!("ok re={} elen={}", hex(&enc), l),
            Err(_) => "panic".into(),
        },
    }
}

/// the answer line of `codec report <hex>`
fn report_answer(b: &[u8]) -> String {
    use cfdp_core::daemon::Report;
    match catch_unwind(AssertUnwindSafe(|| Report::decode(&mut &b[..]))) {
        Err(_) => "panic".into(),
        Ok(Err(e)) => format!("err:{}", err_name(&e)),
        Ok(Ok(r)) => format!("ok re={}", hex(&r.encode())),
    }
}

/// implementation-level C05/C06 oracle for user operations and status reports
pub fn userops_oracle(ctx: &mut Ctx, rng: &mut Rng, thorough: bool) -> u64 {
    use cfdp_core::daemon::Report;
    use cfdp_core::transaction::{TransactionID, TransactionState};
    let mut n = 0u64;
    for op in gen_userops(rng) {
        n += 1;
        let r = catch_unwind(AssertUnwindSafe(|| {
            let enc = op.clone().encode();
            let len_ok = enc.len() == op.encoded_len() as usize;
            let dec = UserOperation::decode(&mut &enc[..]);
            (enc, len_ok, dec)
        }));
        if let Ok((enc, _, _)) = &r {
            rec(ctx.out, &format!("codec userop {}", hex(enc)), &userop_answer(enc));
            // the same message truncated and with one octet changed
            if !enc.is_empty() {
                let k = rng.below(enc.len() as u64) as usize;
                rec(ctx.out, &format!("codec userop {}", hex(&enc[..k])), &userop_answer(&enc[..k]));
                let mut m = enc.clone();
                m[k] ^= *rng.pick(&[0x01u8, 0x10, 0x80, 0xff]);
                rec(ctx.out, &format!("codec userop {}", hex(&m)), &userop_answer(&m));
            }
        }
        match r {
            Ok((enc, len_ok, dec)) => {
                if !len_ok {
                    ctx.viol05 += 1;
                    oracle(ctx.out, "C05", "userop_len", &format!("encoded_len != bytes produced for {:?} || ops: codec userop {}", op, hex(&enc)));
                }
                match dec {
                    Ok(d) if d == op => {}
                    Ok(d) => {
                        ctx.viol05 += 1;
                        oracle(ctx.out, "C05", "userop_roundtrip", &format!("{:?} decodes as {:?} || ops: codec userop {}", op, d, hex(&enc)));
                    }
                    Err(e) => {
                        ctx.viol05 += 1;
                        oracle(ctx.out, "C05", "userop_roundtrip", &format!("{:?} is rejected ({}) || ops: codec userop {}", op, err_name(&e), hex(&enc)));
                    }
                }
            }
            Err(_) => {
                ctx.viol05 += 1;
                oracle(ctx.out, "C05", "userop_panic", &format!("encode/decode panicked for {:?}", op));
            }
        }
    }
    // reports
    for &w1 in &WIDTHS {
        for &w2 in &WIDTHS {
            for st in [TransactionState::Active, TransactionState::Suspended, TransactionState::Terminated] {
                for ts in TSTATUS {
                    for c in [Condition::NoError, Condition::CancelReceived, Condition::FilesizeError] {
                        n += 1;
                        let rep = Report { id: TransactionID(gen_id(rng, w1), gen_id(rng, w2)), state: st, status: ts, condition: c };
                        let enc = rep.clone().encode();
                        rec(ctx.out, &format!("codec report {}", hex(&enc)), &report_answer(&enc));
                        if !enc.is_empty() {
                            let k = rng.below(enc.len() as u64) as usize;
                            let mut m = enc.clone();
                            m[k] ^= *rng.pick(&[0x01u8, 0x10, 0x80, 0xff]);
                            rec(ctx.out, &format!("codec report {}", hex(&m)), &report_answer(&m));
                            rec(ctx.out, &format!("codec report {}", hex(&enc[..k])), &report_answer(&enc[..k]));
                        }
                        match catch_unwind(AssertUnwindSafe(|| Report::decode(&mut &enc[..]))) {
                            Ok(Ok(d)) if d.id == rep.id && d.state == rep.state && d.status == rep.status && d.condition == rep.condition => {}
                            other => {
                                ctx.viol05 += 1;
                                oracle(ctx.out, "C05", "report_roundtrip", &format!("{:?} decodes as {:?} || ops: codec report {}", rep, other.map(|r| r.map_err(|e| err_name(&e))), hex(&enc)));
                            }
                        }
                    }
                }
            }
        }
    }
    // store-and-forward overlay request / report: their fields are private, so the encodings are built by hand
    for _ in 0..(if thorough { 400 } else { 60 }) {
        let lv = |rng: &mut Rng, max: u64| -> Vec<u8> {
            let k = rng.below(max + 1) as usize;
            let mut v = vec![k as u8];
            v.extend(rng.bytes(k));
            v
        };
        let name = |rng: &mut Rng| -> Vec<u8> {
            let s = gen_name(rng);
            let mut v = vec![s.as_str().len() as u8];
            v.extend(s.as_str().as_bytes());
            v
        };
        let idlv = |rng: &mut Rng| -> Vec<u8> {
            let w = *rng.pick(&[1usize, 2, 4, 8, 8, 3]);
            let mut v = vec![w as u8];
            v.extend(rng.bytes(w));
            v
        };
        let mut b = b"cfdp".to_vec();
        if rng.chance(1, 2) {
            b.push(MessageType::SFORequest as u8);
            b.push(rng.below(256) as u8);
            b.push(rng.below(256) as u8);
            b.extend(lv(rng, 12));
            b.extend(idlv(rng));
            b.extend(idlv(rng));
            b.extend(name(rng));
            b.extend(name(rng));
        } else {
            b.push(MessageType::SFOReport as u8);
            b.extend(lv(rng, 12));
            b.extend(idlv(rng));
            b.extend(idlv(rng));
            b.extend(idlv(rng));
            b.push(rng.below(256) as u8);
            b.push(rng.below(256) as u8);
            b.push(rng.below(256) as u8);
        }
        n += 1;
        rec(ctx.out, &format!("codec userop {}", hex(&b)), &userop_answer(&b));
        if let Ok(Ok(op)) = catch_unwind(AssertUnwindSafe(|| UserOperation::decode(&mut &b[..]))) {
            let enc = op.clone().encode();
            match catch_unwind(AssertUnwindSafe(|| UserOperation::decode(&mut &enc[..]))) {
                Ok(Ok(op2)) if op2 == op && enc.len() == op.encoded_len() as usize => {}
                other => {
                    ctx.viol05 += 1;
                    oracle(ctx.out, "C05", "userop_roundtrip", &format!("{:?} re-decodes as {:?} (or its announced length is wrong) || ops: codec userop {}", op, other.map(|r| r.map_err(|e| err_name(&e))), hex(&b)));
                }
            }
        }
    }
    // arbitrary bytes behind the "cfdp" identifier: no panic, canonical acceptance
    let msg_types: Vec<u8> = (0u8..=0x50).collect();
    let reps = if thorough { 400 } else { 40 };
    for &t in &msg_types {
        for _ in 0..reps {
            n += 1;
            let mut b = b"cfdp".to_vec();
            b.push(t);
            let k = rng.below(24) as usize;
            let mut tail = rng.bytes(k);
            if rng.chance(1, 2) && !tail.is_empty() {
                tail[0] = *rng.pick(&[0u8, 1, 2, 3, 4, 8, 0x11, 0x33, 0x77, 0xff]);
            }
            b.extend(tail);
            rec(ctx.out, &format!("codec userop {}", hex(&b)), &userop_answer(&b));
            MAX_ALLOC.store(0, Ordering::Relaxed);
            let r = catch_unwind(AssertUnwindSafe(|| UserOperation::decode(&mut &b[..])));
            let max = MAX_ALLOC.load(Ordering::Relaxed);
            if max > ALLOC_BOUND {
                ctx.viol06 += 1;
                oracle(ctx.out, "C06", "alloc", &format!("allocation of {} bytes decoding a user operation || ops: codec userop {}", max, hex(&b)));
            }
            match r {
                Err(_) => {
                    ctx.viol06 += 1;
                    oracle(ctx.out, "C06", "userop_total", &format!("UserOperation::decode panicked || ops: codec userop {}", hex(&b)));
                }
                Ok(Ok(op)) => {
                    let re = catch_unwind(AssertUnwindSafe(|| UserOperation::decode(&mut &op.clone().encode()[..])));
                    match re {
                        Ok(Ok(op2)) if op2 == op => {}
                        other => {
                            ctx.viol06 += 1;
                            oracle(ctx.out, "C06", "userop_canonical", &format!("accepted {:?} but its re-encoding decodes as {:?} || ops: codec userop {}", op, other.map(|r| r.map_err(|e| err_name(&e))), hex(&b)));
                        }
                    }
                }
                Ok(Err(_)) => {}
            }
        }
    }
    n
}
