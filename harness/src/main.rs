//! Correspondence / oracle harness for the cfdp-rs verification framework.
//!
//! Usage: cfdp_harness <engine> [--seed N] [--tier quick|thorough] [--replay FILE]
//!
//! Output protocol (stdout), one record per line:
//!   `<op line>\t<implementation answer>`   an operation and what the real code answered
//!   `!ORACLE <property> <clause> | <detail>` an implementation-level oracle violation
//!   `#STAT key=value ...`                  generator statistics for the evidence file
//! The op lines (text before the TAB) are fed unchanged to the Lean model driver, whose
//! answers are diffed against the implementation answers by `/verif/check`.

mod cksum;
mod codec;
mod daemon;
mod fs;
mod net;
mod path;
mod seg;
mod txn;
mod udp;
mod util;

use std::alloc::{GlobalAlloc, Layout, System};
use std::io::Write;
use std::sync::atomic::{AtomicUsize, Ordering};

/// largest single allocation request since the counter was last reset (C06 allocation bound)
pub static MAX_ALLOC: AtomicUsize = AtomicUsize::new(0);

struct Counting;
unsafe impl GlobalAlloc for Counting {
    unsafe fn alloc(&self, l: Layout) -> *mut u8 {
        MAX_ALLOC.fetch_max(l.size(), Ordering::Relaxed);
        System.alloc(l)
    }
    unsafe fn dealloc(&self, p: *mut u8, l: Layout) {
        System.dealloc(p, l)
    }
    unsafe fn realloc(&self, p: *mut u8, l: Layout, new_size: usize) -> *mut u8 {
        MAX_ALLOC.fetch_max(new_size, Ordering::Relaxed);
        System.realloc(p, l, new_size)
    }
    unsafe fn alloc_zeroed(&self, l: Layout) -> *mut u8 {
        MAX_ALLOC.fetch_max(l.size(), Ordering::Relaxed);
        System.alloc_zeroed(l)
    }
}
#[global_allocator]
static GLOBAL: Counting = Counting;

pub struct Opts {
    pub seed: u64,
    pub thorough: bool,
    pub replay: Option<String>,
}

fn main() {
    let args: Vec<String> = std::env::args().collect();
    if args.len() < 2 {
        eprintln!("usage: cfdp_harness <engine> [--seed N] [--tier quick|thorough] [--replay FILE]");
        std::process::exit(2);
    }
    let engine = args[1].clone();
    let mut opts = Opts {
        seed: 1,
        thorough: false,
        replay: None,
    };
    let mut i = 2;
    while i < args.len() {
        match args[i].as_str() {
            "--seed" => {
                opts.seed = args[i + 1].parse().expect("seed");
                i += 1;
            }
            "--tier" => {
                opts.thorough = args[i + 1] == "thorough";
                i += 1;
            }
            "--replay" => {
                opts.replay = Some(args[i + 1].clone());
                i += 1;
            }
            other => {
                eprintln!("unknown argument {other}");
                std::process::exit(2);
            }
        }
        i += 1;
    }
    // silence the default panic message; engines report panics as answers
    std::panic::set_hook(Box::new(|_| {}));
    let stdout = std::io::stdout();
    let mut out = std::io::BufWriter::with_capacity(1 << 20, stdout.lock());
    match engine.as_str() {
        "seg" => seg::run(&opts, &mut out),
        "cksum" => cksum::run(&opts, &mut out),
        "path" => path::run(&opts, &mut out),
        "codec" => codec::run(&opts, &mut out),
        "udp" => udp::run(&opts, &mut out),
        "fs" => fs::run(&opts, &mut out),
        "daemon" => daemon::run(&opts, &mut out),
        "net" => net::run(&opts, &mut out),
        "recv" => txn::run_recv(&opts, &mut out),
        "send" => txn::run_send(&opts, &mut out),
        other => {
            eprintln!("unknown engine {other}");
            std::process::exit(2);
        }
    }
    out.flush().unwrap();
}
