//! Correspondence / oracle harness for the cfdp-rs verification framework.
//!
//! Usage: cfdp_harness <engine> [--seed N] [--tier quick|thorough] [--replay FILE]
//!
//! Output protocol (stdout), one record per line:
//!   `<op line>\t<implementation answer>`   an operation and what the real code answered
//!   `!ORACLE <property> <clause> | <detail>` an implementation-level oracle violation
//!   `#STAT key=value ...`                  generator statistics for the evidence file
//! The op lines (text before the TAB) are fed unchanged to the Lean model driver, whose
//! answers are diffed against the implementation answers by `/verif/check`.

mod cksum;
mod path;
mod seg;
mod util;

use std::io::Write;

pub struct Opts {
    pub seed: u64,
    pub thorough: bool,
    pub replay: Option<String>,
}

fn main() {
    let args: Vec<String> = std::env::args().collect();
    if args.len() < 2 {
        eprintln!("usage: cfdp_harness <engine> [--seed N] [--tier quick|thorough] [--replay FILE]");
        std::process::exit(2);
    }
    let engine = args[1].clone();
    let mut opts = Opts {
        seed: 1,
        thorough: false,
        replay: None,
    };
    let mut i = 2;
    while i < args.len() {
        match args[i].as_str() {
            "--seed" => {
                opts.seed = args[i + 1].parse().expect("seed");
                i += 1;
            }
            "--tier" => {
                opts.thorough = args[i + 1] == "thorough";
                i += 1;
            }
            "--replay" => {
                opts.replay = Some(args[i + 1].clone());
                i += 1;
            }
            other => {
                eprintln!("unknown argument {other}");
                std::process::exit(2);
            }
        }
        i += 1;
    }
    // silence the default panic message; engines report panics as answers
    std::panic::set_hook(Box::new(|_| {}));
    let stdout = std::io::stdout();
    let mut out = std::io::BufWriter::with_capacity(1 << 20, stdout.lock());
    match engine.as_str() {
        "seg" => seg::run(&opts, &mut out),
        "cksum" => cksum::run(&opts, &mut out),
        "path" => path::run(&opts, &mut out),
        other => {
            eprintln!("unknown engine {other}");
            std::process::exit(2);
        }
    }
    out.flush().unwrap();
}
