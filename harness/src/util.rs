//! Small shared helpers: deterministic PRNG, hex, record writers.
#![allow(dead_code)]

use std::io::Write;

/// SplitMix64: every random choice of the harness derives from one of these, seeded from
/// VERIF_SEED and the engine name, so that a disagreement replays exactly.
pub struct Rng(pub u64);
impl Rng {
    pub fn new(seed: u64, salt: &str) -> Self {
        let mut h = seed ^ 0x9E37_79B9_7F4A_7C15;
        for b in salt.bytes() {
            h = (h ^ b as u64).wrapping_mul(0x1000_0000_01B3);
        }
        Rng(h)
    }
    pub fn next(&mut self) -> u64 {
        self.0 = self.0.wrapping_add(0x9E37_79B9_7F4A_7C15);
        let mut z = self.0;
        z = (z ^ (z >> 30)).wrapping_mul(0xBF58_476D_1CE4_E5B9);
        z = (z ^ (z >> 27)).wrapping_mul(0x94D0_49BB_1331_11EB);
        z ^ (z >> 31)
    }
    /// uniform in [0, n)
    pub fn below(&mut self, n: u64) -> u64 {
        if n == 0 {
            0
        } else {
            self.next() % n
        }
    }
    pub fn range(&mut self, lo: u64, hi: u64) -> u64 {
        lo + self.below(hi - lo + 1)
    }
    pub fn chance(&mut self, num: u64, den: u64) -> bool {
        self.below(den) < num
    }
    pub fn pick<'a, T>(&mut self, xs: &'a [T]) -> &'a T {
        &xs[self.below(xs.len() as u64) as usize]
    }
    pub fn bytes(&mut self, n: usize) -> Vec<u8> {
        (0..n).map(|_| self.next() as u8).collect()
    }
}

pub fn hex(bs: &[u8]) -> String {
    let mut s = String::with_capacity(bs.len() * 2);
    for b in bs {
        s.push_str(&format!("{:02x}", b));
    }
    if s.is_empty() {
        s.push('-');
    }
    s
}

pub fn unhex(s: &str) -> Vec<u8> {
    if s == "-" {
        return vec![];
    }
    (0..s.len() / 2)
        .map(|i| u8::from_str_radix(&s[2 * i..2 * i + 2], 16).expect("hex"))
        .collect()
}

pub fn rec(out: &mut dyn Write, op: &str, ans: &str) {
    writeln!(out, "{}\t{}", op, ans).unwrap();
}

pub fn oracle(out: &mut dyn Write, prop: &str, clause: &str, detail: &str) {
    writeln!(out, "!ORACLE {} {} | {}", prop, clause, detail).unwrap();
}

pub fn stat(out: &mut dyn Write, kv: &str) {
    writeln!(out, "#STAT {}", kv).unwrap();
}

pub fn fmt_pairs(v: &[(u64, u64)]) -> String {
    let parts: Vec<String> = v.iter().map(|(a, b)| format!("{}-{}", a, b)).collect();
    format!("[{}]", parts.join(","))
}
