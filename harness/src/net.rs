//! `net` engine: one real `SendTransaction` and one real `RecvTransaction` joined by a simulated
//! link, driven through the same calls as their per-transaction task loops, in lockstep with the
//! Lean two-party model (`Model/Net.lean` = sender model + receiver model + link).
//!
//! Op lines: `net new <send cfg> | <recv cfg>`, `net s <send op>`, `net r <recv op>` — the ops of
//! the `send` and `recv` engines; a PDU delivered to one side is always one the other side emitted
//! earlier (the link may lose, duplicate, reorder and delay, it does not invent or alter PDUs).
//!
//! Every history ends with a fair phase: from a random point on nothing is lost any more, both
//! loops run on the shared virtual clock until both transactions have ended.  Oracles (on top of
//! the per-side oracles of the `send` / `recv` engines, which keep running):
//!   C02 recovers / same_outcome   acknowledged mode, losses confined to the zero-time random phase
//!   C03 net_bounded / net_never_stuck
//!   C04 sender_success_only_after_receiver
//!   C01 two_party_file            receiver success => destination file == the sender's file

use crate::txn::*;
use crate::util::*;
use crate::Opts;
use camino::Utf8PathBuf;
use cfdp_core::daemon::Indication;
use cfdp_core::filestore::ChecksumType;
use cfdp_core::pdu::*;
use cfdp_core::transaction::TransactionState;
use std::io::Write;
use std::time::Duration;

struct Net {
    s: SendCase,
    r: RecvCase,
    to_r: Vec<String>, // hex of every PDU the sender transmitted
    to_s: Vec<String>,
    next_r: usize, // next undelivered index (in-order pointer)
    next_s: usize,
    send_success: bool,
    send_finished_inds: u32,
    user_ops: u32,
    timeouts: u32,
}

impl Net {
    async fn sop(&mut self, out: &mut dyn Write, viol: &mut u64, op: &str) {
        self.s.op(out, &format!("send {}", op), viol).await;
        self.r.hist.push(format!("net s {}", op));
        if let Some(p) = self.s.last_emitted.take() {
            self.to_r.push(hex(&p.encode()));
        }
        for i in self.s.last_inds.clone() {
            if let Indication::Finished(f) = i {
                self.send_finished_inds += 1;
                if f.report.condition == Condition::NoError && f.delivery_code == DeliveryCode::Complete {
                    self.send_success = true;
                    // C04: a sender reports success only for a transaction its receiver reported as delivered
                    if !self.r.truth.success_reported {
                        *viol += 1;
                        oracle(out, "C04", "sender_success_only_after_receiver", &format!("the sender reported NoError/Complete but the receiver never reported a complete delivery || after: {}", self.s.hist.join("; ")));
                    }
                }
            }
        }
    }
    async fn rop(&mut self, out: &mut dyn Write, viol: &mut u64, op: &str) {
        self.r.op(out, &format!("recv {}", op), viol).await;
        self.s.hist.push(format!("net r {}", op));
        if let Some(p) = self.r.last_emitted.take() {
            self.to_s.push(hex(&p.encode()));
        }
    }
    /// advance the shared clock (recorded once, for whichever side is still answering)
    async fn adv(&mut self, out: &mut dyn Write, viol: &mut u64, ms: u64) {
        if !self.s.dead {
            self.sop(out, viol, &format!("adv {}", ms)).await;
            self.r.note_adv(ms);
        } else {
            self.rop(out, viol, &format!("adv {}", ms)).await;
            self.s.note_adv(ms);
        }
    }
    fn s_alive(&self) -> bool {
        !self.s.dead && self.s.state() != TransactionState::Terminated
    }
    fn r_alive(&self) -> bool {
        !self.r.dead && self.r.state() != TransactionState::Terminated
    }
    /// nothing is lost from here on: run both loops until both transactions have ended
    async fn fair(&mut self, out: &mut dyn Write, viol: &mut u64, exempt: bool) {
        let bound_ms = 6 * (self.s.cfg.max as u64 + 2) * (self.s.cfg.ti.max(1) + self.s.cfg.ta.max(1) + self.r.cfg.tn.max(1) + self.r.cfg.ti.max(1) + self.r.cfg.ta.max(1)) as u64 * 1000 + 4 * self.r.cfg.delay_ms + 10_000;
        let t0 = self.s.now_ms.max(self.r.now_ms);
        let mut waited = 0u64;
        let mut steps = 0u32;
        loop {
            steps += 1;
            if steps > 3000 || waited > bound_ms {
                if !exempt {
                    *viol += 1;
                    oracle(out, "C03", "net_bounded", &format!("sender alive={} receiver alive={} after {} ms ({} rounds) of a loss-free link; bound {} ms (t0 {}) || after: {}", self.s_alive(), self.r_alive(), waited, steps, bound_ms, t0, self.s.hist.join("; ")));
                }
                return;
            }
            let mut progress = false;
            let mut guard = 0;
            while self.s_alive() && self.s.state() != TransactionState::Suspended && self.s.has_pdu() && guard < 400 {
                guard += 1;
                self.sop(out, viol, "send").await;
                progress = true;
            }
            while self.next_r < self.to_r.len() {
                let h = self.to_r[self.next_r].clone();
                self.next_r += 1;
                self.rop(out, viol, &format!("pdu {}", h)).await;
                progress = true;
            }
            guard = 0;
            while self.r_alive() && self.r.state() != TransactionState::Suspended && self.r.has_pdu() && guard < 400 {
                guard += 1;
                self.rop(out, viol, "send").await;
                progress = true;
            }
            while self.next_s < self.to_s.len() {
                let h = self.to_s[self.next_s].clone();
                self.next_s += 1;
                self.sop(out, viol, &format!("pdu {}", h)).await;
                progress = true;
            }
            if progress {
                continue;
            }
            if !self.s_alive() && !self.r_alive() {
                return;
            }
            // both idle: sleep until the next timer of either side
            let us = if self.s_alive() && self.s.state() != TransactionState::Suspended { self.s.until() } else { Duration::MAX };
            let ur = if self.r_alive() && self.r.state() != TransactionState::Suspended { self.r.until() } else { Duration::MAX };
            let u = us.min(ur);
            if u == Duration::MAX {
                let suspended = (self.s_alive() && self.s.state() == TransactionState::Suspended) || (self.r_alive() && self.r.state() == TransactionState::Suspended);
                if !suspended {
                    *viol += 1;
                    oracle(out, "C03", "net_never_stuck", &format!("sender alive={} receiver alive={}: nothing to send, nothing in flight and no timer running || after: {}", self.s_alive(), self.r_alive(), self.s.hist.join("; ")));
                }
                return;
            }
            let ms = (u.as_nanos() as u64 + 999_999) / 1_000_000;
            if ms > 0 {
                self.adv(out, viol, ms).await;
                waited += ms;
            }
            if self.s_alive() && self.s.state() != TransactionState::Suspended && self.s.until() == Duration::ZERO {
                self.sop(out, viol, "timeout").await;
                self.timeouts += 1;
            }
            if self.r_alive() && self.r.state() != TransactionState::Suspended && self.r.until() == Duration::ZERO {
                self.rop(out, viol, "timeout").await;
                self.timeouts += 1;
            }
        }
    }
}

fn new_line(s: &SendCfg, r: &RecvCfg) -> String {
    format!("net new {} | {}", &s.line()["send new ".len()..], &r.line()["recv new ".len()..])
}

async fn start(out: &mut dyn Write, base: &Utf8PathBuf, n: u64, scfg: SendCfg, rcfg: RecvCfg, line: &str) -> Net {
    let mut s = SendCase::new(base, n, scfg);
    let mut r = RecvCase::new(base, n, rcfg);
    // the destination directory of the transfer exists at the receiver
    std::fs::create_dir_all(r.root.join("out")).unwrap();
    s.tag = Some("net s");
    r.tag = Some("net r");
    s.hist.push(line.to_string());
    r.hist.push(line.to_string());
    r.truth.file = if s.cfg.file == "-" { None } else { Some(s.file.clone()) };
    let si = s.settle().await;
    let ri = r.settle().await;
    rec(
        out,
        line,
        &format!(
            "ok ind=[{}] st={} | ok ind=[{}] st={} fs={}",
            si.iter().map(ind_repr).collect::<Vec<_>>().join(";"),
            s.t.verif_snapshot(),
            ri.iter().map(ind_repr).collect::<Vec<_>>().join(";"),
            r.t.verif_snapshot(),
            fs_listing(&r.root)
        ),
    );
    Net { s, r, to_r: vec![], to_s: vec![], next_r: 0, next_s: 0, send_success: false, send_finished_inds: 0, user_ops: 0, timeouts: 0 }
}

pub fn run(opts: &Opts, out: &mut dyn Write) {
    let (_td, base) = tmp_base("net");
    let rt = runtime();
    let mut viol = 0u64;
    let mut cases = 0u64;
    let mut tally: std::collections::BTreeMap<&'static str, u64> = std::collections::BTreeMap::new();
    rt.block_on(async {
        if let Some(p) = &opts.replay {
            let mut net: Option<Net> = None;
            for line in std::fs::read_to_string(p).expect("replay").lines() {
                let line = line.split('\t').next().unwrap().trim();
                let t: Vec<&str> = line.split_whitespace().collect();
                if t.len() < 2 || t[0] != "net" {
                    continue;
                }
                if t[1] == "new" {
                    if let Some(n) = net.take() {
                        let _ = std::fs::remove_dir_all(&n.s.root);
                        let _ = std::fs::remove_dir_all(&n.r.root);
                    }
                    cases += 1;
                    let bar = t.iter().position(|x| *x == "|").expect("net new: missing |");
                    let scfg = SendCfg::parse(&t[2..bar]);
                    let rcfg = RecvCfg::parse(&t[bar + 1..]);
                    net = Some(start(out, &base, cases, scfg, rcfg, line).await);
                } else if let Some(n) = net.as_mut() {
                    let rest = t[2..].join(" ");
                    match t[1] {
                        "s" => {
                            n.sop(out, &mut viol, &rest).await;
                            if t[2] == "adv" {
                                n.r.note_adv(t[3].parse().unwrap_or(0));
                            }
                        }
                        "r" => {
                            n.rop(out, &mut viol, &rest).await;
                            if t[2] == "adv" {
                                n.s.note_adv(t[3].parse().unwrap_or(0));
                            }
                        }
                        _ => {}
                    }
                }
            }
            return;
        }
        let mut rng = Rng::new(opts.seed, "net");
        let ncases = if opts.thorough { 3000 } else { 300 };
        for _ in 0..ncases {
            cases += 1;
            // kind 0: recoverable (acknowledged, losses only in a zero-time random phase, default handlers)
            // kind 1: chaos (any mode, time passes, user requests, fault handler overrides)
            let recoverable = rng.chance(1, 2);
            let mode = if recoverable || rng.chance(2, 3) { TransmissionMode::Acknowledged } else { TransmissionMode::Unacknowledged };
            let seg = *rng.pick(&[16u16, 24, 32, 64, 20]);
            let segu = seg as usize;
            let crc = if rng.chance(1, 4) { CRCFlag::Present } else { CRCFlag::NotPresent };
            let max = if recoverable { rng.range(2, 3) as u32 } else { rng.range(1, 3) as u32 };
            let ti = *rng.pick(&[2i64, 5]);
            let ta = *rng.pick(&[1i64, 2]);
            let tn = *rng.pick(&[1i64, 3]);
            let len = *rng.pick(&[0usize, 1, segu - 1, segu, segu + 1, 3 * segu, 3 * segu + 5, 5 * segu - 1]);
            let nofile = rng.chance(1, 12);
            let scfg = SendCfg {
                mode,
                seg,
                crc,
                max,
                ti,
                ta,
                tn: 1,
                closure: rng.chance(1, 2),
                cktype: if rng.chance(1, 4) { ChecksumType::Null } else { ChecksumType::Modular },
                fho: if recoverable { "-".into() } else { rng.pick(&["-", "-", "-", "8:a", "1:i", "1:s", "8:i"]).to_string() },
                file: if nofile { "-".into() } else { format!("lin:{}:{}:{}", len, rng.range(1, 50), rng.below(256)) },
                nreq: *rng.pick(&[0usize, 0, 2]),
            };
            let rcfg = RecvCfg {
                mode,
                fss: FileSizeFlag::Small,
                seg,
                crc,
                max,
                ti,
                ta,
                tn,
                immediate: rng.chance(1, 2),
                delay_ms: *rng.pick(&[0u64, 0, 300]),
                fho: if recoverable { "-".into() } else { rng.pick(&["-", "-", "-", "8:a", "1:i", "7:s", "5:i", "10:i", "4:i"]).to_string() },
            };
            let exempt = c03_exempt(&scfg.fho) || c03_exempt(&rcfg.fho);
            let line = new_line(&scfg, &rcfg);
            let mut n = start(out, &base, cases, scfg, rcfg, &line).await;
            // ---- random phase
            let steps = rng.range(10, 90);
            let mut lost = 0u32;
            for _ in 0..steps {
                if !n.s_alive() && !n.r_alive() {
                    break;
                }
                let pick = rng.below(100);
                if pick < 32 {
                    n.sop(out, &mut viol, "send").await;
                } else if pick < 48 {
                    n.rop(out, &mut viol, "send").await;
                } else if pick < 72 {
                    // link -> receiver
                    if n.to_r.is_empty() {
                        continue;
                    }
                    let how = rng.below(100);
                    if how < 70 && n.next_r < n.to_r.len() {
                        let h = n.to_r[n.next_r].clone();
                        n.next_r += 1;
                        n.rop(out, &mut viol, &format!("pdu {}", h)).await;
                    } else if how < 85 && n.next_r < n.to_r.len() {
                        n.next_r += 1; // lost (it may still be delivered later as a straggler)
                        lost += 1;
                    } else {
                        let k = rng.below(n.to_r.len() as u64) as usize; // duplicate / straggler / reordered
                        let h = n.to_r[k].clone();
                        n.rop(out, &mut viol, &format!("pdu {}", h)).await;
                    }
                } else if pick < 90 {
                    if n.to_s.is_empty() {
                        continue;
                    }
                    let how = rng.below(100);
                    if how < 70 && n.next_s < n.to_s.len() {
                        let h = n.to_s[n.next_s].clone();
                        n.next_s += 1;
                        n.sop(out, &mut viol, &format!("pdu {}", h)).await;
                    } else if how < 85 && n.next_s < n.to_s.len() {
                        n.next_s += 1;
                        lost += 1;
                    } else {
                        let k = rng.below(n.to_s.len() as u64) as usize;
                        let h = n.to_s[k].clone();
                        n.sop(out, &mut viol, &format!("pdu {}", h)).await;
                    }
                } else if recoverable {
                    continue;
                } else if pick < 97 {
                    // time passes; whoever is due handles its timeout
                    let us = if n.s_alive() { n.s.until() } else { Duration::MAX };
                    let ur = if n.r_alive() { n.r.until() } else { Duration::MAX };
                    let u = us.min(ur);
                    let ms = if u == Duration::MAX || rng.chance(1, 3) { *rng.pick(&[100u64, 400, 999, 1000, 2500]) } else { (u.as_nanos() as u64 + 999_999) / 1_000_000 };
                    if ms > 0 {
                        n.adv(out, &mut viol, ms).await;
                    }
                    if n.s_alive() && n.s.until() == Duration::ZERO {
                        n.sop(out, &mut viol, "timeout").await;
                        n.timeouts += 1;
                    }
                    if n.r_alive() && n.r.until() == Duration::ZERO {
                        n.rop(out, &mut viol, "timeout").await;
                        n.timeouts += 1;
                    }
                } else {
                    let op = *rng.pick(&["cancel", "suspend", "resume", "report", "resume"]);
                    n.user_ops += 1;
                    if rng.chance(1, 2) {
                        n.sop(out, &mut viol, op).await;
                    } else {
                        n.rop(out, &mut viol, op).await;
                    }
                }
            }
            // ---- fair phase
            n.fair(out, &mut viol, exempt).await;
            // ---- two-party oracles
            let recv_success = n.r.truth.success_reported;
            *tally.entry(if recoverable { "recoverable" } else { "chaos" }).or_insert(0) += 1;
            *tally.entry("lost").or_insert(0) += lost as u64;
            *tally.entry("pdus").or_insert(0) += (n.to_r.len() + n.to_s.len()) as u64;
            *tally.entry("timeouts").or_insert(0) += n.timeouts as u64;
            *tally.entry("user_ops").or_insert(0) += n.user_ops as u64;
            if recv_success {
                *tally.entry("recv_success").or_insert(0) += 1;
            }
            if n.send_success {
                *tally.entry("send_success").or_insert(0) += 1;
            }
            if recoverable && !n.s.dead && !n.r.dead {
                let ctx = || format!("lost {} PDUs in the zero-time phase, {} timeouts || after: {}", lost, n.timeouts, n.s.hist.join("; "));
                if !recv_success {
                    viol += 1;
                    oracle(out, "C02", "recovers", &format!("acknowledged transfer over a link that lost nothing after the first instant was not delivered: {}", ctx()));
                } else if !n.send_success {
                    viol += 1;
                    oracle(out, "C02", "same_outcome", &format!("the receiver reported the delivery but the sender did not report success: {}", ctx()));
                }
            }
            if recv_success && n.s.cfg.file != "-" && n.s.cfg.nreq == 0 {
                let got = std::fs::read(n.r.root.join("out/dst.bin")).ok();
                if got.as_deref() != Some(&n.s.file[..]) {
                    viol += 1;
                    oracle(out, "C01", "two_party_file", &format!("the receiver reported a complete delivery but out/dst.bin holds {:?} bytes, the sender's file has {} || after: {}", got.map(|g| g.len()), n.s.file.len(), n.s.hist.join("; ")));
                }
            }
            let _ = std::fs::remove_dir_all(&n.s.root);
            let _ = std::fs::remove_dir_all(&n.r.root);
        }
    });
    let t: Vec<String> = tally.iter().map(|(k, v)| format!("{}={}", k, v)).collect();
    stat(out, &format!("engine=net cases={} oracle_violations={} {}", cases, viol, t.join(" ")));
}
