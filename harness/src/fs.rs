//! `fs` engine: the real `NativeFileStore::process_request` on a scratch directory, one request
//! per op line, over a small namespace of files and directories.
//!
//! ops:  fs new
//!       fs req <action code> <name1> <name2>   (names hex-encoded, `-` = empty; a leading `ROOT`
//!                                               stands for the filestore root: the harness puts the
//!                                               real root there, the model its own `/vroot/r`)
//! answer: `status=<4-bit status code> fs=<listing of the root>`
//! oracles (C13): a request that reports failure leaves the listing unchanged; (C12) nothing next
//! to the root (sentinel file and sibling directory) ever changes.
use crate::txn::{digest, fs_listing, prepare_root};
use crate::util::*;
use crate::Opts;
use camino::{Utf8Path, Utf8PathBuf};
use cfdp_core::filestore::{FileStore, NativeFileStore};
use cfdp_core::pdu::{FileStoreAction, FileStoreRequest};
use std::io::Write;

const ACTIONS: [FileStoreAction; 9] = [
    FileStoreAction::CreateFile,
    FileStoreAction::DeleteFile,
    FileStoreAction::RenameFile,
    FileStoreAction::AppendFile,
    FileStoreAction::ReplaceFile,
    FileStoreAction::CreateDirectory,
    FileStoreAction::RemoveDirectory,
    FileStoreAction::DenyFile,
    FileStoreAction::DenyDirectory,
];

fn action_of(code: u8) -> Option<FileStoreAction> {
    ACTIONS.iter().find(|a| (*a).clone() as u8 == code).cloned()
}

fn enc(name: &str) -> String {
    if name.is_empty() {
        "-".into()
    } else {
        hex(name.as_bytes())
    }
}
fn dec(tok: &str) -> String {
    if tok == "-" {
        String::new()
    } else {
        String::from_utf8(unhex(tok)).expect("utf8 name")
    }
}

struct Case {
    base: Utf8PathBuf,
    root: Utf8PathBuf,
    store: NativeFileStore,
    outside: String,
    hist: Vec<String>,
}

fn outside_listing(base: &Utf8Path) -> String {
    // everything in the scratch base except the root itself
    let mut v = vec![];
    let mut ents: Vec<_> = std::fs::read_dir(base).map(|r| r.filter_map(|e| e.ok()).collect()).unwrap_or_default();
    ents.sort_by_key(|e| e.file_name());
    for e in ents {
        let name = e.file_name().to_string_lossy().to_string();
        if name == "r" {
            continue;
        }
        let p = Utf8PathBuf::from_path_buf(e.path()).unwrap();
        if p.is_dir() {
            v.push(format!("d:{}{}", name, fs_listing(&p)));
        } else {
            v.push(format!("f:{}:{}", name, digest(&std::fs::read(&p).unwrap_or_default())));
        }
    }
    v.join(",")
}

impl Case {
    fn new(base: &Utf8Path) -> Case {
        let _ = std::fs::remove_dir_all(base);
        let root = base.join("r");
        prepare_root(&root);
        // neighbours of the root that no request may touch
        std::fs::write(base.join("sentinel"), b"S").unwrap();
        std::fs::create_dir_all(base.join("rx")).unwrap();
        std::fs::write(base.join("rx/y"), b"Y").unwrap();
        let store = NativeFileStore::new(&root);
        let outside = outside_listing(base);
        Case { base: base.to_path_buf(), root, store, outside, hist: vec!["fs new".into()] }
    }

    fn req(&mut self, out: &mut dyn Write, viol: &mut u64, code: u8, n1: &str, n2: &str) {
        let line = format!("fs req {} {} {}", code, enc(n1), enc(n2));
        self.hist.push(line.clone());
        let action = action_of(code).expect("action code");
        let real = |n: &str| -> Utf8PathBuf {
            match n.strip_prefix("ROOT") {
                Some(rest) => Utf8PathBuf::from(format!("{}{}", self.root, rest)),
                None => Utf8PathBuf::from(n),
            }
        };
        let before = fs_listing(&self.root);
        let request = FileStoreRequest { action_code: action, first_filename: real(n1), second_filename: real(n2) };
        let store = &self.store;
        let resp = std::panic::catch_unwind(std::panic::AssertUnwindSafe(|| store.process_request(&request)));
        let after = fs_listing(&self.root);
        let ans = match &resp {
            Ok(r) => format!("status={} fs={}", r.action_and_status.clone().into_u8_status(), after),
            Err(_) => format!("panic fs={}", after),
        };
        rec(out, &line, &ans);
        let after_ops = || self.hist.join("; ");
        match &resp {
            Ok(r) => {
                if r.action_and_status.is_fail() && before != after {
                    *viol += 1;
                    oracle(out, "C13", "failed_changes_nothing", &format!("request reported failure {:?} but the filestore changed: {} -> {} || after: {}", r.action_and_status, before, after, after_ops()));
                }
                if r.first_filename != request.first_filename || r.second_filename != request.second_filename || r.action_and_status.action() != request.action_code {
                    *viol += 1;
                    oracle(out, "C13", "response_names", &format!("response {:?} does not echo the request {:?} || after: {}", r, request, after_ops()));
                }
            }
            Err(_) => {
                *viol += 1;
                oracle(out, "C13", "no_panic", &format!("process_request panicked || after: {}", after_ops()));
            }
        }
        let outside = outside_listing(&self.base);
        if outside != self.outside {
            *viol += 1;
            oracle(out, "C12", "fs_contained", &format!("something outside the root changed: {} -> {} || after: {}", self.outside, outside, after_ops()));
            self.outside = outside;
        }
    }
}

trait StatusCode {
    fn into_u8_status(self) -> u8;
    fn action(&self) -> FileStoreAction;
}
impl StatusCode for cfdp_core::pdu::FileStoreStatus {
    fn into_u8_status(self) -> u8 {
        // the low nibble of the encoded action-and-status octet
        use cfdp_core::pdu::FileStoreStatus::*;
        match self {
            CreateFile(s) => s as u8,
            DeleteFile(s) => s as u8,
            RenameFile(s) => s as u8,
            AppendFile(s) => s as u8,
            ReplaceFile(s) => s as u8,
            CreateDirectory(s) => s as u8,
            RemoveDirectory(s) => s as u8,
            DenyFile(s) => s as u8,
            DenyDirectory(s) => s as u8,
        }
    }
    fn action(&self) -> FileStoreAction {
        use cfdp_core::pdu::FileStoreStatus::*;
        match self {
            CreateFile(_) => FileStoreAction::CreateFile,
            DeleteFile(_) => FileStoreAction::DeleteFile,
            RenameFile(_) => FileStoreAction::RenameFile,
            AppendFile(_) => FileStoreAction::AppendFile,
            ReplaceFile(_) => FileStoreAction::ReplaceFile,
            CreateDirectory(_) => FileStoreAction::CreateDirectory,
            RemoveDirectory(_) => FileStoreAction::RemoveDirectory,
            DenyFile(_) => FileStoreAction::DenyFile,
            DenyDirectory(_) => FileStoreAction::DenyDirectory,
        }
    }
}

pub fn run(opts: &Opts, out: &mut dyn Write) {
    let td = tempfile::Builder::new().prefix("cfdp-verif-fs-").tempdir().expect("tempdir");
    let base = Utf8PathBuf::from_path_buf(td.path().join("b")).unwrap();
    let mut viol = 0u64;
    let mut cases = 0u64;
    let mut reqs = 0u64;
    let mut by_status = std::collections::BTreeMap::<String, u64>::new();
    if let Some(p) = &opts.replay {
        let mut case: Option<Case> = None;
        for line in std::fs::read_to_string(p).expect("replay").lines() {
            let line = line.split('\t').next().unwrap().trim();
            let t: Vec<&str> = line.split_whitespace().collect();
            if t.len() >= 2 && t[0] == "fs" && t[1] == "new" {
                case = Some(Case::new(&base));
                rec(out, "fs new", &format!("ok fs={}", fs_listing(&base.join("r"))));
            } else if t.len() == 5 && t[0] == "fs" && t[1] == "req" {
                if let Some(c) = case.as_mut() {
                    c.req(out, &mut viol, t[2].parse().unwrap(), &dec(t[3]), &dec(t[4]));
                }
            }
        }
        stat(out, &format!("engine=fs replay=1 oracle_violations={}", viol));
        return;
    }
    let mut rng = Rng::new(opts.seed, "fs");
    let names: Vec<&str> = vec!["a", "b", "d", "d/x", "d/y", "old", "e", "e/f", "", ".", "..", "../sentinel", "../rx/y", "ROOT/old", "ROOT/../sentinel", "/a", "/d/x", "d/../old", "ROOTx/y", "d/x/z"];
    let start = |out: &mut dyn Write, cases: &mut u64| -> Case {
        *cases += 1;
        let c = Case::new(&base);
        rec(out, "fs new", &format!("ok fs={}", fs_listing(&base.join("r"))));
        c
    };
    // 1. every single request on the initial filesystem (bounded exhaustive)
    for a in ACTIONS.iter() {
        for n1 in &names {
            for n2 in &names {
                let two = matches!(a, FileStoreAction::RenameFile | FileStoreAction::AppendFile | FileStoreAction::ReplaceFile);
                if !two && *n2 != "b" {
                    continue;
                }
                let mut c = start(out, &mut cases);
                c.req(out, &mut viol, a.clone() as u8, n1, n2);
                reqs += 1;
            }
        }
    }
    // 2. random short and long sequences (state-dependent behaviour: create then rename then append ...)
    let nseq = if opts.thorough { 20000 } else { 1500 };
    let core: Vec<&str> = vec!["a", "b", "d", "d/x", "d/y", "old", "e", "e/f", "/a", "d/../old"];
    for _ in 0..nseq {
        let mut c = start(out, &mut cases);
        let len = 2 + rng.below(7);
        for _ in 0..len {
            let a = rng.pick(&ACTIONS).clone();
            let pool = if rng.chance(1, 8) { &names } else { &core };
            let n1 = *rng.pick(pool);
            let n2 = *rng.pick(pool);
            c.req(out, &mut viol, a as u8, n1, n2);
            reqs += 1;
        }
    }
    // 3. the primitives the transactions call directly (`open` for the source and destination names, `get_size`,
    // `open` for reading, the single-name primitives behind the requests): implementation-level only (no op line, the
    // model has no such operations) - whatever name they are given, nothing next to the root changes and nothing next to
    // the root is read.  More names that climb out of the root than the requests above use.
    let mut prims = 0u64;
    {
        use std::io::Read;
        let climbing: Vec<&str> = vec!["../planted", "./../planted", "d/../../planted", "d/../../sentinel", "../sentinel", "../rx/y", "../rx/new", "e/../../rx/y", "..", "../", "ROOT/../planted", "ROOT/../sentinel", "a/../../sentinel", "./../rx", "../rx"];
        let all: Vec<&str> = names.iter().cloned().chain(climbing.iter().cloned()).collect();
        for name in &all {
            for prim in 0..8u8 {
                let c = Case::new(&base);
                let real = match name.strip_prefix("ROOT") {
                    Some(rest) => Utf8PathBuf::from(format!("{}{}", c.root, rest)),
                    None => Utf8PathBuf::from(*name),
                };
                let what = match prim {
                    0 => "open(create, write)",
                    1 => "open(create, truncate, write)",
                    2 => "open(read)",
                    3 => "get_size",
                    4 => "create_file",
                    5 => "delete_file",
                    6 => "create_directory",
                    _ => "remove_directory",
                };
                let mut leaked: Option<Vec<u8>> = None;
                let r = std::panic::catch_unwind(std::panic::AssertUnwindSafe(|| match prim {
                    0 => c.store.open(&real, std::fs::OpenOptions::new().create(true).write(true)).map(|mut f| {
                        let _ = f.write_all(b"W");
                    }).is_ok(),
                    1 => c.store.open(&real, std::fs::OpenOptions::new().create(true).truncate(true).write(true)).map(|_| ()).is_ok(),
                    2 => match c.store.open(&real, std::fs::OpenOptions::new().read(true)) {
                        Ok(mut f) => {
                            let mut b = vec![];
                            let _ = f.read_to_end(&mut b);
                            leaked = Some(b);
                            true
                        }
                        Err(_) => false,
                    },
                    3 => c.store.get_size(&real).is_ok(),
                    4 => c.store.create_file(&real).is_ok(),
                    5 => c.store.delete_file(&real).is_ok(),
                    6 => c.store.create_directory(&real).is_ok(),
                    _ => c.store.remove_directory(&real).is_ok(),
                }));
                prims += 1;
                let after = outside_listing(&c.base);
                if after != c.outside {
                    viol += 1;
                    oracle(out, "C12", "primitive_contained", &format!("{} of `{}` changed what lies next to the filestore root: `{}` -> `{}` (result: {:?})", what, name, c.outside, after, r.as_ref().ok()));
                }
                // the neighbours hold `S` and `Y`; inside the root no file has that content
                if let Some(b) = leaked {
                    if b == b"S" || b == b"Y" {
                        viol += 1;
                        oracle(out, "C12", "primitive_contained", &format!("open(read) of `{}` returned the content of a file next to the filestore root", name));
                    }
                }
            }
        }
    }
    let _ = &mut by_status;
    stat(out, &format!("engine=fs cases={} requests={} primitives={} oracle_violations={}", cases, reqs, prims, viol));
}
