//! Engine `path`: `NativeFileStore::get_native_path` (cfdp-core/src/filestore.rs), C12.
//!
//! ops:  path native <root> <name>     (both percent-escaped: %20 space, %25 %, `-` empty)
//! answer: the components of the returned path, `R` = root dir, `.`, `..`, names, joined by `|`
//! oracle: the returned path, resolved lexically, stays inside the root and applying
//! get_native_path twice gives the same path (process_request maps names twice).

use std::io::Write;

use camino::{Utf8Component, Utf8Path, Utf8PathBuf};
use cfdp_core::filestore::{FileStore, NativeFileStore};

use crate::util::*;
use crate::Opts;

pub fn esc(s: &str) -> String {
    if s.is_empty() {
        return "-".into();
    }
    s.replace('%', "%25").replace(' ', "%20").replace('\t', "%09")
}
pub fn unesc(s: &str) -> String {
    if s == "-" {
        return String::new();
    }
    s.replace("%20", " ").replace("%09", "\t").replace("%25", "%")
}

pub fn comps(p: &Utf8Path) -> String {
    let v: Vec<String> = p
        .components()
        .map(|c| match c {
            Utf8Component::Prefix(_) => "P".to_string(),
            Utf8Component::RootDir => "R".to_string(),
            Utf8Component::CurDir => ".".to_string(),
            Utf8Component::ParentDir => "..".to_string(),
            Utf8Component::Normal(n) => n.to_string(),
        })
        .collect();
    if v.is_empty() {
        "-".into()
    } else {
        v.join("|")
    }
}

/// lexical resolution: None when `..` would climb above the start
fn resolve(p: &Utf8Path) -> Option<Vec<String>> {
    let mut out: Vec<String> = vec![];
    for c in p.components() {
        match c {
            Utf8Component::Prefix(_) => return None,
            Utf8Component::RootDir => out.push("/".into()),
            Utf8Component::CurDir => {}
            Utf8Component::ParentDir => {
                if out.is_empty() || out.last().unwrap() == "/" {
                    return None;
                }
                out.pop();
            }
            Utf8Component::Normal(n) => out.push(n.to_string()),
        }
    }
    Some(out)
}

fn inside(root: &Utf8Path, p: &Utf8Path) -> bool {
    match (resolve(root), resolve(p)) {
        (Some(r), Some(x)) => x.len() >= r.len() && x[..r.len()] == r[..],
        _ => false,
    }
}

fn one(out: &mut dyn Write, root: &str, name: &str, viol: &mut u64, check_oracle: bool) {
    let op = format!("path native {} {}", esc(root), esc(name));
    let fs = NativeFileStore::new(Utf8PathBuf::from(root));
    let res = std::panic::catch_unwind(|| fs.get_native_path(Utf8Path::new(name)));
    match res {
        Ok(p) => {
            rec(out, &op, &comps(&p));
            if check_oracle {
                if !inside(Utf8Path::new(root), &p) {
                    *viol += 1;
                    oracle(out, "C12", "contained", &format!("name `{}` maps to `{}` outside root `{}` || ops: {}", name, p, root, op));
                }
                let p2 = fs.get_native_path(&p);
                if comps(&p2) != comps(&p) {
                    *viol += 1;
                    oracle(out, "C12", "idempotent", &format!("native(native(n)) = `{}` != native(n) = `{}` || ops: {}", p2, p, op));
                }
            }
        }
        Err(_) => {
            rec(out, &op, "panic");
            *viol += 1;
            oracle(out, "C12", "panic", &format!("get_native_path panicked || ops: {}", op));
        }
    }
}

pub fn run(opts: &Opts, out: &mut dyn Write) {
    let mut viol = 0u64;
    let mut cases = 0u64;
    if let Some(p) = &opts.replay {
        for line in std::fs::read_to_string(p).expect("replay").lines() {
            let line = line.split('\t').next().unwrap().trim();
            let t: Vec<&str> = line.split_whitespace().collect();
            if t.len() == 4 && t[0] == "path" && t[1] == "native" {
                one(out, &unesc(t[2]), &unesc(t[3]), &mut viol, true);
            }
        }
        stat(out, &format!("engine=path replay=1 oracle_violations={}", viol));
        return;
    }
    let roots_checked = ["/vroot/r", "rel/r", "/"];
    let roots_unchecked = ["", ".", "/vroot/r/", "/vroot/./r", "/vroot/r/../r"];
    let alphabet = ["a", "b", ".", "..", "", "r", "vroot", "rx"];
    let k = alphabet.len();
    let maxc = if opts.thorough { 5 } else { 4 };
    for len in 0..=maxc {
        let total = k.pow(len as u32);
        for idx in 0..total {
            let mut x = idx;
            let mut parts: Vec<&str> = vec![];
            for _ in 0..len {
                parts.push(alphabet[x % k]);
                x /= k;
            }
            let body = parts.join("/");
            for root in roots_checked {
                let sib = format!("{}x", root.trim_end_matches('/'));
                let variants = [
                    body.clone(),
                    format!("/{}", body),
                    format!("{}/{}", root, body),
                    format!("{}/{}", sib, body),
                    format!("{}{}", root, body),
                ];
                for v in variants.iter() {
                    one(out, root, v, &mut viol, true);
                    cases += 1;
                }
            }
            if len <= 3 {
                for root in roots_unchecked {
                    one(out, root, &body, &mut viol, false);
                    one(out, root, &format!("/{}", body), &mut viol, false);
                    one(out, root, &format!("{}/{}", root, body), &mut viol, false);
                    cases += 3;
                }
            }
        }
    }
    // names with odd characters
    let mut rng = Rng::new(opts.seed, "path");
    let odd = ["a b", "é", "..a", "a..", "...", ".a", "a.", " ", "%", "a%20b"];
    for _ in 0..(if opts.thorough { 20000 } else { 2000 }) {
        let n = rng.range(1, 5);
        let parts: Vec<&str> = (0..n)
            .map(|_| if rng.chance(1, 2) { *rng.pick(&odd) } else { *rng.pick(&alphabet) })
            .collect();
        let mut s = parts.join("/");
        if rng.chance(1, 3) {
            s = format!("/{}", s);
        }
        if rng.chance(1, 4) {
            s = format!("/vroot/r/{}", s);
        }
        one(out, "/vroot/r", &s, &mut viol, true);
        cases += 1;
    }
    stat(out, &format!("engine=path cases={} oracle_violations={} exhaustive_part=1", cases, viol));
}
