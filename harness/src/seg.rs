//! Engine `seg`: the receiver's segment bookkeeping (cfdp-daemon/src/segments.rs), C09.
//!
//! ops:   seg new | seg merge a b | seg probe M | seg gaps a b | seg complete n
//! oracle: an independent bitmap (small universes) / naive interval set (large offsets).

use std::io::Write;
use std::panic::{catch_unwind, AssertUnwindSafe};

use cfdp_daemon::verif::Segments;

use crate::util::*;
use crate::Opts;

struct Naive(Vec<(u64, u64)>);
impl Naive {
    fn insert(&mut self, a: u64, b: u64) -> u64 {
        let before = self.total();
        self.0.push((a, b));
        self.0.sort();
        let mut out: Vec<(u64, u64)> = vec![];
        for &(s, e) in &self.0 {
            match out.last_mut() {
                Some(l) if s <= l.1 => {
                    if e > l.1 {
                        l.1 = e
                    }
                }
                _ => out.push((s, e)),
            }
        }
        self.0 = out;
        self.total() - before
    }
    fn total(&self) -> u64 {
        self.0.iter().map(|(a, b)| b - a).sum()
    }
    fn gaps(&self, a: u64, b: u64) -> Vec<(u64, u64)> {
        let mut out = vec![];
        let mut p = a;
        for &(s, e) in &self.0 {
            if e <= p {
                continue;
            }
            if s >= b {
                break;
            }
            if s > p {
                out.push((p, s));
            }
            p = e;
            if p >= b {
                break;
            }
        }
        if p < b {
            out.push((p, b));
        }
        out
    }
    fn complete(&self, n: u64) -> bool {
        n == 0 || (self.0.first().map_or(false, |&(s, e)| s == 0 && e >= n))
    }
}

struct Case<'a> {
    out: &'a mut dyn Write,
    s: Segments,
    naive: Naive,
    trace: Vec<String>,
    viol: &'a mut u64,
}

impl<'a> Case<'a> {
    fn new(out: &'a mut dyn Write, viol: &'a mut u64) -> Self {
        rec(out, "seg new", "ok");
        Case {
            out,
            s: Segments::new(),
            naive: Naive(vec![]),
            trace: vec!["seg new".into()],
            viol,
        }
    }
    fn bad(&mut self, clause: &str, detail: String) {
        *self.viol += 1;
        let hist = self.trace.join("; ");
        oracle(self.out, "C09", clause, &format!("{} || after: {}", detail, hist));
    }
    fn merge(&mut self, a: u64, b: u64) {
        let op = format!("seg merge {} {}", a, b);
        self.trace.push(op.clone());
        let r = catch_unwind(AssertUnwindSafe(|| self.s.merge((a, b))));
        match r {
            Ok(n) => {
                let l = self.s.verif_raw().to_vec();
                rec(self.out, &op, &format!("n={} l={}", n, fmt_pairs(&l)));
                let exp = self.naive.insert(a, b);
                if n != exp {
                    self.bad("merge_count", format!("merge({},{}) returned {} but {} new bytes", a, b, n, exp));
                }
                if l != self.naive.0 {
                    self.bad(
                        "merge_cov",
                        format!("list {} != union {}", fmt_pairs(&l), fmt_pairs(&self.naive.0)),
                    );
                }
            }
            Err(_) => {
                rec(self.out, &op, "panic");
                self.bad("merge_panic", format!("merge({},{}) panicked", a, b));
                // state after a panic is unspecified; restart the case
                self.s = Segments::new();
                self.naive = Naive(vec![]);
            }
        }
    }
    fn gaps(&mut self, a: u64, b: u64) -> String {
        let r = catch_unwind(AssertUnwindSafe(|| self.s.gaps(a, b)));
        match r {
            Ok(g) => {
                let exp = self.naive.gaps(a, b);
                if g != exp {
                    self.bad(
                        "gaps_exact",
                        format!("gaps({},{}) = {} expected {}", a, b, fmt_pairs(&g), fmt_pairs(&exp)),
                    );
                }
                fmt_pairs(&g)
            }
            Err(_) => {
                self.bad("gaps_panic", format!("gaps({},{}) panicked", a, b));
                "panic".into()
            }
        }
    }
    fn complete(&mut self, n: u64) -> bool {
        let c = self.s.is_complete(n);
        let exp = self.naive.complete(n);
        if c != exp {
            self.bad("isComplete_iff", format!("is_complete({}) = {} expected {}", n, c, exp));
        }
        c
    }
    fn probe(&mut self, m: u64) {
        let mut ans = String::from("c=");
        for n in 0..=m {
            ans.push(if self.complete(n) { '1' } else { '0' });
        }
        ans.push_str(" g=");
        for a in 0..=m {
            for b in a..=m {
                ans.push_str(&self.gaps(a, b));
            }
        }
        let end = self.s.end().map_or("-".to_owned(), |x| x.to_string());
        ans.push_str(&format!(" end={} len={}", end, self.s.len()));
        rec(self.out, &format!("seg probe {}", m), &ans);
    }
    fn gaps_op(&mut self, a: u64, b: u64) {
        let g = self.gaps(a, b);
        rec(self.out, &format!("seg gaps {} {}", a, b), &g);
    }
    fn complete_op(&mut self, n: u64) {
        let c = self.complete(n);
        rec(self.out, &format!("seg complete {}", n), if c { "1" } else { "0" });
    }
}

fn all_segments(m: u64) -> Vec<(u64, u64)> {
    let mut v = vec![];
    for a in 0..m {
        for b in a + 1..=m {
            v.push((a, b));
        }
    }
    v
}

fn exhaustive(out: &mut dyn Write, m: u64, l: usize, viol: &mut u64, cases: &mut u64) {
    let segs = all_segments(m);
    let k = segs.len();
    // all sequences of length 0..=l
    for len in 0..=l {
        let total = k.pow(len as u32);
        for idx in 0..total {
            let mut c = Case::new(out, viol);
            let mut x = idx;
            for _ in 0..len {
                let (a, b) = segs[x % k];
                x /= k;
                c.merge(a, b);
            }
            c.probe(m);
            *cases += 1;
        }
    }
}

fn random_long(out: &mut dyn Write, rng: &mut Rng, n_cases: u64, viol: &mut u64, cases: &mut u64) {
    let bases: [u64; 5] = [0, 1 << 16, (1u64 << 32) - 300, 1u64 << 32, u64::MAX - 4000];
    for _ in 0..n_cases {
        let mut c = Case::new(out, viol);
        let base = *rng.pick(&bases);
        let span = *rng.pick(&[40u64, 300, 3000]);
        let nseg = rng.range(10, 120);
        for _ in 0..nseg {
            let a = base + rng.below(span);
            let maxlen = (u64::MAX - a).min(*rng.pick(&[1u64, 3, 16, 64, 500]));
            if maxlen == 0 {
                continue;
            }
            let b = a + rng.range(1, maxlen);
            c.merge(a, b);
            if rng.chance(1, 4) {
                let x = base.saturating_sub(5) + rng.below(span + 10);
                let y = x.saturating_add(rng.below(span));
                c.gaps_op(x, y);
            }
            if rng.chance(1, 8) {
                let n = base + rng.below(span + 10);
                c.complete_op(n);
            }
        }
        let end = base.saturating_add(span + 20);
        c.gaps_op(0, end);
        c.gaps_op(base, end);
        c.complete_op(c.s.end().unwrap_or(0));
        *cases += 1;
    }
}

fn replay(out: &mut dyn Write, path: &str, viol: &mut u64) {
    let text = std::fs::read_to_string(path).expect("replay file");
    let mut c: Option<Case> = None;
    // SAFETY of borrow: we recreate cases sequentially; keep it simple with raw pointers avoided
    let out_ptr: *mut dyn Write = out;
    let viol_ptr: *mut u64 = viol;
    for line in text.lines() {
        let line = line.split('\t').next().unwrap().trim();
        let t: Vec<&str> = line.split_whitespace().collect();
        if t.len() < 2 || t[0] != "seg" {
            continue;
        }
        match t[1] {
            "new" => {
                c = Some(Case::new(unsafe { &mut *out_ptr }, unsafe { &mut *viol_ptr }));
            }
            "merge" => {
                if let Some(c) = c.as_mut() {
                    c.merge(t[2].parse().unwrap(), t[3].parse().unwrap())
                }
            }
            "gaps" => {
                if let Some(c) = c.as_mut() {
                    c.gaps_op(t[2].parse().unwrap(), t[3].parse().unwrap())
                }
            }
            "complete" => {
                if let Some(c) = c.as_mut() {
                    c.complete_op(t[2].parse().unwrap())
                }
            }
            "probe" => {
                if let Some(c) = c.as_mut() {
                    c.probe(t[2].parse().unwrap())
                }
            }
            _ => {}
        }
    }
}

pub fn run(opts: &Opts, out: &mut dyn Write) {
    let mut viol = 0u64;
    let mut cases = 0u64;
    if let Some(p) = &opts.replay {
        replay(out, p, &mut viol);
        stat(out, &format!("engine=seg replay=1 oracle_violations={}", viol));
        return;
    }
    let mut rng = Rng::new(opts.seed, "seg");
    if opts.thorough {
        exhaustive(out, 6, 4, &mut viol, &mut cases);
        exhaustive(out, 8, 3, &mut viol, &mut cases);
        random_long(out, &mut rng, 20000, &mut viol, &mut cases);
    } else {
        exhaustive(out, 7, 3, &mut viol, &mut cases);
        random_long(out, &mut rng, 1500, &mut viol, &mut cases);
    }
    stat(
        out,
        &format!("engine=seg cases={} oracle_violations={} exhaustive_part=1", cases, viol),
    );
}
