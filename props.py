"""Per-property configuration shared by ./check and tools/mkmanifest.py."""

TRUSTED_BASE = [
    "Lean 4.33.0 kernel; axioms allowed in property theorems: propext, Classical.choice, Quot.sound (audited by #print axioms on every run); no sorry/admit/native_decide/bv_decide/own axioms (source scan on every run)",
    "hand-written Lean models are validated, not verified, against the Rust code: the harness (/verif/harness, built from /repo's working tree with --cfg cfdp_verif) runs the real code and the compiled Lean driver runs the model on the same op lines; answers are diffed",
    "harness canonicalisation + Lean driver parser/printer; gen/enums.py (enum/constant tables)",
    "Rust integers modelled as Nat with explicit panic outcomes where debug-profile arithmetic can overflow",
]

PROPS = {}

PROPS["C09"] = dict(
    title="The receiver's account of which bytes it holds is exact",
    module="Cfdp.Props.C09",
    namespace="Cfdp.Seg",
    theorems=["merge_inv", "merge_cov", "merge_count", "total_counts_bytes", "merge_bounded",
              "isComplete_iff", "gaps_exact", "gaps_maximal", "C09_history"],
    engines=["seg"],
    design="§6 C09",
    technique="Lean 4 refinement proof (segment list -> byte set) + differential correspondence with segments.rs",
    level_text=("Kernel-checked theorems over the Lean model of Segments (merge/gaps/is_complete/end): for every "
                "well-formed list and every segment, merge preserves the invariant, the covered byte set becomes the "
                "union, the returned count is the number of new distinct bytes (no u64 underflow), is_complete(n) "
                "iff every byte of [0,n) is held, gaps are exactly the maximal uncovered ranges of the window; lifted by "
                "induction to every sequence of segments (C09_history). The model is tied to segments.rs by a "
                "bounded-exhaustive + random differential run of the real code (through the cfg(cfdp_verif) re-export) "
                "against the compiled model, plus an independent naive interval-set oracle."),
    level_note=("Trusted: Lean kernel; model<->code tie is differential (all sequences of <=3 segments over 7 byte positions "
                "x all windows, random long sequences near 0, 2^32, 2^64); binary search modelled as a linear scan "
                "(equal on sorted lists); u64 as Nat (theorem merge_bounded: no value above the inputs is produced)."),
    rule=("seg engine: every sequence of <=L segments over [0,M) (quick L=3,M=7; thorough L=4,M=6 and L=3,M=8), each followed by "
          "a probe of gaps(a,b) for all a<=b<=M, is_complete(n) for all n<=M, end, len; plus seeded random sequences of 10-120 "
          "segments near offsets 0, 2^16, 2^32, 2^64-4000 with interleaved gaps/is_complete queries. A case is non-trivial "
          "when some answer differs from the empty/zero answer; distinct = distinct op sequences."),
    exhaustive_part=True,
    assumptions=["callers respect merge's assert!(start < end) (the receiver only calls it with non-empty data)"],
    unproved=[],
)
