"""Per-property configuration shared by ./check and tools/mkmanifest.py."""

TRUSTED_BASE = [
    "Lean 4.33.0 kernel; axioms allowed in property theorems: propext, Classical.choice, Quot.sound (audited by #print axioms on every run); no sorry/admit/native_decide/bv_decide/own axioms (source scan on every run)",
    "hand-written Lean models are validated, not verified, against the Rust code: the harness (/verif/harness, built from /repo's working tree with --cfg cfdp_verif) runs the real code and the compiled Lean driver runs the model on the same op lines; answers are diffed",
    "harness canonicalisation + Lean driver parser/printer; gen/enums.py (enum/constant tables)",
    "Rust integers modelled as Nat with explicit panic outcomes where debug-profile arithmetic can overflow",
]

PROPS = {}

PROPS["C09"] = dict(
    title="The receiver's account of which bytes it holds is exact",
    module="Cfdp.Props.C09",
    namespace="Cfdp.Seg",
    theorems=["merge_inv", "merge_cov", "merge_count", "total_counts_bytes", "merge_bounded",
              "isComplete_iff", "gaps_exact", "gaps_maximal", "C09_history"],
    engines=["seg", "recv"],
    design="§6 C09",
    technique="Lean 4 refinement proof (segment list -> byte set) + differential correspondence with segments.rs",
    level_text=("Kernel-checked theorems over the Lean model of Segments (merge/gaps/is_complete/end): for every "
                "well-formed list and every segment, merge preserves the invariant, the covered byte set becomes the "
                "union, the returned count is the number of new distinct bytes (no u64 underflow), is_complete(n) "
                "iff every byte of [0,n) is held, gaps are exactly the maximal uncovered ranges of the window; lifted by "
                "induction to every sequence of segments (C09_history). The model is tied to segments.rs by a "
                "bounded-exhaustive + random differential run of the real code (through the cfg(cfdp_verif) re-export) "
                "against the compiled model, plus an independent naive interval-set oracle."),
    level_note=("Trusted: Lean kernel; model<->code tie is differential (all sequences of <=3 segments over 7 byte positions "
                "x all windows, random long sequences near 0, 2^32, 2^64); binary search modelled as a linear scan "
                "(equal on sorted lists); u64 as Nat (theorem merge_bounded: no value above the inputs is produced)."),
    rule=("seg engine: every sequence of <=L segments over [0,M) (quick L=3,M=7; thorough L=4,M=6 and L=3,M=8), each followed by "
          "a probe of gaps(a,b) for all a<=b<=M, is_complete(n) for all n<=M, end, len; plus seeded random sequences of 10-120 "
          "segments near offsets 0, 2^16, 2^32, 2^64-4000 with interleaved gaps/is_complete queries. A case is non-trivial "
          "when some answer differs from the empty/zero answer; distinct = distinct op sequences. "
          "recv engine as in C04 (recv.rs is the second anchor: has_naks / check_finished are where 'complete exactly when every byte of [0,n) is held' is used): "
          "its histories include file data beyond the announced size - before and after the EOF - next to holes inside the file, so that the progress counter and "
          "the segment list disagree; correspondence of the receiver's bookkeeping after every call, oracles complete_without_data / recv_progress."),
    exhaustive_part=True,
    assumptions=["callers respect merge's assert!(start < end) (the receiver only calls it with non-empty data)"],
    unproved=[],
)

PROPS["C14"] = dict(
    title="The file checksum is the CCSDS modular checksum, however the data is read",
    module="Cfdp.Props.C14",
    namespace="Cfdp.Cksum",
    theorems=["C14_chunking", "C14_chunking_general", "C14_null", "C14_agree", "C14_single_byte", "C14_neutral_exists"],
    engines=["cksum"],
    design="§6 C14",
    technique="Lean 4 proof (loop invariant over arbitrary chunkings) + differential correspondence with FileChecksum::checksum under prescribed short reads",
    level_text=("Kernel-checked theorems over the Lean model of the checksum loop: for every list of non-empty reads the loop "
                "returns the CCSDS modular checksum (32-bit wrapping sum of big-endian words of the zero-padded content) of "
                "the concatenation (C14_chunking), whatever the chunk sizes; identical content gives identical values "
                "(C14_agree); any single-byte change changes the value (C14_single_byte); Null is 0. The model is tied to "
                "filestore.rs by running the real checksum() on a Read+Seek that returns prescribed short reads."),
    level_note=("Trusted: Lean kernel; u32::from_be_bytes modelled as the big-endian value; BufReader::fill_buf modelled as "
                "'returns what one read() call returns, at most 8192 bytes, empty at EOF'; io errors not modelled."),
    rule=("cksum engine: all lengths 0..70 (thorough 0..300) x 18 chunk schedules (1..9 bytes, 8191, 8193, mixed) x 3 contents, random literal "
          "data with zero runs and cancelling word pairs under random schedules, plus single-byte mutations, lengths straddling "
          "8192/16384, Null type. Non-trivial = checksum != 0."),
    assumptions=["the reader returns each byte of the file exactly once, in order, after rewind()"],
    unproved=[],
)

PROPS["C12"] = dict(
    title="Filestore operations cannot reach outside the filestore root",
    module="Cfdp.Props.C12",
    namespace="Cfdp.Path",
    theorems=["C12_contained", "C12_idem"],
    engines=["path", "fs"],
    design="§6 C12",
    technique="Lean 4 proof over a component-level model of camino paths + exhaustive differential correspondence with get_native_path",
    level_text=("Kernel-checked theorem C12_contained: for every root string and every name string the path computed by "
                "get_native_path is the component list of the root followed only by proper names (non-empty, not '.', not '..', "
                "no separator), and normalize_path never reaches its unreachable!(); C12_idem: mapping a native path again gives "
                "the same path (process_request maps twice). The model of Utf8Path::components/strip_prefix/join is tied to the "
                "code by an exhaustive differential run over all names of <=4 (thorough 5) components from {a,b,.,..,'',r,vroot,rx} "
                "x {relative, absolute, prefixed by the root, by a sibling extending the root's name, glued to the root} x 8 roots."),
    level_note=("Trusted: Lean kernel; camino/std path semantics modelled at component level (Unix rules; Prefix components never occur); "
                "lexical claim only: symlinks inside the root are outside the model; that every NativeFileStore primitive starts with "
                "get_native_path is checked by the fs engine's sentinel-directory oracle (C13 engine), not by a theorem."),
    rule=("path engine: exhaustive names over the 8-word alphabet up to 4/5 components x 5 spellings x 3 oracle-checked roots (/vroot/r, rel/r, /) "
          "+ 5 unchecked roots ('', '.', trailing slash, './' and '..' inside the root) + random names with odd characters. "
          "Non-trivial = result has a component after the root."),
    exhaustive_part=True,
    assumptions=["no symbolic links inside the filestore root", "Unix path rules"],
    unproved=["that every filestore primitive (create/delete/rename/append/replace/mkdir/rmdir/open/get_size) applies get_native_path to each "
              "of its names is established by the fs engine's before/after snapshot of a sentinel parent directory, not by a theorem"],
)

PROPS["C05"] = dict(
    title="Every well-formed PDU survives encode then decode unchanged",
    module="Cfdp.Props.C05u",
    namespace="Cfdp.Codec",
    theorems=["C05_pdu", "C05_len", "C05_header", "C05_id", "C05_tlv", "C05_fsRequest", "C05_fsResponse", "C05_payload", "C05_enum_tables", "C05_userop", "C05_userop_len", "C05_report"],
    engines=["codec"],
    design="§6 C05",
    technique="Lean 4 round-trip proofs over a byte-level codec model + regenerated enum tables + differential correspondence with PDU::encode/decode",
    level_text=("Kernel-checked: for every PDU value within the wire format's own limits (explicit decidable predicate Pdu.WF) — every header field "
                "combination, id widths 1/2/4/8, small and large file-size encodings, CRC on or off, all seven directives, both file-data forms, "
                "all six metadata TLVs, filestore requests/responses — decode(encode p) = p (C05_pdu) and the number of bytes produced equals "
                "encoded_len (+2 with CRC) for every value, well-formed or not (C05_len). Enum/code tables are regenerated from the Rust source on "
                "every run (gen/enums.py) and re-proved injective. The reserved CFDP messages of user_ops.rs (Model/Codec/UserOps.lean: all 26 kinds - proxy put / message / "
                "filestore request / fault-handler override / transmission mode / flow label / segmentation control / put cancel and responses, directory listing, remote status "
                "report, remote suspend and resume, originating transaction id, store-and-forward overlay request, report and carried items) and the status report of daemon.rs "
                "round-trip the same way within their limits (C05_userop, C05_report; Props/C05u.lean) and announce their length exactly (C05_userop_len). "
                "The model is tied to the code by decoding the same byte strings in both and "
                "comparing a canonical rendering of the value, encoded_len and the re-encoding (50k strings quick); user operations and reports: every generated value, a "
                "truncation and a one-octet mutation of it, hand-built store-and-forward messages and random bytes behind every message type code are decoded by both and compared "
                "by outcome, re-encoding and encoded_len (ops codec userop / codec report, about 7000 quick)."),
    level_note=("Trusted: Lean kernel; model<->code tie is differential; integers as Nat with range side conditions; String::from_utf8 modelled by an "
                "executable UTF-8 validator; u16 arithmetic of encoded_len is modelled in Nat (no overflow below 65536). Reserved user operations "
                "(user_ops.rs) and status reports (daemon.rs Report) are covered by the implementation-level round-trip oracle only (not yet in the Lean model)."),
    rule=("codec engine: generated well-formed values of every PDU kind x id widths {1,2,4,8}^2 x {Small,Large} x CRC on/off x 6 (thorough 60) random instances "
          "(boundary strings 0/1/254/255, sizes 0/1/max-1/max), all 128 discrete header bit combinations, then the malformed stream of C06. "
          "Non-trivial = the implementation accepted the bytes (answer starts with ok)."),
    assumptions=["values handed to encode respect the wire format's limits (Pdu.WF); outside them encode truncates silently (`as u8`) and the round trip is not claimed"],
    unproved=[],
)

PROPS["C06"] = dict(
    title="Decoding arbitrary bytes never panics and what it accepts is canonical",
    module="Cfdp.Props.C06v",
    namespace="Cfdp.Codec",
    theorems=["C06_total", "C06_alloc", "C06_userop_total", "C06_report_total", "C06_canon", "C06_userop_canon", "C06_report_canon"],
    engines=["codec", "udp"],
    design="§6 C06",
    technique="Lean 4 totality proof over the codec model (panic outcome unreachable) and canonical-acceptance proof (per-decoder specification lemmas + the C05 round trip) + differential correspondence on a malformed byte stream with allocation counting",
    level_text=("Kernel-checked: for every byte string the model decoder returns a PDU or an error and never its panic outcome (C06_total; the panic "
                "outcome marks RecordContinuationState::from_u8(..).unwrap(), the fixed u16-2 / u8+1 sites are checked arithmetic now); the only "
                "wire-controlled allocation is below 64 KiB (C06_alloc); the decoders of the reserved CFDP messages (user_ops.rs) and of status reports never reach the panic outcome either (C06_userop_total, C06_report_total; Props/C06u.lean). 'Never loops' is Lean's termination check on the model decoders (fuel = input "
                "length, each iteration consumes a byte). Tie to the code: 50k (thorough 2M) byte strings — every truncation and 9 single-byte mutations per "
                "position of valid encodings, all prefixes <=4 over a 12-byte alphabet, forced length/flag fields, random tails — decoded by both; outcome class "
                "(value rendering | error variant | panic) compared; a counting global allocator bounds the largest single allocation (256 KiB). "
                "The second half of the property is a theorem too (Props/C06c.lean, Props/C06v.lean): for EVERY byte string, whatever PDU::decode accepts is - once its "
                "length field is recomputed - well-formed in C05's sense (relen_wf: one specification lemma per decoder, 'what it returns is within the wire format's limits "
                "and no longer than what it consumed', through headers, ids, LVs, names, TLVs, the Finished / Metadata / NAK loops), so C05's round trip applies and the "
                "re-encoding decodes to the same PDU (C06_canon); likewise for the reserved CFDP messages, all 27 message types (C06_userop_canon), and status reports "
                "(C06_report_canon). The statement is the one the implementation-level oracles canonical / userop_canonical check on every accepted string."),
    level_note=("Trusted: Lean kernel; differential tie; the harness is built with overflow-checks=on so that arithmetic overflow shows as a panic. "
                "Canonical acceptance (re-encode with recomputed length, decode again, same PDU) is a theorem about the model decoders and, independently, an "
                "implementation-level oracle on every accepted string."),
    rule=("udp engine as in C16 (cfdp-daemon/src/transport.rs is where received bytes are handed to PDU::decode: what UdpTransport::receive returns is compared with the Lean model of receive = decode of the datagram's own bytes). codec engine malformed stream (see level_text). Non-trivial = accepted by the implementation or rejected with a variant other than ReadError."),
    assumptions=[],
    unproved=[],
)

PROPS["C16"] = dict(
    title="A datagram is decoded from its own bytes only",
    module="Cfdp.Props.C16",
    namespace="Cfdp.Udp",
    theorems=["C16", "receive_window", "bufferAfter_length"],
    engines=["udp"],
    design="§6 C16",
    technique="Lean 4 proof over a model of the reused receive buffer + differential correspondence with a real UdpTransport on loopback",
    level_text=("Kernel-checked theorem C16: after any history of datagrams (each at most the buffer size) the value returned by receive() for a "
                "datagram is Pdu.decode of that datagram's bytes alone, whatever earlier datagrams left in the 65535-byte buffer. The model (buffer "
                "overwrite by recv_from, decode of buffer[..n]) is tied to transport.rs by running a real UdpTransport on 127.0.0.1: every corpus PDU "
                "followed by its truncations, and truncations of shorter PDUs after longer ones; returned PDUs are compared with the model and with "
                "PDU::decode of the datagram alone."),
    level_note=("Trusted: Lean kernel; recv_from semantics (writes the datagram at buffer[0..n], returns n; datagrams larger than the buffer are cut by the OS); "
                "codec model as in C05/C06; buffer size regenerated from the source (gen/enums.py)."),
    rule=("udp engine: for each of ~36 corpus PDUs (all kinds x size flag x CRC) a fresh transport: the PDU, then its truncations (every length thorough, every "
          "1+len/40 quick); 60 (thorough 600) random long/short pairs with 6 truncations each. Non-trivial = receive() returned a PDU."),
    assumptions=["datagrams are at most 65535 bytes (larger ones are truncated by the OS before the code sees them)"],
    unproved=[],
)

RECV_SEND_NOTE = ("Trusted: Lean kernel; the Lean models of SendTransaction / RecvTransaction / Counter / Timer / filestore are tied to the code by the "
                  "send / recv step engines: the real state machines are driven one method call per op line on a paused tokio clock (cfg(cfdp_verif) wrappers) "
                  "and after every call the emitted PDU (bytes), the indications, has_pdu_to_send, until_timeout, a rendering of the internal "
                  "bookkeeping (state, counters with elapsed ns, NAK queue, segment list, cursor ...) and the filestore listing are compared with the model's. "
                  "The loop semantics (send only when has_pdu_to_send, handle_timeout only when due, nothing after Terminated) is lean/Cfdp/Model/Loop.lean; "
                  "tokio's scheduling of the select! branches is not modelled (any order of enabled events is quantified over).")

PROPS["C07"] = dict(
    title="Sender transmits exactly the source file: right bytes, offsets, sizes, checksum",
    module="Cfdp.Props.C07h",
    namespace="Cfdp.Send",
    theorems=["C07_data", "C07_nak_queue", "Cfdp.Loop.C07_eof", "Cfdp.Loop.C07_first_pass", "C07_nak_answer", "C07_headers"],
    engines=["send"],
    design="§6 C07",
    technique="Lean 4 invariant proof over all event histories of the sender model + differential correspondence with SendTransaction",
    level_text=("Kernel-checked over the Lean model of SendTransaction and the task loop: for every file, segment size and every history of loop events "
                "(arbitrary NAK lists at any time, prompts, suspend/resume, cancel, timeouts) every file-data PDU transmitted carries exactly the file's "
                "bytes at its offset, at most one segment, nothing beyond the end of the file, no segmented data is sent, every Metadata PDU states the "
                "true names/size/closure/checksum type/options (C07_data), and the retransmission queue only ever holds the metadata marker or non-empty "
                "in-file pieces of at most a segment (C07_nak_queue); every EOF PDU transmitted - the regular one, its retransmissions, the EOF(cancel) - states "
                "the size the Metadata announced and the true checksum: the CCSDS modular checksum of the whole source file (Cksum.spec, tied to the chunked reading "
                "loop by C14 and chunkBy_spec) for Modular, 0 for Null and for transactions without a file (C07_eof, Props/C07e.lean, invariant EofOk); the PDUs "
                "transmitted by the first-pass iterations of any history are exactly the file cut into consecutive segments from offset 0 - each starts where the "
                "previous one ended, NAKs answered in between do not move the pass - and a file transfer reaches the EOF phase only when the pass has covered the "
                "whole file (C07_first_pass, Props/C07t.lean, ghost list firstPass + invariant Track); a queued request [a,b) is answered by one file-data PDU at "
                "offset a carrying exactly the bytes [a,b) (C07_nak_answer); every PDU transmitted carries the transaction's entity ids and sequence number, mode, "
                "CRC and file-size flags, direction to-receiver, the PDU type of its payload and a data-field length equal to the payload's encoded length "
                "(C07_headers, Props/C07h.lean). The model is tied to send.rs by the send engine (500 quick / 6000 thorough random "
                "histories compared step by step, byte-exact PDUs), whose oracles additionally check first-pass tiling, NAK answers inside the requested "
                "ranges, EOF size/checksum and header fields on the implementation."),
    level_note=RECV_SEND_NOTE,
    rule=("send engine: random histories around a first pass (file sizes 0,1,seg-1,seg,seg+1,3seg,3seg+5,5seg-1; seg 16/24/32/64; both modes; closure; CRC; "
          "Null/Modular checksum; fault handler overrides) with interleaved NAKs (overlapping, unsorted, empty, inverted, beyond EOF, longer than a segment, 0-0), "
          "keep-alives, prompts, suspend/resume, cancel, report, ACK(EOF)/Finished at random rounds, timeouts at/just before deadlines. "
          "Non-trivial = a PDU was emitted or an indication raised."),
    assumptions=["the source file does not change between Put and EOF (metadata.file_size = length of the file read)", "0 < file_size_segment <= 65535"],
    unproved=[],
)

PROPS["C19"] = dict(
    title="Suspend really suspends; resume picks up and completes",
    module="Cfdp.Props.C19n",
    namespace="Cfdp.Loop",
    theorems=["C19_send_quiet", "C19_send_no_timer_fault", "C19_send_permit_ignored", "C19_send_resume",
              "C19_recv_quiet", "C19_recv_no_timer_fault", "C19_recv_suspend", "C19_recv_resume", "C19_send_run_quiet",
              "Cfdp.Net.C19_completes_despite_suspensions", "C19_resume_round", "C19_resume_lossy_rounds", "C19_resume_then_lost_finisheds", "C19_send_resume_then_lost_eofs"],
    engines=["send", "recv", "daemon"],
    design="§6 C19",
    technique="Lean 4 proofs over the sender/receiver models and the task-loop step (gating of the send/timeout branches), resume composed with a recovery round through both models + differential correspondence",
    level_text=("Kernel-checked completion clause: in the two-party model suspend and resume requests at either entity, any number of them at any point, are among the actions of the calm histories of C02_two_party_completes - a suspended receiver still stores what arrives, a resumed sender transmits what it had not yet transmitted - so whatever suspensions happened, once the sender's Metadata, an EOF and data covering the file have been delivered the receiver has finished with NoError / Complete / Retained (C19_completes_despite_suspensions, Props/C19c.lean, with an example history that suspends both sides). Kernel-checked over the models of both transactions and of one task-loop iteration: in the Suspended state has_pdu_to_send is false and "
                "until_timeout is infinite, so for every event the loop can see (peer PDU, send permit, timer wake-up after any time, report, prompt) "
                "no PDU of any kind is transmitted (C19_*_quiet), a wake-up declares no fault and changes nothing (C19_*_no_timer_fault), and this holds for a "
                "whole stretch of events as long as the state stays Suspended (C19_send_run_quiet); suspend pauses all counters; resume makes the "
                "transaction Active with the inactivity count at 0 counting from the resume instant and leaves queue, cursor, progress, EOF, segments, "
                "metadata and staging file untouched (C19_*_resume). The gating is exactly what the pinned tree lacked (findings F17, F22). "
                "Resume picks the recovery up (Props/C19r.lean): the Resume.request of a receiver suspended in mid-recovery itself rebuilds the request queue from the segment list "
                "and starts the NAK counter afresh (resume_rebuilds), so a resume followed by a round in which nothing is lost - the NAKs reach the sender, the answers the receiver, "
                "any order, any duplicates - ends Finished / NoError / Complete / Retained without any timer expiry in between (C19_resume_round, on top of C02_full_round_after_wake). "
                "Under further losses (Props/C19l.lean): the Resume.request and the transmission of the rebuilt queue put the receiver in the starting state of C02's NAK loop - data untouched, nothing to transmit, NAK and inactivity counters at zero since the resume (resume_enters_loop) - so any fair lossy schedule of rounds counted from the resume in which every missing byte gets through at least once ends Finished / NoError / Complete / Retained, as for a transfer that was never suspended (C19_resume_lossy_rounds, on top of C02_lossy_rounds_fair). A resume in the closing handshake (Props/C19m.lean): a receiver suspended after it had transmitted its Finished PDU - after a delivery or a cancel - is put by the Resume.request in the starting state of the Finished retransmission loop, both counters afresh (resume_enters_wait), so the Finished PDU or its ACK lost up to limit-1 times, counted from the resume, still ends both transactions with the receiver's outcome (C19_resume_then_lost_finisheds). And the sender (Props/C19n.lean): suspended after it had transmitted its EOF (regular or cancelling), it is put by the Resume.request back into the EOF retransmission loop with the counts it had - suspension stops the counters, it does not clear them (send_resume_enters_wait) - so every expiry after the resume below the limits is followed by that same EOF (C19_send_resume_then_lost_eofs). "
                "Tie to the code: send and recv engines with suspend/resume injected at random points and arbitrary suspension lengths; oracles quiet / fault_while_suspended."),
    level_note=RECV_SEND_NOTE + " The completion-after-resume sentence of the property is a theorem for a round without losses after the resume (C19_resume_round) and for any fair lossy schedule of NAK-loop rounds after it (C19_resume_lossy_rounds); the other phases under loss are C02's.",
    rule=("daemon engine (two real daemons): in every third multi-transaction scenario one acknowledged six-segment transfer is suspended through its daemon (UserPrimitive::Suspend) right after its Put and resumed 1.5 s later - oracle daemon_suspended_silent (nothing of that transaction is handed to the link in between) and completion after the Resume (C11 others_unaffected). send + recv engines (see C07/C04): about one history in nine contains suspend, time passing (0 to 30 s), timeouts, send attempts, resume; "
          "fault handlers that suspend (8:s, 1:s, 7:s) make suspension by fault frequent. Non-trivial = a PDU was emitted or an indication raised."),
    assumptions=["the loop consults has_pdu_to_send()/until_timeout() before every iteration (lib.rs select! guards), as modelled in Model/Loop.lean"],
    unproved=["completion after a resume is a theorem for the receiver's data-recovery phase (C19_resume_round without losses, C19_resume_lossy_rounds under fair loss); and for the receiver's closing handshake (C19_resume_then_lost_finisheds); and for the sender's EOF handshake (C19_send_resume_then_lost_eofs); suspensions in the middle of a lossy schedule (several suspend / resume pairs interleaved with losses) are checked by the recv / send / daemon engines; that suspensions do not change the outcome once everything is delivered is C19_completes_despite_suspensions"],
)

PROPS["C20"] = dict(
    title="Progress figures reported to users and peers are truthful",
    module="Cfdp.Props.C20s",
    namespace="Cfdp.Loop",
    theorems=["C20_recv", "C20_recv_mono", "C20_recv_reports", "progress_sendFileSegment", "C20_send_le", "C20_send_history"],
    engines=["recv", "send", "seg"],
    design="§6 C20",
    technique="Lean 4 invariant proofs over all event histories of both models (using the C09 refinement) + differential correspondence",
    level_text=("Kernel-checked: after every history of loop events the receiver's figure equals the sum of its well-formed segment list, i.e. by C09 the "
                "number of distinct byte positions received (C20_recv), it never decreases (C20_recv_mono), and keep-alive PDUs, Fault, Abandon and Resumed "
                "indications are built from that figure at the moment they are issued (C20_recv_reports); on the sender every file-data transmission sets the "
                "figure to max(old, end of the data sent) (progress_sendFileSegment) and no transmitted data ends beyond the file (C20_send_le, from C07). "
                "Tie to the code: recv/send engines compare the figure after every step; oracles recv_progress / send_progress compare it with the bytes "
                "delivered / PDUs emitted as tracked independently by the harness."),
    level_note=RECV_SEND_NOTE,
    rule=("recv + send engines as in C04/C07 (prompts, faults, suspend/resume at random points; duplicates, retransmissions and re-segmented data that overlaps, "
          "bridges and swallows held segments); seg engine as in C09 (the receiver's figure is the sum of Segments::merge's return values, so the proof rests on the "
          "Segments model). Non-trivial = a PDU was emitted or an indication raised / the operation changed the segment list."),
    assumptions=[],
    unproved=[],
)

PROPS["C04"] = dict(
    title="A completed delivery is final: late or duplicate PDUs cannot undo or redo it",
    module="Cfdp.Props.C04n",
    namespace="Cfdp.Loop",
    theorems=["C04_final", "C04_late", "Cfdp.Send.C04_sender", "Cfdp.Net.C04_two_party"],
    engines=["recv", "send", "net"],
    design="§6 C04",
    technique="Lean 4 invariant proofs over all event histories of the receiver and sender models + differential correspondence",
    level_text=("Kernel-checked: once the receiver model has left ReceiveData (delivery reported, or cancelled) no history of loop events of any length - PDUs of "
                "any kind, timer wake-ups at any times, transmissions, cancel/suspend/resume/report - changes the filestore or the recorded filestore responses, and "
                "the phase never returns to ReceiveData (C04_final: so the delivered file is not rewritten and no filestore request runs twice); a late or duplicate "
                "file-data / NoError-EOF / metadata / prompt PDU reaching a Finished receiver raises only the 'PDU received' indications - no Finished indication, no "
                "fault of any kind, in particular no FileChecksumFailure / FilesizeError - and leaves delivery code, file status and the content of the Finished PDU "
                "unchanged (C04_late); a sender that is never handed a Finished PDU with delivery code Complete never reports a complete delivery to its user, over "
                "every history (C04_sender). Tie to the code: recv/send engines; oracle clauses finished_again / integrity_fault_after_success / fs_changed_after_success "
                "on the real RecvTransaction with duplicates and stragglers injected after completion."),
    level_note=RECV_SEND_NOTE + " The daemon's re-spawning of a receive transaction for a PDU that arrives after the transaction ended (lib.rs) is outside these models: see C11.",
    rule=("recv engine: seeded histories over both modes, closure on/off, immediate/deferred NAK, 0..6 segment files, filestore requests (append: non-idempotent); "
          "after the first Finished indication the script re-delivers 1-2 earlier PDUs (data, EOF, metadata, prompt) and lets ACK(Finished) get lost. "
          "send engine: Finished PDUs with every delivery code / condition. Non-trivial = a PDU was emitted or an indication raised."
          " net engine (300 quick / 3000 thorough two-party histories): one real SendTransaction and one real RecvTransaction joined by a simulated link that delivers only PDUs the other side emitted (in order, lost, duplicated, reordered, as stragglers), random schedules of transmissions, deliveries, timer expiries and user requests at both sides, then a loss-free fair phase on the shared virtual clock until both have ended; every call is answered in lockstep by the Lean sender and receiver models (ops net s / net r), the per-side oracles of the send / recv engines keep running, and two-party oracles are added: C02 recovers / same_outcome (acknowledged mode, losses confined to a zero-time phase, default handlers: both sides report success), C03 net_bounded / net_never_stuck, C04 sender_success_only_after_receiver, C01 two_party_file."),
    assumptions=["C04_late: the late EOF's file size is not below the end of the data held (true of any retransmission of the original EOF)"],
    unproved=["the daemon-level part (a PDU for an already ended transaction spawning a fresh receive transaction) is C11"],
)

PROPS["C18"] = dict(
    title="Unacknowledged mode is one-way unless closure is requested; closure works",
    module="Cfdp.Props.C18m",
    namespace="Cfdp.Loop",
    theorems=["C18_recv_oneway", "C18_recv_silent_without_closure", "C18_complete_means_complete",
              "Cfdp.Send.C18_send_ends_on_eof", "Cfdp.Send.C18_send_waits", "Cfdp.Send.C18_send_reports_outcome",
              "Cfdp.Send.C18_send_ignores_finished_without_closure", "Cfdp.Recv.C18_recv_closure_ends_quietly", "C18_send_data_once",
              "C18_closure_finished_repeated", "C18_closure_lost_finisheds", "C18_closure_from_eof"],
    engines=["recv", "send"],
    design="§6 C18",
    technique="Lean 4 invariant proofs over all event histories of the receiver model, step theorems on the sender model + differential correspondence",
    level_text=("Kernel-checked: for an unacknowledged receiver, over every history of loop events (any PDUs incl. prompts, in any order, timer wake-ups, send opportunities, "
                "cancel/suspend/resume) every transmitted PDU is a Finished PDU - never ACK, NAK or keep-alive (C18_recv_oneway, invariant UQ: nothing queued, NAK "
                "counter never started, a Finished record only under closure) - and nothing at all is transmitted unless a Metadata PDU asked for closure "
                "(C18_recv_silent_without_closure); in both modes and for every fault-handler configuration, in the iteration in which the delivery code becomes "
                "Complete the metadata is present and for a file transfer the EOF has arrived and the segment list covers [0, size) (C18_complete_means_complete, with C09's "
                "isComplete_iff); the sender without closure is Terminated by transmitting its EOF and tells the user (C18_send_ends_on_eof), with closure no "
                "transmission ends it (C18_send_waits) and the Finished PDU ends it with the receiver's condition and delivery code in the user's Finished indication "
                "(C18_send_reports_outcome); without closure a Finished PDU is rejected as unexpected; over every history the file-data PDUs an unacknowledged sender transmits, in order, are the file cut into consecutive segments from offset 0 - data goes out exactly once, nothing is retransmitted whatever the peer sends (no request is ever queued) - and the EOF phase of a file transfer is reached only after the whole file (C18_send_data_once in Props/C18s.lean, from C07_first_pass); an unacknowledged receiver repeating its closure Finished PDU ends quietly at the first limit (C18_recv_closure_ends_quietly). Tie to the code: recv/send engines; oracles recv_silent_link, "
                "complete_without_data, delivery_code_complete_without_data, send_shape, closure_wait, no_closure_end. "
                "Closure under repeated loss (Props/C18l.lean): nothing is acknowledged in this mode, so the receiver repeats its closure Finished PDU on the positive-ACK timer; the whole "
                "state after 'expiry, then transmission' is characterised (unack_fin_round_state, over the mode-independent htm_fin_state), so as long as the clock keeps both counters below "
                "their limits (FairT, limits derived) every expiry is followed by the transmission of that same Finished PDU and the outcome recorded stands "
                "(C18_closure_finished_repeated), and whichever of them reaches the sender ends it and its user is told the receiver's outcome (C18_closure_lost_finisheds); at the limit "
                "the receiver ends quietly (C18_recv_closure_ends_quietly). How the receiver gets into that loop (Props/C18m.lean): the truthful EOF arriving at an unacknowledged "
                "receiver whose Metadata asked for closure and that holds the whole file finalises the delivery NoError / Complete and makes the Finished PDU due (unackFinish_success, "
                "closure_eof_state); the next transmission puts it in the loop's starting state (closure_enters_wait); so from the EOF on, the Finished PDU lost up to limit-1 times still "
                "ends the sender with NoError / Complete told to its user (C18_closure_from_eof)."),
    level_note=RECV_SEND_NOTE + " 'The sender transmits metadata, the file data once and EOF' is C07's first-pass statement (send engine oracle send_shape); "
               "that the sender waits 'up to its limits' is C17.",
    rule=("recv engine: one history in three is unacknowledged (closure on/off, fault handlers incl. ignore/abandon/suspend for CheckLimitReached), losses of metadata / data / EOF, "
          "prompts, duplicates, wrong checksums, short EOFs, rejected destinations; send engine: unacknowledged histories with and without closure, Finished PDUs with every outcome, "
          "stray NAK/ACK/keep-alive PDUs. Non-trivial = a PDU was emitted or an indication raised."),
    assumptions=[],
    unproved=[],
)

PROPS["C08"] = dict(
    title="Receiver NAKs are well-formed and ask for exactly what is missing",
    module="Cfdp.Props.C08h",
    namespace="Cfdp.Loop",
    theorems=["C08_wellformed", "Cfdp.Recv.C08_exact", "Cfdp.Recv.C08_queue_after_eof", "Cfdp.Recv.C08_queue_after_eof_delayed",
              "Cfdp.Recv.C08_immediate_gap", "C08_deferred_quiet", "Cfdp.Recv.C08_headers"],
    engines=["recv", "seg"],
    design="§6 C08",
    technique="Lean 4 invariant proofs over all event histories of the receiver model (using the C09 gap theorems) + differential correspondence",
    level_text=("Kernel-checked: for a file of N bytes (data PDUs inside the file, EOFs announcing at most N; otherwise any PDUs, any order, duplicates, losses, prompts, "
                "timer expirations, suspend/resume, faults) every NAK the receiver model transmits has only requests that are the 0-0 marker or non-empty ranges, each inside "
                "the announced scope and ending at or below N, and - unless it carries a single request - a data field of at most segment size + 1 octets (C08_wellformed; invariant NQ: well-formed segment list, "
                "queue and delayed windows below N); once the EOF is in hand the list from which the queue is rebuilt (after EOF, on every NAK-timer expiry, on Prompt(NAK), "
                "on resume) is the marker iff the metadata is missing followed by ranges covering precisely the bytes of [0, size) not held - none left out, first segment "
                "included, none already held (C08_exact via C09 gaps_exact; C08_queue_after_eof / _delayed say when the queue takes that value); under the deferred "
                "procedure no NAK is transmitted over any history without EOF and Prompt PDUs (C08_deferred_quiet); under the immediate procedure a gap detected by a "
                "data PDU is queued at once or gets a timer of the configured delay (C08_immediate_gap), and an expired timer appends only the gaps that persist in its "
                "window (nq_handleDelayed); every PDU the receiver transmits over any history is addressed towards the sender and carries the transaction's ids, sequence number and mode (C08_headers, Props/C08h.lean). Tie to the code: recv engine (NAK queue, delayed timers, segment list and every emitted NAK compared) and seg engine (gaps)."),
    level_note=RECV_SEND_NOTE,
    rule=("recv engine as in C04 (loss of any subset of data segments and metadata, EOF first, data after EOF, duplicated EOF, prompts; deferred/immediate x delay 0/300 ms; "
          "segment sizes 16..64 so that NAK lists split over several PDUs; re-segmented overlapping data; the scripted family unsorted_queues, 20 quick / 200 thorough: immediate procedure with a delay, an early gap already NAKed and still open, a later gap followed at once by the EOF, so that the queue is unsorted when the NAK goes out) + seg engine as in C09. Oracles wf_scope, wf_empty_range, "
          "wf_beyond_file, wf_size, wf_meta_marker, deferred_quiet, exact_after_eof. Non-trivial = a PDU was emitted or an indication raised."),
    assumptions=["C08_wellformed 'inside the file': the sender's data PDUs lie inside the file and its EOF announces the file's size (hypothesis EvOk)",
                 "a NAK PDU always carries at least one request, so with a segment size below 1 + 4 x file-size width a single-request NAK exceeds it (finding F34)"],
    unproved=["the 0-0 marker is queued only while the metadata is missing (it can stay in the queue after the metadata arrived; harness oracle wf_meta_marker checks its creation)"],
)

PROPS["C17"] = dict(
    title="Limit faults fire after exactly the configured expirations; set handler runs",
    module="Cfdp.Props.C17l",
    namespace="Cfdp.Loop",
    theorems=["Cfdp.Timer.updateLoop_closed", "Cfdp.Timer.C17_limit_not_early", "Cfdp.Timer.C17_counter_history",
              "C17_send_timers", "C17_recv_timers",
              "Cfdp.Send.C17_send_ack_not_early", "Cfdp.Send.C17_send_inactivity_not_early",
              "Cfdp.Recv.C17_recv_ack_not_early", "Cfdp.Recv.C17_recv_inactivity_not_early", "Cfdp.Recv.C17_recv_nak_not_early",
              "Cfdp.Send.C17_send_handler", "Cfdp.Send.C17_send_default_cancel", "Cfdp.Send.C17_send_abandon",
              "Cfdp.Recv.C17_recv_handler", "Cfdp.Recv.C17_recv_default_cancel", "Cfdp.Recv.C17_recv_abandon",
              "Cfdp.Send.C17_send_ack_expiry", "Cfdp.Send.C17_send_eof_rearms", "Cfdp.Send.C17_send_progress_resets",
              "Cfdp.Recv.C17_recv_ack_expiry", "Cfdp.Recv.C17_recv_progress_resets", "Cfdp.Recv.C17_recv_nak_progress",
              "Cfdp.Timer.C17_limit_not_late", "Cfdp.Recv.C17_recv_inactivity_not_late", "Cfdp.Recv.C17_recv_ack_not_late",
              "Cfdp.Recv.C17_recv_nak_not_late", "Cfdp.Send.C17_send_inactivity_not_late", "Cfdp.Send.C17_send_ack_not_late",
              "C17_recv_wakes_by_expiry", "C17_send_wakes_by_expiry"],
    engines=["send", "recv"],
    design="§6 C17",
    technique="Lean 4 proofs: closed form and invariant of the Counter model (never early, never late), invariant over all event histories of both transaction models, step theorems for the fault handlers + differential correspondence",
    level_text=("Kernel-checked. Counter: update() of a running counter adds k = (now - start) / timeout to the count (saturating at max), moves start on by k timeouts and "
                "records an expiration iff k > 0 (updateLoop_closed); after any sequence of update / restart / reset / pause / queries at non-decreasing clock readings, "
                "base + count x timeout <= start <= now, where base is the reading at which the count last started from zero (a ghost field of the model), so whenever "
                "limit_reached() answers true at least max full timeouts have elapsed since then (C17_limit_not_early, C17_counter_history). Transactions: that invariant "
                "holds for all three counters of the sender and of the receiver after every history of loop events (C17_send_timers / C17_recv_timers; ~50 preservation "
                "lemmas, one per model function), hence the ACK-timer / inactivity / NAK parts of handle_timeout and send_naks raise PositiveLimitReached, "
                "InactivityDetected, NakLimitReached (or Abandon in the cancelled phase) only max x timeout or more after the count started (C17_*_not_early; for the NAK "
                "limit additionally only when no new data arrived since the previous NAK). Handlers: handle_fault records the condition, raises the Fault indication with "
                "the current progress and then does exactly what handlerFor returns - Ignore continues, Cancel (also when nothing is configured), Suspend, Abandon = "
                "Terminated with no PDU (C17_*_handler, _default_cancel, _abandon). One retransmission per expiry: an expiry below the limit only sets the EOF / Finished "
                "flag, transmitting re-arms the timer and keeps the count (C17_*_ack_expiry, C17_send_eof_rearms); progress resets the counts, and a PDU arriving while the sender is suspended leaves its inactivity counter paused (finding F36) (C17_*_progress_resets, "
                "C17_recv_nak_progress). Never late (Props/C17l.lean): a running counter with r = max - count expirations to go that is looked at at or after start + r x timeout answers "
                "limit_reached with true - every elapsed period is counted, however late the look (C17_limit_not_late, from the closed form) - and in that very call of handle_timeout "
                "the transaction raises the fault, a cancelled one is abandoned (C17_recv_inactivity_not_late, _ack_not_late, _nak_not_late, C17_send_inactivity_not_late, _ack_not_late); "
                "and the sleep the task computes never goes past the expiry of a running counter (C17_recv_wakes_by_expiry, C17_send_wakes_by_expiry), so on the model's clock the look "
                "comes at the expiry. Tie to the code: send/recv engines compare every counter (count, paused, elapsed ns) after every call on a paused clock."),
    level_note=RECV_SEND_NOTE + " The ghost field Counter.base is not part of the code and is not compared; the theorems' conclusions mention only clock readings. "
               "The bounds are wall-clock bounds (time while suspended is not subtracted); the harness oracles check the un-suspended-time bounds on the real code.",
    rule=("send + recv engines as in C04/C07: timeouts 1-5 s x limits 1-3, clock advances of 1 ms .. 30 s including just-before-expiry values (999 / 1000 / 1001 ms), blackouts "
          "(wind-down rounds of timeouts without answers), every handler action for conditions 1, 4, 5, 6, 7, 8, 10. Oracles ack_not_early, inactivity_not_early (in un-suspended time, on the real code). "
          "Non-trivial = a PDU was emitted or an indication raised."),
    assumptions=["clock readings never decrease (tokio::time::Instant is monotonic)", "timeout > 0 for updateLoop_closed (with timeout 0 the Rust loop does not terminate)"],
    unproved=["'never later' is proved per call of handle_timeout and for the computed sleep; what the runtime adds between the end of the sleep and the call (scheduling latency of the task) is outside the model",
              "the bound in un-suspended time (the theorems bound wall-clock time; suspension pauses the counters, see C19)"],
)

PROPS["C10"] = dict(
    title="Cancel ends both sides and never leaves a partial file",
    module="Cfdp.Props.C10s",
    namespace="Cfdp.Loop",
    theorems=["C10_no_partial", "C10_cancel_freezes", "Cfdp.Recv.C10_recv_cancel", "Cfdp.Recv.C10_recv_peer_cancel",
              "Cfdp.Recv.C10_recv_cancel_ends", "Cfdp.Send.C10_send_cancel", "Cfdp.Send.C10_send_cancel_ends",
              "Cfdp.Net.C10_two_party_sender_cancel", "Cfdp.Net.C10_two_party_receiver_cancel",
              "C10_lost_cancel_eof_round", "C10_lost_cancel_finished_round",
              "C10_cancel_eof_repeated", "C10_lost_cancel_eofs_round", "C10_lost_cancel_finisheds_round",
              "C10_cancel_then_lost_eofs", "C10_peer_cancel_then_lost_finisheds", "C10_recv_cancel_then_lost_finisheds"],
    engines=["recv", "send", "daemon"],
    design="§6 C10",
    technique="Lean 4 proofs over the receiver / sender models and the task-loop step (filestore frame + cancel handshake steps), composed through both models and the link for a cancel at either entity + differential correspondence",
    level_text=("Kernel-checked: for every event a loop iteration can see, the filestore changes only if the receive transaction was still in ReceiveData and - unless the user "
                "configured CheckLimitReached to be ignored - the metadata and every byte below the announced size had arrived (C10_no_partial: the destination name is "
                "written by a completed delivery only, never by a cancel, fault, timeout or partial transfer); a cancel leaves the filestore as it is and from then on no "
                "history of events changes it (C10_cancel_freezes, with C04_final). Handshake steps: a user cancel at the receiver = Cancelled phase, condition "
                "CancelReceived, Finished indication with that condition, and a Finished PDU with it queued (acknowledged mode, or closure) or immediate end (C10_recv_cancel); "
                "an EOF with an error condition cancels the receiver with that condition (C10_recv_peer_cancel); the cancelled receiver ends on ACK(Finished) or by Abandon "
                "at the positive-ACK limit (C10_recv_cancel_ends); a user cancel at the sender = Cancelled phase and an EOF with condition CancelReceived and the sender's "
                "entity id as fault location queued (C10_send_cancel), transmitted when the link is free, and the sender ends by Abandon at the ACK / inactivity limit "
                "(C10_send_cancel_ends). Bounded time of those ends: C17 + C03. The two-party statement is a theorem over the composition of both models and the link (Model/Net.lean; Props/C10n.lean, Props/C10o.lean): in acknowledged mode, from ANY pair of live states - whatever history of the transfer led to them, whatever is still in flight - the handshake over a link that loses nothing from the cancel on (sender: Cancel.request, EOF(cancel) transmitted and delivered, ACK(EOF) and Finished transmitted, Finished delivered, ACK(Finished) transmitted and delivered; receiver: Cancel.request, Finished transmitted and delivered, ACK(Finished) transmitted and delivered) ends BOTH transactions, both with condition CancelReceived, both users get a Finished indication carrying it, and the receiver's filestore is as it was when the cancel took effect (C10_two_party_sender_cancel, C10_two_party_receiver_cancel; eight step lemmas, one per loop iteration of the handshake). Under a single loss (Props/C10p.lean): a lost EOF(cancel) is repeated by the cancelled sender's positive-ACK timer and cancels the receiver when it arrives (cancel_eof_timer_resends, C10_lost_cancel_eof_round); a lost Finished PDU of a cancelled receiver - or a lost ACK of it - is repeated by the receiver's positive-ACK timer, ends the sender, and the sender's ACK ends the receiver (cancelled_timer_resends, C10_lost_cancel_finished_round). Under repeated loss (Props/C02z.lean) the expiries concatenate as long as the clock keeps the counters below their limits (FairT; the limits are derived from it): the cancelled sender transmits that same EOF(cancel) after every expiry and stays cancelled and waiting (C10_cancel_eof_repeated), whichever retransmission gets through cancels the receiver (C10_lost_cancel_eofs_round); the cancelled receiver transmits that same Finished PDU after every expiry, whichever gets through ends the sender with the cancel condition, whose ACK ends the receiver (C10_lost_cancel_finisheds_round). How a sender gets there is a theorem too (Props/C10q.lean): the user's Cancel.request and the transmission that follows put any live acknowledged sender in the loop's starting state - Cancelled, the EOF(cancel) out and kept, the positive-ACK counter running from zero, the inactivity counter stopped (cancel_enters_wait) - so: Cancel.request, the EOF(cancel) lost up to limit-1 times, and whichever retransmission arrives cancels the receiver with CancelReceived (C10_cancel_then_lost_eofs). And on the receiving side (Props/C10r.lean): the EOF(cancel) and the two transmissions that follow - the ACK of it, the Finished PDU carrying the cancel condition - put any live acknowledged receiver with no delayed check pending in the starting state of the Finished retransmission loop (cancel_eof_state, peer_cancel_enters_wait), so the Finished PDU or its ACK lost up to limit-1 times still ends both transactions with the cancel condition (C10_peer_cancel_then_lost_finisheds). And when the receiving user cancels (Props/C10s.lean): the Cancel.request and the transmission that follows put any live acknowledged receiver with nothing else to transmit in that same starting state (recv_cancel_enters_wait), so the Finished PDU carrying CancelReceived, or its ACK, lost up to limit-1 times still ends both transactions with CancelReceived (C10_recv_cancel_then_lost_finisheds). At the limit the transactions end by C10_send_cancel_ends / C10_recv_cancel_ends. Tie to the code: recv/send engines with cancel injected before/after every PDU."),
    level_note=RECV_SEND_NOTE + " Both-sides-end over a real link (two daemons) is exercised by the daemon engine (C02/C11) when registered; here each side is proved separately.",
    rule=("daemon engine (two real daemons): in every third multi-transaction scenario one acknowledged six-segment transfer is cancelled through its daemon (UserPrimitive::Cancel) right after its Put - oracles daemon_cancel (the sender reports CancelReceived or, when the receiver had completed before the cancel took effect, has at least transmitted its EOF(Cancel received)), daemon_cancel_no_file, daemon_cancel_ends; or it is cancelled at the RECEIVING daemon 100 ms after the Put while every EOF of that sender stays on the link for 450 ms - oracle daemon_cancel_recv (receiver and sender both report CancelReceived, nothing under the destination name, both ended); the other transactions must be unaffected (C11 others_unaffected). recv + send engines as in C04/C07: one history in three contains a user request at a random position (cancel / suspend-resume / EOF(cancel) from the peer / report), "
          "followed by losses of the handshake PDUs (wind-down rounds without answers) or the ACK at a random round. Oracles no_partial (filestore listing before/after every "
          "step), cancel_closure_finished. Non-trivial = a PDU was emitted or an indication raised."),
    assumptions=["C10_no_partial second part: the handler configured for CheckLimitReached is not Ignore (with Ignore an incomplete unacknowledged transfer is stored on purpose, "
                 "with delivery code Incomplete - finding F31)"],
    unproved=["the two-party theorems cover the handshake over a link that loses nothing once the cancel is issued, and each handshake PDU lost up to limit-1 times in a row (C10_lost_cancel_eofs_round, C10_lost_cancel_finisheds_round); losses of several different PDUs interleaved in one schedule are checked by the net / daemon engines (and bounded by the limit theorems), not composed into one theorem"],
)

PROPS["C13"] = dict(
    title="Filestore requests act as CFDP defines, once, in order, reported truthfully",
    module="Cfdp.Props.C13r",
    namespace="Cfdp.Fs",
    theorems=["C13_failed_changes_nothing", "C13_create_file", "C13_delete_file", "C13_append_file", "C13_replace_file",
              "C13_preconditions", "C13_run_requests", "Cfdp.Recv.C13_recv_runs_requests",
              "Cfdp.Recv.C13_finished_pdu_responses", "Cfdp.Send.C13_send_user_responses", "C13_rename_file", "C13_remove_directory", "C13_create_directory"],
    engines=["fs", "recv", "send"],
    design="§6 C13",
    technique="Lean 4 proofs over the filestore model (finite map of root-relative paths) and the request loop of finalize_receive + differential correspondence on the real NativeFileStore",
    level_text=("Kernel-checked over the filestore model: a request that reports any failure status leaves the filesystem exactly as it was (C13_failed_changes_nothing); "
                "create file succeeds iff nothing exists under the name and its parent is a directory, delete / deny file iff the name is a file, append and replace iff both "
                "names are files, rename iff the source is a file, nothing exists under the target, the target's parent is a directory and the target is not inside the source, "
                "create directory iff nothing exists there and the parent is a directory, remove / deny directory iff the name is a directory - with the specific failure "
                "status otherwise (file 1 / file 2 does not exist, new name already exists, ...) - and on success the named file has exactly the specified content (empty, "
                "gone, old1 ++ old2, old2) while every other name is untouched (C13_create_file .. C13_preconditions). A request list is answered one for one in order, each "
                "request runs on the filesystem its predecessors left, the first failure stops execution and the rest is answered Not performed (C13_run_requests); inside "
                "finalize_receive the list of the Metadata PDU runs exactly so after the file copy, the responses are recorded and put in the user's Finished indication "
                "(C13_recv_runs_requests), copied into the Finished PDU (C13_finished_pdu_responses) and handed unchanged to the sending user (C13_send_user_responses); the whole post-state of the three remaining actions: a successful rename of a plain file moves exactly that file (new name holds what the old one held, old name gone, every other path unchanged: C13_rename_file), remove directory removes exactly the directory and everything below it (C13_remove_directory), create directory adds exactly one empty directory (C13_create_directory; Props/C13r.lean). "
                "'Only after a successful delivery, once': C10_no_partial + C04_final. Tie to the code: fs engine (real process_request on a scratch directory)."),
    level_note=("Trusted: Lean kernel; the filestore model (lean/Cfdp/Model/Fs.lean: the part of std::fs that NativeFileStore uses, as a finite map; no permissions, symlinks or I/O "
                "errors other than missing parent / wrong node kind) is tied to cfdp-core/src/filestore.rs by the fs engine, which runs every request on the real filestore in a "
                "scratch directory and compares status code and full directory listing (names, kinds, content digests) with the model after every request. " + RECV_SEND_NOTE),
    rule=("fs engine: every single request (9 actions x 20 names x 20 names incl. '', '.', '..', names escaping the root, root-prefixed and absolute names) on the initial tree, "
          "then 1500 (quick) / 20000 (thorough) random sequences of 2-8 requests over a 10-name namespace of files and directories; oracles failed_changes_nothing, "
          "response_names, no_panic, and (C12) fs_contained: nothing next to the root changes. recv/send engines: transactions carrying 0-3 requests (append = non-idempotent) "
          "under the fault placements of C04. Non-trivial = the request changed the listing or returned a non-zero status / a PDU was emitted."),
    assumptions=["names are mapped to root-relative paths by get_native_path as characterised in C12"],
    unproved=["rename of a directory (moving a subtree) is only checked against the model by the fs engine; C13_rename_file covers plain files, which is what a Rename File request is accepted for"],
)

PROPS["C01"] = dict(
    title="A file reported as delivered is byte-identical to the source file",
    module="Cfdp.Props.Net",
    namespace="Cfdp.Loop",
    theorems=["C01_delivered_is_source", "Cfdp.Net.C01_two_party", "good_recvStep", "Cfdp.Recv.fin_core", "Cfdp.Recv.dataOk_complete", "Cfdp.Recv.writeAt_get"],
    engines=["recv", "send", "seg", "cksum", "net"],
    design="§6 C01",
    technique="Lean 4 invariant proof over all event histories of the receiver model (staging-file content, segment list, filestore), using C09, C04, C13, C18 + differential correspondence",
    level_text=("Kernel-checked: let the link deliver - in any order, with any losses and duplications, interleaved with timer expirations, transmissions and user requests - only "
                "PDUs of a transfer of the file src (data PDUs carrying the bytes of src at the offsets they claim, NoError EOFs announcing its length; any metadata, any other "
                "PDUs). Then after every such history, if the receiver's record says file status Retained and delivery code Complete - what its Finished indication and "
                "Finished PDU report - the file under the destination name is exactly src, in both modes, for every configuration and fault handler "
                "(C01_delivered_is_source; for transactions carrying filestore requests the statement is about the filestore as the copy left it, before the requests ran: "
                "fin_core). The invariant: wherever the segment list says data is held the staging file agrees with src and it never extends beyond src (writeAt_get: exact "
                "semantics of seek+write incl. zero-filled holes; merge_cov from C09), completeness = every byte of [0, size) covered makes the staging file equal to src "
                "(dataOk_complete), Retained is only recorded after the whole staging file was written under the destination name, and once the transaction has left "
                "ReceiveData file, status and delivery code never change again (C04). A truncated, holed or stale file cannot be reported Complete: C18_complete_means_complete. "
                "The sender reports Complete only on the receiver's word (C04_sender). Two parties (C01_two_party in Props/Net.lean, model Model/Net.lean): the sender task loop, the receiver task loop and a link that may lose, duplicate, reorder and delay PDUs in both directions without bound (it may deliver any PDU ever transmitted, any number of times, at any time), under every interleaving of loop iterations, timer expiries and user requests at either side: if the receiver's record says Retained / Complete, the destination holds exactly the sender's source file (the sender's PDUs are truthful by C07_data / C07_eof, which is what C01_delivered_is_source asks of the link). Tie to the code: net engine (the two-party model in lockstep with a real sender and a real receiver), recv engine (staging-file handle, segment list and the full directory "
                "listing with content digests compared after every call; oracle delivered_equals_source reads the real destination file), send engine, seg, cksum engines."),
    level_note=RECV_SEND_NOTE + " Identity does not rest on the checksum when the sender is truthful; corrupted PDUs are the subject of C15 (CRC) and C14 (checksum); "
               "'cross-wired' files between transactions are C11.",
    rule=("recv engine as in C04 (contents: linear, all-zero and checksum-neutral patterns; sizes 0, 1, seg-1, seg, seg+1, 3 seg, 3 seg+5; both modes, closure, immediate/deferred, "
          "delay, CRC, Modular/Null checksum; loss, duplication, reordering, re-segmentation, wrong checksums, short EOFs) + send, seg, cksum engines. "
          "Oracles delivered_equals_source, complete_without_data. Non-trivial = a PDU was emitted or an indication raised."
          " net engine (300 quick / 3000 thorough two-party histories): one real SendTransaction and one real RecvTransaction joined by a simulated link that delivers only PDUs the other side emitted (in order, lost, duplicated, reordered, as stragglers), random schedules of transmissions, deliveries, timer expiries and user requests at both sides, then a loss-free fair phase on the shared virtual clock until both have ended; every call is answered in lockstep by the Lean sender and receiver models (ops net s / net r), the per-side oracles of the send / recv engines keep running, and two-party oracles are added: C02 recovers / same_outcome (acknowledged mode, losses confined to a zero-time phase, default handlers: both sides report success), C03 net_bounded / net_never_stuck, C04 sender_success_only_after_receiver, C01 two_party_file."),
    assumptions=["the PDUs delivered belong to a transfer of one fixed file src (hypothesis TruthfulEv); what a link may do to them is unrestricted"],
    unproved=["the link of the two-party model does not alter PDUs (corruption is C15) and carries one transaction (routing is C11)"],
)

PROPS["C03"] = dict(
    title="Every transaction ends in bounded time, whatever the peer and the link do",
    module="Cfdp.Props.C03t",
    namespace="Cfdp.Loop",
    theorems=["C03_recv_never_stuck", "C03_send_never_stuck", "Cfdp.Recv.C03_recv_inactivity_limit",
              "C03_send_bounded_work", "C03_send_drains", "C03_send_bounded_time",
              "C03_recv_drains", "C03_recv_bounded_wakeups", "C03_recv_bounded_time"],
    engines=["recv", "send", "net", "daemon"],
    design="§6 C03",
    technique="Lean 4 invariant proofs over all event histories of the receiver and sender models (a timer is always running or a PDU is queued) + termination measures / potentials bounding the wake-ups and the clock of the task loop left alone, for both machines; the theorems' bounds are re-evaluated on the real state machines by a drain phase on the virtual clock",
    level_text=("Kernel-checked. Receiver: after every history of loop events a receive transaction that is neither terminated nor suspended has its inactivity timer "
                "running, so the sleep the task loop computes is finite and handle_timeout runs again whatever the peer and the link do, including nothing at all for good "
                "(C03_recv_never_stuck: invariant Act, ~25 preservation lemmas); for the sender: after every history a send transaction that is neither terminated nor suspended "
                "either has a PDU to transmit (metadata / data phase; a queued EOF; the queued ACK of Finished) or its positive-ACK or inactivity timer is running, so its sleep is "
                "finite too (C03_send_never_stuck in Props/C03s.lean: invariant SA, ~25 preservation lemmas); when the inactivity limit is reached a cancelled transaction is abandoned = Terminated, any "
                "other one is cancelled (default handler) or abandoned at once (C03_recv_inactivity_limit) - with C10_recv_cancel_ends / C10_send_cancel_ends (the positive-ACK "
                "limit ends a cancelled transaction) and C17 (limits are reached after max x timeout) this bounds the lifetime under the default handlers. "
                "The sender's bound is a theorem (Props/C03b.lean): take a send transaction after ANY history and leave it alone (peer silent for good, no user request). "
                "A termination measure mu (phase rank, queued requests, bytes of the first pass still to send, the EOF flag and twice the expirations the positive-ACK and "
                "inactivity counters can still count) drops with every transmission and every timer wake-up that finds an expired timer, so over every order and timing of "
                "such iterations at most mu <= 8 + 8 x limit + queued requests + file length of them do anything (C03_send_bounded_work); the task loop as the drain phase "
                "plays it leaves the Active state - terminated, or suspended by a handler - within mu iterations (C03_send_drains); and a second measure tau <= 2 + 4 x limit "
                "that only timer wake-ups use up bounds the clock: the loop is over by now + tau x max(ACK timeout, inactivity timeout), however many iterations are "
                "played (C03_send_bounded_time, using C17's start <= now invariant for the length of each sleep). Hypotheses: positive timeouts, segment size 1..65535, "
                "limit faults not configured Ignore (C03's own exemption). "
                "The receiver's bound is a theorem too (Props/C03r.lean, Props/C03t.lean): a potential phi (by phase: twice the expirations the inactivity and positive-ACK "
                "counters can still count, the NAK counter's room - or 2 x limit + 4 while new data since the last NAK will reset it -, the delayed NAK checks pending, a "
                "NAK timer still to be stopped, a Prompt still to be answered) is raised by no iteration of the loop left alone and drops with every timer wake-up "
                "(C03_recv_bounded_wakeups: phi <= 10 + 8 x limit + delayed checks pending); transmissions use up the lexicographic measure (phi, Prompt to answer, ACK + "
                "queued requests + Finished flag), so the loop leaves the Active state after finitely many iterations (C03_recv_drains, well-founded recursion); and since a "
                "sleep is never longer than the inactivity period the clock never passes now + phi x inactivity timeout (C03_recv_bounded_time). The invariants it needs "
                "hold after every history from RecvTransaction::new: counters within the limit with constant positive periods (RT), the positive-ACK timer not running "
                "while collecting (AckP - without it a due ACK timer would make the loop spin), delayed checks running (DelOk), inactivity timer running (Act). "
                "Checked on the real code only (not a theorem): the engines end every history with a drain phase - the peer silent for good from a random point of the "
                "exchange on - that plays the task loop on the virtual clock (send while has_pdu_to_send, else sleep until_timeout and handle_timeout) and require Terminated "
                "within 4 x (limit+1) x (sum of timeouts), never an infinite sleep (never_stuck) and never more than 5000 iterations (spinning). This drain found F33 and F34."),
    level_note=RECV_SEND_NOTE + " 'The daemon keeps serving other transactions meanwhile' is C11. Transactions the user suspended, or whose limit faults are configured ignore / "
               "suspend, are exempt as the property says.",
    rule=("daemon engine: every transaction of every scenario has ended at both daemons by the horizon (oracle daemon_bounded). recv + send engines as in C04/C07; one history in three is cut at a random point (blackout of both directions from there on), every history is followed by the drain "
          "phase. Oracles never_stuck, bounded. Non-trivial = a PDU was emitted or an indication raised."
          " net engine (300 quick / 3000 thorough two-party histories): one real SendTransaction and one real RecvTransaction joined by a simulated link that delivers only PDUs the other side emitted (in order, lost, duplicated, reordered, as stragglers), random schedules of transmissions, deliveries, timer expiries and user requests at both sides, then a loss-free fair phase on the shared virtual clock until both have ended; every call is answered in lockstep by the Lean sender and receiver models (ops net s / net r), the per-side oracles of the send / recv engines keep running, and two-party oracles are added: C02 recovers / same_outcome (acknowledged mode, losses confined to a zero-time phase, default handlers: both sides report success), C03 net_bounded / net_never_stuck, C04 sender_success_only_after_receiver, C01 two_party_file."),
    assumptions=["the runtime wakes the task when the computed sleep is over (tokio timers) and grants the link when asked (bounded channel with a live consumer)"],
    unproved=["the number of transmissions of the receiver between two wake-ups is finite (C03_recv_drains) but not bounded by a closed formula (it is the length of the rebuilt request queue)"],
)

PROPS["C15"] = dict(
    title="With the CRC option on, corrupted PDUs are rejected",
    module="Cfdp.Props.C15",
    namespace="Cfdp.Crc",
    theorems=["C15_criterion", "C15_unaltered_accepted", "C15_burst", "C15_single_bit", "C15_odd_weight", "C15_double_bit",
              "crc16_bits", "C15_detects"],
    engines=["codec"],
    design="§6 C15",
    technique="Lean 4 proof: the model's CRC-16 as a linear map over GF(2) on BitVec 16 (linearity, injectivity of the shift step, parity of the generator, order of x), bridged to the octet-level model + differential correspondence",
    level_text=("Kernel-checked for frames of any length: the register computation of the model's crc16 (CRC-16/IBM-3740, what PDU::encode appends and PDU::decode checks) "
                "is bit-serial feeding of the message into a 16-bit register (crc16_bits), which is linear over GF(2); hence an error pattern e laid over any valid frame "
                "leaves the check register at exactly what e alone gives from a zero register, and the corrupted frame passes the check iff the residue of e modulo the "
                "generator is zero, while the unaltered frame always passes (C15_criterion, C15_unaltered_accepted). That residue is never zero for: any error confined "
                "to 16 consecutive bit positions, in particular any single flipped bit (C15_burst, C15_single_bit: the shift step is injective, no reduction happens "
                "within 16 bits); any odd number of flipped bits (C15_odd_weight: the generator is divisible by x+1, so the shift step preserves parity); any two flipped "
                "bits less than 32767 positions apart, i.e. anywhere in a frame of up to 4095 octets (C15_double_bit: x has order 32767, established by walking the whole "
                "orbit in the kernel). C15_detects puts it together at the octet level: however the corrupted frame is read as message + 16 CRC bits, the CRC does not "
                "match. The finite facts used (agreement of the BitVec step with the model's crcBit, injectivity, parity, the orbit of x) are exhaustive kernel "
                "evaluations (decide +kernel over all 65536 words / 32766 steps), not samples. Tie to the code: codec engine - CRC-on PDUs of every type are encoded and "
                "decoded by the real code and the model, and the engine applies single-bit, double-bit, odd-weight and burst patterns to real encodings (oracle detects)."),
    level_note=("Trusted: Lean kernel (the decide +kernel steps are evaluated by the kernel itself, no native code, no extra axioms); lean/Cfdp/Model/Codec/Pdu.lean (crc16, "
                "Pdu.encode / Pdu.decode) is tied to cfdp-core/src/pdu.rs by the codec engine. 'Rejected, or decodes to the original if only spare bits changed': the theorem "
                "shows the CRC check itself fails for these patterns, so decode returns CRCFailure before looking at the payload (the check comes first since finding F09); "
                "errors in the first 4 octets can change the length field and thereby which octets are read as CRC - the property excludes them and so does the engine."),
    rule=("codec engine: corpus of every PDU type x both file-size flags with the CRC on; every single-bit flip, every pair of flips within a window, odd-weight patterns and "
          "every burst of length <= 16 at every position after the 4 fixed header octets (quick: encodings up to 120 octets, thorough: up to 400). Oracle detects."),
    assumptions=["the error pattern leaves the first 4 octets (version/flags and data-field length) intact, as the property states"],
    unproved=[],
)

DAEMON_NOTE = ("Trusted: Lean kernel; the per-transaction models and the routing model lean/Cfdp/Model/Daemon.lean (forward_pdu, the Put branch of process_primitive, "
               "cleanup_transactions at the level of the transaction table). Tie to the code: the daemon engine runs two real Daemons (entities 1 and 2, real NativeFileStore, "
               "real task loops) on a paused current-thread tokio runtime joined by an in-memory link with a seeded fault plan; for every scenario the set of receive "
               "transactions each daemon spawned is compared with the routing model folded over the headers of the PDUs delivered to it. Not modelled in Lean: tokio "
               "scheduling / channels, and therefore the composition of the two transaction models over a lossy link - that part is checked on the real code only.")

PROPS["C11"] = dict(
    title="Concurrent transactions are isolated; stray PDUs cannot disturb the daemon",
    module="Cfdp.Props.C11f",
    namespace="Cfdp.Daemon",
    theorems=["C11_route_isolated", "C11_stray_discarded", "C11_spawn", "C11_ids_distinct",
              "Cfdp.System.C11_isolated_step", "Cfdp.System.C11_isolated_run", "Cfdp.System.C11_table_step", "Cfdp.System.C11_commute",
              "Cfdp.Loop.C11_writes_only_own_name", "Cfdp.Loop.C11_shared_filestore"],
    engines=["daemon"],
    design="§6 C11",
    technique="Lean 4 proofs over a model of the daemon's routing table, a whole-daemon model (table + one state per task) and the receiver's filestore frame + differential correspondence of the routing decisions + implementation-level oracles on two real daemons under a virtual clock",
    level_text=("Kernel-checked over the routing model: whatever forward_pdu decides for a PDU, the only entry of the transaction table it can touch is the one keyed by the PDU's "
                "(source entity, sequence number) - every other transaction keeps its entry and liveness and is named by no decision (C11_route_isolated); a ToSender PDU for a "
                "transaction that does not exist, or any PDU whose transport entity is unknown, creates nothing and changes nothing (C11_stray_discarded); a ToReceiver PDU from "
                "a known entity creates exactly its own entry (C11_spawn); the identifiers handed out for Put requests over any history of PDUs, Puts, task ends and clean-ups "
                "are pairwise distinct (C11_ids_distinct; the counter wraps in the code after 2^width requests, the model counts in N). Each transaction's behaviour is a "
                "function of its own state and the events routed to it (the Recv / Send models take no other input), so isolation of behaviour reduces to isolation of routing. "
                "That reduction is itself a theorem over a model of the whole daemon (Model/System.lean: the table plus the state of every transaction task, operations = a PDU "
                "arriving, a loop iteration of some task, a Put, the clean-up; Props/C11s.lean): an operation leaves the state and the table entry of every transaction it does "
                "not concern exactly as they were (C11_isolated_step, C11_table_step), so over any interleaving of other transactions' PDUs, strays, timers, commands and Puts a "
                "transaction's state does not change (C11_isolated_run), and two operations concerning different transactions can be performed in either order with the same "
                "result for every transaction (C11_commute): each transaction behaves as if it ran alone, to which C01-C10 / C17-C20 then apply. "
                "Checked on the real daemons (oracles, not theorems): 2-6 concurrent transfers in both directions and mixed modes each deliver their own file to their own "
                "destination and report their own outcome (own_file), ids distinct (distinct_ids), daemons still running after stray / replayed PDUs (daemon_alive), a receive "
                "transaction started by a stray ends by its own limits (daemon_bounded); with nothing lost on the link every transaction reports exactly one, successful outcome "
                "whatever strays arrive, including PDUs of foreign entities whose sequence number collides with a live transaction (others_unaffected). Correspondence: the key "
                "forward_pdu computed for every PDU it routed (hook trace, cfg cfdp_verif) equals the model's key, and the set of receive transactions spawned equals the model's. "
                "The shared filestore (Props/C11f.lean): over every event of a receive transaction's task loop - any PDU, transmission, timer expiry, user request - a path that is not the "
                "transaction's destination name (its Metadata carrying no filestore requests) reads the same before and after the iteration (C11_writes_only_own_name: the filestore frame "
                "of finalize_file / finalize_receive / check_finished and of every PDU handler), hence whatever a transaction does on a filestore it shares with others leaves their "
                "destination names alone, in any interleaving (C11_shared_filestore)."),
    level_note=DAEMON_NOTE,
    rule=("daemon engine: 15 (quick) / 150 (thorough) scenarios with 2-6 overlapping transactions (both directions, acknowledged / unacknowledged, files of 0 .. 6 segments with "
          "distinct contents; EOF / Finished / ACK PDUs delivered up to 700 ms late so that transactions overlap the strays) plus 2-6 injected strays each: a Finished PDU for a "
          "sender that does not exist, a PDU naming entity 77 (no transport), a file-data or EOF PDU with a fresh id that legitimately starts a receive transaction nobody "
          "continues, and responses / data / cancelling EOFs of foreign entities 3 and 77 carrying the sequence number of a live transaction. Non-trivial = a routing line with at least one delivered PDU."),
    assumptions=["transaction tasks share nothing but the filestore and the channels to the daemon (Rust ownership: each task owns its transaction value); in Model/System.lean each task has its own filestore value, and the composition (the daemon hands a routed PDU to that task and does nothing else) is tied to the code by the routing-key trace and the end-to-end oracles only"],
    unproved=["interference through channel back-pressure and task scheduling is an oracle (others_unaffected, others_not_delayed, daemon_bounded), not a theorem; through the shared filestore it is excluded by C11_writes_only_own_name for transactions without filestore requests and with distinct destination names (two transactions given the same destination name, or filestore requests naming another's file, do collide - by design)"],
)

PROPS["C02"] = dict(
    title="Acknowledged mode recovers from any bounded loss, duplication and reordering",
    module="Cfdp.Props.C02g",
    namespace="Cfdp.Seg",
    theorems=["C02_round_completes", "C02_gaps_answered", "Cfdp.Recv.C02_finishes_when_complete", "Cfdp.Recv.C02_never_waits_complete", "Cfdp.Recv.C02_complete_is_success", "Cfdp.Recv.C02_size_check_passes", "Cfdp.Loop.C02_no_integrity_fault", "Cfdp.Net.C02_two_party_no_integrity_fault", "Cfdp.Loop.C02_recv_completes", "Cfdp.Loop.C02_send_completes", "Cfdp.Net.C02_two_party_completes",
              "Cfdp.Loop.C02_sender_answers_nak", "Cfdp.Loop.C02_receiver_recovers", "Cfdp.Loop.C02_recovery_round",
              "Cfdp.Loop.C02_full_round", "Cfdp.Loop.C02_full_round_after_wake", "Cfdp.Loop.C02_timer_round",
              "Cfdp.Loop.C02_lost_eof_round", "Cfdp.Loop.C02_lost_finished_round", "Cfdp.Loop.C02_lost_metadata_round",
              "Cfdp.Loop.C02_lossy_rounds", "Cfdp.Loop.C02_lossy_rounds_fair", "Cfdp.Loop.C02_two_party_nak_loop",
              "Cfdp.Loop.C02_eof_repeated", "Cfdp.Loop.C02_lost_eofs_round", "Cfdp.Loop.C02_lost_finisheds_round",
              "Cfdp.Loop.C02_from_eof_lossy_rounds", "Cfdp.Loop.C02_completion_then_lost_finisheds",
              "Cfdp.Loop.C02_lost_metadatas_round", "Cfdp.Loop.eof_enters_md_wait", "Cfdp.Loop.C02_from_eof_lost_metadatas"],
    engines=["daemon", "recv", "send", "net"],
    design="§6 C02",
    technique="Lean 4 proofs of the recovery steps and of whole single-loss recovery rounds (lost data, EOF, Finished / ACK, Metadata) through both transaction models and the link, and of the receiver's NAK loop over any fair lossy schedule (any number of lossy rounds, limits derived from fairness); the whole transfer over a lossy schedule of both models is checked on two real daemons under a virtual clock with bounded fault plans",
    level_text=("Kernel-checked recovery steps: whatever the receiver holds, if the data PDUs that arrive afterwards - in any order, duplicated, cut into any pieces - together cover "
                "the bytes of [0, size) it was missing, its segment list covers [0, size) (C02_round_completes), in particular for exact answers to the requests of one NAK "
                "(C02_gaps_answered; the requests are exactly what is missing by C08_exact, the sender's answers carry exactly the requested bytes of the file by C07); in the "
                "iteration in which the last missing piece arrives the receiver finalises, enters the Finished phase and queues the Finished PDU "
                "(C02_finishes_when_complete), and along every history an acknowledged receiver that is still collecting although Metadata and EOF have arrived really misses file data - it never sits on a complete file (C02_never_waits_complete, invariant Waiting, Props/C02w.lean); and when the segment list covers [0, size) of a staging file that agrees with the source (C01's invariant), with the Metadata and a NoError EOF carrying the source's size and checksum, check_finished verifies the checksum, copies the file under the destination name (if the filestore lets it), records NoError / Complete / Retained, tells the user so and queues a Finished PDU saying the same (C02_complete_is_success, Props/C02s.lean; the checksum the receiver computes over the complete staging file is the one C07_eof puts in the EOF: fileChecksum_true, via C14); with a peer that only ever reports the source's true size and checksum the receiver never declares FileSizeError or FileChecksumFailure, along every history of deliveries, timeouts and user operations (C02_size_check_passes, C02_no_integrity_fault, invariant Link, Props/C02i.lean), and in the two-party model that hypothesis is discharged by the real sender's outputs (C02_two_party_no_integrity_fault); every unanswered EOF / Finished / NAK is retransmitted once per timer expiry up to the limit (C17_*_ack_expiry, "
                "C17_send_eof_rearms, C08_queue_after_eof); duplicates and stragglers after completion change nothing (C04). "
                "Composition on the receiving side is a theorem (Props/C02c.lean): take any history of an acknowledged receiver in which no timer expires and the user does not "
                "interfere other than by suspending and resuming (PDUs of an un-cancelled sender of the file, transmission opportunities, prompts, report requests, suspend / resume requests, at one clock reading) - any order, any duplicates, "
                "whatever was lost before; if by its end the Metadata, an EOF and file data covering every byte have each been delivered at least once, the receiver is in the "
                "Finished phase with NoError / Complete / Retained (C02_recv_completes: invariant Prog - still collecting and holding everything delivered so far, or finished "
                "successfully - carried with C01's Good and C02i's Link; the collecting case is closed by C02_never_waits_complete); and when that Finished PDU reaches the "
                "sender, in whatever phase, it records the outcome, tells its user, and its next transmission is the ACK(Finished) with which it ends (C02_send_completes). "
                "In the two-party model the assumption on what the link carries is discharged by the sender model: whatever an un-cancelled acknowledged sender transmits "
                "(invariant CondOk: every EOF it prepares says NoError; with C07's Truthful / EofOk) is such a PDU, so once the link has handed the receiver the sender's "
                "Metadata, an EOF and data covering the file, the receiver has finished successfully (C02_two_party_completes, Props/C02n.lean). "
                "So recovery needs nothing but delivery. One recovery round is a theorem as well (Props/C02r.lean), from ANY pair of states reached after the losses "
                "(timers may have fired, anything may be queued): a sender that has sent its EOF and receives a NAK answers every request of it - cut into segment-size "
                "pieces, de-duplicated, whatever was queued before - with file-data PDUs carrying exactly the source file's bytes, within as many transmissions as requests "
                "are queued (C02_sender_answers_nak: splitPieces / dedup coverage lemmas, the flush loop by induction over the queue); a receiver in mid-recovery (Metadata "
                "and the truthful EOF in, holding only bytes of the source: C01's invariant) that is handed such PDUs - any order, any times, any duplicates - covering what "
                "it is missing ends Finished / NoError / Complete / Retained (C02_receiver_recovers: induction over the deliveries, completion noticed at the first moment "
                "the segment list covers the file, a reported delivery stays as reported); composed: when a NAK whose requests contain every missing byte - which is what "
                "the receiver's own NAKs are, C08_exact - reaches the sender and the link loses none of the answers, the delivery succeeds (C02_recovery_round). "
                "And the whole round through both models and the link (Props/C02t.lean): the receiver, whose queue lists what is missing - as the NAK timer rebuilds it - and whose NAK "
                "counter is below its limit, transmits the queue in as many NAK PDUs as it takes, every queued request in one of them (recv_flushes_naks: the send_naks timer "
                "logic stays below the limit from one NAK to the next at the same instant); all of them reach the sender, where every piece of every request is queued (naks_arrive); "
                "the sender answers them all; the answers reach the receiver in any order, at any times, with any duplicates: Finished / NoError / Complete / Retained "
                "(C02_full_round, C02_full_round_after_wake with C08_exact discharging the queue hypothesis; a concrete two-segment transfer with a lost segment is the example). "
                "The timer's part of it (Props/C02u.lean): for a receiver in mid-recovery with nothing to transmit whose NAK timer runs out below its limit (the inactivity limit "
                "not reached either), the loop iteration of that expiry leaves the data untouched, rebuilds the queue and leaves the counter room (wake_rebuilds), so that expiry "
                "followed by a round in which nothing is lost completes the delivery (C02_timer_round). "
                "The other single losses (Props/C02v.lean): a lost EOF - the sender's positive-ACK timer running out below its limit repeats the very EOF (eof_timer_resends), which the "
                "sender's invariants make truthful, and it completes the delivery at a receiver holding everything else (C02_lost_eof_round); a lost Finished PDU or a lost ACK of it - "
                "the receiver's positive-ACK timer repeats the Finished PDU (finished_timer_resends), the sender records the receiver's outcome, acknowledges and ends, the ACK ends the "
                "receiver (C02_lost_finished_round); a lost Metadata PDU - the 0-0 marker of a NAK makes the sender repeat it and it completes the delivery (C02_lost_metadata_round). "
                "The NAK loop under loss is a theorem too (Props/C02x.lean): a LOSSY round - the NAK timer runs out, the rebuilt queue goes out in NAK PDUs, the link lets through "
                "whatever it likes of the sender's answers (any list of file-data PDUs carrying the source's own bytes, at any times, duplicates included, possibly none) - takes a "
                "receiver in mid-recovery with nothing to transmit either to success or to another such state holding what it held plus what got through (wake_flush, wn_deliverAll), so "
                "rounds concatenate (nakRounds_inv) and once every missing byte has got through in SOME round the delivery has succeeded, as long as no limit is reached "
                "(C02_lossy_rounds). That no limit is reached is derived from a fairness condition on the schedule alone (Fair: each round is played during the second period of "
                "the NAK timer after the one before; fewer than limit-1 rounds in a row bring nothing new; no round is played limit inactivity periods or more after the last "
                "delivery): the NAK counter goes up by exactly one in a round that follows a fruitless one and starts again from zero when something new has arrived, the "
                "inactivity counter starts again at every delivery and only counts expiries that lie after it (fair_sched; C02_lossy_rounds_fair; a three-round schedule whose "
                "first round loses everything is the example). "
                "And with the sender model at the other end of the link (Props/C02y.lean): in every round the NAK PDUs that get through - any part of what the receiver transmitted - "
                "are handed to the sender, which stays able to answer (sq_round, invariant SQ) and whose transmissions are what the link may deliver, any part of them, in any order, "
                "with duplicates; a round in which nothing is lost carries every missing byte (clean_round_carries); so any number of lossy rounds within the fairness condition with "
                "one clean round among them ends with the delivery reported Finished / NoError / Complete / Retained (C02_two_party_nak_loop; example: the NAKs of the first round are all lost). "
                "The EOF and Finished handshakes under REPEATED loss are loops as well (Props/C02z.lean): the whole state after 'expiry of the positive-ACK timer, then transmission' is "
                "characterised (eof_round_state, fin_round_state), so expiries concatenate as long as the clock keeps the counters below their limits (FairT: every expiry serviced within "
                "the following period, fewer than limit of them in all, less than limit inactivity periods since the last PDU of the peer - the limits are derived, not assumed): the "
                "sender transmits that same EOF after every expiry and goes on waiting (C02_eof_repeated), and whichever retransmission gets through completes the delivery at a receiver "
                "holding everything else (C02_lost_eofs_round); the receiver transmits that same Finished PDU after every expiry, and whichever gets through ends the sender with the "
                "receiver's outcome, whose ACK ends the receiver (recv_finished_repeated, C02_lost_finisheds_round) - which is the property's 'fewer than limit consecutive losses of a "
                "PDU'. "
                "How a transfer gets into the loop is a theorem as well (Props/C02e.lean): the truthful EOF arriving at a receiver that holds the Metadata and part of the file leaves it "
                "in mid-recovery with the request queue rebuilt and the ACK of the EOF due (eof_enters_recovery); once the ACK and the NAKs have gone out it is in the loop's starting "
                "state (eof_enters_loop), so from the EOF's arrival any fair lossy schedule in which every missing byte gets through at least once ends with the delivery reported "
                "(C02_from_eof_lossy_rounds). And out of it (Props/C02f.lean): the file-data PDU that completes the file leaves the receiver active, in the Finished phase with NoError / Complete "
                "recorded and the Finished PDU due, nothing else pending (completion_state); after the transmission that follows it waits for the ACK in the starting state of the Finished "
                "retransmission loop (completion_enters_wait), so a completed delivery whose Finished PDU or ACK is lost again and again below the limits still ends both transactions "
                "with NoError (C02_completion_then_lost_finisheds). "
                "And the Metadata PDU lost again and again (Props/C02m.lean): a receiver holding the truthful EOF and every byte but no Metadata rebuilds its queue with the 0-0 marker at "
                "every NAK-timer expiry below the limits and keeps what it has (md_round, md_repeated); whichever of those NAKs reaches the sender makes it repeat the Metadata PDU, which "
                "completes the delivery (C02_lost_metadatas_round); the receiver gets into that state when the truthful EOF arrives at a receiver holding every byte but no Metadata (eof_enters_md_wait, Props/C02g.lean), and once the ACK and the NAK with the marker have gone out it is in the loop's starting state (eof_enters_md_loop), so from the EOF on the Metadata PDU lost up to limit-1 times still ends with the delivery reported (C02_from_eof_lost_metadatas). "
                "PARTIAL: the loop theorems are per phase (data recovery with the EOF handshake done; EOF handshake with the data complete; Metadata missing with the data complete; Finished "
                "handshake); the sender's own timers are not events of the two-party NAK loop (its inactivity limit while it waits for NAKs is bounded by C03 / C17). The "
                "composition of all phases over one lossy fair schedule of both models is not one theorem. It is checked on the real code: the daemon engine runs acknowledged transfers between two real daemons with every kind of fault "
                "plan below the limit and requires file identity, success at both users and termination of both transactions (oracles recovers, same_outcome, daemon_bounded); the net engine does the same on a real sender and a real receiver in lockstep with both Lean models (losses confined to a zero-time phase, then a loss-free link)."),
    level_note=DAEMON_NOTE + " " + RECV_SEND_NOTE,
    rule=("daemon engine: 40 (quick) / 400 (thorough) acknowledged transfers, files of 0, 1, seg-1, seg, seg+1, 3 seg, 5 seg+7 octets, segment 32/64/128, limit 3/4, timeouts 1-3 s, "
          "deferred / immediate NAK with delay 0 / 300 ms, closure, CRC on/off; fault plans of fewer than `limit` faults: drop / duplicate / delay (50-450 ms) placed either on PDU "
          "indices of each direction or on the 1st, 2nd ... transmission of a PDU kind (metadata, data, EOF, ACK, NAK, Finished). recv / send engines as in C04/C07 for the "
          "per-side steps, plus theorem-shaped loop schedules whose oracles are the loop theorems' conclusions evaluated on the real transactions: nak_loop (40 quick / 400 thorough receivers, limit 3-5: rounds in the second period of the NAK timer, the link lets through part of what is missing, a duplicate or nothing, never limit-1 fruitless rounds in a row nor limit inactivity periods without a delivery; oracles nak_loop_within_limits, nak_loop_completes; one loop in three starts with a Suspend.request / Resume.request pair in mid-recovery and counts the fairness conditions from the resume, as C19_resume_lossy_rounds does), fin_loop (every fourth of those: the Finished PDU lost up to limit-1 times, oracle fin_loop_repeats), md_loop (another fourth: data and EOF in, the Metadata missing, the NAK carrying the 0-0 marker repeated up to limit-1 times, then the Metadata arrives; oracles md_loop_repeats, md_loop_completes), eof_loop (30 / 300 senders, a third of them cancelled: the EOF lost up to limit-1 times, oracle eof_loop_repeats). Non-trivial = a routing line with at least one delivered PDU / a PDU emitted."
          " net engine (300 quick / 3000 thorough two-party histories): one real SendTransaction and one real RecvTransaction joined by a simulated link that delivers only PDUs the other side emitted (in order, lost, duplicated, reordered, as stragglers), random schedules of transmissions, deliveries, timer expiries and user requests at both sides, then a loss-free fair phase on the shared virtual clock until both have ended; every call is answered in lockstep by the Lean sender and receiver models (ops net s / net r), the per-side oracles of the send / recv engines keep running, and two-party oracles are added: C02 recovers / same_outcome (acknowledged mode, losses confined to a zero-time phase, default handlers: both sides report success), C03 net_bounded / net_never_stuck, C04 sender_success_only_after_receiver, C01 two_party_file."),
    assumptions=["bounded faults: fewer than `limit` faults per transfer, delays below the timers (as the property states)"],
    unproved=["one theorem for the whole transfer over a lossy fair schedule of both models and the link: proved are 'delivery implies completion' (receiver and two-party model), every single-loss round (lost data, EOF, Finished / ACK, Metadata) through both models and the link, and the NAK loop over any fair lossy schedule (C02_lossy_rounds_fair, C02_two_party_nak_loop: limits derived from fairness) the EOF / Finished / Metadata retransmission loops up to the limit (C02_lost_eofs_round, C02_lost_finisheds_round, C02_lost_metadatas_round) and the phase boundaries (C02_from_eof_lossy_rounds, C02_completion_then_lost_finisheds) - each phase and each boundary on its own; interleavings of the phases (a NAK loop while the EOF is still unacknowledged or the Metadata still missing) and the sender's inactivity limit while it waits for NAKs are bounded by C03 / C17 and checked dynamically by the daemon and net engines"],
)
