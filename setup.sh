#!/bin/sh
# Build the framework from files on disk only (offline).
set -e
cd "$(dirname "$0")"
export CARGO_NET_OFFLINE=true
[ -f gen/enums.py ] && python3 gen/enums.py /repo lean/Cfdp/Gen/Enums.lean
(cd lean && lake build)
(cd harness && RUSTFLAGS="--cfg cfdp_verif --cfg tokio_unstable" cargo build --release --offline)
echo setup ok
