#!/usr/bin/env python3
"""Regenerate /verif/MANIFEST.json from props.py (single source of truth)."""
import json, os, subprocess, sys
ROOT = os.path.dirname(os.path.dirname(os.path.abspath(__file__)))
sys.path.insert(0, ROOT)
from props import PROPS

ALL = [f"C{i:02d}" for i in range(1, 21)]
hooks_commits = subprocess.run("git -C /repo log --format=%H --grep='^verif hook'", shell=True, capture_output=True, text=True).stdout.split()

checks = []
for pid in ALL:
    if pid not in PROPS:
        continue
    P = PROPS[pid]
    checks.append(dict(
        property_id=pid,
        quick_cmd=f"./check {pid} --tier quick",
        thorough_cmd=f"./check {pid} --tier thorough",
        evidence_file=f"/verif/evidence/{pid}.json",
        replay_cmd_template=f"./check {pid} --replay {{path}}",
        engine=",".join(P["engines"]),
        level_claimed=dict(category="proof", text=P["level_text"], design_ref=P["design"]),
        level_note=P["level_note"],
        technique=P["technique"],
    ))
na = [dict(property_id=pid, reason="no check registered yet: the model/theorems for this property are still being built in this round (it is planned as a Lean proof, see DESIGN.md §6)")
      for pid in ALL if pid not in PROPS]
engines = {}
for pid, P in PROPS.items():
    for e in P["engines"]:
        engines.setdefault(e, []).append(pid)
man = dict(
    version=1,
    setup_cmd="./setup.sh",
    hooks=dict(
        guard="cfdp_verif",
        enable="RUSTFLAGS='--cfg cfdp_verif --cfg tokio_unstable' (set in /verif/harness/.cargo/config.toml and by ./check); the harness crate has path dependencies on /repo/cfdp-core and /repo/cfdp-daemon",
        baseline_off_cmd="cd /repo && (cargo nextest run --workspace --no-fail-fast --test-threads 8 --offline || cargo test --workspace --no-fail-fast --offline)",
        source_commits=hooks_commits,
        add_only=True,
    ),
    engines=[dict(name=e, path="/verif/harness/src/" + ("txn" if e in ("recv", "send") else e) + ".rs", serves_properties=sorted(ps),
                  kind_free_text="Rust harness engine driving the real code + Lean model driver (lean/Driver/Main.lean) on the same op lines; implementation-level oracle")
             for e, ps in sorted(engines.items())],
    checks=checks,
    not_applicable=na,
    notes="Technique family: machine-checked proof in Lean 4 (models in lean/Cfdp/Model, theorems in lean/Cfdp/Props, tie to the code by differential correspondence + regenerated enum tables). See DESIGN.md.",
)
json.dump(man, open(os.path.join(ROOT, "MANIFEST.json"), "w"), indent=1)
print("MANIFEST.json:", len(checks), "checks,", len(na), "not claimed")
