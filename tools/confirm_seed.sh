#!/bin/bash
# usage: tools/confirm_seed.sh <worktree> — confirm a seeded change myself:
#   demo passes on the unchanged tree, fails with the patch; the existing suite passes with the patch
wt=$1; head=$(git -C /repo rev-parse HEAD)
cd "$wt" || exit 2
git checkout -q --detach "$head" 2>/dev/null
git checkout -q -- . ; git clean -fdq -e _seed
cmd=$(python3 -c "import json;print(json.load(open('_seed/meta.json'))['demo_cmd'].split('&&')[-1].split('#')[0].strip())")
export CARGO_NET_OFFLINE=true
git apply _seed/demo.diff || { echo "CONFIRM demo.diff does not apply"; exit 1; }
$cmd > _seed/confirm_clean.log 2>&1; rc_clean=$?
git apply _seed/patch.diff || { echo "CONFIRM patch.diff does not apply"; exit 1; }
$cmd > _seed/confirm_patched.log 2>&1; rc_patched=$?
# existing suite with the patch only
git checkout -q -- . ; git clean -fdq -e _seed
git apply _seed/patch.diff
cargo test --workspace --offline --no-fail-fast > _seed/confirm_suite.log 2>&1
fails=$(grep -E "^test .* FAILED|^    [a-z_:0-9]+$" _seed/confirm_suite.log | grep -E "FAILED" | sed 's/ \.\.\. FAILED//; s/^test //' | sort -u | tr '\n' ' ')
git checkout -q -- . ; git clean -fdq -e _seed
echo "CONFIRM $(basename $wt) demo_clean_rc=$rc_clean demo_patched_rc=$rc_patched suite_failures=[$fails]"
