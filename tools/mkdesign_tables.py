#!/usr/bin/env python3
"""Regenerate the generated tables at the end of DESIGN.md (between the GENERATED markers) from
known_findings.json, seeded/*/meta.json and props.py."""
import json, os, re, sys
sys.path.insert(0, "/verif")
from props import PROPS
root = "/verif"
out = []
out.append("### 13.3 Defects found in the pinned tree and repaired (known_findings.json)\n")
out.append("Each was first demonstrated on the real code by a harness oracle (replay in `findings/`), then repaired by one `fix:` commit in /repo "
           "(existing suite re-run, unedited), then the model was made to follow. No unrepaired findings remain (`known` list empty).\n")
out.append("| id | property | commit | what failed |\n|---|---|---|---|")
for f in json.load(open(f"{root}/known_findings.json")):
    out.append(f"| {f['id']} | {f['property']} ({f.get('clause','')}) | `{f.get('commit','')}` | {f['what']} |")
out.append("")
out.append("### 13.5 Seeded changes and the checks that catch them (seeded/*/)\n")
out.append("Every change was produced by a fresh sub-agent that saw only the property text and a scratch worktree; I confirmed each (demo passes clean / fails patched, "
           "existing suite unchanged) with `tools/confirm_seed.sh` and ran the claimed property's quick check on it with `tools/try_seed.sh`.\n")
out.append("| seed | change (summary) | caught by |\n|---|---|---|")
for d in sorted(os.listdir(f"{root}/seeded")):
    mp = f"{root}/seeded/{d}/meta.json"
    if not os.path.exists(mp):
        continue
    m = json.load(open(mp))
    summ = re.sub(r"\s+", " ", str(m.get("summary", "")))[:260]
    out.append(f"| {d} | {summ} | {m.get('caught_by','')} |")
out.append("")
out.append("### 13.1 Status per property (from props.py)\n")
out.append("| id | theorems (kernel-checked) | engines | not proved (checked dynamically or out of reach) |\n|---|---|---|---|")
for pid in sorted(PROPS):
    P = PROPS[pid]
    ths = ", ".join(t.split(".")[-1] for t in P["theorems"])
    out.append(f"| {pid} | {ths} | {', '.join(P['engines'])} | {'; '.join(P.get('unproved', [])) or '-'} |")
out.append("")
text = "\n".join(out)
p = f"{root}/DESIGN.md"
s = open(p).read()
a, b = "<!-- GENERATED TABLES BEGIN -->", "<!-- GENERATED TABLES END -->"
if a in s:
    s = s[:s.index(a) + len(a)] + "\n" + text + "\n" + s[s.index(b):]
else:
    s += f"\n{a}\n{text}\n{b}\n"
open(p, "w").write(s)
print("DESIGN.md tables regenerated")
