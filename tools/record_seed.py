#!/usr/bin/env python3
"""usage: tools/record_seed.py <worktree> <seed id, e.g. C11-1> <confirm log> <caught_by text> [strengthened text]
Copies <worktree>/_seed/{patch.diff,demo.diff,meta.json} to seeded/<id>/ with the main session's confirmation."""
import json, os, shutil, sys, re
wt, sid, conf, caught = sys.argv[1:5]
strengthened = sys.argv[5] if len(sys.argv) > 5 else None
dst = os.path.join(os.path.dirname(os.path.dirname(os.path.abspath(__file__))), "seeded", sid)
os.makedirs(dst, exist_ok=True)
for f in ("patch.diff", "demo.diff"):
    shutil.copy(os.path.join(wt, "_seed", f), os.path.join(dst, f))
meta = json.load(open(os.path.join(wt, "_seed", "meta.json")))
line = [l for l in open(conf) if l.startswith("CONFIRM")][-1].strip()
m = re.search(r"demo_clean_rc=(\d+) demo_patched_rc=(\d+) suite_failures=\[(.*)\]", line)
assert m and m.group(1) == "0" and m.group(2) != "0", line
fails = m.group(3).strip()
meta["confirmed_by_main"] = ("demo passes on the unchanged tree and fails with patch.diff; cargo test --workspace --no-fail-fast with the patch: "
                             + ("no failures" if not fails else "only " + fails + " (timing-dependent at baseline too)") + " (tools/confirm_seed.sh)")
meta["caught_by"] = caught
if strengthened:
    meta["strengthened"] = strengthened
json.dump(meta, open(os.path.join(dst, "meta.json"), "w"), indent=1)
print("recorded", dst)
