#!/usr/bin/env python3
"""usage: tools/mkseedprompt.py <property id> [suffix] [spots already used]  — create a scratch worktree /tmp/wt/<id><suffix> of /repo HEAD and
write the prompt for a fresh sub-agent (text of the property only; nothing from /verif) to /tmp/wt/prompt_<id><suffix>.txt"""
import json, subprocess, sys, os
pid = sys.argv[1]; suf = sys.argv[2] if len(sys.argv) > 2 else ""
props = {json.loads(l)["id"]: json.loads(l) for l in open("/verif/properties.jsonl")}
P = props[pid]
wt = f"/tmp/wt/{pid}{suf}"
os.makedirs("/tmp/wt", exist_ok=True)
if not os.path.exists(wt):
    subprocess.check_call(["git", "-C", "/repo", "worktree", "add", "--detach", wt, "HEAD"], stdout=subprocess.DEVNULL)
avoid = sys.argv[3] if len(sys.argv) > 3 else ""
extra = ""
if suf:
    extra = ("\nAn earlier attempt already used the most obvious spot; look for a DIFFERENT mechanism or a different code location than the first thing that comes to mind "
             "(another function, another branch, another module among the anchored files, or an interaction of two pieces of state).\n")
    if avoid:
        extra += f"Earlier attempts already changed these spots, so do NOT use them again: {avoid}. Pick a different function or mechanism.\n"
text = f"""You are working in a scratch git worktree of the Rust project ASU-cubesat/cfdp-rs (a CCSDS File Delivery Protocol implementation: crate cfdp-core = PDU codec + filestore, crate cfdp-daemon = tokio daemon with sender/receiver transaction state machines, segment bookkeeping, timers). The worktree is at {wt} — work ONLY inside that directory (never touch /repo or /verif, do not read anything under /verif). The sandbox has no network: always pass --offline to cargo (e.g. `cargo test --workspace --offline --no-fail-fast`, `cargo build --offline`). Use the worktree's own target directory (the default ./target inside it).

Here is a semantic property the code base is supposed to satisfy:

  Title: {P['title']}
  Statement: {P['statement']}
  Quantified over: {P['quantifier']['text']}
  Code it is anchored in: {', '.join(P['anchors']['files'])}
{extra}
YOUR TASK: produce a *realistic, subtle* change to the source code (a plausible regression a maintainer could introduce: an off-by-one, a dropped or reordered statement, a wrong comparison, a missed state update, a wrong field, two cooperating edits that each look fine alone ...) that BREAKS this property while
  (a) the workspace still compiles (no new warnings),
  (b) the existing test suite still passes exactly as before. Baseline: run `cargo test --workspace --offline --no-fail-fast` before changing anything to see which tests pass; three integration tests (series_f1 f1s08, f1s09, f1s10) are timing dependent and may fail on the unchanged tree; all others must still pass after your change. The daemon integration tests take about 30-60 s.
  (c) the breakage needs something specific to manifest — a particular input shape, an unusual-but-legal value, a multi-step sequence of operations, a particular interleaving/loss pattern, a boundary — NOT something ordinary use would expose at once.
Do not weaken or edit existing tests. Do not add new dependencies. Keep the change small (a few lines, at most two sites).

Also write a DEMONSTRATION: a new Rust test (put it in a NEW file, e.g. a new integration test file under the relevant crate's tests/ directory, or a new #[cfg(test)] module in a new file — do not modify existing test files) or a tiny program, which FAILS with your change applied and PASSES on the unchanged code. Verify both directions yourself (use `git diff > /tmp/x.diff && git checkout -- .` / `git apply` / `git apply -R` to go back and forth; do NOT use `git stash`: the stash is shared between all worktrees of the repository and other people are working in sibling worktrees right now).

DELIVERABLES, written into the directory {wt}/_seed/ :
  - patch.diff   : `git diff` of ONLY the source change that breaks the property (NOT including the demonstration), applicable with `git apply` at the repository root of the unchanged tree
  - demo.diff    : a patch that adds the demonstration file(s) (also applicable with git apply)
  - meta.json    : {{"property": "{pid}", "summary": "...what the change does...", "needs_to_manifest": "...the specific input/sequence/interleaving needed...", "demo_cmd": "cd {wt} && git apply _seed/demo.diff && <exact cargo test command that runs the demonstration>", "verified": "what you ran and observed, both with and without the change"}}
When done, leave the worktree with the change NOT applied to tracked files (restore with `git checkout -- .`), keeping only the untracked _seed/ directory, and reply with a short summary (what the change is, why existing tests do not notice, how the demo shows it).
Keep your tool outputs small (pipe long command output through tail/grep). Run the slow daemon integration tests at most twice (once before, once after your change); use `cargo test -p cfdp-core --offline` / `cargo test -p cfdp-daemon --offline --lib` for quick iterations.
"""
open(f"/tmp/wt/prompt_{pid}{suf}.txt", "w").write(text)
print(f"/tmp/wt/prompt_{pid}{suf}.txt")
