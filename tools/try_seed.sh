#!/bin/bash
# usage: tools/try_seed.sh <patch.diff> <property id>...   — apply a seeded change to /repo, run the quick checks, undo it
set -u
patch=$(readlink -f "$1"); shift
cd /repo || exit 2
if [ -n "$(git status --porcelain)" ]; then echo "/repo not clean"; exit 2; fi
git apply "$patch" || { echo "patch does not apply"; exit 2; }
for id in "$@"; do
  echo "== $id"
  (cd /verif && ./check "$id" 2>&1 | tail -4)
done
git -C /repo checkout -- . && git -C /repo status --porcelain
