#!/bin/bash
# usage: tools/regress_seeds.sh [seed dirs...] — apply every recorded seeded change in turn, run the quick check of its property
# (VERIF_SEED from the environment, default 1) and report the ones that are NOT caught; /repo is restored after each.
cd /verif || exit 2
dirs=("$@"); [ ${#dirs[@]} -eq 0 ] && dirs=(seeded/*/)
missed=0
for d in "${dirs[@]}"; do
  n=$(basename "$d"); prop=${n%-*}
  # a seed whose defect is only visible to another property's check names it in meta.json ("check")
  alt=$(python3 -c "import json;print(json.load(open('/verif/seeded/$n/meta.json')).get('check',''))" 2>/dev/null); [ -n "$alt" ] && prop=$alt
  if [ -n "$(git -C /repo status --porcelain)" ]; then echo "/repo not clean"; exit 2; fi
  git -C /repo apply "/verif/seeded/$n/patch.diff" || { echo "NOAPPLY $n"; continue; }
  out=$(./check "$prop" 2>&1 | grep -m1 "VIOLATION property=$prop")
  git -C /repo checkout -- .
  if echo "$out" | grep -q "VIOLATION property=$prop"; then echo "caught $n"; else echo "MISSED $n"; missed=$((missed+1)); fi
done
echo "regress done: missed=$missed"
