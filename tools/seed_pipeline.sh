#!/bin/bash
# usage: tools/seed_pipeline.sh <worktree name under /tmp/wt> <property id>...  — serialised (flock) try + confirm of one seed
w=$1; shift
(
  flock 9
  /verif/tools/try_seed.sh /tmp/wt/$w/_seed/patch.diff "$@" > /tmp/wt/try_$w.log 2>&1
) 9>/tmp/wt/repo.lock
/verif/tools/confirm_seed.sh /tmp/wt/$w > /tmp/wt/confirm_$w.log 2>&1
echo "pipeline $w done"
