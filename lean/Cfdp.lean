import Cfdp.Model.Segments
