import Cfdp.Model.Segments
import Cfdp.Lemmas.Segments
import Cfdp.Props.C09
import Cfdp.Props.C14
import Cfdp.Props.C12
import Cfdp.Props.C05
import Cfdp.Props.C06
import Cfdp.Props.C16
