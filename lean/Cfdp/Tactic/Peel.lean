import Lean

/-!
`peel lem n base_proj`: for a goal `P { x with f := v, … }` (a record built from the projections of `x`),
refine with `lem (s := x) ?_ rfl … rfl` (`n` times `rfl`): the frame lemma `lem` says that `P` only depends on
`n` projections, each unchanged by the update.  The base record `x` is read off the first field of the
record (which no function of the models ever updates).
-/
open Lean Elab Tactic Meta

syntax (name := peelTac) "peel " ident num : tactic

@[tactic peelTac] def evalPeel : Tactic := fun stx => do
  match stx with
  | `(tactic| peel $lem:ident $n:num) =>
    let g ← getMainGoal
    let t ← instantiateMVars (← g.getType)
    unless t.isApp do throwError "peel: goal is not an application"
    let e := t.appArg!
    let e ← zetaReduce (← instantiateMVars e)
    let e := e.consumeMData
    let fn := e.getAppFn
    unless fn.isConst && (fn.constName!.getString! == "mk") do
      throwError "peel: the goal is not about a record expression"
    let a := e.getAppArgs[0]!
    let base ← match a with
      | .proj _ _ x => pure x
      | _ =>
        if a.isApp && a.getAppFn.isConst && a.getAppNumArgs == 1 then pure a.appArg!
        else throwError "peel: first field is not a projection"
    let b ← Term.exprToSyntax base
    let rfls : Array (TSyntax `term) := (List.replicate n.getNat (← `(rfl))).toArray
    let tac ← `(tactic| refine $lem (s := $b) ?_ $rfls*)
    evalTactic tac
  | _ => throwUnsupportedSyntax
