import Lean

/-!
Two small tactics for invariant proofs over the transaction models.

`peel lem n`: the goal is `P e` where `lem : P s → s'.f₁ = s.f₁ → … → s'.fₙ = s.fₙ → P s'` is a frame lemma
for `P` (it only depends on `n` projections).
* If `e` is a record expression `{ x with … }` (a constructor application whose first field is a projection
  of `x`; no function of the models ever updates the first field), refine with `lem (s := x) ?_ rfl … rfl`.
* If `e` is a call `f a₁ … aₖ` (or its first component), take for `x` the first argument that is a state and
  discharge the `n` side conditions with the generated `@[simp]` frame lemmas (`rfl` or `simp`).
Either way the remaining goal is `P x`; the tactic fails if a side condition cannot be discharged.

`inv_auto lem n [lemmas]`: repeat { assumption | apply one of `lemmas` (syntactic match) | peel } until the goal
is closed; fails otherwise.
-/
open Lean Elab Tactic Meta

syntax (name := peelTac) "peel " ident num : tactic

@[tactic peelTac] def evalPeel : Tactic := fun stx => do
  match stx with
  | `(tactic| peel $lem:ident $n:num) => withMainContext do
    let g ← getMainGoal
    let t := (← instantiateMVars (← g.getType)).cleanupAnnotations
    unless t.isApp do throwError "peel: goal is not an application"
    let e := t.appArg!
    let e ← zetaReduce (← instantiateMVars e)
    let e ← whnfCore e.consumeMData
    let stTy ← whnfR (← inferType e)
    let fn := e.getAppFn
    let holes : Array (TSyntax `term) := (List.replicate n.getNat (← `(?_))).toArray
    if fn.isConst && (fn.constName!.getString! == "mk") && e.getAppNumArgs > 0 then
      let a := e.getAppArgs[0]!
      let base ← match a with
        | .proj _ _ x => pure x
        | _ =>
          if a.isApp && a.getAppFn.isConst && a.getAppNumArgs == 1 then pure a.appArg!
          else throwError "peel: first field is not a projection"
      let b ← Term.exprToSyntax base
      let rfls : Array (TSyntax `term) := (List.replicate n.getNat (← `(rfl))).toArray
      evalTactic (← `(tactic| refine $lem (s := $b) ?_ $rfls*))
    else
      -- a call, possibly under `.1`
      let call := if e.isAppOfArity ``Prod.fst 3 then e.appArg! else
        match e with | .proj _ 0 x => x | _ => e
      let mut base? : Option Expr := none
      for a in call.getAppArgs do
        if base?.isNone then
          let ty ← whnfR (← inferType a)
          if ← isDefEq ty stTy then base? := some a
      let some base := base? | throwError "peel: no state argument found"
      let b ← Term.exprToSyntax base
      let others := (← getGoals).drop 1
      let gs ← evalTacticAt (← `(tactic| refine $lem (s := $b) ?main $holes*)) g
      match gs with
      | [] => setGoals others
      | main :: sides =>
        for sg in sides do
          let rest ← evalTacticAt (← `(tactic| first | rfl | (simp; done))) sg
          unless rest.isEmpty do throwError "peel: side condition not discharged"
        setGoals (main :: others)
  | _ => throwUnsupportedSyntax

syntax "inv_auto " ident num " [" term,* "]" : tactic
macro_rules
  | `(tactic| inv_auto $fr $n [$ls,*]) => `(tactic|
      (((try dsimp only) <;> repeat' (first
        | assumption
        $[| with_reducible apply $ls]*
        | peel $fr $n)) <;> done))
