import Cfdp.Model.Recv
namespace Cfdp.Recv
open Cfdp.Codec Cfdp.Gen Cfdp.Timer

set_option maxHeartbeats 1000000 in
theorem t4 (s : State) (now : Nat) : (sendPdu s now).segs = s.segs := by
  simp only [sendPdu, answerPrompt, sendNaks, sendAckEof, sendFinished, handleFault, cancelInner, suspend, abandon,
    setFinishedFlag, sendPayload, getHeader, emit, shutdown, prepareFinished]
  repeat' split
  all_goals rfl

set_option maxHeartbeats 1000000 in
theorem t5 (s : State) (now : Nat) : (handleTimeout s now).segs = s.segs := by
  simp only [handleTimeout, handleFault, cancelInner, suspend, abandon,
    setFinishedFlag, emit, shutdown, prepareFinished]
  repeat' split
  all_goals rfl
end Cfdp.Recv
