import Cfdp.Model.Timer
import Cfdp.Model.Checksum
import Cfdp.Model.Codec.Pdu

/-
Model of `SendTransaction` (`cfdp-daemon/src/transaction/send.rs`): one Lean function per Rust
method.  The source file is a byte list, the open handle is its read cursor; indications are
appended to `out`, the PDU handed to the transport permit is `sent`; the clock is the explicit
`now` (ns).
-/
namespace Cfdp.Send
open Cfdp.Codec Cfdp.Gen Cfdp.Timer

inductive SendState where
  | SendMetadata | SendData | SendEof | Cancelled | Finished
  deriving DecidableEq, Repr, Inhabited

def SendState.name : SendState → String
  | .SendMetadata => "SendMetadata" | .SendData => "SendData" | .SendEof => "SendEof"
  | .Cancelled => "Cancelled" | .Finished => "Finished"

inductive Ind where
  | transaction
  | eofSent
  | finished (cond : Condition) (dc : DeliveryCode) (fs : FileStatusCode) (state : TransactionState)
      (status : TransactionStatus) (resps : List FsResponse)
  | suspended (cond : Condition)
  | resumed (progress : Nat)
  | report (state : TransactionState) (status : TransactionStatus) (cond : Condition)
  | fault (cond : Condition) (progress : Nat)
  | abandon (cond : Condition) (progress : Nat)
  deriving Repr, Inhabited

structure Config where
  mode : TransmissionMode
  fss : FileSizeFlag
  seg : Nat
  crc : CRCFlag
  max : Nat
  ti : Nat
  ta : Nat
  tn : Nat
  fho : List (Condition × FaultHandlerAction)
  src : VarId
  dst : VarId
  seq : VarId
  deriving Repr, Inhabited

structure Meta where
  srcName : Bytes
  dstName : Bytes
  fileSize : Nat
  requests : List FsRequest
  messages : List Bytes
  closure : Bool
  cksumType : ChecksumType
  deriving Repr, Inhabited

/-- what never changes during a transaction: configuration, metadata, content of the source file -/
structure Static where
  cfg : Config
  md : Meta
  file : Bytes
  deriving Inhabited

structure State where
  st : Static
  status : TransactionStatus := .Undefined
  cursor : Option Nat := none        -- file_handle (its stream position)
  naks : List (Nat × Nat) := []
  progress : Nat := 0                -- sent_file_size
  rxProgress : Nat := 0              -- received_file_size (from keep-alives)
  header : Option Header := none
  condition : Condition := .NoError
  delivery : DeliveryCode := .Incomplete
  fileStatus : FileStatusCode := .Unreported
  timer : Timer
  checksum : Option Nat := none
  state : TransactionState := .Active
  sendState : SendState := .SendMetadata
  eof : Option (Eof × Bool) := none
  ack : Option Ack := none
  prompt : Option NakOrKeepAlive := none
  eofInd : Bool := true
  out : List Ind := []
  sent : Option Pdu := none
  panicked : Bool := false
  deriving Inhabited

def State.cfg (s : State) : Config := s.st.cfg
def State.md (s : State) : Meta := s.st.md
def State.file (s : State) : Bytes := s.st.file

def emit (s : State) (i : Ind) : State := { s with out := s.out ++ [i] }

/-- `SendTransaction::new` -/
def new (cfg : Config) (md : Meta) (file : Bytes) (now : Nat) : State :=
  emit { st := { cfg, md, file }, timer := Timer.new cfg.ti cfg.max cfg.ta cfg.max cfg.tn cfg.max now } .transaction

def eofFlag (s : State) : Bool := match s.eof with | some (_, f) => f | none => false

/-- `has_pdu_to_send` -/
def hasPduToSend (s : State) : Bool :=
  if s.state == .Suspended then false else
  s.prompt.isSome || (match s.sendState with
    | .SendMetadata | .SendData => true
    | .SendEof => !s.naks.isEmpty || eofFlag s
    | .Cancelled => eofFlag s
    | .Finished => s.ack.isSome)

/-- `until_timeout` (`none` = `Duration::MAX`) -/
def untilTimeout (s : State) (now : Nat) : Option Nat :=
  if s.state == .Suspended then none else
  match s.sendState with
  | .SendEof | .Cancelled => s.timer.untilTimeout now
  | _ => none

def getHeader (s : State) (t : PDUType) (len : Nat) : State × Header :=
  match s.header with
  | some h => (s, { h with pduType := t, dataLen := len, segCtrl := .NotPreserved })
  | none =>
    let h : Header :=
      { version := .One, pduType := t, direction := .ToReceiver, mode := s.cfg.mode, crc := s.cfg.crc,
        large := s.cfg.fss, dataLen := len, segCtrl := .NotPreserved, segMeta := .NotPresent,
        src := s.cfg.src, seq := s.cfg.seq, dst := s.cfg.dst }
    ({ s with header := some h }, h)

def ptypeOf : Payload → PDUType
  | .fileData _ _ | .fileDataSeg _ _ _ _ => .FileData
  | _ => .FileDirective

def sendPayload (s : State) (p : Payload) : State :=
  let r := getHeader s (ptypeOf p) (p.len s.cfg.fss)
  { r.1 with sent := some { header := r.2, payload := p } }

def isFileTransfer (s : State) : Bool := !s.md.srcName.isEmpty

def getProgress (s : State) : Nat := s.progress

/-- `get_handle`: opens the source file on first use -/
def openHandle (s : State) : State := match s.cursor with | some _ => s | none => { s with cursor := some 0 }

/-- `get_checksum`: cached; the modular checksum reads the whole file and leaves the cursor at its end -/
def getChecksum (s : State) : State × Nat :=
  match s.checksum with
  | some v => (s, v)
  | none =>
    if isFileTransfer s then
      let s := openHandle s
      match s.md.cksumType with
      | .Null => ({ s with checksum := some 0 }, 0)
      | .Modular =>
        let v := (Cksum.checksumLoop (Cksum.chunkBy [8192] (s.file.length + 1) 0 s.file)).toNat
        ({ s with checksum := some v, cursor := some s.file.length }, v)
    else ({ s with checksum := some 0 }, 0)

/-- `prepare_eof` -/
def prepareEof (s : State) (fault : Option VarId) (now : Nat) : State :=
  let s := { s with timer := { s.timer with ack := ((s.timer.ack.reset now).pause now) } }
  let r := getChecksum s
  { r.1 with eof := some ({ cond := r.1.condition, checksum := r.2, fileSize := r.1.md.fileSize, fault }, true) }

def setEofFlag (s : State) (f : Bool) : State :=
  match s.eof with
  | some (e, _) => { s with eof := some (e, f) }
  | none => s

/-- `send_eof` -/
def sendEof (s : State) (now : Nat) : State :=
  match s.eof with
  | some (e, true) =>
    let s := { s with timer := { s.timer with ack := s.timer.ack.restart now } }
    setEofFlag (sendPayload s (.eof e)) false
  | _ => s

/-- `send_metadata` -/
def sendMetadata (s : State) : State :=
  sendPayload s (.metadata
    { closure := s.md.closure, cksumType := s.md.cksumType, fileSize := s.md.fileSize,
      srcName := s.md.srcName, dstName := s.md.dstName,
      options := s.md.requests.map Tlv.fsReq ++ s.md.messages.map Tlv.msg })

/-- `get_file_segment` + `send_file_segment` -/
def sendFileSegment (s : State) (offset : Option Nat) (length : Option Nat) : State :=
  let len := length.getD s.cfg.seg
  let s := openHandle s
  let off := offset.getD (s.cursor.getD 0)
  let data := (s.file.drop off).take len
  let s := { s with cursor := some (off + data.length), progress := max s.progress (off + data.length) }
  sendPayload s (.fileData off data)

/-- `shutdown` -/
def shutdown (s : State) (now : Nat) : State :=
  { s with state := .Terminated,
           timer := { s.timer with ack := s.timer.ack.pause now, inactivity := s.timer.inactivity.pause now } }

/-- `send_missing_data`, first part: pop the request; activity restarts the inactivity timer once
the sender is waiting for the receiver -/
def popNak (s : State) (now : Nat) : State :=
  let s := { s with naks := s.naks.tail }
  if s.sendState == .SendEof then
    { s with timer := { s.timer with inactivity := s.timer.inactivity.restart now } } else s

/-- `send_missing_data`, second part: answer the request `(a, b)` -/
def answerNak (s : State) (a b : Nat) : State :=
  if b - a > 65535 then { s with panicked := true }   -- `try_into::<u16>()?` (unreachable after splitting)
  else if a == 0 && b - a == 0 then sendMetadata s
  else
    -- the read position of the first pass is saved and restored around the retransmission
    { sendFileSegment (openHandle s) (some a) (some (b - a)) with cursor := (openHandle s).cursor }

/-- `send_missing_data` -/
def sendMissingData (s : State) (now : Nat) : State :=
  match s.naks with
  | [] => s
  | (a, b) :: _ => answerNak (popNak s now) a b

/-- `send_prompt` -/
def sendPrompt (s : State) : State :=
  match s.prompt with
  | some k => sendPayload { s with prompt := none } (.prompt k)
  | none => s

/-- `send_ack` -/
def sendAck (s : State) (now : Nat) : State :=
  match s.ack with
  | some a => shutdown (sendPayload { s with ack := none } (.ack a)) now
  | none => s

/-- `abandon` -/
def abandon (s : State) (now : Nat) : State :=
  let s := emit s (.abandon s.condition (getProgress s))
  shutdown { s with status := .Terminated } now

/-- `_cancel` -/
def cancelInner (s : State) (c : Condition) (now : Nat) : State :=
  let s := { s with timer := { s.timer with inactivity := s.timer.inactivity.pause now }, condition := c,
                    sendState := .Cancelled }
  prepareEof s (some s.cfg.src) now

def cancel (s : State) (now : Nat) : State := cancelInner s .CancelReceived now

/-- `suspend` -/
def suspend (s : State) (now : Nat) : State :=
  let s := { s with timer := { s.timer with ack := s.timer.ack.pause now, inactivity := s.timer.inactivity.pause now },
                    state := .Suspended }
  emit s (.suspended s.condition)

/-- `resume` -/
def resume (s : State) (now : Nat) : State :=
  let s := match s.sendState with
    | .SendEof | .Cancelled =>
      let s := match s.eof with
        | some (_, true) => s
        | _ => { s with timer := { s.timer with ack := s.timer.ack.restart now } }
      { s with timer := { s.timer with inactivity := s.timer.inactivity.restart now } }
    | _ => s
  let s := { s with state := .Active }
  emit s (.resumed (getProgress s))

def handlerFor (s : State) (c : Condition) : FaultHandlerAction :=
  match s.cfg.fho.find? (fun e => e.1 == c) with
  | some e => e.2
  | none => .Cancel

/-- `handle_fault` -/
def handleFault (s : State) (c : Condition) (now : Nat) : State :=
  let s := { s with condition := c }
  let s := emit s (.fault s.condition (getProgress s))
  match handlerFor s c with
  | .Ignore => s
  | .Cancel => cancelInner s c now
  | .Suspend => suspend s now
  | .Abandon => abandon s now

/-- `send_pdu`, state SendMetadata -/
def sendPduMetadata (s : State) (now : Nat) : State :=
  let s := sendMetadata s
  if isFileTransfer s then { s with sendState := .SendData }
  else { prepareEof s none now with sendState := .SendEof }

/-- `send_pdu`, state SendData, after the PDU went out: end of the first pass? -/
def afterData (s : State) (now : Nat) : State :=
  let s := openHandle s
  if s.cursor.getD 0 == s.file.length then { prepareEof s none now with sendState := .SendEof } else s

/-- `send_pdu`, state SendData -/
def sendPduData (s : State) (now : Nat) : State :=
  afterData (if !s.naks.isEmpty then sendMissingData s now else sendFileSegment s none none) now

/-- `send_pdu`, state SendEof with nothing left to retransmit: the EOF itself -/
def sendPduEof (s : State) (now : Nat) : State :=
  let s := sendEof s now
  let s := if s.eofInd then { emit s .eofSent with eofInd := false } else s
  if s.cfg.mode == TransmissionMode.Unacknowledged then
    if !s.md.closure then
      shutdown (emit s (.finished s.condition s.delivery s.fileStatus s.state s.status [])) now
    else s
  else s

/-- `send_pdu` -/
def sendPdu (s : State) (now : Nat) : State :=
  if s.prompt.isSome then sendPrompt s
  else match s.sendState with
    | .SendMetadata => sendPduMetadata s now
    | .SendData => sendPduData s now
    | .SendEof => if !s.naks.isEmpty then sendMissingData s now else sendPduEof s now
    | .Cancelled => sendEof s now
    | .Finished => sendAck s now

/-- the positive-ACK part of `handle_timeout` -/
def handleAckTimer (s : State) (now : Nat) (cancelled : Bool) : State :=
  let o := s.timer.ack.timeoutOccurred now
  let s := { s with timer := { s.timer with ack := o.1 } }
  if o.2 then
    let r := s.timer.ack.limitReached now
    let s := { s with timer := { s.timer with ack := r.1 } }
    if r.2 then (if cancelled then abandon s now else handleFault s .PositiveLimitReached now)
    else setEofFlag s true
  else s

/-- the inactivity part of `handle_timeout` -/
def handleInactivity (s : State) (now : Nat) (cancelled : Bool) : State :=
  let r := s.timer.inactivity.limitReached now
  let s := { s with timer := { s.timer with inactivity := r.1 } }
  if r.2 then (if cancelled then abandon s now else handleFault s .InactivityDetected now) else s

/-- `handle_timeout` -/
def handleTimeout (s : State) (now : Nat) : State :=
  if s.state == .Suspended then s else
  match s.sendState with
  | .SendEof => handleAckTimer (handleInactivity s now false) now false
  | .Cancelled => handleAckTimer (handleInactivity s now true) now true
  | _ => s

/-- the splitting of NAK requests into segment-size pieces clamped to the file (`process_pdu`) -/
def splitPieces (seg fileSize : Nat) (start endv : Nat) : Nat → Nat → List (Nat × Nat)
  | 0, _ => []
  | fuel + 1, num =>
    let e := min endv fileSize
    if num < e then
      (if num < e - seg then (num, num + seg) else (num, e)) :: splitPieces seg fileSize start endv fuel (num + seg)
    else []

def splitRequest (seg fileSize : Nat) (r : Nat × Nat) : List (Nat × Nat) :=
  if r.1 == 0 && r.2 == 0 then [r]
  else splitPieces seg fileSize r.1 r.2 (min r.2 fileSize - r.1 + 1) r.1

/-- `naks.retain(|e| uniques.insert(e.clone()))`: keep the first occurrence of each request -/
def dedup : List (Nat × Nat) → List (Nat × Nat) → List (Nat × Nat)
  | _, [] => []
  | seen, x :: xs => if seen.contains x then dedup seen xs else x :: dedup (x :: seen) xs

inductive Res where
  | ok | unexpected
  deriving DecidableEq, Repr, Inhabited

/-- the first statement of `process_pdu`: a PDU from the receiver is progress -/
def pduArrived (s : State) (now : Nat) : State :=
  if s.sendState == .SendEof then
    -- a suspended transaction's timers stay stopped until `resume` re-arms them
    { s with timer := { s.timer with inactivity :=
        if s.state == .Suspended then (s.timer.inactivity.reset now).pause now else s.timer.inactivity.reset now } }
  else s

/-- the rest of `process_pdu` -/
def processPduBody (s : State) (p : Pdu) (now : Nat) : State × Res :=
  match s.cfg.mode with
  | .Acknowledged =>
    match p.payload with
    | .finished f =>
      let s := { s with delivery := f.delivery, fileStatus := f.fileStatus }
      let s := { s with ack := some { directive := .Finished, sub := .Finished, cond := s.condition, status := s.status } }
      let s := { s with sendState := .Finished, condition := f.cond }
      (emit s (.finished s.condition s.delivery s.fileStatus s.state s.status f.responses), .ok)
    | .nak n =>
      if s.cfg.seg == 0 then ({ s with panicked := true }, .ok) else
      let pieces := n.requests.flatMap (splitRequest s.cfg.seg s.md.fileSize)
      ({ s with naks := dedup [] (s.naks ++ pieces) }, .ok)
    | .ack a =>
      if a.directive == .EoF then
        let s := { s with timer := { s.timer with ack := s.timer.ack.pause now } }
        let s := if s.sendState == .Cancelled then
            { s with timer := { s.timer with inactivity :=
                if s.state == .Suspended then (s.timer.inactivity.restart now).pause now
                else s.timer.inactivity.restart now } } else s
        (s, .ok)
      else (s, .unexpected)
    | .keepAlive g => ({ s with rxProgress := g }, .ok)
    | _ => (s, .unexpected)
  | .Unacknowledged =>
    match p.payload with
    | .finished f =>
      if s.md.closure then
        let s := { s with condition := f.cond, delivery := f.delivery }
        let s := emit s (.finished s.condition s.delivery s.fileStatus s.state s.status f.responses)
        (shutdown s now, .ok)
      else (s, .unexpected)
    | _ => (s, .unexpected)

/-- `process_pdu` -/
def processPdu (s : State) (p : Pdu) (now : Nat) : State × Res := processPduBody (pduArrived s now) p now

/-- `send_report` -/
def sendReport (s : State) : State := emit s (.report s.state s.status s.condition)

/-- `prepare_prompt` -/
def preparePrompt (s : State) (k : NakOrKeepAlive) : State := { s with prompt := some k }

end Cfdp.Send
