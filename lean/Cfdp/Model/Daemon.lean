/-
Model of the routing part of `cfdp-daemon/src/lib.rs`: `Daemon::forward_pdu`, the Put branch of
`process_primitive` and `cleanup_transactions`, at the level of the transaction table
(`transaction_channels`).  A transaction task is an entry of the table plus a flag saying whether
the task is still running (its command channel open).  What the tasks do is the subject of
`Model/Recv.lean` / `Model/Send.lean`; here only which task a PDU reaches.
-/
namespace Cfdp.Daemon

inductive Dir where
  | toReceiver | toSender
  deriving DecidableEq, Repr, Inhabited

/-- what `forward_pdu` reads of a PDU header -/
structure Hdr where
  dir : Dir
  src : Nat
  seq : Nat
  dst : Nat
  deriving DecidableEq, Repr, Inhabited

abbrev Tid := Nat × Nat

structure DState where
  entity : Nat
  peers : List Nat              -- entities in `transport_tx_map`
  entries : List Tid := []      -- keys of `transaction_channels`
  dead : List Tid := []         -- entries whose task has ended (channel closed, not yet cleaned up)
  spawned : List Tid := []      -- ghost: every receive transaction ever spawned
  nextSeq : Nat := 1
  deriving Repr, Inhabited

inductive Decision where
  | forward (id : Tid)          -- handed to the running transaction
  | spawnRecv (id : Tid)        -- a new receive transaction is created and gets the PDU
  | unableToResume (id : Tid)   -- response for a sender that does not exist: dropped with a warning
  | noTransport                 -- names an entity without transport: dropped with a warning
  deriving DecidableEq, Repr, Inhabited

def key (h : Hdr) : Tid := (h.src, h.seq)

/-- `forward_pdu`: the entity whose transport a new transaction would use -/
def transportEntity (h : Hdr) : Nat :=
  match h.dir with
  | .toSender => h.dst
  | .toReceiver => h.src

/-- `forward_pdu` -/
def route (d : DState) (h : Hdr) : Decision × DState :=
  let k := key h
  if d.entries.contains k then
    if !d.dead.contains k then (.forward k, d)
    else
      -- the transaction has ended but its entry is still there: `send` fails
      match h.dir with
      | .toReceiver =>
        if d.peers.contains (transportEntity h) then
          (.spawnRecv k, { d with dead := d.dead.filter (· != k), spawned := d.spawned ++ [k] })
        else (.noTransport, d)
      | .toSender => (.unableToResume k, d)
  else if d.peers.contains (transportEntity h) then
    match h.dir with
    | .toReceiver => (.spawnRecv k, { d with entries := d.entries ++ [k], spawned := d.spawned ++ [k] })
    | .toSender => (.unableToResume k, d)
  else (.noTransport, d)

/-- the Put branch of `process_primitive`: the sequence number is consumed whether or not a
transport exists for the destination -/
def put (d : DState) (dest : Nat) : Option Tid × DState :=
  let id : Tid := (d.entity, d.nextSeq)
  let d' := { d with nextSeq := d.nextSeq + 1 }
  if d.peers.contains dest then (some id, { d' with entries := d'.entries ++ [id] })
  else (none, d')

/-- a transaction task ends -/
def taskEnded (d : DState) (id : Tid) : DState :=
  if d.entries.contains id && !d.dead.contains id then { d with dead := d.dead ++ [id] } else d

/-- `cleanup_transactions`: entries of ended tasks are removed -/
def cleanup (d : DState) : DState :=
  { d with entries := d.entries.filter (fun k => !d.dead.contains k), dead := [] }

inductive Op where
  | pdu (h : Hdr)
  | put (dest : Nat)
  | ended (id : Tid)
  | cleanup
  deriving Repr, Inhabited

def step (d : DState) (o : Op) : DState :=
  match o with
  | .pdu h => (route d h).2
  | .put dest => (put d dest).2
  | .ended id => taskEnded d id
  | .cleanup => cleanup d

def run (d : DState) (ops : List Op) : DState := ops.foldl step d

end Cfdp.Daemon
