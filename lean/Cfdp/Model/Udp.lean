import Cfdp.Model.Codec.Pdu

/-
Model of `UdpTransport::receive` (`cfdp-daemon/src/transport.rs`): a receive buffer of
`u16::MAX` bytes that is reused for every datagram; `recv_from` writes the datagram at the
start of the buffer and returns its length `n`; `PDU::decode(&mut &buffer[..n])`.
-/
namespace Cfdp.Udp
open Cfdp.Codec

/-- `vec![0_u8; u16::MAX as usize]` -/
def initBuffer : Bytes := List.replicate Cfdp.Gen.udpBufferSize 0

/-- `socket.recv_from(&mut buffer)`: the datagram (cut to the buffer size by the OS) overwrites
the first bytes of the buffer; returns the new buffer and `n` -/
def recvFrom (buf dg : Bytes) : Bytes × Nat :=
  let d := dg.take buf.length
  (d ++ buf.drop d.length, d.length)

/-- `UdpTransport::receive`: new buffer state and the decode result -/
def receive (buf dg : Bytes) : Bytes × Except Err Pdu :=
  let r := recvFrom buf dg
  (r.1, Pdu.decode (r.1.take r.2))

/-- the buffer after a history of datagrams -/
def bufferAfter (hist : List Bytes) : Bytes := hist.foldl (fun b d => (receive b d).1) initBuffer

end Cfdp.Udp
