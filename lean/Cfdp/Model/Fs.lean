import Cfdp.Model.Path
import Cfdp.Model.Codec.Pdu

/-
Model of the filestore: the part of `std::fs` that `NativeFileStore` uses, the
`NativeFileStore` primitives and `FileStore::process_request`
(`cfdp-core/src/filestore.rs`).

The filesystem under the filestore root is a finite map from root-relative paths (lists of
names, `[]` is the root itself) to nodes.  Names are the proper names produced by
`get_native_path` (theorem C12: nothing else can be addressed).  Not modelled: permissions,
symbolic links, I/O errors other than the structural ones (missing parent, wrong node kind).
-/
namespace Cfdp.Fs
open Cfdp.Codec Cfdp.Gen

abbrev Name := List Char
abbrev RelPath := List Name

inductive Node where
  | file (content : Bytes)
  | dir
  deriving DecidableEq, Repr, Inhabited

abbrev FS := List (RelPath × Node)

def FS.get (fs : FS) (p : RelPath) : Option Node := (fs.find? (fun e => e.1 == p)).map (·.2)

/-- `Path::exists` -/
def FS.exist (fs : FS) (p : RelPath) : Bool := (fs.get p).isSome
/-- `Path::is_file` -/
def FS.isFile (fs : FS) (p : RelPath) : Bool := match fs.get p with | some (.file _) => true | _ => false
/-- `Path::is_dir` -/
def FS.isDir (fs : FS) (p : RelPath) : Bool := match fs.get p with | some .dir => true | _ => false

/-- the parent directory exists (the root's parent is outside the model: treated as present) -/
def FS.parentIsDir (fs : FS) (p : RelPath) : Bool :=
  match p with
  | [] => true
  | _ => fs.isDir p.dropLast

def FS.erase (fs : FS) (p : RelPath) : FS := fs.filter (fun e => e.1 != p)
def FS.set (fs : FS) (p : RelPath) (n : Node) : FS := (fs.erase p) ++ [(p, n)]

def isPrefix : RelPath → RelPath → Bool
  | [], _ => true
  | _ :: _, [] => false
  | a :: as, b :: bs => a == b && isPrefix as bs

/-- `File::create` + `sync_all` (`create_file`): creates or truncates -/
def FS.createFile (fs : FS) (p : RelPath) : Option FS :=
  if p.isEmpty then none   -- the root itself can never be created as a file (even after it was removed)
  else if fs.isDir p then none
  else if !fs.parentIsDir p then none
  else some (fs.set p (.file []))

/-- `fs::remove_file` -/
def FS.removeFile (fs : FS) (p : RelPath) : Option FS :=
  if fs.isFile p then some (fs.erase p) else none

/-- `rename_file`: refuses an existing target, then `fs::rename` -/
def FS.renameFile (fs : FS) (src dst : RelPath) : Option FS :=
  if fs.exist dst then none
  else match fs.get src with
    | none => none
    | some n =>
      if !fs.parentIsDir dst then none
      else if isPrefix src dst then none
      else
        -- move the node and, for a directory, everything below it
        some (fs.map (fun e => if e.1 == src then (dst, n)
                               else if isPrefix src e.1 then (dst ++ e.1.drop src.length, e.2) else e))

/-- `append_file`: open path1 for append, write `fs::read(path2)` -/
def FS.appendFile (fs : FS) (p1 p2 : RelPath) : Option FS :=
  match fs.get p1, fs.get p2 with
  | some (.file a), some (.file b) => some (fs.set p1 (.file (a ++ b)))
  | _, _ => none

/-- `replace_file`: `fs::write(path1, fs::read(path2)?)` if path1 exists -/
def FS.replaceFile (fs : FS) (p1 p2 : RelPath) : Option FS :=
  if !fs.exist p1 then none
  else match fs.get p2 with
    | some (.file b) => if fs.isDir p1 then none else some (fs.set p1 (.file b))
    | _ => none

/-- `fs::create_dir` -/
def FS.createDir (fs : FS) (p : RelPath) : Option FS :=
  if fs.exist p then none
  else if !fs.parentIsDir p then none
  else some (fs ++ [(p, .dir)])

/-- `fs::remove_dir_all` -/
def FS.removeDirAll (fs : FS) (p : RelPath) : Option FS :=
  if fs.isDir p then some (fs.filter (fun e => !isPrefix p e.1)) else none

/-- write a whole file, creating or truncating it (`open(create, write, truncate)` + `io::copy`) -/
def FS.writeFile (fs : FS) (p : RelPath) (c : Bytes) : Option FS :=
  if p.isEmpty then none
  else if fs.isDir p then none
  else if !fs.parentIsDir p then none
  else some (fs.set p (.file c))

/-! ### names -/

def bytesToChars (bs : Bytes) : List Char := bs.map (fun b => Char.ofNat b.toNat)
def charsToBytes (cs : List Char) : Bytes := cs.map (fun c => UInt8.ofNat c.toNat)

/-- the pseudo root used by the model for `get_native_path` (only its being absolute and
normalised matters; names that start with the root are written with this prefix by the harness) -/
def modelRoot : List Char := "/vroot/r".toList

/-- `get_native_path(name)` relative to the root (theorem C12: always of this form) -/
def relOf (name : Bytes) : RelPath :=
  match Path.nativePath modelRoot (bytesToChars name) with
  | some cs =>
    (cs.drop (Path.parse modelRoot).length).filterMap (fun c => match c with | .normal n => some n | _ => none)
  | none => []

/-! ### `FileStore::process_request` -/

/-- returns the 4-bit status code and the new filesystem -/
def processRequest (fs : FS) (q : FsRequest) : Nat × FS :=
  let p1 := relOf q.name1
  let p2 := relOf q.name2
  match q.action with
  | .CreateFile =>
    if fs.exist p1 then (CreateFileStatus.NotAllowed.toNat, fs)
    else match fs.createFile p1 with
      | some fs' => (CreateFileStatus.Successful.toNat, fs')
      | none => (CreateFileStatus.NotAllowed.toNat, fs)
  | .DeleteFile =>
    if fs.isFile p1 then
      match fs.removeFile p1 with
      | some fs' => (DeleteFileStatus.Successful.toNat, fs')
      | none => (DeleteFileStatus.DeleteNotAllowed.toNat, fs)
    else (DeleteFileStatus.FileDoesNotExist.toNat, fs)
  | .RenameFile =>
    if fs.isFile p1 then
      if fs.isFile p2 then (RenameStatus.NewFilenameAlreadyExists.toNat, fs)
      else match fs.renameFile p1 p2 with
        | some fs' => (RenameStatus.Successful.toNat, fs')
        | none => (RenameStatus.RenameNotAllowed.toNat, fs)
    else (RenameStatus.OldFilenameDoesNotExist.toNat, fs)
  | .AppendFile =>
    if fs.isFile p1 then
      if fs.isFile p2 then
        match fs.appendFile p1 p2 with
        | some fs' => (AppendStatus.Successful.toNat, fs')
        | none => (AppendStatus.NotAllowed.toNat, fs)
      else (AppendStatus.Filename2DoesNotExist.toNat, fs)
    else (AppendStatus.Filename1DoesNotExist.toNat, fs)
  | .ReplaceFile =>
    if fs.isFile p1 then
      if fs.isFile p2 then
        match fs.replaceFile p1 p2 with
        | some fs' => (ReplaceStatus.Successful.toNat, fs')
        | none => (ReplaceStatus.NotAllowed.toNat, fs)
      else (ReplaceStatus.Filename2DoesNotExist.toNat, fs)
    else (ReplaceStatus.Filename1DoesNotExist.toNat, fs)
  | .CreateDirectory =>
    if fs.isDir p1 then (CreateDirectoryStatus.DirectoryCannotBeCreated.toNat, fs)
    else match fs.createDir p1 with
      | some fs' => (CreateDirectoryStatus.Successful.toNat, fs')
      | none => (CreateDirectoryStatus.DirectoryCannotBeCreated.toNat, fs)
  | .RemoveDirectory =>
    if fs.isDir p1 then
      match fs.removeDirAll p1 with
      | some fs' => (RemoveDirectoryStatus.Successful.toNat, fs')
      | none => (RemoveDirectoryStatus.DeleteNotAllowed.toNat, fs)
    else (RemoveDirectoryStatus.DirectoryDoesNotExist.toNat, fs)
  | .DenyFile =>
    if fs.isFile p1 then
      match fs.removeFile p1 with
      | some fs' => (DenyStatus.Successful.toNat, fs')
      | none => (DenyStatus.NotAllowed.toNat, fs)
    else (DenyStatus.NotAllowed.toNat, fs)
  | .DenyDirectory =>
    if fs.isDir p1 then
      match fs.removeDirAll p1 with
      | some fs' => (DenyStatus.Successful.toNat, fs')
      | none => (DenyStatus.NotAllowed.toNat, fs)
    else (DenyStatus.NotAllowed.toNat, fs)

/-- `FileStoreStatus::get_not_performed`: every action's NotPerformed code is 0b1111 -/
def notPerformed : Nat := 15

/-- `status.is_fail()` -/
def isFail (code : Nat) : Bool := code != 0

/-- the request loop of `finalize_receive`: run in order, after the first failure the rest are
reported not performed -/
def runRequests : FS → Bool → List FsRequest → List FsResponse × FS
  | fs, _, [] => ([], fs)
  | fs, failRest, q :: qs =>
    if failRest then
      let r := runRequests fs true qs
      ({ action := q.action, status := notPerformed, name1 := q.name1, name2 := q.name2, msg := [] } :: r.1, r.2)
    else
      let (code, fs') := processRequest fs q
      let r := runRequests fs' (isFail code) qs
      ({ action := q.action, status := code, name1 := q.name1, name2 := q.name2, msg := [] } :: r.1, r.2)

end Cfdp.Fs
