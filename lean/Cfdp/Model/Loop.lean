import Cfdp.Model.Recv
import Cfdp.Model.Send

/-
Model of one iteration of the per-transaction task loops in `cfdp-daemon/src/lib.rs`
(`spawn_send_transaction` / `spawn_receive_transaction`):

    while transaction.get_state() != Terminated {
        let timeout = transaction.until_timeout();
        select! {
            Ok(permit) = transport_tx.reserve(), if transaction.has_pdu_to_send() => send_pdu(permit)
            Some(command) = transaction_rx.recv() => process the command
            _ = sleep(timeout) => handle_timeout()
        }
    }

An event is the branch that fired together with the clock reading; a `send` event is only taken
when `has_pdu_to_send()`, a `timeout` only when the computed sleep has elapsed, nothing happens
once the state is Terminated.
-/
namespace Cfdp.Loop
open Cfdp.Codec Cfdp.Gen

inductive Ev where
  | pdu (p : Pdu)
  | send
  | timeout
  | cancel
  | suspend
  | resume
  | report
  | abandon
  | prompt (k : NakOrKeepAlive)
  deriving Repr, Inhabited

/-- one loop iteration of a send transaction task (`sent` / `out` hold what this iteration
transmitted / indicated to the user) -/
def sendStep (s : Send.State) (now : Nat) (e : Ev) : Send.State :=
  let s := { s with sent := none, out := [] }
  if s.state == .Terminated then s else
  match e with
  | .pdu p => (Send.processPdu s p now).1
  | .send => if Send.hasPduToSend s then Send.sendPdu s now else s
  | .timeout => if Send.untilTimeout s now == some 0 then Send.handleTimeout s now else s
  | .cancel => Send.cancel s now
  | .suspend => Send.suspend s now
  | .resume => Send.resume s now
  | .report => Send.sendReport s
  | .abandon => Send.shutdown s now
  | .prompt k => Send.preparePrompt s k

/-- one loop iteration of a receive transaction task (the Prompt command is a no-op there) -/
def recvStep (s : Recv.State) (now : Nat) (e : Ev) : Recv.State :=
  let s := { s with sent := none, out := [] }
  if s.state == .Terminated then s else
  match e with
  | .pdu p => (Recv.processPdu s p now).1
  | .send => if Recv.hasPduToSend s then Recv.sendPdu s now else s
  | .timeout => if Recv.untilTimeout s now == some 0 then Recv.handleTimeout s now else s
  | .cancel => Recv.cancel s now
  | .suspend => Recv.suspend s now
  | .resume => Recv.resume s now
  | .report => Recv.sendReport s
  | .abandon => Recv.shutdown s now
  | .prompt _ => s

/-- run a whole history; returns the final state and the PDUs transmitted, in order -/
def sendRun : Send.State → List (Nat × Ev) → Send.State × List Pdu
  | s, [] => (s, [])
  | s, (now, e) :: rest =>
    let s' := sendStep s now e
    let r := sendRun s' rest
    (r.1, s'.sent.toList ++ r.2)

def recvRun : Recv.State → List (Nat × Ev) → Recv.State × List Pdu
  | s, [] => (s, [])
  | s, (now, e) :: rest =>
    let s' := recvStep s now e
    let r := recvRun s' rest
    (r.1, s'.sent.toList ++ r.2)

/-- the indications a history produces, in order -/
def recvInds : Recv.State → List (Nat × Ev) → List Recv.Ind
  | _, [] => []
  | s, (now, e) :: rest => (recvStep s now e).out ++ recvInds (recvStep s now e) rest

def sendInds : Send.State → List (Nat × Ev) → List Send.Ind
  | _, [] => []
  | s, (now, e) :: rest => (sendStep s now e).out ++ sendInds (sendStep s now e) rest

end Cfdp.Loop
