/-
Model of `cfdp-daemon/src/timer.rs`: `Counter` and `Timer`.  Time is `Nat` nanoseconds on the
clock `Instant::now()` reads; every function that reads the clock takes `now`.
-/
namespace Cfdp.Timer

structure Counter where
  start : Nat
  timeout : Nat
  max : Nat
  count : Nat
  occurred : Bool
  paused : Bool
  /-- ghost (not in the code, never read by the model's behaviour, not compared by the correspondence
  check): the clock reading at which the count last started from zero — set by `new` and `reset`,
  and by a `restart` that finds the count at zero.  Theorem C17 states the limit in terms of it. -/
  base : Nat := 0
  deriving DecidableEq, Repr, Inhabited

/-- `Counter::new` (reads the clock for `start_time`; starts paused) -/
def Counter.new (timeout max now : Nat) : Counter :=
  { start := now, timeout, max, count := 0, occurred := false, paused := true, base := now }

/-- the `while now.duration_since(self.start_time) >= self.timeout` loop; the fuel only runs out
for `timeout = 0`, where the Rust loop does not terminate -/
def updateLoop : Nat → Nat → Counter → Counter
  | 0, _, c => c
  | fuel + 1, now, c =>
    if now - c.start ≥ c.timeout then
      updateLoop fuel now { c with count := min (c.count + 1) c.max, start := c.start + c.timeout, occurred := true }
    else c

/-- `Counter::update` -/
def Counter.update (c : Counter) (now : Nat) : Counter :=
  if c.paused then c else updateLoop (now - c.start + 1) now c

/-- `Counter::restart`: keeps the count -/
def Counter.restart (c : Counter) (now : Nat) : Counter :=
  { c.update now with start := now, paused := false, occurred := false,
                      base := if (c.update now).count == 0 then now else (c.update now).base }

/-- `Counter::reset`: count back to 0 -/
def Counter.reset (c : Counter) (now : Nat) : Counter :=
  { c with start := now, paused := false, occurred := false, count := 0, base := now }

/-- `Counter::pause` -/
def Counter.pause (c : Counter) (now : Nat) : Counter := { c.update now with paused := true }

/-- `Counter::start` -/
def Counter.unpause (c : Counter) : Counter := { c with paused := false }

/-- `Counter::limit_reached` (updates, then `count == max_count`) -/
def Counter.limitReached (c : Counter) (now : Nat) : Counter × Bool :=
  let c' := c.update now
  (c', c'.count == c'.max)

/-- `Counter::timeout_occurred` -/
def Counter.timeoutOccurred (c : Counter) (now : Nat) : Counter × Bool :=
  let c' := c.update now
  (c', c'.occurred)

/-- `Counter::until_timeout` -/
def Counter.untilTimeout (c : Counter) (now : Nat) : Nat :=
  if c.start + c.timeout > now then c.start + c.timeout - now else 0

structure Timer where
  inactivity : Counter
  ack : Counter
  nak : Counter
  deriving DecidableEq, Repr, Inhabited

/-- `Timer::new` (timeouts in seconds) -/
def Timer.new (ti mi ta ma tn mn now : Nat) : Timer :=
  { inactivity := Counter.new (ti * 1000000000) mi now,
    ack := Counter.new (ta * 1000000000) ma now,
    nak := Counter.new (tn * 1000000000) mn now }

def optMin : Option Nat → Nat → Option Nat
  | none, b => some b
  | some a, b => some (min a b)

/-- `Timer::until_timeout`: `none` is `Duration::MAX` (all timers paused) -/
def Timer.untilTimeout (t : Timer) (now : Nat) : Option Nat :=
  let m : Option Nat := none
  let m := if !t.ack.paused then optMin m (t.ack.untilTimeout now) else m
  let m := if !t.nak.paused then optMin m (t.nak.untilTimeout now) else m
  let m := if !t.inactivity.paused then optMin m (t.inactivity.untilTimeout now) else m
  m

end Cfdp.Timer
