import Cfdp.Model.Loop
/-
Two entities and the link between them: the composition of the sender task loop (`Loop.sendStep`),
the receiver task loop (`Loop.recvStep`) and an unreliable link.  The link is modelled by the history
of everything transmitted in each direction: at any time it may deliver any PDU of that history —
so loss (never delivered), duplication (delivered again), reordering and delay of any length are all
covered; it does not invent or alter PDUs (corruption is the subject of C15, PDUs of other
transactions of C11).
-/
namespace Cfdp.Net
open Cfdp.Loop Cfdp.Codec

structure World where
  snd : Send.State
  rcv : Recv.State
  /-- every PDU the sender has transmitted so far, oldest first -/
  toR : List Pdu := []
  /-- every PDU the receiver has transmitted so far -/
  toS : List Pdu := []
  /-- ghost: the indications raised so far at the sending / receiving user -/
  indS : List Send.Ind := []
  indR : List Recv.Ind := []

/-- an event of the task loop that is not the arrival of a PDU -/
def isLocal : Ev → Bool
  | .pdu _ => false
  | _ => true

inductive Act where
  /-- a loop iteration at the sender for a local event (transmission opportunity, timer, user request) -/
  | sender (now : Nat) (e : Ev)
  | receiver (now : Nat) (e : Ev)
  /-- the link delivers the `i`-th PDU the sender ever transmitted to the receiver -/
  | deliverR (now : Nat) (i : Nat)
  | deliverS (now : Nat) (i : Nat)

def sndStep (w : World) (now : Nat) (e : Ev) : World :=
  let s' := sendStep w.snd now e
  { w with snd := s', toR := w.toR ++ s'.sent.toList, indS := w.indS ++ s'.out }

def rcvStep (w : World) (now : Nat) (e : Ev) : World :=
  let r' := recvStep w.rcv now e
  { w with rcv := r', toS := w.toS ++ r'.sent.toList, indR := w.indR ++ r'.out }

def step (w : World) : Act → World
  | .sender now e => if isLocal e then sndStep w now e else w
  | .receiver now e => if isLocal e then rcvStep w now e else w
  | .deliverR now i =>
    match w.toR[i]? with
    | some p => rcvStep w now (.pdu p)
    | none => w
  | .deliverS now i =>
    match w.toS[i]? with
    | some p => sndStep w now (.pdu p)
    | none => w

def run (w : World) (acts : List Act) : World := acts.foldl step w

def init (cfgS : Send.Config) (md : Send.Meta) (file : Bytes) (cfgR : Recv.Config) (fs : Fs.FS) (t0 : Nat) : World :=
  { snd := Send.new cfgS md file t0, rcv := Recv.new cfgR fs t0 }

end Cfdp.Net
