/-
Model of `cfdp-daemon/src/segments.rs` (struct `Segments(Vec<(u64,u64)>)`).

One Lean function per Rust function.  u64 values are modelled as `Nat`.  Subtractions guarded
by a comparison in the Rust code are plain `Nat` subtractions; the four unguarded
`newly_received -= merge(v, k)` statements use `checkedSub`, whose `none` is the u64 underflow
panic, and `Cfdp/Props/C09.lean` proves it never occurs on a well-formed list.

The binary search `v.binary_search_by(|x| x.0.cmp(&key))` is modelled by a left-to-right scan
for the first entry whose start is `≥ key`: on a list sorted by start (which the invariant
guarantees) both give the same `Ok(k)` / `Err(k)`.  The scan carries the entry to the left
of the insertion point (`left`), which is what the Rust code reads as `v[k-1]`.
-/
namespace Cfdp.Seg

/-- `[start, end)` -/
abbrev Seg := Nat × Nat

/-- `a - b` on `u64`: `none` models the overflow panic of the debug/test profile -/
def checkedSub (a b : Nat) : Option Nat := if b ≤ a then some (a - b) else none

/-- `fn merge(v, k)`: `cur = v[k]` has been enlarged to the right; swallow the following
entries it now overlaps or touches.  Returns the final `v[k]`, the untouched tail and the number of
bytes that were counted twice (`overlapping`). -/
def absorb (cur : Seg) : List Seg → Seg × List Seg × Nat
  | [] => (cur, [], 0)
  | (s, e) :: rest =>
    if s ≤ cur.2 then
      if e > cur.2 then
        let r := absorb (cur.1, e) rest
        (r.1, r.2.1, (cur.2 - s) + r.2.2)
      else
        let r := absorb cur rest
        (r.1, r.2.1, (e - s) + r.2.2)
    else (cur, (s, e) :: rest, 0)

/-- put the pending left neighbour back in front of the rest of the list -/
def withLeft : Option Seg → List Seg → List Seg
  | none, l => l
  | some lf, l => lf :: l

/-- The `Ordering::Greater` arm of `Segments::merge`: `left` is `v[k-1]` (if any), the list
argument is `v[k..]` while scanning for the insertion point `k`.  Returns the replacement for
`left :: v[k..]` and the number of newly received bytes (`none` = u64 underflow panic at one
of the `newly_received -= merge(v, k)` statements). -/
def mergeScan (seg : Seg) : Option Seg → List Seg → List Seg × Option Nat
  | left, (s, e) :: rest =>
    if s < seg.1 then
      -- binary search continues to the right; `left` is final
      let r := mergeScan seg (some (s, e)) rest
      (withLeft left r.1, r.2)
    else if s = seg.1 then
      -- Ok(k): same start as v[k]
      if e < seg.2 then
        let a := absorb (s, seg.2) rest
        (withLeft left (a.1 :: a.2.1), checkedSub (seg.2 - e) a.2.2)
      else (withLeft left ((s, e) :: rest), some 0)
    else
      -- Err(k) with a right neighbour v[k] = (s,e)
      match left with
      | none =>
        -- k == 0
        if seg.2 < s then (seg :: (s, e) :: rest, some (seg.2 - seg.1))
        else if seg.2 > e then
          let a := absorb (seg.1, seg.2) rest
          (a.1 :: a.2.1, checkedSub ((s - seg.1) + (seg.2 - e)) a.2.2)
        else ((seg.1, e) :: rest, some (s - seg.1))
      | some lf =>
        if lf.2 ≥ seg.1 then
          -- overlaps with the left
          if lf.2 < seg.2 then
            let a := absorb (lf.1, seg.2) ((s, e) :: rest)
            (a.1 :: a.2.1, checkedSub (seg.2 - lf.2) a.2.2)
          else (lf :: (s, e) :: rest, some 0)
        else if seg.2 < s then (lf :: seg :: (s, e) :: rest, some (seg.2 - seg.1))
        else if e < seg.2 then
          let a := absorb (seg.1, seg.2) rest
          (lf :: a.1 :: a.2.1, checkedSub ((s - seg.1) + (seg.2 - e)) a.2.2)
        else (lf :: (seg.1, e) :: rest, some (s - seg.1))
  | left, [] =>
    -- Err(len): only reachable with a left neighbour that ends after seg.start
    match left with
    | none => ([seg], some (seg.2 - seg.1))
    | some lf =>
      if lf.2 ≥ seg.1 then
        if lf.2 < seg.2 then ([(lf.1, seg.2)], some (seg.2 - lf.2))
        else ([lf], some 0)
      else ([lf, seg], some (seg.2 - seg.1))

/-- `Segments::merge`; the Rust `assert!(seg.0 < seg.1)` is the caller's obligation. -/
def merge (l : List Seg) (seg : Seg) : List Seg × Option Nat :=
  match l.getLast? with
  | none => ([seg], some (seg.2 - seg.1))
  | some last =>
    if last.2 = seg.1 then (l.dropLast ++ [(last.1, seg.2)], some (seg.2 - seg.1))
    else if last.2 < seg.1 then (l ++ [seg], some (seg.2 - seg.1))
    else mergeScan seg none l

/-- the `for (s, e) in &v[idx..]` loop of `Segments::gaps` followed by the final
`if pointer < end` -/
def gapsLoop (endv : Nat) : Nat → List Seg → List Seg
  | p, [] => if p < endv then [(p, endv)] else []
  | p, (s, e) :: rest =>
    if p ≥ endv then []
    else if s ≥ endv then [(p, endv)]
    else (p, s) :: gapsLoop endv e rest

/-- the initial scan pointer of `gaps` when the binary search returns `Err(k)`:
`if k == 0 { start } else { max(v[k-1].1, start) }` -/
def gapsStart (prevEnd : Option Nat) (start : Nat) : Nat :=
  match prevEnd with
  | none => start
  | some pe => max pe start

/-- binary search of `gaps` + loop: `prevEnd` is `v[k-1].1` while scanning -/
def gapsScan (start endv : Nat) : Option Nat → List Seg → List Seg
  | prevEnd, (s, e) :: rest =>
    if s < start then gapsScan start endv (some e) rest
    else if s = start then gapsLoop endv e rest           -- Ok(k): (k+1, v[k].1)
    else
      gapsLoop endv (gapsStart prevEnd start) ((s, e) :: rest)
  | prevEnd, [] =>
    gapsLoop endv (gapsStart prevEnd start) []

/-- `Segments::gaps` -/
def gaps (l : List Seg) (start endv : Nat) : List Seg := gapsScan start endv none l

/-- `Segments::is_complete` -/
def isComplete (l : List Seg) (size : Nat) : Bool :=
  size == 0 || (match l.head? with
    | some s => s.1 == 0 && decide (s.2 ≥ size)
    | none => false)

/-- `Segments::end` -/
def endOf (l : List Seg) : Option Nat := l.getLast?.map (·.2)

/-- `Segments::end_or_0` -/
def endOr0 (l : List Seg) : Nat := (endOf l).getD 0

end Cfdp.Seg
