/-
Model of `normalize_path` and `NativeFileStore::get_native_path`
(`cfdp-core/src/filestore.rs`) together with the part of `camino`/`std::path` they rely on
(Unix rules):

* `components()`: a leading `/` gives `RootDir`; the path is split at `/`; empty segments are
  dropped; `.` is dropped except as the very first segment of a path without root (`CurDir`);
  `..` is `ParentDir`; everything else is `Normal`.
* `starts_with` / `strip_prefix` / `join` / `push` / `pop` act on the component list.

Paths are therefore modelled by their component lists; strings are `List Char`.
-/
namespace Cfdp.Path

inductive Comp where
  | root
  | cur
  | parent
  | normal (name : List Char)
  deriving DecidableEq, Repr

/-- split at every `/` (like `str::split('/')`: n separators give n+1 segments) -/
def splitSlash : List Char → List (List Char)
  | [] => [[]]
  | c :: cs =>
    if c = '/' then [] :: splitSlash cs
    else match splitSlash cs with
      | [] => [[c]]
      | h :: t => (c :: h) :: t

/-- how `Components` classifies a segment that is not the first one -/
def segToComp (seg : List Char) : Option Comp :=
  if seg = [] then none
  else if seg = ['.'] then none
  else if seg = ['.', '.'] then some .parent
  else some (.normal seg)

/-- `Utf8Path::components()` -/
def parse (s : List Char) : List Comp :=
  if s.head? = some '/' then .root :: (splitSlash s).filterMap segToComp
  else if (splitSlash s).head? = some ['.'] then .cur :: (splitSlash s).tail.filterMap segToComp
  else (splitSlash s).filterMap segToComp

/-- the `for component in components` loop of `normalize_path`; `none` is `unreachable!()` -/
def normGo : List (List Char) → List Comp → Option (List (List Char))
  | ret, [] => some ret
  | ret, .cur :: cs => normGo ret cs
  | ret, .parent :: cs => normGo ret.dropLast cs          -- `ret.pop()`; no-op on the empty path
  | ret, .normal n :: cs => normGo (ret ++ [n]) cs        -- `ret.push(c)`
  | _, .root :: _ => none

/-- `normalize_path`: skip the leading root components, then run the loop -/
def normalize (cs : List Comp) : Option (List (List Char)) :=
  normGo [] (cs.dropWhile (· == .root))

/-- `Utf8Path::strip_prefix` (component-wise) -/
def stripPrefix : List Comp → List Comp → Option (List Comp)
  | [], p => some p
  | _ :: _, [] => none
  | b :: bs, c :: cs => if b = c then stripPrefix bs cs else none

/-- `get_native_path` on component lists -/
def nativeC (rc nc : List Comp) : Option (List Comp) :=
  let rel := (stripPrefix rc nc).getD nc
  (normalize rel).map (fun ns => rc ++ ns.map Comp.normal)

/-- `NativeFileStore { root_path: root }.get_native_path(name)`, as components of the result -/
def nativePath (root name : List Char) : Option (List Comp) :=
  nativeC (parse root) (parse name)

end Cfdp.Path
