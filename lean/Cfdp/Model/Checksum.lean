/-
Model of `impl FileChecksum for R: Read + Seek` in `cfdp-core/src/filestore.rs`.

The reader is modelled by the list of byte chunks that successive `BufReader::fill_buf` calls
return (each at most 8192 bytes, whatever the underlying `read` hands back); an empty chunk is
end of file.  `u32::from_be_bytes` is the big-endian value of four bytes.
-/
namespace Cfdp.Cksum

/-- `u32::from_be_bytes([a, b, c, d])` -/
def wordBE (a b c d : UInt8) : UInt32 :=
  UInt32.ofNat (a.toNat * 16777216 + b.toNat * 65536 + c.toNat * 256 + d.toNat)

/-- `pending.resize(4, 0); u32::from_be_bytes(pending[0..4])` -/
def padWord : List UInt8 → UInt32
  | [] => 0
  | [a] => wordBE a 0 0 0
  | [a, b] => wordBE a b 0 0
  | [a, b, c] => wordBE a b c 0
  | a :: b :: c :: d :: _ => wordBE a b c d

/-- `data.chunks_exact(4).for_each(|chunk| checksum = checksum.wrapping_add(from_be_bytes(chunk)))` -/
def sumFull : List UInt8 → UInt32
  | a :: b :: c :: d :: rest => wordBE a b c d + sumFull rest
  | _ => 0

/-- `chunks_exact(4).remainder()` -/
def rem4 : List UInt8 → List UInt8
  | _ :: _ :: _ :: _ :: rest => rem4 rest
  | l => l

/-- loop state: the running sum and the bytes of an incomplete word carried to the next read -/
structure St where
  ck : UInt32
  pending : List UInt8

/-- one iteration of the loop for a non-empty buffer returned by `fill_buf` -/
def stepChunk (st : St) (buf : List UInt8) : St :=
  if st.pending.isEmpty then
    { ck := st.ck + sumFull buf, pending := rem4 buf }
  else
    let take := min (4 - st.pending.length) buf.length
    let p := st.pending ++ buf.take take
    let data := buf.drop take
    if p.length == 4 then
      { ck := st.ck + padWord p + sumFull data, pending := rem4 data }
    else
      { ck := st.ck + sumFull data, pending := p ++ rem4 data }

/-- after the loop: pad the incomplete last word -/
def finish (st : St) : UInt32 :=
  if st.pending.isEmpty then st.ck else st.ck + padWord st.pending

/-- `checksum(ChecksumType::Modular)`: the loop stops at the first empty buffer (end of file) -/
def checksumLoop (chunks : List (List UInt8)) : UInt32 :=
  finish ((chunks.takeWhile (fun c => !c.isEmpty)).foldl stepChunk { ck := 0, pending := [] })

/-- `checksum(ChecksumType::Null)` -/
def checksumNull : UInt32 := 0

/-- how a reader that returns at most `sizes[k mod n]` bytes on its k-th read (and a `BufReader`
of capacity 8192) chunks the data -/
def chunkBy (sizes : List Nat) : Nat → Nat → List UInt8 → List (List UInt8)
  | 0, _, _ => []
  | _ + 1, _, [] => []
  | fuel + 1, k, data =>
    let want := max 1 (sizes.getD (k % (max 1 sizes.length)) 1)
    let n := min want 8192
    data.take n :: chunkBy sizes fuel (k + 1) (data.drop n)

end Cfdp.Cksum
