import Cfdp.Model.Segments
import Cfdp.Model.Timer
import Cfdp.Model.Checksum
import Cfdp.Model.Fs

/-
Model of `RecvTransaction` (`cfdp-daemon/src/transaction/recv.rs`): one Lean function per Rust
method, same case structure.  `&mut self` becomes state-in / state-out; indications (sent to
the user through a channel) are appended to `out`, the PDU handed to the transport permit is
`sent`; the clock is the explicit `now` (ns).  The staging temp file is a byte list (sparse
writes zero-fill), the filestore is `Cfdp.Fs.FS`.
-/
namespace Cfdp.Recv
open Cfdp.Codec Cfdp.Gen Cfdp.Timer

inductive RecvState where
  | ReceiveData | Finished | Cancelled
  deriving DecidableEq, Repr, Inhabited

def RecvState.name : RecvState → String
  | .ReceiveData => "ReceiveData" | .Finished => "Finished" | .Cancelled => "Cancelled"

/-- indications to the user, as far as the harness renders them -/
inductive Ind where
  | eofRecv
  | finished (cond : Condition) (dc : DeliveryCode) (fs : FileStatusCode) (state : TransactionState)
      (status : TransactionStatus) (resps : List FsResponse)
  | metadataRecv (src dst : Bytes) (size : Nat) (nmsgs : Nat)
  | fileSegmentRecv (off len : Nat)
  | suspended (cond : Condition)
  | resumed (progress : Nat)
  | report (state : TransactionState) (status : TransactionStatus) (cond : Condition)
  | fault (cond : Condition) (progress : Nat)
  | abandon (cond : Condition) (progress : Nat)
  deriving Repr, Inhabited

structure Config where
  mode : TransmissionMode
  fss : FileSizeFlag
  seg : Nat
  crc : CRCFlag
  max : Nat
  ti : Nat
  ta : Nat
  tn : Nat
  immediate : Bool
  delay : Nat            -- ns
  fho : List (Condition × FaultHandlerAction)
  src : VarId
  dst : VarId
  seq : VarId
  deriving Repr, Inhabited

structure Meta where
  srcName : Bytes
  dstName : Bytes
  fileSize : Nat
  closure : Bool
  cksumType : ChecksumType
  requests : List FsRequest
  deriving Repr, Inhabited

structure State where
  cfg : Config
  status : TransactionStatus := .Undefined
  tempFile : Option Bytes := none             -- file_handle
  segs : List Seg.Seg := []
  md : Option Meta := none
  received : Nat := 0
  header : Option Header := none
  condition : Condition := .NoError
  delivery : DeliveryCode := .Incomplete
  fileStatus : FileStatusCode := .Unreported
  responses : List FsResponse := []
  timer : Timer
  checksum : Option Nat := none
  state : TransactionState := .Active
  recvState : RecvState := .ReceiveData
  fileSize : Option Nat := none
  ack : Option Ack := none
  finished : Option (Finished × Bool) := none
  prompt : Option NakOrKeepAlive := none
  naks : List (Nat × Nat) := []
  nakReceived : Nat := 0
  delayed : List (Counter × Nat × Nat) := []
  fs : Fs.FS
  out : List Ind := []
  sent : Option Pdu := none
  panicked : Bool := false
  deriving Inhabited

/-- `RecvTransaction::new` -/
def new (cfg : Config) (fs : Fs.FS) (now : Nat) : State :=
  let t := Timer.new cfg.ti cfg.max cfg.ta cfg.max cfg.tn cfg.max now
  { cfg, timer := { t with inactivity := t.inactivity.restart now }, fs }

def emit (s : State) (i : Ind) : State := { s with out := s.out ++ [i] }

/-- `has_pdu_to_send` -/
def hasPduToSend (s : State) : Bool :=
  if s.state == .Suspended then false else
  match s.recvState with
  | .ReceiveData => s.ack.isSome || s.prompt.isSome || !s.naks.isEmpty
  | .Finished | .Cancelled => match s.finished with | some (_, flag) => flag | none => false

/-- `until_timeout` (`none` = `Duration::MAX`) -/
def untilTimeout (s : State) (now : Nat) : Option Nat :=
  if s.state == .Suspended then none else
  let d := s.timer.untilTimeout now
  match s.delayed.head? with
  | none => d
  | some (c, _, _) => some (match d with | none => c.untilTimeout now | some x => min x (c.untilTimeout now))

/-- `get_header`: the first header built is cached, later ones only update type/length/segmentation control -/
def getHeader (s : State) (dir : Direction) (t : PDUType) (len : Nat) : State × Header :=
  match s.header with
  | some h => (s, { h with pduType := t, dataLen := len, segCtrl := .NotPreserved })
  | none =>
    let h : Header :=
      { version := .One, pduType := t, direction := dir, mode := s.cfg.mode, crc := s.cfg.crc,
        large := s.cfg.fss, dataLen := len, segCtrl := .NotPreserved, segMeta := .NotPresent,
        src := s.cfg.src, seq := s.cfg.seq, dst := s.cfg.dst }
    ({ s with header := some h }, h)

def sendPayload (s : State) (p : Payload) : State :=
  let r := getHeader s .ToSender .FileDirective (p.len s.cfg.fss)
  { r.1 with sent := some { header := r.2, payload := p } }

def getProgress (s : State) : Nat := s.received

def generateReport (s : State) : Ind := .report s.state s.status s.condition

def isFileTransfer (s : State) : Bool :=
  match s.md with
  | some m => !m.srcName.isEmpty
  | none => false

def eofReceived (s : State) : Bool := s.fileSize.isSome

/-- `has_naks` -/
def hasNaks (s : State) : Bool :=
  s.md.isNone || (match s.fileSize with
    | some n => !Seg.isComplete s.segs n
    | none => decide (s.segs.length > 1))

/-- `get_all_naks` -/
def getAllNaks (s : State) : List (Nat × Nat) :=
  (if s.md.isNone then [(0, 0)] else []) ++
    Seg.gaps s.segs 0 (s.fileSize.getD (Seg.endOr0 s.segs))

/-- `shutdown` -/
def shutdown (s : State) (now : Nat) : State :=
  { s with state := .Terminated,
           timer := { ack := s.timer.ack.pause now, nak := s.timer.nak.pause now,
                      inactivity := s.timer.inactivity.pause now } }

/-- `abandon` -/
def abandon (s : State) (now : Nat) : State :=
  let s := { s with status := .Terminated }
  let s := emit s (.abandon s.condition (getProgress s))
  shutdown s now

/-- `prepare_finished` -/
def prepareFinished (s : State) (fault : Option VarId) : State :=
  { s with finished := some ({ cond := s.condition, delivery := s.delivery, fileStatus := s.fileStatus,
                               responses := s.responses, fault }, true) }

def closureRequested (s : State) : Bool := match s.md with | some m => m.closure | none => false

/-- `_cancel` -/
def cancelInner (s : State) (now : Nat) : State :=
  let s := { s with recvState := .Cancelled, timer := { s.timer with nak := s.timer.nak.pause now } }
  let s := match s.cfg.mode with
    | .Acknowledged => prepareFinished s none
    | .Unacknowledged =>
      -- with closure the transaction stays alive to send the Finished PDU
      if closureRequested s then prepareFinished s none else shutdown s now
  emit s (.finished s.condition s.delivery s.fileStatus s.state s.status [])

/-- `cancel` -/
def cancel (s : State) (now : Nat) : State := cancelInner { s with condition := .CancelReceived } now

/-- `suspend` -/
def suspend (s : State) (now : Nat) : State :=
  let s := { s with timer := { ack := s.timer.ack.pause now, nak := s.timer.nak.pause now,
                               inactivity := s.timer.inactivity.pause now },
                    state := .Suspended }
  emit s (.suspended s.condition)

/-- `resume` -/
def resume (s : State) (now : Nat) : State :=
  let s := { s with timer := { s.timer with inactivity := s.timer.inactivity.reset now } }
  let s := match s.recvState with
    | .ReceiveData =>
      if s.cfg.mode == TransmissionMode.Acknowledged && (s.cfg.immediate || eofReceived s) then
        let s := { s with timer := { s.timer with nak := s.timer.nak.reset now } }
        { s with naks := getAllNaks s }
      else s
    | .Finished | .Cancelled =>
      match s.finished with
      | some (_, true) => s
      | _ => { s with timer := { s.timer with ack := s.timer.ack.reset now } }
  let s := { s with state := .Active }
  emit s (.resumed (getProgress s))

def handlerFor (s : State) (c : Condition) : FaultHandlerAction :=
  match s.cfg.fho.find? (fun e => e.1 == c) with
  | some e => e.2
  | none => .Cancel

/-- `handle_fault`, second half: take the action configured for the condition (cancel when none
is configured); returns the new state and whether the caller continues -/
def dispatchFault (s : State) (c : Condition) (now : Nat) : State × Bool :=
  match handlerFor s c with
  | .Ignore => (s, true)
  | .Cancel => (cancelInner s now, false)
  | .Suspend => (suspend s now, false)
  | .Abandon => (abandon s now, false)

/-- `handle_fault`: record the condition, tell the user (with the current progress), act -/
def handleFault (s : State) (c : Condition) (now : Nat) : State × Bool :=
  dispatchFault (emit { s with condition := c } (.fault c (getProgress s))) c now

/-- `prepare_ack_eof` -/
def prepareAckEof (s : State) : State :=
  { s with ack := some { directive := .EoF, sub := .Other, cond := s.condition, status := s.status } }

/-- `send_ack_eof` -/
def sendAckEof (s : State) : State :=
  match s.ack with
  | some a => sendPayload { s with ack := none } (.ack a)
  | none => s

/-- `check_file_size` -/
def checkFileSize (s : State) (size : Nat) (now : Nat) : State :=
  if Seg.endOr0 s.segs > size then (handleFault s .FilesizeError now).1 else s

def setFinishedFlag (s : State) (flag : Bool) : State :=
  match s.finished with
  | some (f, _) => { s with finished := some (f, flag) }
  | none => s

/-- `send_finished` -/
def sendFinished (s : State) (now : Nat) : State :=
  let s := { s with timer := { s.timer with ack := s.timer.ack.restart now } }
  match s.finished with
  | some (f, true) => setFinishedFlag (sendPayload s (.finished f)) false
  | _ => s

/-- `NegativeAcknowledgmentPDU::max_nak_num` (u32 arithmetic, saturating at zero) -/
def maxNakNum (fss : FileSizeFlag) (payloadLen : Nat) : Option Nat :=
  some ((payloadLen - 2 * fssLen fss) / (2 * fssLen fss))   -- saturating subtraction

def listMin (l : List Nat) (d : Nat) : Nat := match l with | [] => d | x :: xs => xs.foldl min x
def listMax (l : List Nat) (d : Nat) : Nat := match l with | [] => d | x :: xs => xs.foldl max x

/-- the timer part of `send_naks`: returns the state and whether a fault handler stopped the NAK -/
def sendNaksTimer (s : State) (now : Nat) : State × Bool :=
  if s.nakReceived == s.received then
    let r := s.timer.nak.limitReached now
    let s := { s with timer := { s.timer with nak := r.1 } }
    if r.2 then
      let f := handleFault s .NakLimitReached now
      if !f.2 then (f.1, true)
      else ({ f.1 with timer := { f.1.timer with nak := f.1.timer.nak.restart now } }, false)
    else ({ s with timer := { s.timer with nak := s.timer.nak.restart now } }, false)
  else
    ({ s with timer := { s.timer with nak := s.timer.nak.reset now }, nakReceived := s.received }, false)

/-- `send_naks` -/
def sendNaks (s : State) (now : Nat) : State :=
  let r := sendNaksTimer s now
  if r.2 then r.1 else
  let s := r.1
  match maxNakNum s.cfg.fss s.cfg.seg with
  | none => { s with panicked := true }
  | some m =>
    let n := min s.naks.length (max 1 m)   -- at least one request per PDU
    let reqs := s.naks.take n
    let s := { s with naks := s.naks.drop n }
    let scopeStart := listMin (reqs.map (·.1)) 0
    let scopeEnd := listMax (reqs.map (·.2)) ((Seg.endOf s.segs).getD 0)
    sendPayload s (.nak { scopeStart, scopeEnd, requests := reqs })

/-- `answer_prompt` -/
def answerPrompt (s : State) (now : Nat) : State :=
  match s.prompt with
  | none => s
  | some k =>
    let s := { s with prompt := none }
    match k with
    | .Nak => sendNaks { s with naks := getAllNaks s } now
    | .KeepAlive => sendPayload s (.keepAlive (getProgress s))

/-- `send_pdu` -/
def sendPdu (s : State) (now : Nat) : State :=
  if s.prompt.isSome then answerPrompt s now
  else match s.recvState with
    | .ReceiveData =>
      if s.ack.isSome then sendAckEof s
      else if !s.naks.isEmpty then sendNaks s now
      else s
    | .Finished | .Cancelled =>
      if s.ack.isSome then sendAckEof s
      else match s.finished with
        | some (_, true) => sendFinished s now
        | _ => s

/-- sparse write into the staging file (`seek` + `write_all`): holes read as zero -/
def writeAt (f : Bytes) (off : Nat) (d : Bytes) : Bytes :=
  let f := if f.length < off then f ++ List.replicate (off - f.length) 0 else f
  f.take off ++ d ++ f.drop (off + d.length)

/-- `store_file_data` -/
def storeFileData (s : State) (off : Nat) (d : Bytes) : State :=
  if d.length > 0 then
    let f := s.tempFile.getD []
    let r := Seg.merge s.segs (off, off + d.length)
    match r.2 with
    | none => { s with panicked := true }
    | some n => { s with tempFile := some (writeAt f off d), segs := r.1, received := s.received + n }
  else s

/-- `handle.checksum(checksum_type)` on the staging file -/
def fileChecksum (t : ChecksumType) (f : Bytes) : Nat :=
  match t with
  | .Null => 0
  | .Modular => (Cksum.checksumLoop (Cksum.chunkBy [8192] (f.length + 1) 0 f)).toNat

/-- `finalize_file`: copy the staging file to the destination name; false = any I/O error
(state unchanged) -/
def finalizeFile (s : State) : State × Bool :=
  match s.md with
  | none => (s, false)
  | some m =>
    match s.fs.writeFile (Fs.relOf m.dstName) (s.tempFile.getD []) with
    | none => (s, false)
    | some fs' => ({ s with fs := fs', tempFile := none }, true)

/-- `verify_checksum` on the staging file (opening it creates an empty one if no data ever arrived);
false = the FileChecksumFailure fault handler stopped the finalisation -/
def verifyStage (s : State) (now : Nat) : State × Bool :=
  let ck := s.checksum.getD 0
  let ct := match s.md with | some m => m.cksumType | none => .Null
  let s := { s with tempFile := some (s.tempFile.getD []) }
  if !(fileChecksum ct (s.tempFile.getD []) == ck) then handleFault s .FileChecksumFailure now else (s, true)

/-- `finalize_file().unwrap_or(FileStoreRejection)`: copy to the destination name and record the file status -/
def copyStage (s : State) : State × Bool :=
  let w := finalizeFile s
  if w.2 then ({ w.1 with fileStatus := .Retained }, true)
  else ({ s with fileStatus := .FileStoreRejection }, true)

/-- the file part of `finalize_receive`: checksum verification and copy to the destination -/
def finalizeFilePart (s : State) (now : Nat) : State × Bool :=
  if isFileTransfer s then
    let f := verifyStage s now
    if !f.2 then (f.1, false) else copyStage f.1
  else ({ s with fileStatus := .Unreported }, true)

/-- `finalize_receive`; returns false when a fault handler stopped the finalisation -/
def finalizeReceive (s : State) (now : Nat) : State × Bool :=
  -- the delivery code is Complete only when nothing is missing (an ignored CheckLimitReached
  -- fault lets an unacknowledged transaction get here with holes)
  let dc : DeliveryCode := if s.md.isNone || (isFileTransfer s && hasNaks s) then .Incomplete else .Complete
  let a := finalizeFilePart { s with delivery := dc } now
  if !a.2 then (a.1, false) else
  let b := if a.1.fileStatus == .FileStoreRejection then handleFault a.1 .FileStoreRejection now else (a.1, true)
  if !b.2 then (b.1, false) else
  let s := b.1
  let reqs := match s.md with | some m => m.requests | none => []
  let rr := Fs.runRequests s.fs false reqs
  let s := { s with responses := rr.1, fs := rr.2 }
  (emit s (.finished s.condition s.delivery s.fileStatus s.state s.status s.responses), true)

/-- `check_finished` -/
def checkFinished (s : State) (now : Nat) : State :=
  if s.recvState == .ReceiveData && s.md.isSome && eofReceived s && !(isFileTransfer s && hasNaks s) then
    -- (whatever a fault handler did inside `finalize_receive`, the caller carries on)
    let r := finalizeReceive s now
    let s := prepareFinished { r.1 with recvState := .Finished } none
    { s with timer := { s.timer with nak := s.timer.nak.pause now } }
  else s

def metaOf (m : Metadata) : Meta :=
  { srcName := m.srcName, dstName := m.dstName, fileSize := m.fileSize, closure := m.closure,
    cksumType := m.cksumType,
    requests := m.options.filterMap (fun t => match t with | .fsReq q => some q | _ => none) }

def nMsgs (m : Metadata) : Nat := (m.options.filter (fun t => match t with | .msg _ => true | _ => false)).length

/-- result of `process_pdu`: `Err(UnexpectedPDU)` leaves the transaction running -/
inductive Res where
  | ok | unexpected
  deriving DecidableEq, Repr, Inhabited

/-- the first statement of `process_pdu` -/
def pduArrived (s : State) (now : Nat) : State :=
  { s with timer := { s.timer with inactivity := s.timer.inactivity.reset now } }

/-- immediate-NAK bookkeeping after a file data PDU (acknowledged mode, before EOF) -/
def immediateNak (s : State) (prevEnd off : Nat) (now : Nat) : State :=
  if s.cfg.immediate && !eofReceived s then
    let r := s.timer.nak.timeoutOccurred now
    let s := { s with timer := { s.timer with nak := r.1 } }
    if r.2 then
      let s := { s with naks := getAllNaks s }
      { s with timer := { s.timer with nak := s.timer.nak.restart now } }
    else if off > prevEnd then
      if s.cfg.delay == 0 then { s with naks := s.naks ++ [(prevEnd, off)] }
      else { s with delayed := s.delayed ++ [((Counter.new s.cfg.delay 1 now).unpause, prevEnd, off)] }
    else s
  else s

/-- acknowledged mode: file data -/
def ackFileData (s : State) (off : Nat) (d : Bytes) (now : Nat) : State :=
  let prevEnd := (Seg.endOf s.segs).getD 0
  let s := storeFileData s off d
  let s := emit s (.fileSegmentRecv off d.length)
  checkFinished (immediateNak s prevEnd off now) now

/-- after a NoError EOF in acknowledged mode: ask for what is missing (now or after the delay) -/
def scheduleNaks (s : State) (fileSize : Nat) (now : Nat) : State :=
  if hasNaks s then
    if s.cfg.delay == 0 then { s with naks := getAllNaks s }
    else { s with delayed := s.delayed ++ [((Counter.new s.cfg.delay 1 now).unpause, 0, fileSize)] }
  else s

/-- acknowledged mode: EOF -/
def ackEof (s : State) (e : Eof) (now : Nat) : State :=
  let s := { s with condition := e.cond }
  let s := prepareAckEof s
  let s := { s with checksum := some e.checksum }
  let s := emit s .eofRecv
  if s.condition == .NoError then
    let s := checkFileSize s e.fileSize now
    let s := { s with fileSize := some e.fileSize }
    scheduleNaks (checkFinished s now) e.fileSize now
  else cancelInner s now

/-- both modes: Metadata (only the first one counts) -/
def storeMetadata (s : State) (m : Metadata) : State :=
  let s := emit s (.metadataRecv m.srcName m.dstName m.fileSize (nMsgs m))
  { s with md := some (metaOf m) }

/-- unacknowledged mode, EOF accepted: finalise, then Finished PDU (closure) or the end -/
def unackFinish (s : State) (now : Nat) : State :=
  let g := finalizeReceive s now
  let s := g.1
  if closureRequested s then
    prepareFinished { s with recvState := .Finished } (if s.condition == .NoError then none else some s.cfg.dst)
  else shutdown s now

/-- unacknowledged mode: without acknowledgements what is missing cannot be asked for again — a
CheckLimitReached fault; false = the fault handler stopped the transaction -/
def unackCheckMissing (s : State) (now : Nat) : State × Bool :=
  if s.md.isNone || (isFileTransfer s && hasNaks s) then handleFault s .CheckLimitReached now
  else (s, true)

/-- unacknowledged mode, EOF recorded: completeness check, then finalisation -/
def unackComplete (s : State) (now : Nat) : State :=
  let f := unackCheckMissing s now
  if !f.2 then f.1 else unackFinish f.1 now

/-- unacknowledged mode: a NoError EOF reaching a transaction that is still receiving -/
def unackEofNoError (s : State) (e : Eof) (now : Nat) : State :=
  let s := checkFileSize s e.fileSize now
  unackComplete { s with fileSize := some e.fileSize } now

/-- unacknowledged mode: EOF -/
def unackEof (s : State) (e : Eof) (now : Nat) : State :=
  let s := { s with condition := e.cond, checksum := some e.checksum }
  let s := emit s .eofRecv
  if s.recvState != .ReceiveData then setFinishedFlag s true
  else if s.condition == .NoError then unackEofNoError s e now
  else cancelInner s now

/-- the rest of `process_pdu` -/
def processPduBody (s : State) (p : Pdu) (now : Nat) : State × Res :=
  match s.cfg.mode with
  | .Acknowledged =>
    match p.payload with
    | .fileData off d | .fileDataSeg _ _ off d => (ackFileData s off d now, .ok)
    | .eof e => (ackEof s e now, .ok)
    | .finished _ => (s, .unexpected)
    | .ack a =>
      if (s.recvState == .Finished || s.recvState == .Cancelled) && a.directive == .Finished && a.sub == .Finished then
        (shutdown { s with timer := { s.timer with ack := s.timer.ack.pause now } } now, .ok)
      else (s, .unexpected)
    | .metadata m => if s.md.isNone then (checkFinished (storeMetadata s m) now, .ok) else (s, .ok)
    | .nak _ => (s, .unexpected)
    | .prompt k => ({ s with prompt := some k }, .ok)
    | .keepAlive _ => (s, .unexpected)
  | .Unacknowledged =>
    match p.payload with
    | .fileData off d | .fileDataSeg _ _ off d =>
      (emit (storeFileData s off d) (.fileSegmentRecv off d.length), .ok)
    | .ack a =>
      if a.directive == .Finished && a.sub == .Finished && a.cond == .NoError && closureRequested s then
        (shutdown s now, .ok)
      else (s, .unexpected)
    | .eof e => (unackEof s e now, .ok)
    | .metadata m => if s.md.isNone then (storeMetadata s m, .ok) else (s, .ok)
    | .finished _ | .keepAlive _ | .prompt _ | .nak _ => (s, .unexpected)

/-- `process_pdu` -/
def processPdu (s : State) (p : Pdu) (now : Nat) : State × Res := processPduBody (pduArrived s now) p now

/-- the leading loop of `handle_timeout`: how many delayed-NAK timers (in order) have expired -/
def expiredPrefix (now : Nat) : List (Counter × Nat × Nat) → List (Counter × Nat × Nat) × Nat
  | [] => ([], 0)
  | (c, a, b) :: rest =>
    let t := c.timeoutOccurred now
    if t.2 then
      let r := expiredPrefix now rest
      ((t.1, a, b) :: r.1, r.2 + 1)
    else ((t.1, a, b) :: rest, 0)

/-- the delayed-NAK part of `handle_timeout` -/
def handleDelayed (s : State) (now : Nat) : State :=
  let e := expiredPrefix now s.delayed
  let s := { s with delayed := e.1 }
  if e.2 > 0 then
    let s := if s.md.isNone then { s with naks := s.naks ++ [(0, 0)] } else s
    let fired := s.delayed.take e.2
    let s := { s with delayed := s.delayed.drop e.2 }
    { s with naks := s.naks ++ fired.flatMap (fun x => Seg.gaps s.segs x.2.1 x.2.2) }
  else s

/-- the inactivity part of `handle_timeout`; false = the caller returns -/
def handleInactivity (s : State) (now : Nat) : State × Bool :=
  let r := s.timer.inactivity.limitReached now
  let s := { s with timer := { s.timer with inactivity := r.1 } }
  if r.2 then
    if s.recvState == .Cancelled then (abandon s now, false)
    else handleFault s .InactivityDetected now
  else
    let o := s.timer.inactivity.timeoutOccurred now
    let s := { s with timer := { s.timer with inactivity := o.1 } }
    if o.2 then ({ s with timer := { s.timer with inactivity := s.timer.inactivity.restart now } }, true)
    else (s, true)

/-- the positive-ACK part of `handle_timeout` in the Finished / Cancelled states -/
def handleAckTimer (s : State) (now : Nat) (cancelled : Bool) : State :=
  let r := s.timer.ack.limitReached now
  let s := { s with timer := { s.timer with ack := r.1 } }
  if r.2 then (if cancelled then abandon s now else (handleFault s .PositiveLimitReached now).1)
  else
    let o := s.timer.ack.timeoutOccurred now
    let s := { s with timer := { s.timer with ack := o.1 } }
    if o.2 then
      let s := setFinishedFlag s true
      { s with timer := { s.timer with ack := s.timer.ack.restart now } }
    else s

/-- `handle_timeout`, unacknowledged mode with the closure Finished PDU out: has the positive-ACK or
the inactivity limit been reached?  (`||` evaluates the second counter only if the first says no) -/
def unackFinishedLimit (s : State) (now : Nat) : State × Bool :=
  let a := s.timer.ack.limitReached now
  let s := { s with timer := { s.timer with ack := a.1 } }
  if a.2 then (s, true) else
  let i := s.timer.inactivity.limitReached now
  ({ s with timer := { s.timer with inactivity := i.1 } }, i.2)

/-- `handle_timeout`, the general part -/
def handleTimeoutMain (s : State) (now : Nat) : State :=
  if s.state == .Suspended then s else
  let i := handleInactivity (handleDelayed s now) now
  if !i.2 then i.1 else
  let s := i.1
  match s.recvState with
  | .ReceiveData =>
    let o := s.timer.nak.timeoutOccurred now
    let s := { s with timer := { s.timer with nak := o.1 } }
    if o.2 then
      let s := { s with naks := getAllNaks s }
      -- nothing to ask for: no NAK will re-arm the timer, so stop it
      if s.naks.isEmpty then { s with timer := { s.timer with nak := s.timer.nak.pause now } } else s
    else s
  -- the NAK timer is only serviced while receiving
  | .Finished => handleAckTimer { s with timer := { s.timer with nak := s.timer.nak.pause now } } now false
  | .Cancelled => handleAckTimer { s with timer := { s.timer with nak := s.timer.nak.pause now } } now true

/-- `handle_timeout`: nothing is acknowledged in unacknowledged mode, so a receiver repeating its
closure Finished PDU simply ends when a limit is reached -/
def handleTimeout (s : State) (now : Nat) : State :=
  if s.state == .Suspended then s else
  if s.cfg.mode == TransmissionMode.Unacknowledged && s.recvState == .Finished then
    let r := unackFinishedLimit s now
    if r.2 then shutdown r.1 now else handleTimeoutMain r.1 now
  else handleTimeoutMain s now

/-- `send_report` -/
def sendReport (s : State) : State := emit s (generateReport s)

end Cfdp.Recv
