import Cfdp.Model.Codec.Pdu

/-
Model of `cfdp-core/src/pdu/user_ops.rs` (the reserved CFDP messages carried in Message-to-User
TLVs: proxy operations, directory listing, remote status / suspend / resume, store-and-forward
overlay) and of `Report::{encode, decode}` in `cfdp-core/src/daemon.rs`.
Same conventions as `Pdu.lean`: numbers are `Nat`, bit packing is arithmetic, `as u8` is `UInt8.ofNat`.
-/
namespace Cfdp.Codec
open Cfdp.Gen

/-- an entity id written as an LV field: `[encoded_len as u8] ++ to_be_bytes` -/
def encIdLV (i : VarId) : Bytes := UInt8.ofNat i.width :: i.toBe

/-- `EntityID::try_from(read_length_value_pair(buffer)?)?` -/
def readIdLV (bs : Bytes) : Except Err (VarId × Bytes) := do
  let (v, r) ← readLV bs
  let i ← idOfBytes v
  pure (i, r)

/-- `(((a.encoded_len() as u8 - 1) & 0x7) << 4) | ((b.encoded_len() as u8 - 1) & 0x7)`, then both ids -/
def encIdPair (a b : VarId) : Bytes :=
  UInt8.ofNat (((a.width - 1) % 8) * 16 + (b.width - 1) % 8) :: (a.toBe ++ b.toBe)

/-- the decoder of that pair: lengths from the two nibbles -/
def decIdPair (bs : Bytes) : Except Err (VarId × VarId × Bytes) := do
  let (b, r) ← readU8 bs
  let (v1, r) ← readN (b.toNat / 16 % 8 + 1) r
  let a ← idOfBytes v1
  let (v2, r) ← readN (b.toNat % 8 + 1) r
  let c ← idOfBytes v2
  pure (a, c, r)

def b2n (b : Bool) : Nat := if b then 1 else 0

/-- `UserOperation` with its nested enums flattened -/
inductive UserOp where
  | origId (src seq : VarId)
  | proxyPut (dst : VarId) (srcName dstName : Bytes)
  | proxyMsg (text : Bytes)
  | proxyFsReq (q : FsRequest)
  | proxyFho (c : HandlerCode)
  | proxyMode (m : TransmissionMode)
  | proxyFlow (v : Bytes)
  | proxySegCtrl (c : SegmentationControl)
  | proxyPutCancel
  | respProxyPut (cond : Condition) (dc : DeliveryCode) (fs : FileStatusCode)
  | respFs (p : FsResponse)
  | respListing (code : ListingResponseCode) (dir file : Bytes)
  | respStatus (status : TransactionStatus) (code : Bool) (src seq : VarId)
  | respSuspend (susp : Bool) (status : TransactionStatus) (src seq : VarId)
  | respResume (susp : Bool) (status : TransactionStatus) (src seq : VarId)
  | reqListing (dir file : Bytes)
  | reqStatus (src seq : VarId) (file : Bytes)
  | reqSuspend (src seq : VarId)
  | reqResume (src seq : VarId)
  | sfoRequest (trace : TraceControl) (mode : TransmissionMode) (seg : SegmentationControl) (closure : Bool)
      (waypoints : Nat) (label : Bytes) (src dst : VarId) (srcName dstName : Bytes)
  | sfoMsg (text : Bytes)
  | sfoFlow (v : Bytes)
  | sfoFho (c : HandlerCode)
  | sfoFsReq (q : FsRequest)
  | sfoFsResp (p : FsResponse)
  | sfoReport (label : Bytes) (src dst rep : VarId) (waypoints code : Nat) (cond : Condition)
      (dir : Direction) (dc : DeliveryCode) (fs : FileStatusCode)
  deriving DecidableEq, Repr, Inhabited

/-- `get_message_type` -/
def UserOp.msgType : UserOp → MessageType
  | .origId .. => .OriginatingTransactionIDMessage
  | .proxyPut .. => .ProxyPutRequest
  | .proxyMsg _ => .ProxyMessageToUser
  | .proxyFsReq _ => .ProxyFileStoreRequest
  | .proxyFho _ => .ProxyFaultHandlerOverride
  | .proxyMode _ => .ProxyTransmissionMode
  | .proxyFlow _ => .ProxyFlowLabel
  | .proxySegCtrl _ => .ProxySegmentationControl
  | .proxyPutCancel => .ProxyPutCancel
  | .respProxyPut .. => .ProxyPutResponse
  | .respFs _ => .ProxyFileStoreResponse
  | .respListing .. => .DirectoryListingResponse
  | .respStatus .. => .RemoteStatusReportResponse
  | .respSuspend .. => .RemoteSuspendResponse
  | .respResume .. => .RemoteResumeResponse
  | .reqListing .. => .DirectoryListingRequest
  | .reqStatus .. => .RemoteStatusReportRequest
  | .reqSuspend .. => .RemoteSuspendRequest
  | .reqResume .. => .RemoteResumeRequest
  | .sfoRequest .. => .SFORequest
  | .sfoMsg _ => .SFOMessageToUser
  | .sfoFlow _ => .SFOFlowLabel
  | .sfoFho _ => .SFOFaultHandlerOverride
  | .sfoFsReq _ => .SFOFileStoreRequest
  | .sfoFsResp _ => .SFOFileStoreResponse
  | .sfoReport .. => .SFOReport

/-- the message body (`msg.encode()` of the inner message) -/
def UserOp.body : UserOp → Bytes
  | .origId a b => encIdPair a b
  | .proxyPut d s t => encIdLV d ++ encLV s ++ encLV t
  | .proxyMsg m => encLV m
  | .proxyFsReq q => UInt8.ofNat q.encode.length :: q.encode
  | .proxyFho c => [UInt8.ofNat c.toNat]
  | .proxyMode m => [UInt8.ofNat m.toNat]
  | .proxyFlow v => encLV v
  | .proxySegCtrl c => [UInt8.ofNat c.toNat]
  | .proxyPutCancel => []
  | .respProxyPut c d f => [UInt8.ofNat (c.toNat * 16 + d.toNat * 4 + f.toNat)]
  | .respFs p => UInt8.ofNat p.encode.length :: p.encode
  | .respListing c d f => UInt8.ofNat c.toNat :: (encLV d ++ encLV f)
  | .respStatus st code a b => UInt8.ofNat (st.toNat * 64 + b2n code) :: encIdPair a b
  | .respSuspend su st a b => UInt8.ofNat (b2n su * 128 + st.toNat * 32) :: encIdPair a b
  | .respResume su st a b => UInt8.ofNat (b2n su * 128 + st.toNat * 32) :: encIdPair a b
  | .reqListing d f => encLV d ++ encLV f
  | .reqStatus a b f => encIdPair a b ++ encLV f
  | .reqSuspend a b => encIdPair a b
  | .reqResume a b => encIdPair a b
  | .sfoRequest tr m sg cl wp label a d s t =>
    UInt8.ofNat (tr.toNat * 64 + m.toNat * 32 + sg.toNat * 16 + b2n cl * 8) :: UInt8.ofNat wp ::
      (encLV label ++ encIdLV a ++ encIdLV d ++ encLV s ++ encLV t)
  | .sfoMsg m => encLV m
  | .sfoFlow v => encLV v
  | .sfoFho c => [UInt8.ofNat c.toNat]
  | .sfoFsReq q => UInt8.ofNat q.encode.length :: q.encode
  | .sfoFsResp p => UInt8.ofNat p.encode.length :: p.encode
  | .sfoReport label a d rp wp code c dir dc fs =>
    encLV label ++ encIdLV a ++ encIdLV d ++ encIdLV rp ++
      [UInt8.ofNat wp, UInt8.ofNat code, UInt8.ofNat (c.toNat * 16 + dir.toNat * 8 + dc.toNat * 4 + fs.toNat)]

/-- the identifier every user operation starts with: "cfdp" -/
def userOpsId : Bytes := [99, 102, 100, 112]

/-- `UserOperation::encode` -/
def UserOp.encode (u : UserOp) : Bytes := userOpsId ++ UInt8.ofNat u.msgType.toNat :: u.body

/-- `UserOperation::encoded_len` (the inner `encoded_len`s, in `Nat`) -/
def UserOp.len (u : UserOp) : Nat :=
  4 + 1 + (match u with
    | .origId a b => 1 + a.width + b.width
    | .proxyPut d s t => 1 + d.width + 1 + s.length + 1 + t.length
    | .proxyMsg m => 1 + m.length
    | .proxyFsReq q => 1 + q.len
    | .proxyFho _ => 1
    | .proxyMode _ => 1
    | .proxyFlow v => 1 + v.length
    | .proxySegCtrl _ => 1
    | .proxyPutCancel => 0
    | .respProxyPut .. => 1
    | .respFs p => 1 + p.len
    | .respListing _ d f => 1 + 1 + d.length + 1 + f.length
    | .respStatus _ _ a b => 1 + 1 + a.width + b.width
    | .respSuspend _ _ a b => 1 + 1 + b.width + a.width
    | .respResume _ _ a b => 1 + 1 + a.width + b.width
    | .reqListing d f => 1 + d.length + 1 + f.length
    | .reqStatus a b f => 1 + a.width + b.width + 1 + f.length
    | .reqSuspend a b => 1 + a.width + b.width
    | .reqResume a b => 1 + a.width + b.width
    | .sfoRequest _ _ _ _ _ label a d s t =>
      1 + 1 + 1 + label.length + 1 + a.width + 1 + d.width + 1 + s.length + 1 + t.length
    | .sfoMsg m => 1 + m.length
    | .sfoFlow v => 1 + v.length
    | .sfoFho _ => 1
    | .sfoFsReq q => 1 + q.len
    | .sfoFsResp p => 1 + p.len
    | .sfoReport label a d rp _ _ _ _ _ _ => 1 + label.length + 1 + a.width + 1 + d.width + 1 + rp.width + 1 + 1 + 1)

def decHandler (bs : Bytes) : Except Err (HandlerCode × Bytes) := do
  let (c, r) ← readU8 bs
  let code ← (HandlerCode.ofNat? c.toNat).elim (.error .InvalidFaultHandlerCode) .ok
  pure (code, r)

/-- status byte + id pair of the remote suspend / resume responses -/
def decSuspResp (bs : Bytes) : Except Err (Bool × TransactionStatus × VarId × VarId × Bytes) := do
  let (b, r) ← readU8 bs
  let st ← (TransactionStatus.ofNat? (b.toNat / 32 % 4)).elim (.error .InvalidTransactionStatus) .ok
  let (a, c, r) ← decIdPair r
  pure (b.toNat / 128 != 0, st, a, c, r)

/-- `UserOperation::decode` (whatever follows the message is left unread) -/
def UserOp.decode (bs : Bytes) : Except Err (UserOp × Bytes) := do
  let (idb, r) ← readN 4 bs
  if idb != userOpsId then throw .UnexpectedIdentifier
  let (t, r) ← readU8 r
  let mt ← (MessageType.ofNat? t.toNat).elim (.error .MessageType) .ok
  match mt with
  | .ProxyPutRequest => do
    let (d, r) ← readIdLV r
    let (s, r) ← readName r
    let (n, r) ← readName r
    pure (.proxyPut d s n, r)
  | .ProxyMessageToUser => do let (m, r) ← readLV r; pure (.proxyMsg m, r)
  | .ProxyFileStoreRequest => do
    let (_, r) ← readU8 r
    let (q, r) ← FsRequest.decode r
    pure (.proxyFsReq q, r)
  | .ProxyFileStoreResponse => do
    let (_, r) ← readU8 r
    let (p, r) ← FsResponse.decode r
    pure (.respFs p, r)
  | .ProxyFaultHandlerOverride => do let (c, r) ← decHandler r; pure (.proxyFho c, r)
  | .ProxyTransmissionMode => do
    let (b, r) ← readU8 r
    let m ← (TransmissionMode.ofNat? b.toNat).elim (.error .InvalidTransmissionMode) .ok
    pure (.proxyMode m, r)
  | .ProxyFlowLabel => do let (v, r) ← readLV r; pure (.proxyFlow v, r)
  | .ProxySegmentationControl => do
    let (b, r) ← readU8 r
    let c ← (SegmentationControl.ofNat? b.toNat).elim (.error .InvalidSegmentControl) .ok
    pure (.proxySegCtrl c, r)
  | .ProxyPutResponse => do
    let (b, r) ← readU8 r
    let c ← (Condition.ofNat? (b.toNat / 16)).elim (.error .InvalidCondition) .ok
    let d ← (DeliveryCode.ofNat? (b.toNat / 4 % 2)).elim (.error .InvalidDeliveryCode) .ok
    let f ← (FileStatusCode.ofNat? (b.toNat % 4)).elim (.error .InvalidFileStatus) .ok
    pure (.respProxyPut c d f, r)
  | .ProxyPutCancel => pure (.proxyPutCancel, r)
  | .OriginatingTransactionIDMessage => do let (a, c, r) ← decIdPair r; pure (.origId a c, r)
  | .ProxyClosureRequest => throw .MessageType
  | .DirectoryListingRequest => do
    let (d, r) ← readName r
    let (f, r) ← readName r
    pure (.reqListing d f, r)
  | .RemoteStatusReportRequest => do
    let (a, c, r) ← decIdPair r
    let (f, r) ← readName r
    pure (.reqStatus a c f, r)
  | .RemoteSuspendRequest => do let (a, c, r) ← decIdPair r; pure (.reqSuspend a c, r)
  | .RemoteResumeRequest => do let (a, c, r) ← decIdPair r; pure (.reqResume a c, r)
  | .DirectoryListingResponse => do
    let (b, r) ← readU8 r
    let code ← (ListingResponseCode.ofNat? b.toNat).elim (.error .InvalidListingCode) .ok
    let (d, r) ← readName r
    let (f, r) ← readName r
    pure (.respListing code d f, r)
  | .RemoteStatusReportResponse => do
    let (b, r) ← readU8 r
    let st ← (TransactionStatus.ofNat? (b.toNat / 64)).elim (.error .InvalidTransactionStatus) .ok
    let (a, c, r) ← decIdPair r
    pure (.respStatus st (b.toNat % 2 != 0) a c, r)
  | .RemoteSuspendResponse => do
    let (su, st, a, c, r) ← decSuspResp r
    pure (.respSuspend su st a c, r)
  | .RemoteResumeResponse => do
    let (su, st, a, c, r) ← decSuspResp r
    pure (.respResume su st a c, r)
  | .SFORequest => do
    let (b, r) ← readU8 r
    let tr ← (TraceControl.ofNat? (b.toNat / 64)).elim (.error .InvalidTraceControl) .ok
    let m ← (TransmissionMode.ofNat? (b.toNat / 32 % 2)).elim (.error .InvalidTransmissionMode) .ok
    let sg ← (SegmentationControl.ofNat? (b.toNat / 16 % 2)).elim (.error .InvalidSegmentControl) .ok
    let (wp, r) ← readU8 r
    let (label, r) ← readLV r
    let (a, r) ← readIdLV r
    let (d, r) ← readIdLV r
    let (s, r) ← readName r
    let (n, r) ← readName r
    pure (.sfoRequest tr m sg (b.toNat / 8 % 2 != 0) wp.toNat label a d s n, r)
  | .SFOMessageToUser => do let (m, r) ← readLV r; pure (.sfoMsg m, r)
  | .SFOFlowLabel => do let (v, r) ← readLV r; pure (.sfoFlow v, r)
  | .SFOFaultHandlerOverride => do let (c, r) ← decHandler r; pure (.sfoFho c, r)
  | .SFOFileStoreRequest => do
    let (_, r) ← readU8 r
    let (q, r) ← FsRequest.decode r
    pure (.sfoFsReq q, r)
  | .SFOReport => do
    let (label, r) ← readLV r
    let (a, r) ← readIdLV r
    let (d, r) ← readIdLV r
    let (rp, r) ← readIdLV r
    let (wp, r) ← readU8 r
    let (code, r) ← readU8 r
    let (b, r) ← readU8 r
    let c ← (Condition.ofNat? (b.toNat / 16)).elim (.error .InvalidCondition) .ok
    let dir ← (Direction.ofNat? (b.toNat / 8 % 2)).elim (.error .InvalidDirection) .ok
    let dc ← (DeliveryCode.ofNat? (b.toNat / 4 % 2)).elim (.error .InvalidDeliveryCode) .ok
    let fs ← (FileStatusCode.ofNat? (b.toNat % 4)).elim (.error .InvalidDeliveryCode) .ok
    pure (.sfoReport label a d rp wp.toNat code.toNat c dir dc fs, r)
  | .SFOFileStoreResponse => do
    let (_, r) ← readU8 r
    let (p, r) ← FsResponse.decode r
    pure (.sfoFsResp p, r)

/-! ### status report (`cfdp-core/src/daemon.rs`) -/

structure Report where
  src : VarId
  seq : VarId
  state : TransactionState
  status : TransactionStatus
  cond : Condition
  deriving DecidableEq, Repr, Inhabited

/-- `Report::encode` -/
def Report.encode (r : Report) : Bytes :=
  r.src.encode ++ r.seq.encode ++ [UInt8.ofNat r.state.toNat, UInt8.ofNat r.status.toNat, UInt8.ofNat r.cond.toNat]

/-- `Report::decode` -/
def Report.decode (bs : Bytes) : Except Err (Report × Bytes) := do
  let (src, r) ← VarId.decode bs
  let (seq, r) ← VarId.decode r
  let (a, r) ← readU8 r
  let state ← (TransactionState.ofNat? a.toNat).elim (.error .InvalidState) .ok
  let (b, r) ← readU8 r
  let status ← (TransactionStatus.ofNat? b.toNat).elim (.error .InvalidTransactionStatus) .ok
  let (c, r) ← readU8 r
  let cond ← (Condition.ofNat? c.toNat).elim (.error .InvalidCondition) .ok
  pure ({ src, seq, state, status, cond }, r)

end Cfdp.Codec
