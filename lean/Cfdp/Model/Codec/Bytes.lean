import Cfdp.Gen.Enums

/-
Byte-level reader primitives used by the codec model (`std::io::Read` on a byte slice):
`read_exact` = take n bytes or fail with an I/O error, `read_to_end` = the rest.
-/
namespace Cfdp.Codec

abbrev Bytes := List UInt8

/-- `PDUError` variants (payloads dropped) plus `panic` for arithmetic overflow in builds with
overflow checks -/
inductive Err where
  | MessageType | UnexpectedMessage | UnexpectedIdentifier | InvalidCondition
  | InvalidChecksumType | InvalidDirection | InvalidDirective | InvalidDeliveryCode
  | InvalidState | InvalidFileStatus | InvalidTraceControl | InvalidTransmissionMode
  | InvalidSegmentControl | InvalidTransactionStatus | InvalidFileStoreAction
  | InvalidFileStoreStatus | InvalidFaultHandlerCode | InvalidACKDirectiveSubType
  | InvalidPrompt | InvalidVersion | InvalidPDUType | InvalidCRCFlag | InvalidFileSizeFlag
  | InvalidSegmentMetadataFlag | CRCFailure | ReadError | UnknownIDLength | InvalidFileName
  | InvalidListingCode | panic
  deriving DecidableEq, Repr

/-- decoder result: value and the unread rest -/
abbrev Dec (α : Type) := Except Err (α × Bytes)

/-- `read_exact(&mut [0u8; 1])` -/
def readU8 : Bytes → Dec UInt8
  | [] => .error .ReadError
  | b :: r => .ok (b, r)

/-- `read_exact` of `n` bytes -/
def readN (n : Nat) (bs : Bytes) : Dec Bytes :=
  if bs.length < n then .error .ReadError else .ok (bs.take n, bs.drop n)

/-- big-endian value of a byte string -/
def beVal : Bytes → Nat
  | [] => 0
  | b :: r => b.toNat * 256 ^ r.length + beVal r

/-- big-endian bytes of `x` on `w` octets (`(x as uN).to_be_bytes()`: truncates silently) -/
def beBytes : Nat → Nat → Bytes
  | 0, _ => []
  | w + 1, x => UInt8.ofNat (x / 256 ^ w) :: beBytes w (x % 256 ^ w)

/-- `read_u32::<BigEndian>()` / `read_u64` / `u16::from_be_bytes` after `read_exact` -/
def readBE (w : Nat) (bs : Bytes) : Dec Nat :=
  match readN w bs with
  | .error e => .error e
  | .ok (v, r) => .ok (beVal v, r)

/-- `read_length_value_pair` -/
def readLV (bs : Bytes) : Dec Bytes :=
  match readU8 bs with
  | .error e => .error e
  | .ok (n, r) => readN n.toNat r

/-- an LV field as the encoders write it: `len as u8` then the bytes -/
def encLV (v : Bytes) : Bytes := UInt8.ofNat v.length :: v

/-! ### UTF-8 validity (`String::from_utf8`) -/

def isCont (b : UInt8) : Bool := 0x80 ≤ b.toNat && b.toNat ≤ 0xBF

/-- exactly the byte sequences `core::str::from_utf8` accepts (Unicode table 3-7) -/
def validUtf8 : Bytes → Bool
  | [] => true
  | b :: r =>
    let n := b.toNat
    if n < 0x80 then validUtf8 r
    else if 0xC2 ≤ n && n ≤ 0xDF then
      match r with
      | c :: r' => isCont c && validUtf8 r'
      | _ => false
    else if n == 0xE0 then
      match r with
      | c :: d :: r' => (0xA0 ≤ c.toNat && c.toNat ≤ 0xBF) && isCont d && validUtf8 r'
      | _ => false
    else if (0xE1 ≤ n && n ≤ 0xEC) || n == 0xEE || n == 0xEF then
      match r with
      | c :: d :: r' => isCont c && isCont d && validUtf8 r'
      | _ => false
    else if n == 0xED then
      match r with
      | c :: d :: r' => (0x80 ≤ c.toNat && c.toNat ≤ 0x9F) && isCont d && validUtf8 r'
      | _ => false
    else if n == 0xF0 then
      match r with
      | c :: d :: e :: r' => (0x90 ≤ c.toNat && c.toNat ≤ 0xBF) && isCont d && isCont e && validUtf8 r'
      | _ => false
    else if 0xF1 ≤ n && n ≤ 0xF3 then
      match r with
      | c :: d :: e :: r' => isCont c && isCont d && isCont e && validUtf8 r'
      | _ => false
    else if n == 0xF4 then
      match r with
      | c :: d :: e :: r' => (0x80 ≤ c.toNat && c.toNat ≤ 0x8F) && isCont d && isCont e && validUtf8 r'
      | _ => false
    else false

/-- `Utf8PathBuf::from(String::from_utf8(read_length_value_pair(buffer)?)?)` -/
def readName (bs : Bytes) : Dec Bytes :=
  match readLV bs with
  | .error e => .error e
  | .ok (v, r) => if validUtf8 v then .ok (v, r) else .error .InvalidFileName

end Cfdp.Codec
