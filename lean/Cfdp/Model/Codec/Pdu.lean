import Cfdp.Model.Codec.Bytes

/-
Model of the PDU codec: `cfdp-core/src/pdu/header.rs`, `ops.rs`, `filestore.rs`,
`fault_handler.rs` and `pdu.rs`.  One `encode…`/`decode…`/`…Len` per Rust
`encode`/`decode`/`encoded_len`.  Numbers are `Nat` (the Rust integer widths become range
side-conditions in `WF`), bit packing is written arithmetically (`(b & 0xE0) >> 5` is
`b / 32`, `x << 4 | y` is `x * 16 + y` for in-range fields), `as u8`/`as u32` truncations are
`UInt8.ofNat` / `beBytes`, enum ↔ code tables come from the generated `Cfdp.Gen`.
-/
namespace Cfdp.Codec
open Cfdp.Gen

/-! ### VariableID -/

/-- `VariableID::{U8,U16,U32,U64}`: width in octets and value -/
structure VarId where
  width : Nat
  val : Nat
  deriving DecidableEq, Repr, Inhabited

/-- `VariableID::try_from(Vec<u8>)` -/
def idOfBytes (bs : Bytes) : Except Err VarId :=
  if bs.length = 1 ∨ bs.length = 2 ∨ bs.length = 4 ∨ bs.length = 8 then .ok ⟨bs.length, beVal bs⟩
  else .error .UnknownIDLength

/-- `VariableID::to_be_bytes` -/
def VarId.toBe (i : VarId) : Bytes := beBytes i.width i.val

/-- `VariableID::encode`: `[encoded_len - 1] ++ to_be_bytes` -/
def VarId.encode (i : VarId) : Bytes := UInt8.ofNat (i.width - 1) :: i.toBe

/-- `VariableID::decode` -/
def VarId.decode (bs : Bytes) : Except Err (VarId × Bytes) := do
  let (b, r) ← readU8 bs
  let (v, r) ← readN (b.toNat + 1) r
  let id ← idOfBytes v
  pure (id, r)

/-! ### Header -/

structure Header where
  version : U3
  pduType : PDUType
  direction : Direction
  mode : TransmissionMode
  crc : CRCFlag
  large : FileSizeFlag
  dataLen : Nat
  segCtrl : SegmentationControl
  segMeta : SegmentedData
  src : VarId
  seq : VarId
  dst : VarId
  deriving DecidableEq, Repr, Inhabited

/-- `FileSizeFlag::encoded_len` -/
def fssLen : FileSizeFlag → Nat
  | .Small => 4
  | .Large => 8

/-- `PDUHeader::encoded_len` -/
def Header.len (h : Header) : Nat := 1 + 2 + 1 + h.src.width + h.seq.width + h.dst.width

/-- `PDUHeader::encode` -/
def Header.encode (h : Header) : Bytes :=
  let b0 := h.version.toNat * 32 + h.pduType.toNat * 16 + h.direction.toNat * 8
    + h.mode.toNat * 4 + h.crc.toNat * 2 + h.large.toNat
  let len := match h.crc with
    | .NotPresent => h.dataLen
    | .Present => h.dataLen + 2
  let b3 := h.segCtrl.toNat * 128 + (h.src.width - 1) * 16 + h.segMeta.toNat * 8 + (h.seq.width - 1)
  UInt8.ofNat b0 :: (beBytes 2 len ++ UInt8.ofNat b3 :: (h.src.toBe ++ h.seq.toBe ++ h.dst.toBe))

/-- `PDUHeader::decode` -/
def Header.decode (bs : Bytes) : Except Err (Header × Bytes) := do
  let (b0, r) ← readU8 bs
  let b0 := b0.toNat
  let version ← (U3.ofNat? (b0 / 32)).elim (.error .InvalidVersion) .ok
  let pduType ← (PDUType.ofNat? (b0 / 16 % 2)).elim (.error .InvalidPDUType) .ok
  let direction ← (Direction.ofNat? (b0 / 8 % 2)).elim (.error .InvalidDirection) .ok
  let mode ← (TransmissionMode.ofNat? (b0 / 4 % 2)).elim (.error .InvalidTransmissionMode) .ok
  let crc ← (CRCFlag.ofNat? (b0 / 2 % 2)).elim (.error .InvalidCRCFlag) .ok
  let large ← (FileSizeFlag.ofNat? (b0 % 2)).elim (.error .InvalidFileSizeFlag) .ok
  let (rawLen, r) ← readBE 2 r
  -- the CRC length is included in the length field; `checked_sub(2)`
  let dataLen ← match crc with
    | .NotPresent => .ok rawLen
    | .Present => if rawLen < 2 then .error .ReadError else .ok (rawLen - 2)
  let (b3, r) ← readU8 r
  let b3 := b3.toNat
  let segCtrl ← (SegmentationControl.ofNat? (b3 / 128)).elim (.error .InvalidSegmentControl) .ok
  let segMeta ← (SegmentedData.ofNat? (b3 / 8 % 2)).elim (.error .InvalidSegmentMetadataFlag) .ok
  let idLen := b3 / 16 % 8 + 1
  let seqLen := b3 % 8 + 1
  let (sb, r) ← readN idLen r
  let src ← idOfBytes sb
  let (qb, r) ← readN seqLen r
  let seq ← idOfBytes qb
  let (db, r) ← readN idLen r
  let dst ← idOfBytes db
  pure ({ version, pduType, direction, mode, crc, large, dataLen, segCtrl, segMeta, src, seq, dst }, r)

/-! ### Filestore requests / responses -/

structure FsRequest where
  action : FileStoreAction
  name1 : Bytes
  name2 : Bytes
  deriving DecidableEq, Repr, Inhabited

/-- the 4-bit status codes defined for an action (`FileStoreStatus::get_status`) -/
def statusValid (a : FileStoreAction) (code : Nat) : Bool :=
  match a with
  | .CreateFile => (CreateFileStatus.ofNat? code).isSome
  | .DeleteFile => (DeleteFileStatus.ofNat? code).isSome
  | .RenameFile => (RenameStatus.ofNat? code).isSome
  | .AppendFile => (AppendStatus.ofNat? code).isSome
  | .ReplaceFile => (ReplaceStatus.ofNat? code).isSome
  | .CreateDirectory => (CreateDirectoryStatus.ofNat? code).isSome
  | .RemoveDirectory => (RemoveDirectoryStatus.ofNat? code).isSome
  | .DenyFile => (DenyStatus.ofNat? code).isSome
  | .DenyDirectory => (DenyStatus.ofNat? code).isSome

/-- `FileStoreResponse` with `action_and_status` as (action, 4-bit status code) -/
structure FsResponse where
  action : FileStoreAction
  status : Nat
  name1 : Bytes
  name2 : Bytes
  msg : Bytes
  deriving DecidableEq, Repr, Inhabited

def FsRequest.len (q : FsRequest) : Nat := 1 + 1 + q.name1.length + 1 + q.name2.length

def FsRequest.encode (q : FsRequest) : Bytes :=
  UInt8.ofNat (q.action.toNat * 16) :: (encLV q.name1 ++ encLV q.name2)

def FsRequest.decode (bs : Bytes) : Except Err (FsRequest × Bytes) := do
  let (b, r) ← readU8 bs
  let action ← (FileStoreAction.ofNat? (b.toNat / 16)).elim (.error .InvalidFileStoreAction) .ok
  let (name1, r) ← readName r
  let (name2, r) ← readName r
  pure ({ action, name1, name2 }, r)

def FsResponse.len (p : FsResponse) : Nat :=
  1 + 1 + p.name1.length + 1 + p.name2.length + 1 + p.msg.length

def FsResponse.encode (p : FsResponse) : Bytes :=
  UInt8.ofNat (p.action.toNat * 16 + p.status) :: (encLV p.name1 ++ encLV p.name2 ++ encLV p.msg)

def FsResponse.decode (bs : Bytes) : Except Err (FsResponse × Bytes) := do
  let (b, r) ← readU8 bs
  let action ← (FileStoreAction.ofNat? (b.toNat / 16)).elim (.error .InvalidFileStoreAction) .ok
  let status := b.toNat % 16
  if !statusValid action status then throw .InvalidFileStoreStatus
  let (name1, r) ← readName r
  let (name2, r) ← readName r
  let (msg, r) ← readLV r
  pure ({ action, status, name1, name2, msg }, r)

/-! ### Metadata TLVs -/

inductive Tlv where
  | fsReq (q : FsRequest)
  | fsResp (p : FsResponse)
  | msg (text : Bytes)
  | fho (code : HandlerCode)
  | flow (value : Bytes)
  | eid (id : VarId)
  deriving DecidableEq, Repr, Inhabited

def Tlv.code : Tlv → MetadataTLVFieldCode
  | .fsReq _ => .FileStoreRequest
  | .fsResp _ => .FileStoreResponse
  | .msg _ => .MessageToUser
  | .fho _ => .FaultHandlerOverride
  | .flow _ => .FlowLabel
  | .eid _ => .EntityID

/-- `MetadataTLV::encoded_len` -/
def Tlv.len : Tlv → Nat
  | .fsReq q => 1 + q.len
  | .fsResp p => 1 + p.len
  | .msg t => 1 + (1 + t.length)
  | .fho _ => 1 + 1
  | .flow v => 1 + (1 + v.length)
  | .eid i => 1 + (1 + i.width)

/-- `MetadataTLV::encode` -/
def Tlv.encode (t : Tlv) : Bytes :=
  UInt8.ofNat t.code.toNat :: (match t with
    | .fsReq q => q.encode
    | .fsResp p => p.encode
    | .msg m => encLV m
    | .fho c => [UInt8.ofNat c.toNat]
    | .flow v => encLV v
    | .eid i => i.encode)

/-- `MetadataTLV::decode` -/
def Tlv.decode (bs : Bytes) : Except Err (Tlv × Bytes) := do
  let (b, r) ← readU8 bs
  let code ← (MetadataTLVFieldCode.ofNat? b.toNat).elim (.error .MessageType) .ok
  match code with
  | .FileStoreRequest => do let (q, r) ← FsRequest.decode r; pure (.fsReq q, r)
  | .FileStoreResponse => do let (p, r) ← FsResponse.decode r; pure (.fsResp p, r)
  | .MessageToUser => do let (m, r) ← readLV r; pure (.msg m, r)
  | .FaultHandlerOverride => do
    let (c, r) ← readU8 r
    let code ← (HandlerCode.ofNat? c.toNat).elim (.error .InvalidFaultHandlerCode) .ok
    pure (.fho code, r)
  | .FlowLabel => do let (v, r) ← readLV r; pure (.flow v, r)
  | .EntityID => do let (i, r) ← VarId.decode r; pure (.eid i, r)

/-! ### Directives -/

structure Eof where
  cond : Condition
  checksum : Nat
  fileSize : Nat
  fault : Option VarId
  deriving DecidableEq, Repr, Inhabited

structure Finished where
  cond : Condition
  delivery : DeliveryCode
  fileStatus : FileStatusCode
  responses : List FsResponse
  fault : Option VarId
  deriving DecidableEq, Repr, Inhabited

structure Ack where
  directive : PDUDirective
  sub : ACKSubDirective
  cond : Condition
  status : TransactionStatus
  deriving DecidableEq, Repr, Inhabited

structure Metadata where
  closure : Bool
  cksumType : ChecksumType
  fileSize : Nat
  srcName : Bytes
  dstName : Bytes
  options : List Tlv
  deriving DecidableEq, Repr, Inhabited

structure Nak where
  scopeStart : Nat
  scopeEnd : Nat
  requests : List (Nat × Nat)
  deriving DecidableEq, Repr, Inhabited

inductive Payload where
  | eof (e : Eof)
  | finished (f : Finished)
  | ack (a : Ack)
  | metadata (m : Metadata)
  | nak (n : Nak)
  | prompt (p : NakOrKeepAlive)
  | keepAlive (progress : Nat)
  | fileData (offset : Nat) (data : Bytes)
  | fileDataSeg (rcs : RecordContinuationState) (segMeta : Bytes) (offset : Nat) (data : Bytes)
  deriving DecidableEq, Repr, Inhabited

/-- fault location TLV: `[EntityID code] ++ VariableID::encode` -/
def encFault : Option VarId → Bytes
  | none => []
  | some i => UInt8.ofNat MetadataTLVFieldCode.EntityID.toNat :: i.encode

def faultLen : Option VarId → Nat
  | none => 0
  | some i => 2 + i.width

def Eof.len (e : Eof) (fss : FileSizeFlag) : Nat := 5 + fssLen fss + faultLen e.fault

def Eof.encode (e : Eof) (fss : FileSizeFlag) : Bytes :=
  UInt8.ofNat (e.cond.toNat * 16) :: (beBytes 4 e.checksum ++ beBytes (fssLen fss) e.fileSize ++ encFault e.fault)

def Eof.decode (fss : FileSizeFlag) (bs : Bytes) : Except Err (Eof × Bytes) := do
  let (b, r) ← readU8 bs
  let cond ← (Condition.ofNat? (b.toNat / 16)).elim (.error .InvalidCondition) .ok
  let (checksum, r) ← readBE 4 r
  let (fileSize, r) ← readBE (fssLen fss) r
  match cond with
  | .NoError => pure ({ cond, checksum, fileSize, fault := none }, r)
  | _ => do
    let (t, r) ← readU8 r
    let code ← (MetadataTLVFieldCode.ofNat? t.toNat).elim (.error .MessageType) .ok
    match code with
    | .EntityID => do
      let (i, r) ← VarId.decode r
      pure ({ cond, checksum, fileSize, fault := some i }, r)
    | _ => .error .UnexpectedMessage

def Finished.len (f : Finished) : Nat :=
  1 + (f.responses.map (fun p => 1 + 1 + p.len)).sum + faultLen f.fault

def encResponses : List FsResponse → Bytes
  | [] => []
  | p :: ps =>
    UInt8.ofNat MetadataTLVFieldCode.FileStoreResponse.toNat :: UInt8.ofNat p.encode.length
      :: (p.encode ++ encResponses ps)

def Finished.encode (f : Finished) : Bytes :=
  UInt8.ofNat (f.cond.toNat * 16 + f.delivery.toNat * 4 + f.fileStatus.toNat)
    :: (encResponses f.responses ++ encFault f.fault)

/-- the `while !remaining_buffer.is_empty()` loop of `Finished::decode` -/
def finishedLoop (cond : Condition) : Nat → Bytes → List FsResponse → Option VarId →
    Except Err (List FsResponse × Option VarId)
  | 0, _, _, _ => .error .ReadError
  | fuel + 1, bs, resps, fault =>
    match bs with
    | [] => .ok (resps.reverse, fault)
    | t :: r => do
      let code ← (MetadataTLVFieldCode.ofNat? t.toNat).elim (.error .MessageType) .ok
      match code with
      | .FileStoreResponse => do
        let (v, r) ← readLV r
        let (p, _) ← FsResponse.decode v
        finishedLoop cond fuel r (p :: resps) fault
      | .EntityID =>
        if cond = .NoError then .error .UnexpectedMessage else
        match VarId.decode r with
        | .error e => .error e
        | .ok (i, r) => finishedLoop cond fuel r resps (some i)
      | _ => .error .UnexpectedMessage

def Finished.decode (bs : Bytes) : Except Err (Finished × Bytes) := do
  let (b, r) ← readU8 bs
  let b := b.toNat
  let cond ← (Condition.ofNat? (b / 16)).elim (.error .InvalidCondition) .ok
  let delivery ← (DeliveryCode.ofNat? (b / 4 % 2)).elim (.error .InvalidDeliveryCode) .ok
  let fileStatus ← (FileStatusCode.ofNat? (b % 4)).elim (.error .InvalidFileStatus) .ok
  let (responses, fault) ← finishedLoop cond (r.length + 1) r [] none
  pure ({ cond, delivery, fileStatus, responses, fault }, [])

def Ack.encode (a : Ack) : Bytes :=
  [UInt8.ofNat (a.directive.toNat * 16 + a.sub.toNat), UInt8.ofNat (a.cond.toNat * 16 + a.status.toNat)]

def Ack.decode (bs : Bytes) : Except Err (Ack × Bytes) := do
  let (b, r) ← readU8 bs
  let major ← (PDUDirective.ofNat? (b.toNat / 16)).elim (.error .InvalidDirective) .ok
  let minor ← (ACKSubDirective.ofNat? (b.toNat % 16)).elim (.error .InvalidACKDirectiveSubType) .ok
  let (directive, sub) ← match major, minor with
    | .EoF, .Other => Except.ok (PDUDirective.EoF, ACKSubDirective.Other)
    | .Finished, .Finished => .ok (PDUDirective.Finished, ACKSubDirective.Finished)
    | .Finished, _ => .error .InvalidACKDirectiveSubType
    | _, _ => .error .InvalidDirective
  let (c, r) ← readU8 r
  let cond ← (Condition.ofNat? (c.toNat / 16)).elim (.error .InvalidCondition) .ok
  let status ← (TransactionStatus.ofNat? (c.toNat % 4)).elim (.error .InvalidTransactionStatus) .ok
  pure ({ directive, sub, cond, status }, r)

def Metadata.len (m : Metadata) (fss : FileSizeFlag) : Nat :=
  1 + fssLen fss + 1 + m.srcName.length + 1 + m.dstName.length + (m.options.map Tlv.len).sum

def encTlvs : List Tlv → Bytes
  | [] => []
  | t :: ts => t.encode ++ encTlvs ts

def Metadata.encode (m : Metadata) (fss : FileSizeFlag) : Bytes :=
  UInt8.ofNat ((if m.closure then 1 else 0) * 64 + m.cksumType.toNat)
    :: (beBytes (fssLen fss) m.fileSize ++ encLV m.srcName ++ encLV m.dstName ++ encTlvs m.options)

/-- `while !remaining_buffer.is_empty() { options.push(MetadataTLV::decode(..)?) }` -/
def decTlvs : Nat → Bytes → Except Err (List Tlv)
  | 0, _ => .error .ReadError
  | fuel + 1, bs =>
    match bs with
    | [] => .ok []
    | _ :: _ => do
      let (t, r) ← Tlv.decode bs
      let ts ← decTlvs fuel r
      pure (t :: ts)

def Metadata.decode (fss : FileSizeFlag) (bs : Bytes) : Except Err (Metadata × Bytes) := do
  let (b, r) ← readU8 bs
  let closure := b.toNat / 64 % 2 != 0
  let cksumType ← (ChecksumType.ofNat? (b.toNat % 16)).elim (.error .InvalidChecksumType) .ok
  let (fileSize, r) ← readBE (fssLen fss) r
  let (srcName, r) ← readName r
  let (dstName, r) ← readName r
  let options ← decTlvs (r.length + 1) r
  pure ({ closure, cksumType, fileSize, srcName, dstName, options }, [])

def Nak.len (n : Nak) (fss : FileSizeFlag) : Nat := n.requests.length * (2 * fssLen fss) + 2 * fssLen fss

def encRequests (w : Nat) : List (Nat × Nat) → Bytes
  | [] => []
  | (a, b) :: rs => beBytes w a ++ beBytes w b ++ encRequests w rs

def Nak.encode (n : Nak) (fss : FileSizeFlag) : Bytes :=
  beBytes (fssLen fss) n.scopeStart ++ beBytes (fssLen fss) n.scopeEnd ++ encRequests (fssLen fss) n.requests

def decRequests (w : Nat) : Nat → Bytes → Except Err (List (Nat × Nat))
  | 0, _ => .error .ReadError
  | fuel + 1, bs =>
    match bs with
    | [] => .ok []
    | _ :: _ => do
      let (a, r) ← readBE w bs
      let (b, r) ← readBE w r
      let rs ← decRequests w fuel r
      pure ((a, b) :: rs)

def Nak.decode (fss : FileSizeFlag) (bs : Bytes) : Except Err (Nak × Bytes) := do
  let (scopeStart, r) ← readBE (fssLen fss) bs
  let (scopeEnd, r) ← readBE (fssLen fss) r
  let requests ← decRequests (fssLen fss) (r.length + 1) r
  pure ({ scopeStart, scopeEnd, requests }, [])

/-! ### Payload -/

def Payload.directive : Payload → Option PDUDirective
  | .eof _ => some .EoF
  | .finished _ => some .Finished
  | .ack _ => some .Ack
  | .metadata _ => some .Metadata
  | .nak _ => some .Nak
  | .prompt _ => some .Prompt
  | .keepAlive _ => some .KeepAlive
  | _ => none

/-- `PDUPayload::encoded_len` -/
def Payload.len (p : Payload) (fss : FileSizeFlag) : Nat :=
  match p with
  | .eof e => 1 + e.len fss
  | .finished f => 1 + f.len
  | .ack _ => 1 + 2
  | .metadata m => 1 + m.len fss
  | .nak n => 1 + n.len fss
  | .prompt _ => 1 + 1
  | .keepAlive _ => 1 + fssLen fss
  | .fileData _ d => d.length + fssLen fss
  | .fileDataSeg _ m _ d => 1 + m.length + fssLen fss + d.length

/-- `PDUPayload::encode` -/
def Payload.encode (p : Payload) (fss : FileSizeFlag) : Bytes :=
  match p with
  | .eof e => UInt8.ofNat PDUDirective.EoF.toNat :: e.encode fss
  | .finished f => UInt8.ofNat PDUDirective.Finished.toNat :: f.encode
  | .ack a => UInt8.ofNat PDUDirective.Ack.toNat :: a.encode
  | .metadata m => UInt8.ofNat PDUDirective.Metadata.toNat :: m.encode fss
  | .nak n => UInt8.ofNat PDUDirective.Nak.toNat :: n.encode fss
  | .prompt k => [UInt8.ofNat PDUDirective.Prompt.toNat, UInt8.ofNat (k.toNat * 128)]
  | .keepAlive g => UInt8.ofNat PDUDirective.KeepAlive.toNat :: beBytes (fssLen fss) g
  | .fileData off d => beBytes (fssLen fss) off ++ d
  | .fileDataSeg rcs m off d =>
    UInt8.ofNat (rcs.toNat * 64 + m.length) :: (m ++ beBytes (fssLen fss) off ++ d)

/-- `Operations::decode` -/
def decodeDirective (fss : FileSizeFlag) (bs : Bytes) : Except Err (Payload × Bytes) := do
  let (b, r) ← readU8 bs
  let d ← (PDUDirective.ofNat? b.toNat).elim (.error .InvalidDirective) .ok
  match d with
  | .EoF => do let (e, r) ← Eof.decode fss r; pure (.eof e, r)
  | .Finished => do let (f, r) ← Finished.decode r; pure (.finished f, r)
  | .Ack => do let (a, r) ← Ack.decode r; pure (.ack a, r)
  | .Metadata => do let (m, r) ← Metadata.decode fss r; pure (.metadata m, r)
  | .Nak => do let (n, r) ← Nak.decode fss r; pure (.nak n, r)
  | .Prompt => do
    let (k, r) ← readU8 r
    let v ← (NakOrKeepAlive.ofNat? (k.toNat / 128)).elim (.error .InvalidPrompt) .ok
    pure (.prompt v, r)
  | .KeepAlive => do let (g, r) ← readBE (fssLen fss) r; pure (.keepAlive g, r)

/-- `FileDataPDU::decode` -/
def decodeFileData (seg : SegmentedData) (fss : FileSizeFlag) (bs : Bytes) : Except Err (Payload × Bytes) :=
  match seg with
  | .NotPresent => do
    let (off, r) ← readBE (fssLen fss) bs
    pure (.fileData off r, [])
  | .Present => do
    let (b, r) ← readU8 bs
    let rcs ← (RecordContinuationState.ofNat? (b.toNat / 64)).elim (.error .panic) .ok
    let (m, r) ← readN (b.toNat % 64) r
    let (off, r) ← readBE (fssLen fss) r
    pure (.fileDataSeg rcs m off r, [])

/-- `PDUPayload::decode` -/
def decodePayload (t : PDUType) (fss : FileSizeFlag) (seg : SegmentedData) (bs : Bytes) : Except Err (Payload × Bytes) :=
  match t with
  | .FileDirective => decodeDirective fss bs
  | .FileData => decodeFileData seg fss bs

/-! ### PDU with CRC -/

structure Pdu where
  header : Header
  payload : Payload
  deriving DecidableEq, Repr, Inhabited

/-- `crc16(in_char, crc)`: CRC-16/IBM-3740 (CCITT-FALSE) bit loop -/
def crcBit (crc : Nat) : Nat :=
  if crc / 32768 % 2 = 1 then ((crc * 2) % 65536).xor crcPoly else (crc * 2) % 65536

def crcByte (crc : Nat) (b : UInt8) : Nat :=
  crcBit (crcBit (crcBit (crcBit (crcBit (crcBit (crcBit (crcBit (crc.xor (b.toNat * 256)))))))))

/-- `crc16_ibm_3740` -/
def crc16 (msg : Bytes) : Nat := msg.foldl crcByte crcInit

/-- `PDU::encoded_len` -/
def Pdu.len (p : Pdu) : Nat := p.header.len + p.payload.len p.header.large

/-- `PDU::encode` -/
def Pdu.encode (p : Pdu) : Bytes :=
  let body := p.header.encode ++ p.payload.encode p.header.large
  match p.header.crc with
  | .NotPresent => body
  | .Present => body ++ beBytes 2 (crc16 body)

/-- `PDU::decode` (CRC checked first, over the bytes received) -/
def Pdu.decode (bs : Bytes) : Except Err Pdu := do
  let (h, r) ← Header.decode bs
  let (msg, r) ← readN h.dataLen r
  match h.crc with
  | .NotPresent => pure ()
  | .Present => do
    let (c, _) ← readBE 2 r
    if crc16 (h.encode ++ msg) = c then pure () else .error .CRCFailure
  let (payload, _) ← decodePayload h.pduType h.large h.segMeta msg
  pure { header := h, payload }

end Cfdp.Codec
