import Cfdp.Model.Daemon
import Cfdp.Model.Loop

/-
Model of a whole daemon: the transaction table of `Model/Daemon.lean` together with the state of
every transaction task (`Model/Recv.lean` / `Model/Send.lean` behind the loop of `Model/Loop.lean`).
One operation is what one iteration of `Daemon::manage_transactions` or of one transaction task
does; histories interleave them arbitrarily.  Each task has its own state; what the tasks share in
the code (the filestore object, the tokio runtime, the bounded channels) is not in this model.
-/
namespace Cfdp.System
open Cfdp.Daemon Cfdp.Loop Cfdp.Codec

inductive Txn where
  | recv (s : Recv.State)
  | send (s : Send.State)
  deriving Inhabited

def Txn.step (t : Txn) (now : Nat) (e : Ev) : Txn :=
  match t with
  | .recv s => .recv (recvStep s now e)
  | .send s => .send (sendStep s now e)

def Txn.ended : Txn → Bool
  | .recv s => s.state == .Terminated
  | .send s => s.state == .Terminated

/-- how a daemon is configured: the settings it gives a receive transaction started by a PDU -/
structure Setup where
  recvCfg : Hdr → Recv.Config
  fs : Fs.FS

structure Sys where
  d : DState
  txns : Tid → Option Txn := fun _ => none

def upd (f : Tid → Option Txn) (k : Tid) (v : Option Txn) : Tid → Option Txn :=
  fun k' => if k' = k then v else f k'

inductive Op where
  /-- a PDU arrives from a transport -/
  | pdu (h : Hdr) (p : Pdu) (now : Nat)
  /-- one loop iteration of the task of transaction `k` other than a PDU delivery: a transmission
  opportunity, a timer wake-up or a user command forwarded to it -/
  | ev (k : Tid) (now : Nat) (e : Ev)
  /-- a Put request -/
  | put (dest : Nat) (cfg : Send.Config) (md : Send.Meta) (file : Bytes) (now : Nat)
  /-- the periodic `cleanup_transactions` -/
  | cleanup

/-- run one loop iteration of task `k` (if it exists) and note in the table when it ended -/
def runTask (sys : Sys) (k : Tid) (now : Nat) (e : Ev) : Sys :=
  match sys.txns k with
  | none => sys
  | some t =>
    let t' := t.step now e
    { d := if t'.ended then taskEnded sys.d k else sys.d, txns := upd sys.txns k (some t') }

def step (su : Setup) (sys : Sys) (o : Op) : Sys :=
  match o with
  | .pdu h p now =>
    match route sys.d h with
    | (.forward k, d') => runTask { sys with d := d' } k now (.pdu p)
    | (.spawnRecv k, d') =>
      runTask { d := d', txns := upd sys.txns k (some (.recv (Recv.new (su.recvCfg h) su.fs now))) } k now (.pdu p)
    | (_, d') => { sys with d := d' }
  | .ev k now e =>
    if sys.d.entries.contains k && !sys.d.dead.contains k then runTask sys k now e else sys
  | .put dest cfg md file now =>
    match Daemon.put sys.d dest with
    | (some id, d') => { d := d', txns := upd sys.txns id (some (.send (Send.new cfg md file now))) }
    | (none, d') => { sys with d := d' }
  | .cleanup => { sys with d := Daemon.cleanup sys.d }

def run (su : Setup) (sys : Sys) (ops : List Op) : Sys := ops.foldl (step su) sys

/-- the transaction an operation concerns (for a Put: the identifier it will hand out) -/
def addr (sys : Sys) : Op → Option Tid
  | .pdu h _ _ => some (key h)
  | .ev k _ _ => some k
  | .put _ _ _ _ _ => some (sys.d.entity, sys.d.nextSeq)
  | .cleanup => none

end Cfdp.System
