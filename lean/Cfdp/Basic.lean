def hello := "world"
