import Cfdp.Model.Codec.Pdu

/-! Helper lemmas for the codec round trips (C05 / C06 / C15). -/
namespace Cfdp.Codec
open Cfdp.Gen

@[simp] theorem toNat_ofNat_lt {n : Nat} (h : n < 256) : (UInt8.ofNat n).toNat = n := by
  simp [UInt8.toNat_ofNat', Nat.mod_eq_of_lt h]

@[simp] theorem readU8_cons (b : UInt8) (r : Bytes) : readU8 (b :: r) = .ok (b, r) := rfl

theorem readN_append (xs r : Bytes) : readN xs.length (xs ++ r) = .ok (xs, r) := by
  simp [readN]

theorem readN_append' {n : Nat} (xs r : Bytes) (h : xs.length = n) : readN n (xs ++ r) = .ok (xs, r) := by
  subst h; exact readN_append xs r

@[simp] theorem beBytes_length (w x : Nat) : (beBytes w x).length = w := by
  induction w generalizing x with
  | zero => rfl
  | succ w ih => simp [beBytes, ih]

theorem beVal_beBytes (w x : Nat) (h : x < 256 ^ w) : beVal (beBytes w x) = x := by
  induction w generalizing x with
  | zero => simp at h; subst h; rfl
  | succ w ih =>
    have hpos : 0 < 256 ^ w := Nat.pow_pos (by decide)
    have hq : x / 256 ^ w < 256 := by
      rw [Nat.div_lt_iff_lt_mul hpos]; rw [Nat.pow_succ] at h; rw [Nat.mul_comm]; exact h
    simp only [beBytes, beVal, beBytes_length, toNat_ofNat_lt hq]
    rw [ih _ (Nat.mod_lt _ hpos)]
    exact Nat.div_add_mod' x (256 ^ w)

theorem beVal_lt (bs : Bytes) : beVal bs < 256 ^ bs.length := by
  induction bs with
  | nil => simp [beVal]
  | cons b r ih =>
    have hb := b.toNat_lt
    simp only [beVal, List.length_cons, Nat.pow_succ]
    have : b.toNat * 256 ^ r.length ≤ 255 * 256 ^ r.length := Nat.mul_le_mul_right _ (by omega)
    omega

theorem beBytes_beVal (bs : Bytes) : beBytes bs.length (beVal bs) = bs := by
  induction bs with
  | nil => rfl
  | cons b r ih =>
    have hpos : 0 < 256 ^ r.length := Nat.pow_pos (by decide)
    have hlt := beVal_lt r
    simp only [List.length_cons, beBytes, beVal]
    have h1 : (b.toNat * 256 ^ r.length + beVal r) / 256 ^ r.length = b.toNat := by
      rw [Nat.mul_comm, Nat.mul_add_div hpos, Nat.div_eq_of_lt hlt]; simp
    have h2 : (b.toNat * 256 ^ r.length + beVal r) % 256 ^ r.length = beVal r := by
      rw [Nat.mul_comm, Nat.mul_add_mod, Nat.mod_eq_of_lt hlt]
    rw [h1, h2, ih]
    simp

theorem readBE_beBytes (w x : Nat) (r : Bytes) (h : x < 256 ^ w) :
    readBE w (beBytes w x ++ r) = .ok (x, r) := by
  simp [readBE, readN_append' (beBytes w x) r (beBytes_length w x), beVal_beBytes w x h]

theorem readLV_encLV (v r : Bytes) (h : v.length ≤ 255) : readLV (encLV v ++ r) = .ok (v, r) := by
  simp only [encLV, List.cons_append, readLV, readU8_cons]
  rw [toNat_ofNat_lt (by omega)]
  exact readN_append v r

theorem readName_encLV (v r : Bytes) (h : v.length ≤ 255) (hu : validUtf8 v = true) :
    readName (encLV v ++ r) = .ok (v, r) := by
  simp [readName, readLV_encLV v r h, hu]

/-! ### VariableID -/

def VarId.WF (i : VarId) : Prop :=
  (i.width = 1 ∨ i.width = 2 ∨ i.width = 4 ∨ i.width = 8) ∧ i.val < 256 ^ i.width

theorem idOfBytes_toBe (i : VarId) (h : i.WF) : idOfBytes i.toBe = .ok i := by
  obtain ⟨w, v⟩ := i
  obtain ⟨hw, hv⟩ := h
  simp only [VarId.toBe, idOfBytes, beBytes_length]
  simp only at hw hv
  simp [hw, beVal_beBytes w v hv]

theorem VarId.roundtrip (i : VarId) (r : Bytes) (h : i.WF) : VarId.decode (i.encode ++ r) = .ok (i, r) := by
  have hw := h.1
  have hlt : i.width - 1 < 256 := by omega
  have hlen : i.toBe.length = i.width - 1 + 1 := by simp [VarId.toBe]; omega
  simp only [VarId.decode, VarId.encode, List.cons_append, readU8_cons, bind, Except.bind,
    toNat_ofNat_lt hlt, readN_append' i.toBe r hlen, idOfBytes_toBe i h, pure, Except.pure]


/-! ### Header -/

def Header.WF (h : Header) : Prop :=
  h.src.WF ∧ h.seq.WF ∧ h.dst.WF ∧ h.src.width = h.dst.width ∧
  (match h.crc with | .NotPresent => h.dataLen < 65536 | .Present => h.dataLen + 2 < 65536)

theorem Header.roundtrip (h : Header) (r : Bytes) (hw : h.WF) :
    Header.decode (h.encode ++ r) = .ok (h, r) := by
  obtain ⟨version, pduType, direction, mode, crc, large, dataLen, segCtrl, segMeta, src, seq, dst⟩ := h
  obtain ⟨hs, hq, hd, hsd, hlen⟩ := hw
  simp only at hs hq hd hsd hlen
  have v1 := version.toNat_le; have v2 := pduType.toNat_le; have v3 := direction.toNat_le
  have v4 := mode.toNat_le; have v5 := crc.toNat_le; have v6 := large.toNat_le
  have v7 := segCtrl.toNat_le; have v8 := segMeta.toNat_le
  have hsw := hs.1; have hqw := hq.1
  -- first octet
  have b0lt : version.toNat * 32 + pduType.toNat * 16 + direction.toNat * 8
      + mode.toNat * 4 + crc.toNat * 2 + large.toNat < 256 := by omega
  have e1 : (version.toNat * 32 + pduType.toNat * 16 + direction.toNat * 8
      + mode.toNat * 4 + crc.toNat * 2 + large.toNat) / 32 = version.toNat := by omega
  have e2 : (version.toNat * 32 + pduType.toNat * 16 + direction.toNat * 8
      + mode.toNat * 4 + crc.toNat * 2 + large.toNat) / 16 % 2 = pduType.toNat := by omega
  have e3 : (version.toNat * 32 + pduType.toNat * 16 + direction.toNat * 8
      + mode.toNat * 4 + crc.toNat * 2 + large.toNat) / 8 % 2 = direction.toNat := by omega
  have e4 : (version.toNat * 32 + pduType.toNat * 16 + direction.toNat * 8
      + mode.toNat * 4 + crc.toNat * 2 + large.toNat) / 4 % 2 = mode.toNat := by omega
  have e5 : (version.toNat * 32 + pduType.toNat * 16 + direction.toNat * 8
      + mode.toNat * 4 + crc.toNat * 2 + large.toNat) / 2 % 2 = crc.toNat := by omega
  have e6 : (version.toNat * 32 + pduType.toNat * 16 + direction.toNat * 8
      + mode.toNat * 4 + crc.toNat * 2 + large.toNat) % 2 = large.toNat := by omega
  -- fourth octet
  have b3lt : segCtrl.toNat * 128 + (src.width - 1) * 16 + segMeta.toNat * 8 + (seq.width - 1) < 256 := by omega
  have f1 : (segCtrl.toNat * 128 + (src.width - 1) * 16 + segMeta.toNat * 8 + (seq.width - 1)) / 128
      = segCtrl.toNat := by omega
  have f2 : (segCtrl.toNat * 128 + (src.width - 1) * 16 + segMeta.toNat * 8 + (seq.width - 1)) / 8 % 2
      = segMeta.toNat := by omega
  have f3 : (segCtrl.toNat * 128 + (src.width - 1) * 16 + segMeta.toNat * 8 + (seq.width - 1)) / 16 % 8 + 1
      = src.width := by omega
  have f4 : (segCtrl.toNat * 128 + (src.width - 1) * 16 + segMeta.toNat * 8 + (seq.width - 1)) % 8 + 1
      = seq.width := by omega
  have l1 : src.toBe.length = src.width := by simp [VarId.toBe]
  have l2 : seq.toBe.length = seq.width := by simp [VarId.toBe]
  have l3 : dst.toBe.length = src.width := by simp [VarId.toBe, hsd]
  cases crc
  · have hl : dataLen < 256 ^ 2 := by simpa using hlen
    simp only [Header.decode, Header.encode, List.cons_append, List.append_assoc, readU8_cons, bind,
      Except.bind, toNat_ofNat_lt b0lt, e1, e2, e3, e4, e5, e6, U3.ofNat?_toNat, PDUType.ofNat?_toNat,
      Direction.ofNat?_toNat, TransmissionMode.ofNat?_toNat, CRCFlag.ofNat?_toNat,
      FileSizeFlag.ofNat?_toNat, Option.elim, readBE_beBytes 2 _ _ hl,
      toNat_ofNat_lt b3lt, f1, f2, f3, f4, SegmentationControl.ofNat?_toNat,
      SegmentedData.ofNat?_toNat, readN_append' _ _ l1, readN_append' _ _ l2,
      readN_append' _ _ l3, idOfBytes_toBe _ hs, idOfBytes_toBe _ hq, idOfBytes_toBe _ hd, pure,
      Except.pure]
  · have hl : dataLen + 2 < 256 ^ 2 := by simpa using hlen
    have hn : ¬ (dataLen + 2 < 2) := by omega
    simp only [Header.decode, Header.encode, List.cons_append, List.append_assoc, readU8_cons, bind,
      Except.bind, toNat_ofNat_lt b0lt, e1, e2, e3, e4, e5, e6, U3.ofNat?_toNat, PDUType.ofNat?_toNat,
      Direction.ofNat?_toNat, TransmissionMode.ofNat?_toNat, CRCFlag.ofNat?_toNat,
      FileSizeFlag.ofNat?_toNat, Option.elim, readBE_beBytes 2 _ _ hl, hn, if_false,
      Nat.add_sub_cancel,
      toNat_ofNat_lt b3lt, f1, f2, f3, f4, SegmentationControl.ofNat?_toNat,
      SegmentedData.ofNat?_toNat, readN_append' _ _ l1, readN_append' _ _ l2,
      readN_append' _ _ l3, idOfBytes_toBe _ hs, idOfBytes_toBe _ hq, idOfBytes_toBe _ hd, pure,
      Except.pure]


/-! ### Filestore requests / responses, TLVs -/

def nameOk (v : Bytes) : Prop := v.length ≤ 255 ∧ validUtf8 v = true

def FsRequest.WF (q : FsRequest) : Prop := nameOk q.name1 ∧ nameOk q.name2

def FsResponse.WF (p : FsResponse) : Prop :=
  nameOk p.name1 ∧ nameOk p.name2 ∧ p.msg.length ≤ 255 ∧ p.status < 16 ∧ statusValid p.action p.status = true

theorem FsRequest.roundtrip (q : FsRequest) (r : Bytes) (h : q.WF) :
    FsRequest.decode (q.encode ++ r) = .ok (q, r) := by
  obtain ⟨action, n1, n2⟩ := q
  obtain ⟨⟨h1, u1⟩, ⟨h2, u2⟩⟩ := h
  simp only at h1 u1 h2 u2
  have ha := action.toNat_le
  have blt : action.toNat * 16 < 256 := by omega
  have e1 : action.toNat * 16 / 16 = action.toNat := by omega
  simp only [FsRequest.decode, FsRequest.encode, List.cons_append, List.append_assoc, readU8_cons,
    bind, Except.bind, toNat_ofNat_lt blt, e1, FileStoreAction.ofNat?_toNat, Option.elim,
    readName_encLV _ _ h1 u1, readName_encLV _ _ h2 u2, pure, Except.pure]

theorem FsResponse.roundtrip (p : FsResponse) (r : Bytes) (h : p.WF) :
    FsResponse.decode (p.encode ++ r) = .ok (p, r) := by
  obtain ⟨action, status, n1, n2, msg⟩ := p
  obtain ⟨⟨h1, u1⟩, ⟨h2, u2⟩, h3, h4, h5⟩ := h
  simp only at h1 u1 h2 u2 h3 h4 h5
  have ha := action.toNat_le
  have blt : action.toNat * 16 + status < 256 := by omega
  have e1 : (action.toNat * 16 + status) / 16 = action.toNat := by omega
  have e2 : (action.toNat * 16 + status) % 16 = status := by omega
  simp only [FsResponse.decode, FsResponse.encode, List.cons_append, List.append_assoc, readU8_cons,
    bind, Except.bind, toNat_ofNat_lt blt, e1, e2, FileStoreAction.ofNat?_toNat, Option.elim, h5,
    Bool.not_true, Bool.false_eq_true, if_false,
    readName_encLV _ _ h1 u1, readName_encLV _ _ h2 u2, readLV_encLV _ _ h3, pure, Except.pure]

def Tlv.WF : Tlv → Prop
  | .fsReq q => q.WF
  | .fsResp p => p.WF
  | .msg m => m.length ≤ 255
  | .fho _ => True
  | .flow v => v.length ≤ 255
  | .eid i => i.WF

theorem Tlv.roundtrip (t : Tlv) (r : Bytes) (h : t.WF) : Tlv.decode (t.encode ++ r) = .ok (t, r) := by
  cases t with
  | fsReq q =>
    simp only [Tlv.decode, Tlv.encode, Tlv.code, List.cons_append, readU8_cons, bind, Except.bind,
      toNat_ofNat_lt (show MetadataTLVFieldCode.FileStoreRequest.toNat < 256 by decide),
      MetadataTLVFieldCode.ofNat?_toNat, Option.elim, FsRequest.roundtrip q r h, pure, Except.pure]
  | fsResp p =>
    simp only [Tlv.decode, Tlv.encode, Tlv.code, List.cons_append, readU8_cons, bind, Except.bind,
      toNat_ofNat_lt (show MetadataTLVFieldCode.FileStoreResponse.toNat < 256 by decide),
      MetadataTLVFieldCode.ofNat?_toNat, Option.elim, FsResponse.roundtrip p r h, pure, Except.pure]
  | msg m =>
    simp only [Tlv.decode, Tlv.encode, Tlv.code, List.cons_append, readU8_cons, bind, Except.bind,
      toNat_ofNat_lt (show MetadataTLVFieldCode.MessageToUser.toNat < 256 by decide),
      MetadataTLVFieldCode.ofNat?_toNat, Option.elim, readLV_encLV m r h, pure, Except.pure]
  | fho c =>
    have hc := c.toNat_le
    simp only [Tlv.decode, Tlv.encode, Tlv.code, List.cons_append, List.nil_append, readU8_cons, bind,
      Except.bind,
      toNat_ofNat_lt (show MetadataTLVFieldCode.FaultHandlerOverride.toNat < 256 by decide),
      MetadataTLVFieldCode.ofNat?_toNat, Option.elim, toNat_ofNat_lt (show c.toNat < 256 by omega),
      HandlerCode.ofNat?_toNat, pure, Except.pure]
  | flow v =>
    simp only [Tlv.decode, Tlv.encode, Tlv.code, List.cons_append, readU8_cons, bind, Except.bind,
      toNat_ofNat_lt (show MetadataTLVFieldCode.FlowLabel.toNat < 256 by decide),
      MetadataTLVFieldCode.ofNat?_toNat, Option.elim, readLV_encLV v r h, pure, Except.pure]
  | eid i =>
    simp only [Tlv.decode, Tlv.encode, Tlv.code, List.cons_append, readU8_cons, bind, Except.bind,
      toNat_ofNat_lt (show MetadataTLVFieldCode.EntityID.toNat < 256 by decide),
      MetadataTLVFieldCode.ofNat?_toNat, Option.elim, VarId.roundtrip i r h, pure, Except.pure]

end Cfdp.Codec
