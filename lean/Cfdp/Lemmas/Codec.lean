import Cfdp.Model.Codec.Pdu

/-! Helper lemmas for the codec round trips (C05 / C06 / C15). -/
namespace Cfdp.Codec
open Cfdp.Gen

@[simp] theorem toNat_ofNat_lt {n : Nat} (h : n < 256) : (UInt8.ofNat n).toNat = n := by
  simp [UInt8.toNat_ofNat', Nat.mod_eq_of_lt h]

@[simp] theorem readU8_cons (b : UInt8) (r : Bytes) : readU8 (b :: r) = .ok (b, r) := rfl

theorem readN_append (xs r : Bytes) : readN xs.length (xs ++ r) = .ok (xs, r) := by
  simp [readN]

theorem readN_append' {n : Nat} (xs r : Bytes) (h : xs.length = n) : readN n (xs ++ r) = .ok (xs, r) := by
  subst h; exact readN_append xs r

@[simp] theorem beBytes_length (w x : Nat) : (beBytes w x).length = w := by
  induction w generalizing x with
  | zero => rfl
  | succ w ih => simp [beBytes, ih]

theorem beVal_beBytes (w x : Nat) (h : x < 256 ^ w) : beVal (beBytes w x) = x := by
  induction w generalizing x with
  | zero => simp at h; subst h; rfl
  | succ w ih =>
    have hpos : 0 < 256 ^ w := Nat.pow_pos (by decide)
    have hq : x / 256 ^ w < 256 := by
      rw [Nat.div_lt_iff_lt_mul hpos]; rw [Nat.pow_succ] at h; rw [Nat.mul_comm]; exact h
    simp only [beBytes, beVal, beBytes_length, toNat_ofNat_lt hq]
    rw [ih _ (Nat.mod_lt _ hpos)]
    exact Nat.div_add_mod' x (256 ^ w)

theorem beVal_lt (bs : Bytes) : beVal bs < 256 ^ bs.length := by
  induction bs with
  | nil => simp [beVal]
  | cons b r ih =>
    have hb := b.toNat_lt
    simp only [beVal, List.length_cons, Nat.pow_succ]
    have : b.toNat * 256 ^ r.length ≤ 255 * 256 ^ r.length := Nat.mul_le_mul_right _ (by omega)
    omega

theorem beBytes_beVal (bs : Bytes) : beBytes bs.length (beVal bs) = bs := by
  induction bs with
  | nil => rfl
  | cons b r ih =>
    have hpos : 0 < 256 ^ r.length := Nat.pow_pos (by decide)
    have hlt := beVal_lt r
    simp only [List.length_cons, beBytes, beVal]
    have h1 : (b.toNat * 256 ^ r.length + beVal r) / 256 ^ r.length = b.toNat := by
      rw [Nat.mul_comm, Nat.mul_add_div hpos, Nat.div_eq_of_lt hlt]; simp
    have h2 : (b.toNat * 256 ^ r.length + beVal r) % 256 ^ r.length = beVal r := by
      rw [Nat.mul_comm, Nat.mul_add_mod, Nat.mod_eq_of_lt hlt]
    rw [h1, h2, ih]
    simp

theorem readBE_beBytes (w x : Nat) (r : Bytes) (h : x < 256 ^ w) :
    readBE w (beBytes w x ++ r) = .ok (x, r) := by
  simp [readBE, readN_append' (beBytes w x) r (beBytes_length w x), beVal_beBytes w x h]

theorem readLV_encLV (v r : Bytes) (h : v.length ≤ 255) : readLV (encLV v ++ r) = .ok (v, r) := by
  simp only [encLV, List.cons_append, readLV, readU8_cons]
  rw [toNat_ofNat_lt (by omega)]
  exact readN_append v r

theorem readName_encLV (v r : Bytes) (h : v.length ≤ 255) (hu : validUtf8 v = true) :
    readName (encLV v ++ r) = .ok (v, r) := by
  simp [readName, readLV_encLV v r h, hu]

/-! ### VariableID -/

def VarId.WF (i : VarId) : Prop :=
  (i.width = 1 ∨ i.width = 2 ∨ i.width = 4 ∨ i.width = 8) ∧ i.val < 256 ^ i.width

theorem idOfBytes_toBe (i : VarId) (h : i.WF) : idOfBytes i.toBe = .ok i := by
  obtain ⟨w, v⟩ := i
  obtain ⟨hw, hv⟩ := h
  simp only [VarId.toBe, idOfBytes, beBytes_length]
  simp only at hw hv
  simp [hw, beVal_beBytes w v hv]

theorem VarId.roundtrip (i : VarId) (r : Bytes) (h : i.WF) : VarId.decode (i.encode ++ r) = .ok (i, r) := by
  have hw := h.1
  have hlt : i.width - 1 < 256 := by omega
  have hlen : i.toBe.length = i.width - 1 + 1 := by simp [VarId.toBe]; omega
  simp only [VarId.decode, VarId.encode, List.cons_append, readU8_cons, bind, Except.bind,
    toNat_ofNat_lt hlt, readN_append' i.toBe r hlen, idOfBytes_toBe i h, pure, Except.pure]


/-! ### Header -/

def Header.WF (h : Header) : Prop :=
  h.src.WF ∧ h.seq.WF ∧ h.dst.WF ∧ h.src.width = h.dst.width ∧
  (match h.crc with | .NotPresent => h.dataLen < 65536 | .Present => h.dataLen + 2 < 65536)

theorem Header.roundtrip (h : Header) (r : Bytes) (hw : h.WF) :
    Header.decode (h.encode ++ r) = .ok (h, r) := by
  obtain ⟨version, pduType, direction, mode, crc, large, dataLen, segCtrl, segMeta, src, seq, dst⟩ := h
  obtain ⟨hs, hq, hd, hsd, hlen⟩ := hw
  simp only at hs hq hd hsd hlen
  have v1 := version.toNat_le; have v2 := pduType.toNat_le; have v3 := direction.toNat_le
  have v4 := mode.toNat_le; have v5 := crc.toNat_le; have v6 := large.toNat_le
  have v7 := segCtrl.toNat_le; have v8 := segMeta.toNat_le
  have hsw := hs.1; have hqw := hq.1
  -- first octet
  have b0lt : version.toNat * 32 + pduType.toNat * 16 + direction.toNat * 8
      + mode.toNat * 4 + crc.toNat * 2 + large.toNat < 256 := by omega
  have e1 : (version.toNat * 32 + pduType.toNat * 16 + direction.toNat * 8
      + mode.toNat * 4 + crc.toNat * 2 + large.toNat) / 32 = version.toNat := by omega
  have e2 : (version.toNat * 32 + pduType.toNat * 16 + direction.toNat * 8
      + mode.toNat * 4 + crc.toNat * 2 + large.toNat) / 16 % 2 = pduType.toNat := by omega
  have e3 : (version.toNat * 32 + pduType.toNat * 16 + direction.toNat * 8
      + mode.toNat * 4 + crc.toNat * 2 + large.toNat) / 8 % 2 = direction.toNat := by omega
  have e4 : (version.toNat * 32 + pduType.toNat * 16 + direction.toNat * 8
      + mode.toNat * 4 + crc.toNat * 2 + large.toNat) / 4 % 2 = mode.toNat := by omega
  have e5 : (version.toNat * 32 + pduType.toNat * 16 + direction.toNat * 8
      + mode.toNat * 4 + crc.toNat * 2 + large.toNat) / 2 % 2 = crc.toNat := by omega
  have e6 : (version.toNat * 32 + pduType.toNat * 16 + direction.toNat * 8
      + mode.toNat * 4 + crc.toNat * 2 + large.toNat) % 2 = large.toNat := by omega
  -- fourth octet
  have b3lt : segCtrl.toNat * 128 + (src.width - 1) * 16 + segMeta.toNat * 8 + (seq.width - 1) < 256 := by omega
  have f1 : (segCtrl.toNat * 128 + (src.width - 1) * 16 + segMeta.toNat * 8 + (seq.width - 1)) / 128
      = segCtrl.toNat := by omega
  have f2 : (segCtrl.toNat * 128 + (src.width - 1) * 16 + segMeta.toNat * 8 + (seq.width - 1)) / 8 % 2
      = segMeta.toNat := by omega
  have f3 : (segCtrl.toNat * 128 + (src.width - 1) * 16 + segMeta.toNat * 8 + (seq.width - 1)) / 16 % 8 + 1
      = src.width := by omega
  have f4 : (segCtrl.toNat * 128 + (src.width - 1) * 16 + segMeta.toNat * 8 + (seq.width - 1)) % 8 + 1
      = seq.width := by omega
  have l1 : src.toBe.length = src.width := by simp [VarId.toBe]
  have l2 : seq.toBe.length = seq.width := by simp [VarId.toBe]
  have l3 : dst.toBe.length = src.width := by simp [VarId.toBe, hsd]
  cases crc
  · have hl : dataLen < 256 ^ 2 := by simpa using hlen
    simp only [Header.decode, Header.encode, List.cons_append, List.append_assoc, readU8_cons, bind,
      Except.bind, toNat_ofNat_lt b0lt, e1, e2, e3, e4, e5, e6, U3.ofNat?_toNat, PDUType.ofNat?_toNat,
      Direction.ofNat?_toNat, TransmissionMode.ofNat?_toNat, CRCFlag.ofNat?_toNat,
      FileSizeFlag.ofNat?_toNat, Option.elim, readBE_beBytes 2 _ _ hl,
      toNat_ofNat_lt b3lt, f1, f2, f3, f4, SegmentationControl.ofNat?_toNat,
      SegmentedData.ofNat?_toNat, readN_append' _ _ l1, readN_append' _ _ l2,
      readN_append' _ _ l3, idOfBytes_toBe _ hs, idOfBytes_toBe _ hq, idOfBytes_toBe _ hd, pure,
      Except.pure]
  · have hl : dataLen + 2 < 256 ^ 2 := by simpa using hlen
    have hn : ¬ (dataLen + 2 < 2) := by omega
    simp only [Header.decode, Header.encode, List.cons_append, List.append_assoc, readU8_cons, bind,
      Except.bind, toNat_ofNat_lt b0lt, e1, e2, e3, e4, e5, e6, U3.ofNat?_toNat, PDUType.ofNat?_toNat,
      Direction.ofNat?_toNat, TransmissionMode.ofNat?_toNat, CRCFlag.ofNat?_toNat,
      FileSizeFlag.ofNat?_toNat, Option.elim, readBE_beBytes 2 _ _ hl, hn, if_false,
      Nat.add_sub_cancel,
      toNat_ofNat_lt b3lt, f1, f2, f3, f4, SegmentationControl.ofNat?_toNat,
      SegmentedData.ofNat?_toNat, readN_append' _ _ l1, readN_append' _ _ l2,
      readN_append' _ _ l3, idOfBytes_toBe _ hs, idOfBytes_toBe _ hq, idOfBytes_toBe _ hd, pure,
      Except.pure]


/-! ### Filestore requests / responses, TLVs -/

def nameOk (v : Bytes) : Prop := v.length ≤ 255 ∧ validUtf8 v = true

def FsRequest.WF (q : FsRequest) : Prop := nameOk q.name1 ∧ nameOk q.name2

def FsResponse.WF (p : FsResponse) : Prop :=
  nameOk p.name1 ∧ nameOk p.name2 ∧ p.msg.length ≤ 255 ∧ p.status < 16 ∧ statusValid p.action p.status = true

theorem FsRequest.roundtrip (q : FsRequest) (r : Bytes) (h : q.WF) :
    FsRequest.decode (q.encode ++ r) = .ok (q, r) := by
  obtain ⟨action, n1, n2⟩ := q
  obtain ⟨⟨h1, u1⟩, ⟨h2, u2⟩⟩ := h
  simp only at h1 u1 h2 u2
  have ha := action.toNat_le
  have blt : action.toNat * 16 < 256 := by omega
  have e1 : action.toNat * 16 / 16 = action.toNat := by omega
  simp only [FsRequest.decode, FsRequest.encode, List.cons_append, List.append_assoc, readU8_cons,
    bind, Except.bind, toNat_ofNat_lt blt, e1, FileStoreAction.ofNat?_toNat, Option.elim,
    readName_encLV _ _ h1 u1, readName_encLV _ _ h2 u2, pure, Except.pure]

theorem FsResponse.roundtrip (p : FsResponse) (r : Bytes) (h : p.WF) :
    FsResponse.decode (p.encode ++ r) = .ok (p, r) := by
  obtain ⟨action, status, n1, n2, msg⟩ := p
  obtain ⟨⟨h1, u1⟩, ⟨h2, u2⟩, h3, h4, h5⟩ := h
  simp only at h1 u1 h2 u2 h3 h4 h5
  have ha := action.toNat_le
  have blt : action.toNat * 16 + status < 256 := by omega
  have e1 : (action.toNat * 16 + status) / 16 = action.toNat := by omega
  have e2 : (action.toNat * 16 + status) % 16 = status := by omega
  simp only [FsResponse.decode, FsResponse.encode, List.cons_append, List.append_assoc, readU8_cons,
    bind, Except.bind, toNat_ofNat_lt blt, e1, e2, FileStoreAction.ofNat?_toNat, Option.elim, h5,
    Bool.not_true, Bool.false_eq_true, if_false,
    readName_encLV _ _ h1 u1, readName_encLV _ _ h2 u2, readLV_encLV _ _ h3, pure, Except.pure]

def Tlv.WF : Tlv → Prop
  | .fsReq q => q.WF
  | .fsResp p => p.WF
  | .msg m => m.length ≤ 255
  | .fho _ => True
  | .flow v => v.length ≤ 255
  | .eid i => i.WF

theorem Tlv.roundtrip (t : Tlv) (r : Bytes) (h : t.WF) : Tlv.decode (t.encode ++ r) = .ok (t, r) := by
  cases t with
  | fsReq q =>
    simp only [Tlv.decode, Tlv.encode, Tlv.code, List.cons_append, readU8_cons, bind, Except.bind,
      toNat_ofNat_lt (show MetadataTLVFieldCode.FileStoreRequest.toNat < 256 by decide),
      MetadataTLVFieldCode.ofNat?_toNat, Option.elim, FsRequest.roundtrip q r h, pure, Except.pure]
  | fsResp p =>
    simp only [Tlv.decode, Tlv.encode, Tlv.code, List.cons_append, readU8_cons, bind, Except.bind,
      toNat_ofNat_lt (show MetadataTLVFieldCode.FileStoreResponse.toNat < 256 by decide),
      MetadataTLVFieldCode.ofNat?_toNat, Option.elim, FsResponse.roundtrip p r h, pure, Except.pure]
  | msg m =>
    simp only [Tlv.decode, Tlv.encode, Tlv.code, List.cons_append, readU8_cons, bind, Except.bind,
      toNat_ofNat_lt (show MetadataTLVFieldCode.MessageToUser.toNat < 256 by decide),
      MetadataTLVFieldCode.ofNat?_toNat, Option.elim, readLV_encLV m r h, pure, Except.pure]
  | fho c =>
    have hc := c.toNat_le
    simp only [Tlv.decode, Tlv.encode, Tlv.code, List.cons_append, List.nil_append, readU8_cons, bind,
      Except.bind,
      toNat_ofNat_lt (show MetadataTLVFieldCode.FaultHandlerOverride.toNat < 256 by decide),
      MetadataTLVFieldCode.ofNat?_toNat, Option.elim, toNat_ofNat_lt (show c.toNat < 256 by omega),
      HandlerCode.ofNat?_toNat, pure, Except.pure]
  | flow v =>
    simp only [Tlv.decode, Tlv.encode, Tlv.code, List.cons_append, readU8_cons, bind, Except.bind,
      toNat_ofNat_lt (show MetadataTLVFieldCode.FlowLabel.toNat < 256 by decide),
      MetadataTLVFieldCode.ofNat?_toNat, Option.elim, readLV_encLV v r h, pure, Except.pure]
  | eid i =>
    simp only [Tlv.decode, Tlv.encode, Tlv.code, List.cons_append, readU8_cons, bind, Except.bind,
      toNat_ofNat_lt (show MetadataTLVFieldCode.EntityID.toNat < 256 by decide),
      MetadataTLVFieldCode.ofNat?_toNat, Option.elim, VarId.roundtrip i r h, pure, Except.pure]


/-! ### Directives -/

def faultWF : Option VarId → Prop
  | none => True
  | some i => i.WF

theorem fssLen_pos (fss : FileSizeFlag) : fssLen fss = 4 ∨ fssLen fss = 8 := by cases fss <;> simp [fssLen]

def Eof.WF (e : Eof) (fss : FileSizeFlag) : Prop :=
  e.checksum < 256 ^ 4 ∧ e.fileSize < 256 ^ fssLen fss ∧ faultWF e.fault ∧
  (e.cond = .NoError ↔ e.fault = none)

theorem Eof.roundtrip (e : Eof) (fss : FileSizeFlag) (r : Bytes) (h : e.WF fss) :
    Eof.decode fss (e.encode fss ++ r) = .ok (e, r) := by
  obtain ⟨cond, checksum, fileSize, fault⟩ := e
  obtain ⟨h1, h2, h3, h4⟩ := h
  simp only at h1 h2 h3 h4
  have hc := cond.toNat_le
  have blt : cond.toNat * 16 < 256 := by omega
  have e1 : cond.toNat * 16 / 16 = cond.toNat := by omega
  cases fault with
  | none =>
    have : cond = .NoError := h4.mpr rfl
    subst this
    simp only [Eof.decode, Eof.encode, encFault, List.cons_append, List.append_assoc, List.append_nil,
      readU8_cons, bind, Except.bind, toNat_ofNat_lt blt, e1, Condition.ofNat?_toNat, Option.elim,
      readBE_beBytes 4 _ _ h1, readBE_beBytes _ _ _ h2, pure, Except.pure]
  | some i =>
    have hne : cond ≠ .NoError := fun hh => by have := h4.mp hh; cases this
    simp only [Eof.decode, Eof.encode, encFault, List.cons_append, List.append_assoc,
      readU8_cons, bind, Except.bind, toNat_ofNat_lt blt, e1, Condition.ofNat?_toNat, Option.elim,
      readBE_beBytes 4 _ _ h1, readBE_beBytes _ _ _ h2,
      toNat_ofNat_lt (show MetadataTLVFieldCode.EntityID.toNat < 256 by decide),
      MetadataTLVFieldCode.ofNat?_toNat, VarId.roundtrip i r h3, pure, Except.pure]

def Ack.WF (a : Ack) : Prop :=
  (a.directive = .EoF ∧ a.sub = .Other) ∨ (a.directive = .Finished ∧ a.sub = .Finished)

theorem Ack.roundtrip (a : Ack) (r : Bytes) (h : a.WF) : Ack.decode (a.encode ++ r) = .ok (a, r) := by
  obtain ⟨directive, sub, cond, status⟩ := a
  have hc := cond.toNat_le
  have hs := status.toNat_le
  have blt : cond.toNat * 16 + status.toNat < 256 := by omega
  have e1 : (cond.toNat * 16 + status.toNat) / 16 = cond.toNat := by omega
  have e2 : (cond.toNat * 16 + status.toNat) % 4 = status.toNat := by omega
  rcases h with ⟨hd, hsb⟩ | ⟨hd, hsb⟩ <;> simp only at hd hsb <;> subst hd <;> subst hsb
  · simp only [Ack.decode, Ack.encode, List.cons_append, List.nil_append, readU8_cons, bind, Except.bind,
      toNat_ofNat_lt (show PDUDirective.EoF.toNat * 16 + ACKSubDirective.Other.toNat < 256 by decide),
      show (PDUDirective.EoF.toNat * 16 + ACKSubDirective.Other.toNat) / 16 = PDUDirective.EoF.toNat by decide,
      show (PDUDirective.EoF.toNat * 16 + ACKSubDirective.Other.toNat) % 16 = ACKSubDirective.Other.toNat by decide,
      PDUDirective.ofNat?_toNat, ACKSubDirective.ofNat?_toNat, Option.elim, toNat_ofNat_lt blt, e1, e2,
      Condition.ofNat?_toNat, TransactionStatus.ofNat?_toNat, pure, Except.pure]
  · simp only [Ack.decode, Ack.encode, List.cons_append, List.nil_append, readU8_cons, bind, Except.bind,
      toNat_ofNat_lt (show PDUDirective.Finished.toNat * 16 + ACKSubDirective.Finished.toNat < 256 by decide),
      show (PDUDirective.Finished.toNat * 16 + ACKSubDirective.Finished.toNat) / 16 = PDUDirective.Finished.toNat by decide,
      show (PDUDirective.Finished.toNat * 16 + ACKSubDirective.Finished.toNat) % 16 = ACKSubDirective.Finished.toNat by decide,
      PDUDirective.ofNat?_toNat, ACKSubDirective.ofNat?_toNat, Option.elim, toNat_ofNat_lt blt, e1, e2,
      Condition.ofNat?_toNat, TransactionStatus.ofNat?_toNat, pure, Except.pure]

/-! #### list-valued tails (`read_to_end` + `while !remaining.is_empty()`) -/

theorem Tlv.encode_ne_nil (t : Tlv) : t.encode ≠ [] := by simp [Tlv.encode]

theorem decTlvs_encTlvs (ts : List Tlv) (fuel : Nat) (h : ∀ t ∈ ts, t.WF)
    (hf : (encTlvs ts).length < fuel) : decTlvs fuel (encTlvs ts) = .ok ts := by
  induction ts generalizing fuel with
  | nil =>
    cases fuel with
    | zero => simp at hf
    | succ f => simp [encTlvs, decTlvs]
  | cons t ts ih =>
    cases fuel with
    | zero => simp at hf
    | succ f =>
      have ht := h t (List.mem_cons_self ..)
      have hne := Tlv.encode_ne_nil t
      have hlen : (encTlvs ts).length < f := by
        simp only [encTlvs, List.length_append] at hf
        have : 0 < t.encode.length := List.length_pos_iff.mpr hne
        omega
      have ih' := ih f (fun t ht => h t (List.mem_cons_of_mem _ ht)) hlen
      simp only [encTlvs]
      cases hte : t.encode ++ encTlvs ts with
      | nil => simp at hte; exact absurd hte.1 hne
      | cons b bs =>
        simp only [decTlvs]
        rw [← hte, Tlv.roundtrip t _ ht]
        simp only [bind, Except.bind, ih', pure, Except.pure]

theorem decRequests_encRequests (w : Nat) (hw : 0 < w) (rs : List (Nat × Nat)) (fuel : Nat)
    (h : ∀ q ∈ rs, q.1 < 256 ^ w ∧ q.2 < 256 ^ w)
    (hf : (encRequests w rs).length < fuel) : decRequests w fuel (encRequests w rs) = .ok rs := by
  induction rs generalizing fuel with
  | nil =>
    cases fuel with
    | zero => simp at hf
    | succ f => simp [encRequests, decRequests]
  | cons q rs ih =>
    obtain ⟨a, b⟩ := q
    cases fuel with
    | zero => simp at hf
    | succ f =>
      have hq := h (a, b) (List.mem_cons_self ..)
      have hlen : (encRequests w rs).length < f := by
        simp only [encRequests, List.length_append, beBytes_length] at hf
        omega
      have ih' := ih f (fun t ht => h t (List.mem_cons_of_mem _ ht)) hlen
      simp only [encRequests, List.append_assoc]
      cases hte : beBytes w a ++ (beBytes w b ++ encRequests w rs) with
      | nil =>
        have := congrArg List.length hte
        simp at this; omega
      | cons x xs =>
        simp only [decRequests]
        rw [← hte, readBE_beBytes w a _ hq.1]
        simp only [bind, Except.bind, readBE_beBytes w b _ hq.2, ih', pure, Except.pure]

def Nak.WF (n : Nak) (fss : FileSizeFlag) : Prop :=
  n.scopeStart < 256 ^ fssLen fss ∧ n.scopeEnd < 256 ^ fssLen fss ∧
  ∀ q ∈ n.requests, q.1 < 256 ^ fssLen fss ∧ q.2 < 256 ^ fssLen fss

theorem Nak.roundtrip (n : Nak) (fss : FileSizeFlag) (h : n.WF fss) :
    Nak.decode fss (n.encode fss) = .ok (n, []) := by
  obtain ⟨s, e, rs⟩ := n
  obtain ⟨h1, h2, h3⟩ := h
  have hw : 0 < fssLen fss := by rcases fssLen_pos fss with h | h <;> omega
  simp only [Nak.decode, Nak.encode, List.append_assoc, bind, Except.bind, readBE_beBytes _ _ _ h1,
    readBE_beBytes _ _ _ h2, decRequests_encRequests _ hw rs _ h3 (Nat.lt_succ_self _), pure, Except.pure]

def Metadata.WF (m : Metadata) (fss : FileSizeFlag) : Prop :=
  m.fileSize < 256 ^ fssLen fss ∧ nameOk m.srcName ∧ nameOk m.dstName ∧ ∀ t ∈ m.options, t.WF

theorem Metadata.roundtrip (m : Metadata) (fss : FileSizeFlag) (h : m.WF fss) :
    Metadata.decode fss (m.encode fss) = .ok (m, []) := by
  obtain ⟨closure, ck, size, sn, dn, opts⟩ := m
  obtain ⟨h1, ⟨h2, u2⟩, ⟨h3, u3⟩, h4⟩ := h
  simp only at h1 h2 u2 h3 u3 h4
  have hk := ck.toNat_le
  have blt : (if closure then 1 else 0) * 64 + ck.toNat < 256 := by split <;> omega
  have e1 : (((if closure then 1 else 0) * 64 + ck.toNat) / 64 % 2 != 0) = closure := by
    cases closure <;> simp <;> omega
  have e2 : ((if closure then 1 else 0) * 64 + ck.toNat) % 16 = ck.toNat := by
    have : ck.toNat = 0 ∨ ck.toNat = 15 := by cases ck <;> simp [ChecksumType.toNat]
    split <;> omega
  simp only [Metadata.decode, Metadata.encode, List.cons_append, List.append_assoc, readU8_cons, bind,
    Except.bind, toNat_ofNat_lt blt, e1, e2, ChecksumType.ofNat?_toNat, Option.elim,
    readBE_beBytes _ _ _ h1, readName_encLV _ _ h2 u2, readName_encLV _ _ h3 u3,
    decTlvs_encTlvs opts _ h4 (Nat.lt_succ_self _), pure, Except.pure]


/-! #### Finished -/

def Finished.WF (f : Finished) : Prop :=
  (∀ p ∈ f.responses, p.WF ∧ p.encode.length ≤ 255) ∧ faultWF f.fault ∧ (f.cond = .NoError → f.fault = none)

theorem finishedLoop_spec (cond : Condition) (fault : Option VarId) (ps acc : List FsResponse) (fuel : Nat)
    (hps : ∀ p ∈ ps, p.WF ∧ p.encode.length ≤ 255) (hfw : faultWF fault)
    (hc : cond = .NoError → fault = none)
    (hf : (encResponses ps ++ encFault fault).length < fuel) :
    finishedLoop cond fuel (encResponses ps ++ encFault fault) acc none = .ok (acc.reverse ++ ps, fault) := by
  induction ps generalizing acc fuel with
  | nil =>
    cases fuel with
    | zero => simp at hf
    | succ f =>
      cases fault with
      | none => simp [encResponses, encFault, finishedLoop]
      | some i =>
        have hne : cond ≠ .NoError := fun hh => by have := hc hh; cases this
        have hdec : VarId.decode i.encode = .ok (i, []) := by simpa using VarId.roundtrip i [] hfw
        cases f with
        | zero => simp [encResponses, encFault, VarId.encode] at hf
        | succ f' =>
          simp only [encResponses, encFault, List.nil_append, finishedLoop, bind, Except.bind,
            toNat_ofNat_lt (show MetadataTLVFieldCode.EntityID.toNat < 256 by decide),
            MetadataTLVFieldCode.ofNat?_toNat, Option.elim, hne, if_false, hdec, List.append_nil]
  | cons p ps ih =>
    cases fuel with
    | zero => simp at hf
    | succ f =>
      obtain ⟨hp, hl⟩ := hps p (List.mem_cons_self ..)
      have hdec : FsResponse.decode p.encode = .ok (p, []) := by simpa using FsResponse.roundtrip p [] hp
      have hrest : (encResponses ps ++ encFault fault).length < f := by
        simp only [encResponses, List.cons_append, List.length_cons, List.length_append] at hf ⊢
        omega
      have ih' := ih (p :: acc) f (fun q hq => hps q (List.mem_cons_of_mem _ hq)) hrest
      have hlv : readLV (UInt8.ofNat p.encode.length :: (p.encode ++ (encResponses ps ++ encFault fault)))
          = .ok (p.encode, encResponses ps ++ encFault fault) := by
        have := readLV_encLV p.encode (encResponses ps ++ encFault fault) hl
        simpa [encLV] using this
      simp only [encResponses, List.cons_append, List.append_assoc, finishedLoop, bind, Except.bind,
        toNat_ofNat_lt (show MetadataTLVFieldCode.FileStoreResponse.toNat < 256 by decide),
        MetadataTLVFieldCode.ofNat?_toNat, Option.elim, hlv, hdec, ih']
      simp

theorem Finished.roundtrip (f : Finished) (h : f.WF) : Finished.decode f.encode = .ok (f, []) := by
  obtain ⟨cond, delivery, fileStatus, responses, fault⟩ := f
  obtain ⟨h1, h2, h3⟩ := h
  simp only at h1 h2 h3
  have hc := cond.toNat_le; have hd := delivery.toNat_le; have hs := fileStatus.toNat_le
  have blt : cond.toNat * 16 + delivery.toNat * 4 + fileStatus.toNat < 256 := by omega
  have e1 : (cond.toNat * 16 + delivery.toNat * 4 + fileStatus.toNat) / 16 = cond.toNat := by omega
  have e2 : (cond.toNat * 16 + delivery.toNat * 4 + fileStatus.toNat) / 4 % 2 = delivery.toNat := by omega
  have e3 : (cond.toNat * 16 + delivery.toNat * 4 + fileStatus.toNat) % 4 = fileStatus.toNat := by omega
  have hl := finishedLoop_spec cond fault responses [] _ h1 h2 h3 (Nat.lt_succ_self _)
  simp only [Finished.decode, Finished.encode, readU8_cons, bind, Except.bind, toNat_ofNat_lt blt, e1, e2,
    e3, Condition.ofNat?_toNat, DeliveryCode.ofNat?_toNat, FileStatusCode.ofNat?_toNat, Option.elim, hl,
    pure, Except.pure]
  simp


/-! ### Payload -/

def Payload.WF (p : Payload) (fss : FileSizeFlag) : Prop :=
  match p with
  | .eof e => e.WF fss
  | .finished f => f.WF
  | .ack a => a.WF
  | .metadata m => m.WF fss
  | .nak n => n.WF fss
  | .prompt _ => True
  | .keepAlive g => g < 256 ^ fssLen fss
  | .fileData off _ => off < 256 ^ fssLen fss
  | .fileDataSeg _ m off _ => m.length ≤ 63 ∧ off < 256 ^ fssLen fss

/-- header type / segment-metadata flag agree with the kind of payload -/
def Payload.compat (p : Payload) (t : PDUType) (seg : SegmentedData) : Prop :=
  match p with
  | .fileData _ _ => t = .FileData ∧ seg = .NotPresent
  | .fileDataSeg _ _ _ _ => t = .FileData ∧ seg = .Present
  | _ => t = .FileDirective

theorem Payload.roundtrip (p : Payload) (t : PDUType) (fss : FileSizeFlag) (seg : SegmentedData)
    (hw : p.WF fss) (hc : p.compat t seg) :
    decodePayload t fss seg (p.encode fss) = .ok (p, []) := by
  cases p with
  | eof e =>
    simp only [Payload.compat] at hc; subst hc
    have := Eof.roundtrip e fss [] hw
    simp only [List.append_nil] at this
    simp only [decodePayload, decodeDirective, Payload.encode, readU8_cons, bind, Except.bind,
      toNat_ofNat_lt (show PDUDirective.EoF.toNat < 256 by decide), PDUDirective.ofNat?_toNat,
      Option.elim, this, pure, Except.pure]
  | finished f =>
    simp only [Payload.compat] at hc; subst hc
    simp only [decodePayload, decodeDirective, Payload.encode, readU8_cons, bind, Except.bind,
      toNat_ofNat_lt (show PDUDirective.Finished.toNat < 256 by decide), PDUDirective.ofNat?_toNat,
      Option.elim, Finished.roundtrip f hw, pure, Except.pure]
  | ack a =>
    simp only [Payload.compat] at hc; subst hc
    have := Ack.roundtrip a [] hw
    simp only [List.append_nil] at this
    simp only [decodePayload, decodeDirective, Payload.encode, readU8_cons, bind, Except.bind,
      toNat_ofNat_lt (show PDUDirective.Ack.toNat < 256 by decide), PDUDirective.ofNat?_toNat,
      Option.elim, this, pure, Except.pure]
  | metadata m =>
    simp only [Payload.compat] at hc; subst hc
    simp only [decodePayload, decodeDirective, Payload.encode, readU8_cons, bind, Except.bind,
      toNat_ofNat_lt (show PDUDirective.Metadata.toNat < 256 by decide), PDUDirective.ofNat?_toNat,
      Option.elim, Metadata.roundtrip m fss hw, pure, Except.pure]
  | nak n =>
    simp only [Payload.compat] at hc; subst hc
    simp only [decodePayload, decodeDirective, Payload.encode, readU8_cons, bind, Except.bind,
      toNat_ofNat_lt (show PDUDirective.Nak.toNat < 256 by decide), PDUDirective.ofNat?_toNat,
      Option.elim, Nak.roundtrip n fss hw, pure, Except.pure]
  | prompt k =>
    simp only [Payload.compat] at hc; subst hc
    have hk := k.toNat_le
    have blt : k.toNat * 128 < 256 := by omega
    have e1 : k.toNat * 128 / 128 = k.toNat := by omega
    simp only [decodePayload, decodeDirective, Payload.encode, readU8_cons, bind, Except.bind,
      toNat_ofNat_lt (show PDUDirective.Prompt.toNat < 256 by decide), PDUDirective.ofNat?_toNat,
      Option.elim, toNat_ofNat_lt blt, e1, NakOrKeepAlive.ofNat?_toNat, pure, Except.pure]
  | keepAlive g =>
    simp only [Payload.compat] at hc; subst hc
    have := readBE_beBytes (fssLen fss) g [] hw
    simp only [List.append_nil] at this
    simp only [decodePayload, decodeDirective, Payload.encode, readU8_cons, bind, Except.bind,
      toNat_ofNat_lt (show PDUDirective.KeepAlive.toNat < 256 by decide), PDUDirective.ofNat?_toNat,
      Option.elim, this, pure, Except.pure]
  | fileData off d =>
    obtain ⟨h1, h2⟩ := hc; subst h1; subst h2
    simp only [decodePayload, decodeFileData, Payload.encode, bind, Except.bind,
      readBE_beBytes _ off d hw, pure, Except.pure]
  | fileDataSeg rcs m off d =>
    obtain ⟨h1, h2⟩ := hc; subst h1; subst h2
    obtain ⟨hm, ho⟩ := hw
    have hr := rcs.toNat_le
    have blt : rcs.toNat * 64 + m.length < 256 := by omega
    have e1 : (rcs.toNat * 64 + m.length) / 64 = rcs.toNat := by omega
    have e2 : (rcs.toNat * 64 + m.length) % 64 = m.length := by omega
    simp only [decodePayload, decodeFileData, Payload.encode, List.append_assoc, readU8_cons, bind,
      Except.bind, toNat_ofNat_lt blt, e1, e2, RecordContinuationState.ofNat?_toNat, Option.elim,
      readN_append, readBE_beBytes _ off d ho, pure, Except.pure]

/-! ### lengths: `encoded_len` is the number of bytes produced -/

@[simp] theorem encLV_length (v : Bytes) : (encLV v).length = 1 + v.length := by simp [encLV]; omega
@[simp] theorem VarId.toBe_length (i : VarId) : i.toBe.length = i.width := by simp [VarId.toBe]
@[simp] theorem VarId.encode_length (i : VarId) : i.encode.length = 1 + i.width := by
  simp [VarId.encode]; omega

theorem Header.encode_length (h : Header) : h.encode.length = h.len := by
  simp [Header.encode, Header.len]; omega

theorem FsRequest.encode_length (q : FsRequest) : q.encode.length = q.len := by
  simp [FsRequest.encode, FsRequest.len]; omega

theorem FsResponse.encode_length (p : FsResponse) : p.encode.length = p.len := by
  simp [FsResponse.encode, FsResponse.len]; omega

theorem Tlv.encode_length (t : Tlv) : t.encode.length = t.len := by
  cases t <;> simp [Tlv.encode, Tlv.len, FsRequest.encode_length, FsResponse.encode_length] <;> omega

theorem encFault_length (f : Option VarId) : (encFault f).length = faultLen f := by
  cases f <;> simp [encFault, faultLen]; omega

theorem encTlvs_length (ts : List Tlv) : (encTlvs ts).length = (ts.map Tlv.len).sum := by
  induction ts with
  | nil => rfl
  | cons t ts ih => simp [encTlvs, Tlv.encode_length, ih]

theorem encResponses_length (ps : List FsResponse) :
    (encResponses ps).length = (ps.map (fun p => 1 + 1 + p.len)).sum := by
  induction ps with
  | nil => rfl
  | cons p ps ih => simp [encResponses, FsResponse.encode_length, ih]; omega

theorem encRequests_length (w : Nat) (rs : List (Nat × Nat)) : (encRequests w rs).length = rs.length * (2 * w) := by
  induction rs with
  | nil => simp [encRequests]
  | cons q rs ih =>
    obtain ⟨a, b⟩ := q
    simp [encRequests, ih, Nat.add_mul]; omega

theorem Payload.encode_length (p : Payload) (fss : FileSizeFlag) (hs : ∀ r m o d, p = .fileDataSeg r m o d → True) :
    (p.encode fss).length = p.len fss := by
  cases p with
  | eof e => simp [Payload.encode, Payload.len, Eof.encode, Eof.len, encFault_length]; omega
  | finished f => simp [Payload.encode, Payload.len, Finished.encode, Finished.len, encFault_length, encResponses_length]; omega
  | ack a => simp [Payload.encode, Payload.len, Ack.encode]
  | metadata m => simp [Payload.encode, Payload.len, Metadata.encode, Metadata.len, encTlvs_length]; omega
  | nak n => simp [Payload.encode, Payload.len, Nak.encode, Nak.len, encRequests_length]; omega
  | prompt k => simp [Payload.encode, Payload.len]
  | keepAlive g => simp [Payload.encode, Payload.len]; omega
  | fileData off d => simp [Payload.encode, Payload.len]; omega
  | fileDataSeg r m off d => simp [Payload.encode, Payload.len]; omega

/-! ### CRC-16 stays a 16-bit value -/

theorem crcBit_lt (c : Nat) : crcBit c < 65536 := by
  unfold crcBit
  split
  · have h1 : c * 2 % 65536 < 2 ^ 16 := Nat.mod_lt _ (by decide)
    have h2 : crcPoly < 2 ^ 16 := by decide
    exact Nat.xor_lt_two_pow h1 h2
  · exact Nat.mod_lt _ (by decide)

theorem crcByte_lt (c : Nat) (b : UInt8) : crcByte c b < 65536 := crcBit_lt _

theorem crc16_lt (msg : Bytes) : crc16 msg < 65536 := by
  unfold crc16
  have : ∀ (l : Bytes) (c : Nat), c < 65536 → l.foldl crcByte c < 65536 := by
    intro l
    induction l with
    | nil => intro c h; exact h
    | cons b l ih => intro c _; exact ih _ (crcByte_lt c b)
  exact this msg crcInit (by decide)

end Cfdp.Codec
