import Cfdp.Model.Recv
import Cfdp.Lemmas.Segments

/-! Frame lemmas and invariants for the receiver model. -/
namespace Cfdp.Recv
open Cfdp.Codec Cfdp.Gen Cfdp.Timer

/-- the byte bookkeeping of a state -/
def book (s : State) : List Seg.Seg × Nat × Bool := (s.segs, s.received, s.panicked)

@[simp] theorem book_emit (s : State) (i : Ind) : book (emit s i) = book s := rfl
@[simp] theorem book_shutdown (s : State) (now : Nat) : book (shutdown s now) = book s := rfl
@[simp] theorem book_abandon (s : State) (now : Nat) : book (abandon s now) = book s := rfl
@[simp] theorem book_prepareFinished (s : State) (f : Option VarId) : book (prepareFinished s f) = book s := rfl
@[simp] theorem book_suspend (s : State) (now : Nat) : book (suspend s now) = book s := rfl

/-- repeatedly rewrite with the frame lemmas and split the remaining `if`/`match` -/
macro "frame" : tactic => `(tactic| (
  repeat (first
    | rfl
    | (simp only [book_emit, book_shutdown, book_abandon, book_prepareFinished, book_suspend]; done)
    | split
    | (simp only [book_emit, book_shutdown, book_abandon, book_prepareFinished, book_suspend]))))

@[simp] theorem book_cancelInner (s : State) (now : Nat) : book (cancelInner s now) = book s := by
  unfold cancelInner
  simp only [book_emit]
  cases s.cfg.mode
  · rfl
  · simp only [book_shutdown]; split <;> rfl

@[simp] theorem book_cancel (s : State) (now : Nat) : book (cancel s now) = book s := by
  unfold cancel; rw [book_cancelInner]; rfl

@[simp] theorem book_handleFault (s : State) (c : Condition) (now : Nat) :
    book (handleFault s c now).1 = book s := by
  unfold handleFault
  simp only []
  split <;> simp only [book_cancelInner, book_suspend, book_abandon, book_emit] <;> rfl


@[simp] theorem book_getHeader (s : State) (d : Direction) (t : PDUType) (n : Nat) :
    book (getHeader s d t n).1 = book s := by
  unfold getHeader; split <;> rfl

@[simp] theorem book_sendPayload (s : State) (p : Payload) : book (sendPayload s p) = book s := by
  unfold sendPayload
  have := book_getHeader s .ToSender .FileDirective (p.len s.cfg.fss)
  generalize getHeader s .ToSender .FileDirective (p.len s.cfg.fss) = r at this
  obtain ⟨s', h⟩ := r
  exact this

/-- split every branch; each leaf is a record update (closed by `rfl`) or a call of a function
with a frame lemma -/
macro "frame_auto" : tactic => `(tactic| (
  (repeat' split) <;>
  (first
    | rfl
    | (simp only [book_emit, book_shutdown, book_abandon, book_prepareFinished, book_suspend,
        book_cancelInner, book_cancel, book_handleFault, book_getHeader, book_sendPayload] <;> rfl))))

@[simp] theorem book_resume (s : State) (now : Nat) : book (resume s now) = book s := by
  unfold resume; frame_auto

@[simp] theorem book_prepareAckEof (s : State) : book (prepareAckEof s) = book s := rfl

@[simp] theorem book_sendAckEof (s : State) : book (sendAckEof s) = book s := by
  unfold sendAckEof; frame_auto

@[simp] theorem book_checkFileSize (s : State) (n now : Nat) : book (checkFileSize s n now) = book s := by
  unfold checkFileSize; frame_auto

@[simp] theorem book_setFinishedFlag (s : State) (f : Bool) : book (setFinishedFlag s f) = book s := by
  unfold setFinishedFlag; frame_auto

@[simp] theorem book_sendFinished (s : State) (now : Nat) : book (sendFinished s now) = book s := by
  unfold sendFinished
  split
  · rw [book_setFinishedFlag, book_sendPayload]; rfl
  · rfl

end Cfdp.Recv
