import Cfdp.Lemmas.Crc

/-!
Further exhaustive facts about the 16-bit shift step.  The passes over all words run on the
model's `crcBit : Nat → Nat` (plain natural-number arithmetic, which the kernel evaluates quickly)
and are transferred to `T` through `T_model`.
-/
namespace Cfdp.Crc
open Cfdp.Codec Cfdp.Gen

def allN (n : Nat) (p : Nat → Bool) : Bool := (List.range n).all p

theorem allN_spec (n : Nat) (p : Nat → Bool) (h : allN n p = true) : ∀ k, k < n → p k = true := by
  intro k hk
  simp only [allN, List.all_eq_true, List.mem_range] at h
  exact h k hk

/-- parity of the number of set bits of a 16-bit number (xor-folding onto bit 0) -/
def parN (n : Nat) : Bool :=
  let a := n ^^^ (n >>> 8)
  let b := a ^^^ (a >>> 4)
  let c := b ^^^ (b >>> 2)
  let d := c ^^^ (c >>> 1)
  d % 2 == 1

def par (r : W) : Bool := parN r.toNat

/-- the generator has an even number of terms (it is divisible by x+1): the shift step preserves the
parity of the register and adding the constant term flips it; adding 1 to an even number is xor 1 -/
theorem crcBit_parity : allN 65536 (fun n =>
    (parN (crcBit n) == parN n) && (parN (n ^^^ 1) == !parN n) && ((2 * n) ^^^ 1 == 2 * n + 1)) = true := by
  decide +kernel

theorem T_toNat (r : W) : (T r).toNat = crcBit r.toNat := (T_model r).symm

theorem par_T (r : W) : par (T r) = par r := by
  have := allN_spec _ _ crcBit_parity r.toNat r.isLt
  simp only [Bool.and_eq_true, beq_iff_eq] at this
  simp only [par, T_toNat]
  exact this.1.1

theorem par_xor_one (r : W) : par (r ^^^ 1#16) = !par r := by
  have := allN_spec _ _ crcBit_parity r.toNat r.isLt
  simp only [Bool.and_eq_true, beq_iff_eq] at this
  simp only [par, BitVec.toNat_xor]
  exact this.1.2

theorem par_zero : par (0 : W) = false := by decide

/-- below 2¹⁵ the shift step is a plain doubling, and xor 1 then adds one -/
theorem T_small (r : W) (h : r.toNat < 32768) :
    (T r).toNat = 2 * r.toNat ∧ (T r ^^^ 1#16).toNat = 2 * r.toNat + 1 := by
  have h1 : (T r).toNat = 2 * r.toNat := by
    rw [T_toNat]
    simp only [crcBit]
    have : r.toNat / 32768 % 2 = 0 := by omega
    simp only [this, Nat.zero_ne_one, if_false]
    omega
  refine ⟨h1, ?_⟩
  have := allN_spec _ _ crcBit_parity r.toNat r.isLt
  simp only [Bool.and_eq_true, beq_iff_eq] at this
  rw [BitVec.toNat_xor, h1]
  exact this.2

/-- walking the orbit of 1 under the shift step without meeting 1 again -/
def noReturnN : Nat → Nat → Bool
  | 0, _ => true
  | n + 1, r => (crcBit r != 1) && noReturnN n (crcBit r)

def iterN : Nat → Nat → Nat
  | 0, r => r
  | n + 1, r => iterN n (crcBit r)

theorem noReturnN_spec (n r : Nat) (h : noReturnN n r = true) : ∀ k, 1 ≤ k → k ≤ n → iterN k r ≠ 1 := by
  induction n generalizing r with
  | zero => intro k h1 h2; omega
  | succ m ih =>
    intro k h1 h2
    simp only [noReturnN, Bool.and_eq_true, bne_iff_ne, ne_eq] at h
    cases k with
    | zero => omega
    | succ j =>
      simp only [iterN]
      cases j with
      | zero => exact h.1
      | succ i => exact ih (crcBit r) h.2 (i + 1) (by omega) (by omega)

/-- x has order 32767 modulo the generator: x^d ≠ 1 for 0 < d < 32767 -/
theorem order_of_x_N : noReturnN 32766 1 = true := by decide +kernel

theorem iterT_toNat (n : Nat) (r : W) : (iterT n r).toNat = iterN n r.toNat := by
  induction n generalizing r with
  | zero => rfl
  | succ k ih => simp only [iterT, iterN, ih, T_toNat]

theorem order_of_x (d : Nat) (h1 : 1 ≤ d) (h2 : d ≤ 32766) : iterT d 1#16 ≠ 1#16 := by
  intro h
  have := noReturnN_spec 32766 1 order_of_x_N d h1 h2
  apply this
  have := congrArg BitVec.toNat h
  rw [iterT_toNat] at this
  exact this

end Cfdp.Crc
