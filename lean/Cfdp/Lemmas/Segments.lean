import Cfdp.Model.Segments

/-! Helper lemmas for C09: the segment list refines the byte set it covers. -/
namespace Cfdp.Seg

/-- byte `x` is held -/
def cov (l : List Seg) (x : Nat) : Prop := ∃ s ∈ l, s.1 ≤ x ∧ x < s.2

/-- well-formedness as stated in the property: non-empty, sorted, disjoint, non-adjacent -/
def Inv (l : List Seg) : Prop := (∀ s ∈ l, s.1 < s.2) ∧ l.Pairwise (fun a b => a.2 < b.1)

/-- the same invariant in a form that is convenient for induction: every segment is
non-empty and starts strictly after the end of its predecessor (`lo` is a lower bound for the
first start) -/
def Chain (lo : Nat) : List Seg → Prop
  | [] => True
  | s :: r => lo ≤ s.1 ∧ s.1 < s.2 ∧ Chain (s.2 + 1) r

/-- number of bytes described by the list -/
def total (l : List Seg) : Nat := (l.map (fun s => s.2 - s.1)).sum

@[simp] theorem cov_nil (x : Nat) : cov [] x ↔ False := by simp [cov]
@[simp] theorem cov_cons (s : Seg) (l : List Seg) (x : Nat) :
    cov (s :: l) x ↔ (s.1 ≤ x ∧ x < s.2) ∨ cov l x := by
  simp [cov]
@[simp] theorem cov_append (l₁ l₂ : List Seg) (x : Nat) :
    cov (l₁ ++ l₂) x ↔ cov l₁ x ∨ cov l₂ x := by
  simp [cov, or_and_right, exists_or]

@[simp] theorem total_nil : total [] = 0 := rfl
@[simp] theorem total_cons (s : Seg) (l : List Seg) : total (s :: l) = (s.2 - s.1) + total l := by
  simp [total]
@[simp] theorem total_append (l₁ l₂ : List Seg) : total (l₁ ++ l₂) = total l₁ + total l₂ := by
  simp [total]

theorem Chain.mono {lo lo' : Nat} {l : List Seg} (h : Chain lo l) (hle : lo' ≤ lo) : Chain lo' l := by
  cases l with
  | nil => trivial
  | cons s r => exact ⟨Nat.le_trans hle h.1, h.2.1, h.2.2⟩

/-- in a chain every segment lies at or beyond the lower bound -/
theorem Chain.lo_le {lo : Nat} {l : List Seg} (h : Chain lo l) : ∀ s ∈ l, lo ≤ s.1 ∧ s.1 < s.2 := by
  induction l generalizing lo with
  | nil => intro s hs; cases hs
  | cons a r ih =>
    intro s hs
    rcases List.mem_cons.mp hs with rfl | hs
    · exact ⟨h.1, h.2.1⟩
    · have := ih h.2.2 s hs
      exact ⟨by have h1 := h.1; have h2 := h.2.1; have h3 := this.1; omega, this.2⟩

theorem Chain.not_cov_below {lo : Nat} {l : List Seg} (h : Chain lo l) {x : Nat} (hx : x < lo) :
    ¬ cov l x := by
  rintro ⟨s, hs, h1, _⟩
  have := (h.lo_le s hs).1
  omega

theorem chain_append {lo : Nat} {l₁ l₂ : List Seg} :
    Chain lo (l₁ ++ l₂) ↔
      Chain lo l₁ ∧ Chain (match l₁.getLast? with | none => lo | some s => s.2 + 1) l₂ := by
  induction l₁ generalizing lo with
  | nil => simp [Chain]
  | cons a r ih =>
    cases r with
    | nil => simp [Chain, and_assoc]
    | cons b r' =>
      have := @ih (a.2 + 1)
      simp only [List.cons_append, Chain] at this ⊢
      rw [this]
      cases hgl : (b :: r').getLast? with
      | none => simp at hgl
      | some z =>
        have : (a :: b :: r').getLast? = some z := by
          rw [List.getLast?_cons_cons]; exact hgl
        simp [this, and_assoc]

theorem inv_iff_chain (l : List Seg) : Inv l ↔ Chain 0 l := by
  suffices h : ∀ lo, ((∀ s ∈ l, lo ≤ s.1 ∧ s.1 < s.2) ∧ l.Pairwise (fun a b => a.2 < b.1)) ↔ Chain lo l by
    have := h 0
    simp only [Nat.zero_le, true_and] at this
    exact this
  induction l with
  | nil => intro lo; simp [Chain]
  | cons a r ih =>
    intro lo
    simp only [List.mem_cons, forall_eq_or_imp, List.pairwise_cons, Chain]
    rw [← ih (a.2 + 1)]
    constructor
    · rintro ⟨⟨⟨h1, h2⟩, h3⟩, h4, h5⟩
      exact ⟨h1, h2, fun s hs => ⟨by have := h4 s hs; omega, (h3 s hs).2⟩, h5⟩
    · rintro ⟨h1, h2, h3, h4⟩
      exact ⟨⟨⟨h1, h2⟩, fun s hs => ⟨by have := (h3 s hs).1; omega, (h3 s hs).2⟩⟩,
        fun s hs => by have := (h3 s hs).1; omega, h4⟩


/-- close a goal that is propositional over linear arithmetic and the opaque atom `cov r x` -/
macro "cov_cases" r:term:max x:term:max : tactic =>
  `(tactic| (by_cases hc : cov $r $x <;>
      simp only [hc, or_true, or_false, true_or, false_or, true_iff, iff_true, not_true_eq_false,
        not_false_eq_true, and_true, true_and, and_false, false_and, iff_false, false_iff] <;>
      omega))

/-- specification of the helper loop `merge(v, k)` -/
theorem absorb_spec (cur : Seg) (rest : List Seg) (lo : Nat)
    (hch : Chain lo rest) (hlo : cur.1 ≤ lo) (hcur : cur.1 < cur.2) :
    (absorb cur rest).1.1 = cur.1 ∧ cur.2 ≤ (absorb cur rest).1.2 ∧
    Chain ((absorb cur rest).1.2 + 1) (absorb cur rest).2.1 ∧
    (∀ x, cov ((absorb cur rest).1 :: (absorb cur rest).2.1) x ↔
        (cur.1 ≤ x ∧ x < cur.2) ∨ cov rest x) ∧
    ((absorb cur rest).1.2 - (absorb cur rest).1.1) + total (absorb cur rest).2.1
        + (absorb cur rest).2.2 = (cur.2 - cur.1) + total rest ∧
    (absorb cur rest).2.2 ≤ cur.2 + 1 - lo := by
  induction rest generalizing cur lo with
  | nil => simp [absorb, Chain]
  | cons a rest ih =>
    obtain ⟨s, e⟩ := a
    obtain ⟨h1, h2, h3⟩ := hch
    simp only at h1 h2 h3
    unfold absorb
    by_cases hs : s ≤ cur.2
    · by_cases he : e > cur.2
      · simp only [hs, he, if_true]
        obtain ⟨i1, i2, i3, i4, i5, i6⟩ := ih (cur.1, e) (e + 1) h3 (by simp; omega) (by simp; omega)
        simp only at i1 i2 i4 i5 i6
        refine ⟨i1, by omega, i3, ?_, by simp only [total_cons]; omega, by omega⟩
        intro x
        rw [i4 x, cov_cons]
        simp only
        constructor
        · rintro (⟨a1, a2⟩ | a3)
          · by_cases hx : x < cur.2
            · exact Or.inl ⟨a1, hx⟩
            · exact Or.inr (Or.inl ⟨by omega, a2⟩)
          · exact Or.inr (Or.inr a3)
        · rintro (⟨a1, a2⟩ | ⟨a1, a2⟩ | a3)
          · exact Or.inl ⟨a1, by omega⟩
          · exact Or.inl ⟨by omega, a2⟩
          · exact Or.inr a3
      · simp only [hs, he, if_true, if_false]
        obtain ⟨i1, i2, i3, i4, i5, i6⟩ := ih cur (e + 1) h3 (by omega) hcur
        refine ⟨i1, i2, i3, ?_, by simp only [total_cons]; omega, by omega⟩
        intro x
        rw [i4 x, cov_cons]
        simp only
        constructor
        · rintro (a1 | a3)
          · exact Or.inl a1
          · exact Or.inr (Or.inr a3)
        · rintro (a1 | ⟨a1, a2⟩ | a3)
          · exact Or.inl a1
          · exact Or.inl ⟨by omega, by omega⟩
          · exact Or.inr a3
    · simp only [hs, if_false]
      refine ⟨trivial, Nat.le_refl _, ⟨by simp; omega, h2, h3⟩, fun x => by simp, by simp, by omega⟩


/-- lower bound of the first start after `mergeScan` -/
def loOf : Option Seg → Nat → Nat → Nat
  | some _, lo, _ => lo
  | none, lo, p => min lo p

theorem checkedSub_some {a b : Nat} (h : b ≤ a) : checkedSub a b = some (a - b) := by
  simp [checkedSub, h]

/-- specification of the `Ordering::Greater` arm of `Segments::merge` -/
theorem mergeScan_spec' (p q : Nat) (left : Option Seg) (l : List Seg) (lo : Nat)
    (hseg : p < q)
    (hch : Chain lo (withLeft left l))
    (hleft : ∀ lf, left = some lf → lf.1 < p) :
    Chain (loOf left lo p) (mergeScan (p, q) left l).1 ∧
    (∀ x, cov (mergeScan (p, q) left l).1 x ↔
        cov (withLeft left l) x ∨ (p ≤ x ∧ x < q)) ∧
    ∃ n, (mergeScan (p, q) left l).2 = some n ∧
      total (mergeScan (p, q) left l).1 = total (withLeft left l) + n := by
  induction l generalizing left lo with
  | nil =>
    cases left with
    | none =>
      simp only [mergeScan, withLeft, loOf]
      refine ⟨⟨Nat.min_le_right _ _, hseg, trivial⟩, fun x => by simp, _, rfl, by simp⟩
    | some lf =>
      have hl := hleft lf rfl
      simp only [withLeft, Chain] at hch
      unfold mergeScan
      simp only
      by_cases h1 : lf.2 ≥ p
      · by_cases h2 : lf.2 < q
        · simp only [h1, h2, if_true]
          refine ⟨⟨hch.1, by (try dsimp only); omega, trivial⟩, fun x => by simp [withLeft]; omega, _, rfl, by simp [withLeft]; omega⟩
        · simp only [h1, h2, if_true, if_false]
          refine ⟨⟨hch.1, hch.2.1, trivial⟩, fun x => by simp [withLeft]; omega, _, rfl, by simp [withLeft]⟩
      · simp only [h1, if_false]
        refine ⟨⟨hch.1, hch.2.1, by (try dsimp only); omega, hseg, trivial⟩, fun x => by simp [withLeft], _, rfl, by simp [withLeft]⟩
  | cons a rest ih =>
    obtain ⟨s, e⟩ := a
    unfold mergeScan
    dsimp only
    by_cases c1 : s < p
    · -- keep scanning
      simp only [c1, if_true]
      cases left with
      | none =>
        obtain ⟨i1, i2, n, i3, i4⟩ := ih (some (s, e)) lo (by simpa [withLeft] using hch)
          (by intro lf h; cases h; exact c1)
        simp only [withLeft, loOf] at i1 i2 i4
        exact ⟨i1.mono (Nat.min_le_left _ _), i2, n, i3, i4⟩
      | some lf =>
        simp only [withLeft, Chain, loOf] at hch ⊢
        obtain ⟨i1, i2, n, i3, i4⟩ := ih (some (s, e)) (lf.2 + 1)
          (by simpa [withLeft, Chain] using hch.2.2) (by intro lf h; cases h; exact c1)
        simp only [withLeft, loOf] at i1 i2 i4
        refine ⟨⟨hch.1, hch.2.1, i1⟩, ?_, n, i3, ?_⟩
        · intro x; simp only [cov_cons, i2 x]
          cov_cases rest x
        · simp only [total_cons] at i4 ⊢; omega
    · simp only [c1, if_false]
      by_cases c2 : s = p
      · -- Ok(k)
        simp only [c2, if_true]
        by_cases c3 : e < q
        · simp only [c3, if_true]
          have hrest : Chain (e + 1) rest ∧ s < e := by
            cases left with
            | none => exact ⟨hch.2.2, hch.2.1⟩
            | some lf => exact ⟨hch.2.2.2.2, hch.2.2.2.1⟩
          obtain ⟨a1, a2, a3, a4, a5, a6⟩ := absorb_spec (p, q) rest (e + 1) hrest.1
            (by (try dsimp only); omega) (by (try dsimp only); omega)
          generalize absorb (p, q) rest = a at *
          obtain ⟨⟨k1, k2⟩, r, o⟩ := a
          dsimp only at a1 a2 a3 a4 a5 a6 ⊢
          rw [checkedSub_some (by omega)]
          cases left with
          | none =>
            simp only [withLeft, Chain, loOf] at hch ⊢
            refine ⟨⟨by (try dsimp only); omega, by (try dsimp only); omega, a3⟩, ?_, _, rfl, ?_⟩
            · intro x; simp only [cov_cons] at a4 ⊢; simp only [a4 x]
              cov_cases rest x
            · simp only [total_cons]; (try dsimp only); omega
          | some lf =>
            have hl := hleft lf rfl
            simp only [withLeft, Chain, loOf] at hch ⊢
            refine ⟨⟨hch.1, hch.2.1, by (try dsimp only); omega, by (try dsimp only); omega, a3⟩, ?_, _, rfl, ?_⟩
            · intro x; simp only [cov_cons] at a4 ⊢; simp only [a4 x]
              cov_cases rest x
            · simp only [total_cons]; (try dsimp only); omega
        · simp only [c3, if_false]
          cases left with
          | none =>
            simp only [withLeft, Chain, loOf] at hch ⊢
            refine ⟨⟨by (try dsimp only); omega, by (try dsimp only at hch ⊢); omega, hch.2.2⟩, ?_, _, rfl, by simp⟩
            intro x; simp only [cov_cons]
            cov_cases rest x
          | some lf =>
            simp only [withLeft, Chain, loOf] at hch ⊢
            refine ⟨⟨hch.1, hch.2.1, by (try dsimp only at hch ⊢); omega, by (try dsimp only at hch ⊢); omega, hch.2.2.2.2⟩, ?_, _, rfl, by simp⟩
            intro x; simp only [cov_cons]
            cov_cases rest x
      · -- Err(k)
        simp only [c2, if_false]
        have c4 : p < s := by omega
        cases left with
        | none =>
          simp only [withLeft, Chain, loOf] at hch ⊢
          by_cases d1 : q < s
          · simp only [d1, if_true]
            refine ⟨⟨Nat.min_le_right _ _, hseg, by (try dsimp only); omega, hch.2.1, hch.2.2⟩, ?_, _, rfl, by simp; omega⟩
            intro x; simp only [cov_cons]
            cov_cases rest x
          · simp only [d1, if_false]
            by_cases d2 : q > e
            · simp only [d2, if_true]
              obtain ⟨a1, a2, a3, a4, a5, a6⟩ := absorb_spec (p, q) rest (e + 1) hch.2.2
                (by (try dsimp only at hch ⊢); omega) (by (try dsimp only); omega)
              generalize absorb (p, q) rest = a at *
              obtain ⟨⟨k1, k2⟩, r, o⟩ := a
              dsimp only at a1 a2 a3 a4 a5 a6 hch ⊢
              rw [checkedSub_some (by omega)]
              refine ⟨⟨by (try dsimp only); omega, by (try dsimp only); omega, a3⟩, ?_, _, rfl, ?_⟩
              · intro x; simp only [cov_cons] at a4 ⊢; simp only [a4 x]
                cov_cases rest x
              · simp only [total_cons]; (try dsimp only); omega
            · simp only [d2, if_false]
              try dsimp only at hch
              refine ⟨⟨by (try dsimp only); omega, by (try dsimp only); omega, hch.2.2⟩, ?_, _, rfl, by simp; omega⟩
              intro x; simp only [cov_cons]
              cov_cases rest x
        | some lf =>
          have hl := hleft lf rfl
          simp only [withLeft, Chain, loOf] at hch ⊢
          try dsimp only at hch
          by_cases d0 : lf.2 ≥ p
          · simp only [d0, if_true]
            by_cases d1 : lf.2 < q
            · simp only [d1, if_true]
              obtain ⟨a1, a2, a3, a4, a5, a6⟩ := absorb_spec (lf.1, q) ((s, e) :: rest) (lf.2 + 1)
                ⟨hch.2.2.1, hch.2.2.2.1, hch.2.2.2.2⟩ (by (try dsimp only); omega) (by (try dsimp only); omega)
              generalize absorb (lf.1, q) ((s, e) :: rest) = a at *
              obtain ⟨⟨k1, k2⟩, r, o⟩ := a
              dsimp only at a1 a2 a3 a4 a5 a6 ⊢
              rw [checkedSub_some (by omega)]
              refine ⟨⟨by (try dsimp only); omega, by (try dsimp only); omega, a3⟩, ?_, _, rfl, ?_⟩
              · intro x; simp only [cov_cons] at a4 ⊢; simp only [a4 x]
                cov_cases rest x
              · simp only [total_cons] at a5 ⊢; (try dsimp only at a5 ⊢); omega
            · simp only [d1, if_false]
              refine ⟨hch, ?_, _, rfl, by simp⟩
              intro x; simp only [cov_cons]
              cov_cases rest x
          · simp only [d0, if_false]
            by_cases d1 : q < s
            · simp only [d1, if_true]
              refine ⟨⟨hch.1, hch.2.1, by (try dsimp only); omega, hseg, by (try dsimp only); omega, hch.2.2.2.1, hch.2.2.2.2⟩, ?_, _, rfl, by simp; omega⟩
              intro x; simp only [cov_cons]
              cov_cases rest x
            · simp only [d1, if_false]
              by_cases d2 : e < q
              · simp only [d2, if_true]
                obtain ⟨a1, a2, a3, a4, a5, a6⟩ := absorb_spec (p, q) rest (e + 1) hch.2.2.2.2
                  (by (try dsimp only); omega) (by (try dsimp only); omega)
                generalize absorb (p, q) rest = a at *
                obtain ⟨⟨k1, k2⟩, r, o⟩ := a
                dsimp only at a1 a2 a3 a4 a5 a6 ⊢
                rw [checkedSub_some (by omega)]
                refine ⟨⟨hch.1, hch.2.1, by (try dsimp only); omega, by (try dsimp only); omega, a3⟩, ?_, _, rfl, ?_⟩
                · intro x; simp only [cov_cons] at a4 ⊢; simp only [a4 x]
                  cov_cases rest x
                · simp only [total_cons]; (try dsimp only); omega
              · simp only [d2, if_false]
                refine ⟨⟨hch.1, hch.2.1, by (try dsimp only); omega, by (try dsimp only); omega, hch.2.2.2.2⟩, ?_, _, rfl, by simp; omega⟩
                intro x; simp only [cov_cons]
                cov_cases rest x


theorem mergeScan_spec (seg : Seg) (left : Option Seg) (l : List Seg) (lo : Nat)
    (hseg : seg.1 < seg.2)
    (hch : Chain lo (withLeft left l))
    (hleft : ∀ lf, left = some lf → lf.1 < seg.1) :
    Chain (loOf left lo seg.1) (mergeScan seg left l).1 ∧
    (∀ x, cov (mergeScan seg left l).1 x ↔
        cov (withLeft left l) x ∨ (seg.1 ≤ x ∧ x < seg.2)) ∧
    ∃ n, (mergeScan seg left l).2 = some n ∧
      total (mergeScan seg left l).1 = total (withLeft left l) + n :=
  by
    obtain ⟨p, q⟩ := seg
    exact mergeScan_spec' p q left l lo hseg hch hleft

/-- specification of `Segments::merge` on chains -/
theorem merge_spec (l : List Seg) (seg : Seg) (hch : Chain 0 l) (hseg : seg.1 < seg.2) :
    Chain 0 (merge l seg).1 ∧
    (∀ x, cov (merge l seg).1 x ↔ cov l x ∨ (seg.1 ≤ x ∧ x < seg.2)) ∧
    ∃ n, (merge l seg).2 = some n ∧ total (merge l seg).1 = total l + n := by
  unfold merge
  cases hgl : l.getLast? with
  | none =>
    have : l = [] := List.getLast?_eq_none_iff.mp hgl
    subst this
    exact ⟨⟨Nat.zero_le _, hseg, trivial⟩, fun x => by simp, _, rfl, by simp⟩
  | some last =>
    have hl : l.dropLast ++ [last] = l := by
      have hne : l ≠ [] := by intro h; simp [h] at hgl
      have := List.dropLast_concat_getLast hne
      rw [List.getLast?_eq_some_getLast hne] at hgl
      cases hgl; exact this
    simp only
    by_cases h1 : last.2 = seg.1
    · simp only [h1, if_true]
      rw [← hl] at hch
      rw [chain_append] at hch ⊢
      obtain ⟨c1, c2⟩ := hch
      refine ⟨⟨c1, ?_⟩, ?_, _, rfl, ?_⟩
      · simp only [Chain] at c2 ⊢
        exact ⟨c2.1, by omega, trivial⟩
      · intro x
        conv => rhs; rw [← hl]
        simp only [cov_append, cov_cons, cov_nil, or_false]
        simp only [Chain] at c2
        by_cases hc : cov l.dropLast x <;> simp only [hc, true_or, false_or] <;> omega
      · conv => rhs; rw [← hl]
        simp only [total_append, total_cons, total_nil]
        simp only [Chain] at c2
        omega
    · simp only [h1, if_false]
      by_cases h2 : last.2 < seg.1
      · simp only [h2, if_true]
        refine ⟨?_, fun x => by simp, _, rfl, by simp⟩
        rw [chain_append]
        refine ⟨hch, ?_⟩
        simp only [hgl, Chain]
        exact ⟨by omega, hseg, trivial⟩
      · simp only [h2, if_false]
        have := mergeScan_spec seg none l 0 hseg (by simpa [withLeft] using hch) (by intro lf h; cases h)
        simpa [withLeft, loOf] using this


/-- specification of the scan loop of `Segments::gaps` -/
theorem gapsLoop_spec (endv p : Nat) (l : List Seg) (hch : Chain (p + 1) l) :
    Chain p (gapsLoop endv p l) ∧ (∀ s ∈ gapsLoop endv p l, s.2 ≤ endv) ∧
    ∀ x, cov (gapsLoop endv p l) x ↔ p ≤ x ∧ x < endv ∧ ¬ cov l x := by
  induction l generalizing p with
  | nil =>
    unfold gapsLoop
    by_cases h : p < endv
    · simp only [h, if_true]
      refine ⟨⟨Nat.le_refl _, h, trivial⟩, by simp, fun x => by simp⟩
    · simp only [h, if_false]
      refine ⟨trivial, by simp, fun x => by simp; omega⟩
  | cons a rest ih =>
    obtain ⟨s, e⟩ := a
    obtain ⟨h1, h2, h3⟩ := hch
    dsimp only at h1 h2 h3
    have hbelow : ∀ x, cov rest x → e + 1 ≤ x := by
      intro x hx
      rcases Nat.lt_or_ge x (e + 1) with hlt | hge
      · exact absurd hx (h3.not_cov_below hlt)
      · exact hge
    unfold gapsLoop
    by_cases c1 : p ≥ endv
    · simp only [c1, if_true]
      refine ⟨trivial, by simp, fun x => by simp; omega⟩
    · simp only [c1, if_false]
      by_cases c2 : s ≥ endv
      · simp only [c2, if_true]
        refine ⟨⟨Nat.le_refl _, by (try dsimp only); omega, trivial⟩, by simp, ?_⟩
        intro x
        simp only [cov_cons, cov_nil, or_false]
        try dsimp only
        by_cases hc : cov rest x
        · have := hbelow x hc
          simp only [hc, or_true, not_true_eq_false, and_false, iff_false]; omega
        · simp only [hc, or_false]; omega
      · simp only [c2, if_false]
        obtain ⟨i1, i2, i3⟩ := ih e h3
        refine ⟨⟨Nat.le_refl _, by (try dsimp only); omega, i1.mono (by (try dsimp only); omega)⟩, ?_, ?_⟩
        · intro g hg
          rcases List.mem_cons.mp hg with rfl | hg
          · (try dsimp only); omega
          · exact i2 g hg
        · intro x
          simp only [cov_cons, i3 x]
          try dsimp only
          by_cases hc : cov rest x
          · have := hbelow x hc
            simp only [hc, not_true_eq_false, and_false, or_false, or_true, iff_false]; omega
          · simp only [hc, not_false_eq_true, and_true, or_false]; omega

/-- the `Err(k)` arm of `Segments::gaps` -/
theorem gapsErr_spec (start endv : Nat) (prevEnd : Option Nat) (lo : Nat)
    (covPre : Nat → Prop)
    (hpe : ∀ pe, prevEnd = some pe → pe + 1 ≤ lo)
    (hpre : ∀ x, start ≤ x → (covPre x ↔ ∃ pe, prevEnd = some pe ∧ x < pe))
    (l' : List Seg) (hl' : Chain lo l') (hst : ∀ s ∈ l', start < s.1) :
      Chain start (gapsLoop endv (gapsStart prevEnd start) l') ∧
      (∀ s ∈ gapsLoop endv (gapsStart prevEnd start) l', s.2 ≤ endv) ∧
      ∀ x, cov (gapsLoop endv (gapsStart prevEnd start) l') x ↔
        start ≤ x ∧ x < endv ∧ ¬ (covPre x ∨ cov l' x) := by
    cases prevEnd with
  | none =>
    simp only [gapsStart]
    have hc' : Chain (start + 1) l' := by
      cases l' with
      | nil => trivial
      | cons a r => exact ⟨by have := hst a (List.mem_cons_self ..); omega, hl'.2.1, hl'.2.2⟩
    obtain ⟨g1, g2, g3⟩ := gapsLoop_spec endv start l' hc'
    refine ⟨g1, g2, fun x => ?_⟩
    rw [g3 x]
    by_cases hx : start ≤ x
    · have := hpre x hx
      simp only [reduceCtorEq, false_and, exists_false, iff_false] at this
      simp only [this, false_or]
    · simp only [hx, false_and]
  | some pe =>
    simp only [gapsStart]
    have hp := hpe pe rfl
    have hc' : Chain (max pe start + 1) l' := by
      cases l' with
      | nil => trivial
      | cons a r =>
        refine ⟨?_, hl'.2.1, hl'.2.2⟩
        have := hst a (List.mem_cons_self ..)
        have := hl'.1
        omega
    obtain ⟨g1, g2, g3⟩ := gapsLoop_spec endv (max pe start) l' hc'
    refine ⟨g1.mono (Nat.le_max_right _ _), g2, fun x => ?_⟩
    rw [g3 x]
    by_cases hx : start ≤ x
    · have := hpre x hx
      simp only [Option.some.injEq, exists_eq_left'] at this
      simp only [this]
      by_cases hc : cov l' x <;> simp only [hc, or_true, or_false, not_true_eq_false, and_false, not_false_eq_true, and_true] <;> omega
    · constructor
      · intro h; omega
      · intro h; omega

/-- specification of `Segments::gaps` (binary search + loop) -/
theorem gapsScan_spec (start endv : Nat) (prevEnd : Option Nat) (l : List Seg) (lo : Nat)
    (covPre : Nat → Prop) (hch : Chain lo l)
    (hpe : ∀ pe, prevEnd = some pe → pe + 1 ≤ lo)
    (hpre : ∀ x, start ≤ x → (covPre x ↔ ∃ pe, prevEnd = some pe ∧ x < pe)) :
    Chain start (gapsScan start endv prevEnd l) ∧
    (∀ s ∈ gapsScan start endv prevEnd l, s.2 ≤ endv) ∧
    ∀ x, cov (gapsScan start endv prevEnd l) x ↔
      start ≤ x ∧ x < endv ∧ ¬ (covPre x ∨ cov l x) := by
  -- the pointer the loop starts from when the binary search returns `Err(k)`
  induction l generalizing prevEnd lo covPre with
  | nil =>
    unfold gapsScan
    exact gapsErr_spec start endv prevEnd lo covPre hpe hpre [] trivial (by simp)
  | cons a rest ih =>
    obtain ⟨s, e⟩ := a
    unfold gapsScan
    by_cases c1 : s < start
    · simp only [c1, if_true]
      have h1 := hch.1
      have h2 := hch.2.1
      dsimp only at h1 h2
      obtain ⟨i1, i2, i3⟩ := ih (some e) (e + 1) (fun x => covPre x ∨ (s ≤ x ∧ x < e)) hch.2.2
        (by intro pe h; cases h; omega)
        (by
          intro x hx
          simp only [Option.some.injEq, exists_eq_left']
          have := hpre x hx
          constructor
          · rintro (h | h)
            · obtain ⟨pe, hpe1, hpe2⟩ := this.mp h
              have := hpe pe hpe1
              omega
            · omega
          · intro h; exact Or.inr ⟨by omega, h⟩)
      refine ⟨i1, i2, fun x => ?_⟩
      rw [i3 x, cov_cons]
      dsimp only
      by_cases hp : covPre x <;> by_cases hc : cov rest x <;>
        simp only [hp, hc, or_true, true_or, or_false, false_or, not_true_eq_false, and_false,
          not_false_eq_true, and_true]
    · simp only [c1, if_false]
      have h1 := hch.1
      have h2 := hch.2.1
      dsimp only at h1 h2
      have hnopre : ∀ x, start ≤ x → s ≤ x → ¬ covPre x := by
        intro x hx hsx hcp
        obtain ⟨pe, hpe1, hpe2⟩ := (hpre x hx).mp hcp
        have := hpe pe hpe1
        omega
      by_cases c2 : s = start
      · simp only [c2, if_true]
        obtain ⟨g1, g2, g3⟩ := gapsLoop_spec endv e rest hch.2.2
        refine ⟨g1.mono (by omega), g2, fun x => ?_⟩
        rw [g3 x, cov_cons]
        dsimp only
        by_cases hx : start ≤ x
        · have := hnopre x hx (by omega)
          simp only [this, false_or]
          by_cases hc : cov rest x <;> simp only [hc, or_true, or_false, not_true_eq_false, and_false, not_false_eq_true, and_true] <;> omega
        · constructor
          · intro h; omega
          · intro h; omega
      · simp only [c2, if_false]
        refine gapsErr_spec start endv prevEnd lo covPre hpe hpre ((s, e) :: rest) hch ?_
        intro g hg
        rcases List.mem_cons.mp hg with rfl | hg
        · (try dsimp only); omega
        · have := (hch.2.2.lo_le g hg).1
          omega


/-- specification of `Segments::is_complete` -/
theorem isComplete_spec (l : List Seg) (n : Nat) (hch : Chain 0 l) :
    isComplete l n = true ↔ ∀ x, x < n → cov l x := by
  unfold isComplete
  cases l with
  | nil =>
    simp only [List.head?_nil, Bool.or_false, beq_iff_eq, cov_nil]
    constructor
    · intro h x hx; omega
    · intro h
      rcases Nat.eq_zero_or_pos n with h0 | h0
      · exact h0
      · exact (h 0 h0).elim
  | cons a rest =>
    obtain ⟨s, e⟩ := a
    obtain ⟨_, h2, h3⟩ := hch
    dsimp only at h2 h3
    have hbelow : ∀ x, cov rest x → e + 1 ≤ x := by
      intro x hx
      rcases Nat.lt_or_ge x (e + 1) with hlt | hge
      · exact absurd hx (h3.not_cov_below hlt)
      · exact hge
    simp only [List.head?_cons, Bool.or_eq_true, beq_iff_eq, Bool.and_eq_true, decide_eq_true_eq,
      cov_cons]
    constructor
    · rintro (h | ⟨h, h'⟩) x hx
      · omega
      · exact Or.inl ⟨by omega, by omega⟩
    · intro h
      rcases Nat.eq_zero_or_pos n with h0 | h0
      · exact Or.inl h0
      · right
        have hs : s = 0 := by
          rcases h 0 h0 with ⟨h1, _⟩ | h1
          · omega
          · have := hbelow 0 h1; omega
        refine ⟨hs, ?_⟩
        rcases Nat.lt_or_ge e n with hlt | hge
        · rcases h e hlt with ⟨_, h1⟩ | h1
          · omega
          · have := hbelow e h1; omega
        · exact hge

/-! ### `total` counts distinct bytes -/

/-- decidable version of `cov` -/
def covB (l : List Seg) (x : Nat) : Bool := l.any (fun s => decide (s.1 ≤ x) && decide (x < s.2))

theorem covB_iff (l : List Seg) (x : Nat) : covB l x = true ↔ cov l x := by
  simp [covB, cov]

instance (l : List Seg) (x : Nat) : Decidable (cov l x) := decidable_of_iff _ (covB_iff l x)

theorem countP_or_disjoint {α : Type} (p q : α → Bool) (xs : List α)
    (h : ∀ x ∈ xs, ¬ (p x = true ∧ q x = true)) :
    xs.countP (fun x => p x || q x) = xs.countP p + xs.countP q := by
  induction xs with
  | nil => simp
  | cons a r ih =>
    have ha := h a (List.mem_cons_self ..)
    have ih' := ih (fun x hx => h x (List.mem_cons_of_mem _ hx))
    simp only [List.countP_cons, ih']
    cases hp : p a <;> cases hq : q a <;> simp_all <;> omega

theorem countP_interval (a b N : Nat) (hab : a ≤ b) (hbN : b ≤ N) :
    (List.range N).countP (fun x => decide (a ≤ x) && decide (x < b)) = b - a := by
  induction N generalizing b with
  | zero => simp; omega
  | succ N ih =>
    rw [List.range_succ, List.countP_append]
    rcases Nat.lt_or_ge N b with hlt | hge
    · -- b = N + 1
      have hb : b = N + 1 := by omega
      subst hb
      rcases Nat.lt_or_ge N a with h1 | h1
      · -- a = N + 1: nothing counted
        have : (List.range N).countP (fun x => decide (a ≤ x) && decide (x < N + 1)) = 0 := by
          rw [List.countP_eq_zero]
          intro x hx
          have := List.mem_range.mp hx
          simp; omega
        rw [this]
        simp [show ¬ a ≤ N by omega]; omega
      · have : (List.range N).countP (fun x => decide (a ≤ x) && decide (x < N + 1))
            = (List.range N).countP (fun x => decide (a ≤ x) && decide (x < N)) := by
          apply List.countP_congr
          intro x hx
          have := List.mem_range.mp hx
          simp; omega
        rw [this, ih N h1 (Nat.le_refl _)]
        simp [h1]; omega
    · rw [ih b hab hge]
      simp; omega

/-- `total` is the number of distinct byte positions covered (counted below any bound `N`
that is at least the end of the last segment) -/
theorem total_eq_count (l : List Seg) (lo N : Nat) (hch : Chain lo l)
    (hN : ∀ s ∈ l, s.2 ≤ N) :
    total l = (List.range N).countP (covB l) := by
  induction l generalizing lo with
  | nil =>
    have : covB ([] : List Seg) = fun _ => false := by funext x; simp [covB]
    rw [this]; simp
  | cons a rest ih =>
    obtain ⟨s, e⟩ := a
    obtain ⟨_, h2, h3⟩ := hch
    dsimp only at h2 h3
    have hrest := ih (e + 1) h3 (fun s hs => hN s (List.mem_cons_of_mem _ hs))
    have he : e ≤ N := hN (s, e) (List.mem_cons_self ..)
    have : covB ((s, e) :: rest) = fun x => (decide (s ≤ x) && decide (x < e)) || covB rest x := by
      funext x; simp [covB]
    rw [this, countP_or_disjoint, countP_interval s e N (by omega) he, total_cons, hrest]
    intro x _ ⟨hx1, hx2⟩
    have hc := (covB_iff rest x).mp hx2
    have hlt : x < e + 1 := by
      simp at hx1; omega
    exact h3.not_cov_below hlt hc

end Cfdp.Seg
