import Cfdp.Gen.SendFrames

/-! Invariants for the sender model (the routine frame lemmas are in `Cfdp.Gen.SendFrames`). -/
namespace Cfdp.Send
open Cfdp.Codec Cfdp.Gen Cfdp.Timer

/-- the read cursor stays inside the file -/
def CurOk (s : State) : Prop := ∀ c, s.cursor = some c → c ≤ s.file.length

theorem curOk_of_eq {s s' : State} (h : CurOk s) (h1 : s'.cursor = s.cursor) (h2 : s'.st = s.st) : CurOk s' := by
  intro c hc; rw [h1] at hc; have := h c hc; simpa [State.file, h2] using this

theorem curOk_openHandle {s : State} (h : CurOk s) : CurOk (openHandle s) := by
  simp only [openHandle]
  split
  · exact h
  · intro c hc; simp at hc; subst hc; exact Nat.zero_le _

theorem curOk_getChecksum {s : State} (h : CurOk s) : CurOk (getChecksum s).1 := by
  simp only [getChecksum]
  split
  · exact h
  · split
    · split
      · exact curOk_of_eq (curOk_openHandle h) rfl rfl
      · intro c hc
        simp at hc; subst hc
        simp [State.file, st_openHandle]
    · exact curOk_of_eq h rfl rfl

theorem curOk_prepareEof {s : State} (h : CurOk s) (f : Option VarId) (now : Nat) : CurOk (prepareEof s f now) := by
  simp only [prepareEof]
  exact curOk_of_eq (curOk_getChecksum (curOk_of_eq (s' := { s with timer := { s.timer with ack := ((s.timer.ack.reset now).pause now) } }) h rfl rfl)) rfl rfl

theorem curOk_cancelInner {s : State} (h : CurOk s) (c : Condition) (now : Nat) : CurOk (cancelInner s c now) := by
  simp only [cancelInner]
  apply curOk_prepareEof
  exact curOk_of_eq h rfl rfl

theorem curOk_handleFault {s : State} (h : CurOk s) (c : Condition) (now : Nat) : CurOk (handleFault s c now) := by
  simp only [handleFault]
  split
  · exact curOk_of_eq h rfl rfl
  · apply curOk_cancelInner; exact curOk_of_eq h rfl rfl
  · exact curOk_of_eq h rfl rfl
  · exact curOk_of_eq h rfl rfl


/-- the header every transmitted PDU gets -/
def hdr (s : State) (p : Payload) : Header :=
  (getHeader s (ptypeOf p) (p.len s.cfg.fss)).2

theorem sent_sendPayload (s : State) (p : Payload) :
    (sendPayload s p).sent = some { header := hdr s p, payload := p } := by
  simp only [sendPayload, hdr]


theorem curOk_handleInactivity {s : State} (h : CurOk s) (now : Nat) (c : Bool) : CurOk (handleInactivity s now c) := by
  simp only [handleInactivity]
  repeat' split
  all_goals (first
    | exact curOk_of_eq h rfl rfl
    | (apply curOk_handleFault; exact curOk_of_eq h rfl rfl))

theorem curOk_setEofFlag {s : State} (h : CurOk s) (f : Bool) : CurOk (setEofFlag s f) :=
  curOk_of_eq h (cursor_setEofFlag _ _) (st_setEofFlag _ _)

theorem curOk_handleAckTimer {s : State} (h : CurOk s) (now : Nat) (c : Bool) : CurOk (handleAckTimer s now c) := by
  simp only [handleAckTimer]
  repeat' split
  all_goals (first
    | exact curOk_of_eq h rfl rfl
    | (apply curOk_handleFault; exact curOk_of_eq h rfl rfl)
    | (apply curOk_setEofFlag; exact curOk_of_eq h rfl rfl))

theorem curOk_handleTimeout {s : State} (h : CurOk s) (now : Nat) : CurOk (handleTimeout s now) := by
  simp only [handleTimeout]
  repeat' split
  all_goals (first
    | exact h
    | (apply curOk_handleAckTimer; apply curOk_handleInactivity; exact h))

end Cfdp.Send
