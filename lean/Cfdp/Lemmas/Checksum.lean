import Cfdp.Model.Checksum

namespace Cfdp.Cksum

/-- the complete 4-byte words of a byte string -/
def full4 : List UInt8 → List UInt8
  | a :: b :: c :: d :: rest => a :: b :: c :: d :: full4 rest
  | _ => []

theorem full4_append_rem4 (l : List UInt8) : full4 l ++ rem4 l = l := by
  fun_induction full4 l with
  | case1 a b c d rest ih => simp [rem4, ih]
  | case2 l h =>
    match l, h with
    | [], _ => rfl
    | [_], _ => rfl
    | [_, _], _ => rfl
    | [_, _, _], _ => rfl
    | a :: b :: c :: d :: r, h => exact absurd rfl (h a b c d r)

theorem full4_length (l : List UInt8) : (full4 l).length % 4 = 0 := by
  fun_induction full4 l with
  | case1 a b c d rest ih => simp [List.length_cons]; omega
  | case2 l h => simp

theorem rem4_length (l : List UInt8) : (rem4 l).length = l.length % 4 := by
  fun_induction rem4 l with
  | case1 a b c d rest ih => simp [List.length_cons, ih]; omega
  | case2 l h =>
    match l, h with
    | [], _ => rfl
    | [_], _ => rfl
    | [_, _], _ => rfl
    | [_, _, _], _ => rfl
    | a :: b :: c :: d :: r, h => exact absurd rfl (h a b c d r)

theorem sumFull_full4 (l : List UInt8) : sumFull (full4 l) = sumFull l := by
  fun_induction full4 l with
  | case1 a b c d rest ih => simp [sumFull, ih]
  | case2 l h =>
    match l, h with
    | [], _ => rfl
    | [_], _ => rfl
    | [_, _], _ => rfl
    | [_, _, _], _ => rfl
    | a :: b :: c :: d :: r, h => exact absurd rfl (h a b c d r)

/-- an aligned prefix contributes independently -/
theorem aligned_append (w xs : List UInt8) (hw : w.length % 4 = 0) :
    sumFull (w ++ xs) = sumFull w + sumFull xs ∧ rem4 (w ++ xs) = rem4 xs := by
  induction w using full4.induct with
  | case1 a b c d rest ih =>
    have h' : rest.length % 4 = 0 := by simp [List.length_cons] at hw; omega
    obtain ⟨i1, i2⟩ := ih h'
    constructor
    · simp only [List.cons_append, sumFull, i1]; ac_rfl
    · simp only [List.cons_append, rem4, i2]
  | case2 l h =>
    match l, h with
    | [], _ => simp [sumFull]
    | [_], _ => simp at hw
    | [_, _], _ => simp at hw
    | [_, _, _], _ => simp at hw
    | a :: b :: c :: d :: r, h => exact absurd rfl (h a b c d r)

theorem sumFull_append_split (d c : List UInt8) :
    sumFull (d ++ c) = sumFull d + sumFull (rem4 d ++ c) ∧ rem4 (d ++ c) = rem4 (rem4 d ++ c) := by
  have h := aligned_append (full4 d) (rem4 d ++ c) (full4_length d)
  rw [← List.append_assoc, full4_append_rem4, sumFull_full4] at h
  exact h

end Cfdp.Cksum

namespace Cfdp.Cksum

theorem sumFull_short (l : List UInt8) (h : l.length < 4) : sumFull l = 0 ∧ rem4 l = l := by
  match l, h with
  | [], _ => exact ⟨rfl, rfl⟩
  | [_], _ => exact ⟨rfl, rfl⟩
  | [_, _], _ => exact ⟨rfl, rfl⟩
  | [_, _, _], _ => exact ⟨rfl, rfl⟩
  | _ :: _ :: _ :: _ :: _, h => simp at h; omega

/-- one loop iteration adds the complete words of `pending ++ buf` and keeps its remainder -/
theorem stepChunk_eq (st : St) (buf : List UInt8) (hp : st.pending.length < 4) :
    stepChunk st buf =
      { ck := st.ck + sumFull (st.pending ++ buf), pending := rem4 (st.pending ++ buf) } := by
  obtain ⟨ck, pending⟩ := st
  simp only at hp ⊢
  match pending, hp with
  | [], _ => simp [stepChunk]
  | [a], _ =>
    match buf with
    | [] => simp [stepChunk, sumFull, rem4]
    | [x] => simp [stepChunk, sumFull, rem4]
    | [x, y] => simp [stepChunk, sumFull, rem4]
    | x :: y :: z :: r => simp [stepChunk, sumFull, rem4, padWord, UInt32.add_assoc]
  | [a, b], _ =>
    match buf with
    | [] => simp [stepChunk, sumFull, rem4]
    | [x] => simp [stepChunk, sumFull, rem4]
    | x :: y :: r => simp [stepChunk, sumFull, rem4, padWord, UInt32.add_assoc]
  | [a, b, c], _ =>
    match buf with
    | [] => simp [stepChunk, sumFull, rem4]
    | x :: r => simp [stepChunk, sumFull, rem4, padWord, UInt32.add_assoc]
  | _ :: _ :: _ :: _ :: _, h => simp at h; omega

/-- loop invariant: after reading the chunks `cs` the state is determined by their concatenation -/
theorem foldl_stepChunk (cs : List (List UInt8)) (d : List UInt8) :
    cs.foldl stepChunk { ck := sumFull d, pending := rem4 d } =
      { ck := sumFull (d ++ cs.flatten), pending := rem4 (d ++ cs.flatten) } := by
  induction cs generalizing d with
  | nil => simp
  | cons c cs ih =>
    have hlen : (rem4 d).length < 4 := by rw [rem4_length]; omega
    simp only [List.foldl_cons, List.flatten_cons]
    rw [stepChunk_eq _ _ hlen]
    obtain ⟨h1, h2⟩ := sumFull_append_split d c
    simp only
    rw [← h1, ← h2, ih (d ++ c), List.append_assoc]

end Cfdp.Cksum
