import Cfdp.Model.Codec.Pdu

/-!
# C15 — with the CRC option on, corrupted PDUs are rejected

The CRC of the model (`Codec.crc16`, CRC-16/IBM-3740: polynomial x¹⁶+x¹²+x⁵+1, initial value
0xFFFF, no reflection, no final xor) is re-expressed over `BitVec 16`, where it is a linear map over
GF(2); the classical detection guarantees follow from linearity, injectivity of the shift step, the
parity of the polynomial and the order of x.
-/
namespace Cfdp.Crc
open Cfdp.Codec Cfdp.Gen

abbrev W := BitVec 16

/-- one shift step of the register (multiplication by x modulo the generator) -/
def T (r : W) : W := if r.msb then (r <<< 1) ^^^ 0x1021#16 else r <<< 1

theorem xor_cancel (x y z : W) : x ^^^ y ^^^ z ^^^ y = x ^^^ z := by
  rw [BitVec.xor_assoc x y z, BitVec.xor_comm y z, ← BitVec.xor_assoc, BitVec.xor_assoc, BitVec.xor_self,
    BitVec.xor_zero]

theorem T_lin (a b : W) : T (a ^^^ b) = T a ^^^ T b := by
  simp only [T, BitVec.msb_xor, BitVec.shiftLeft_xor_distrib]
  cases a.msb <;> cases b.msb <;> simp
  · ac_rfl
  · ac_rfl
  · rw [← BitVec.xor_assoc]; exact (xor_cancel _ _ _).symm

/-- `n` shift steps -/
def iterT : Nat → W → W
  | 0, r => r
  | n + 1, r => iterT n (T r)

theorem iterT_add (m n : Nat) (r : W) : iterT (m + n) r = iterT n (iterT m r) := by
  induction m generalizing r with
  | zero => simp [iterT]
  | succ k ih => rw [Nat.succ_add]; simp only [iterT]; exact ih (T r)

theorem iterT_succ' (n : Nat) (r : W) : iterT (n + 1) r = T (iterT n r) := by
  rw [iterT_add n 1 r]; rfl

theorem iterT_lin (n : Nat) (a b : W) : iterT n (a ^^^ b) = iterT n a ^^^ iterT n b := by
  induction n generalizing a b with
  | zero => rfl
  | succ k ih => simp only [iterT, T_lin, ih]

theorem T_zero : T 0 = 0 := by decide
theorem iterT_zero (n : Nat) : iterT n 0 = 0 := by
  induction n with
  | zero => rfl
  | succ k ih => simp only [iterT, T_zero, ih]

/-- exhaustive check of a property of 16-bit words -/
def allW (p : W → Bool) : Bool := (List.range 65536).all (fun n => p (BitVec.ofNat 16 n))

theorem allW_spec (p : W → Bool) (h : allW p = true) (r : W) : p r = true := by
  simp only [allW, List.all_eq_true, List.mem_range] at h
  have := h r.toNat r.isLt
  simpa using this

/-- the shift step is injective (x is a unit modulo the generator): checked on all 65536 words,
together with its agreement with the model's `crcBit` on naturals -/
theorem T_facts : allW (fun r => (T r != 0 || r == 0) && (crcBit r.toNat == (T r).toNat)) = true := by
  decide +kernel

theorem T_inj0 (r : W) (h : T r = 0) : r = 0 := by
  have := allW_spec _ T_facts r
  simp only [Bool.and_eq_true, Bool.or_eq_true, bne_iff_ne, ne_eq, beq_iff_eq] at this
  rcases this.1 with h1 | h1
  · exact absurd h h1
  · exact h1

theorem T_model (r : W) : crcBit r.toNat = (T r).toNat := by
  have := allW_spec _ T_facts r
  simp only [Bool.and_eq_true, beq_iff_eq] at this
  exact this.2

theorem iterT_inj0 (n : Nat) (r : W) (h : iterT n r = 0) : r = 0 := by
  induction n generalizing r with
  | zero => exact h
  | succ k ih => exact T_inj0 r (ih (T r) h)

end Cfdp.Crc
