import Cfdp.Props.C19l
import Cfdp.Props.C18s
set_option linter.unusedSimpArgs false

/-! # C18: closure works - the Finished PDU of an unacknowledged receiver lost again and again

Nothing is acknowledged in unacknowledged mode, so a receiver whose metadata asked for closure repeats its Finished PDU on
the positive-ACK timer until a limit ends it quietly (`C18_recv_closure_ends_quietly`).  Here: below the limits every
expiry is followed by the transmission of that same Finished PDU (`unack_fin_round_state`, `C18_closure_finished_repeated`),
and whichever of them reaches the sender ends it with the receiver's outcome (`C18_send_reports_outcome`). -/
namespace Cfdp.Loop
open Cfdp.Codec Cfdp.Gen Cfdp.Timer Cfdp.Recv Cfdp.Send

/-- the general part of `handle_timeout` on a receiver in the Finished phase whose positive-ACK period is over, below the
limits, and the transmission that follows - in either transmission mode -/
theorem htm_fin_state {m Ta Ti Tn : Nat} (r : Recv.State) (t : Nat) (f : Finished) (ha : r.state = .Active)
    (hfin : r.recvState = .Finished) (hp : r.prompt = none) (hack : r.ack = none)
    (hf : r.finished = some (f, false)) (hdel : r.delayed = []) (hrt : RT m Ta Ti Tn r.timer)
    (hocc0 : (r.timer.ack.update t).occurred = true)
    (hal : (r.timer.ack.update t).count ≠ r.timer.ack.max)
    (hil : (r.timer.inactivity.update t).count ≠ r.timer.inactivity.max) :
    (∃ h, (recvStep (handleTimeoutMain (clrR r) t) t .send).sent = some ⟨h, .finished f⟩) ∧
    (recvStep (handleTimeoutMain (clrR r) t) t .send).state = .Active ∧ (recvStep (handleTimeoutMain (clrR r) t) t .send).recvState = .Finished ∧ (recvStep (handleTimeoutMain (clrR r) t) t .send).cfg = r.cfg ∧ (recvStep (handleTimeoutMain (clrR r) t) t .send).condition = r.condition ∧
    (recvStep (handleTimeoutMain (clrR r) t) t .send).prompt = none ∧ (recvStep (handleTimeoutMain (clrR r) t) t .send).ack = none ∧ (recvStep (handleTimeoutMain (clrR r) t) t .send).finished = some (f, false) ∧ (recvStep (handleTimeoutMain (clrR r) t) t .send).delayed = [] ∧
    (recvStep (handleTimeoutMain (clrR r) t) t .send).timer.ack.start = t ∧ (recvStep (handleTimeoutMain (clrR r) t) t .send).timer.ack.paused = false ∧
    (recvStep (handleTimeoutMain (clrR r) t) t .send).timer.ack.count = (r.timer.ack.update t).count ∧
    IK r.timer.inactivity t (recvStep (handleTimeoutMain (clrR r) t) t .send).timer.inactivity := by
  have hnt : ((clrR r).state == TransactionState.Terminated) = false := by
    show (r.state == TransactionState.Terminated) = false; rw [ha]; rfl
  have hns : ((clrR r).state == TransactionState.Suspended) = false := by
    show (r.state == TransactionState.Suspended) = false; rw [ha]; rfl
  have hd : handleDelayed (clrR r) t = clrR r := by
    have hd0 : (clrR r).delayed = [] := hdel
    rw [naks_handleDelayed_nil _ _ (by rw [hd0]; rfl), hd0]
    show ({ clrR r with delayed := [] } : Recv.State) = clrR r
    have : (clrR r) = { clrR r with delayed := (clrR r).delayed } := rfl
    rw [this, hd0]
  have hib : (((clrR r).timer.inactivity.limitReached t).2) = false := by
    show ((r.timer.inactivity.update t).count == (r.timer.inactivity.update t).max) = false
    rw [max_update]; simpa using hil
  have hTi := hrt.inactivity.2.1
  have hOi := hrt.inactivity.1
  have hid1 : (r.timer.inactivity.update t).update t = r.timer.inactivity.update t := update_idem _ _ hTi hOi
  obtain ⟨k, hk, hik⟩ : ∃ k, handleInactivity (clrR r) t = (setIR (clrR r) k, true) ∧ IK r.timer.inactivity t k := by
    rw [Recv.handleInactivity_eq]
    simp only [hib, Bool.false_eq_true, if_false]
    split
    · refine ⟨_, rfl, ?_, Or.inl rfl, ?_⟩
      · show ((((r.timer.inactivity.update t).update t).update t)).count = (r.timer.inactivity.update t).count
        rw [hid1, hid1]
      · intro hc; cases hc
    · refine ⟨_, rfl, ?_, Or.inr ?_, ?_⟩
      · show ((r.timer.inactivity.update t).update t).count = (r.timer.inactivity.update t).count
        rw [hid1]
      · show ((r.timer.inactivity.update t).update t).start = (r.timer.inactivity.update t).start
        rw [hid1]
      · show ((r.timer.inactivity.update t).update t).paused = true → r.timer.inactivity.paused = true
        rw [hid1]
        intro hp
        simp only [Counter.update] at hp
        split at hp
        · assumption
        · rw [(updateLoop_fields _ _ _).2.2.2] at hp; exact hp
  -- the positive-ACK part
  have hlb : ((r.timer.ack.limitReached t).2) = false := by
    show ((r.timer.ack.update t).count == (r.timer.ack.update t).max) = false
    rw [max_update]; simpa using hal
  have hocc : ((r.timer.ack.limitReached t).1.timeoutOccurred t).2 = true := by
    show ((r.timer.ack.update t).update t).occurred = true
    rw [update_idem _ _ hrt.ack.2.1 hrt.ack.1]
    exact hocc0
  -- the state `handle_timeout` leaves behind, named piece by piece
  generalize hy : setAR (setNR (setIR (clrR r) k) ((setIR (clrR r) k).timer.nak.pause t))
      ((r.timer.ack.limitReached t).1.timeoutOccurred t).1 = y
  have y1 : y.state = .Active := by rw [← hy]; exact ha
  have y2 : y.recvState = .Finished := by rw [← hy]; exact hfin
  have y3 : y.prompt = none := by rw [← hy]; exact hp
  have y4 : y.ack = none := by rw [← hy]; exact hack
  have y5 : y.finished = some (f, false) := by rw [← hy]; exact hf
  have y6 : y.cfg = r.cfg := by rw [← hy]; rfl
  have y7 : y.condition = r.condition := by rw [← hy]; rfl
  have y8 : y.delayed = [] := by rw [← hy]; exact hdel
  have y9 : y.timer.inactivity = k := by rw [← hy]; rfl
  have hsf : setFinishedFlag y true = { y with finished := some (f, true) } := by simp only [setFinishedFlag, y5]
  have e2 : handleTimeoutMain (clrR r) t =
      setAR ({ y with finished := some (f, true) } : Recv.State) (((r.timer.ack.limitReached t).1.timeoutOccurred t).1.restart t) := by
    rw [Recv.handleTimeoutMain_eq]
    simp only [hns, Bool.false_eq_true, if_false, hd, hk, Bool.not_true]
    have hrs : (setIR (clrR r) k).recvState = .Finished := hfin
    simp only [hrs]
    rw [Recv.handleAckTimer_eq]
    have hak : (setNR (setIR (clrR r) k) ((setIR (clrR r) k).timer.nak.pause t)).timer.ack = r.timer.ack := rfl
    rw [hak]
    simp only [hlb, Bool.false_eq_true, if_false, hocc, if_true]
    rw [hy, hsf]
  generalize hx : setAR ({ y with finished := some (f, true) } : Recv.State) (((r.timer.ack.limitReached t).1.timeoutOccurred t).1.restart t) = x at e2
  have x1 : x.state = .Active := by rw [← hx]; exact y1
  have x2 : x.recvState = .Finished := by rw [← hx]; exact y2
  have x3 : x.prompt = none := by rw [← hx]; exact y3
  have x4 : x.ack = none := by rw [← hx]; exact y4
  have x5 : x.finished = some (f, true) := by rw [← hx]; rfl
  have x6 : x.cfg = r.cfg := by rw [← hx]; exact y6
  have x7 : x.condition = r.condition := by rw [← hx]; exact y7
  have x8 : x.delayed = [] := by rw [← hx]; exact y8
  have x9 : x.timer.inactivity = k := by rw [← hx]; exact y9
  have x10 : x.timer.ack = ((r.timer.ack.limitReached t).1.timeoutOccurred t).1.restart t := by rw [← hx]; rfl
  rw [e2]
  -- the transmission
  have hnt2 : ((clrR x).state == TransactionState.Terminated) = false := by
    show (x.state == TransactionState.Terminated) = false; rw [x1]; rfl
  have hns2 : ((clrR x).state == TransactionState.Suspended) = false := by
    show (x.state == TransactionState.Suspended) = false; rw [x1]; rfl
  have j1 : (clrR x).recvState = .Finished := x2
  have j2 : (clrR x).prompt = none := x3
  have j3 : (clrR x).ack = none := x4
  have j4 : (clrR x).finished = some (f, true) := x5
  have hhas : Recv.hasPduToSend (clrR x) = true := by
    simp only [Recv.hasPduToSend, hns2, Bool.false_eq_true, if_false, j1, j4]
  have e2 : recvStep x t .send = Recv.sendFinished (clrR x) t := by
    rw [recvStep_eq]
    simp only [hnt2, Bool.false_eq_true, if_false, hhas, if_true, Recv.sendPdu, j2, Option.isSome_none, j1, j3, j4]
  rw [e2]
  have hsend : (Recv.sendFinished (clrR x) t) = Recv.setFinishedFlag (Recv.sendPayload
      { clrR x with timer := { (clrR x).timer with ack := (clrR x).timer.ack.restart t } } (.finished f)) false := by
    simp only [Recv.sendFinished, j4]
  have hfl : (Recv.sendFinished (clrR x) t).finished = some (f, false) := by
    rw [hsend]; simp only [Recv.setFinishedFlag, Recv.finished_sendPayload, j4]
  have htm : (Recv.sendFinished (clrR x) t).timer = { (clrR x).timer with ack := (clrR x).timer.ack.restart t } := by
    rw [hsend]; simp only [Recv.setFinishedFlag, Recv.finished_sendPayload, j4, Recv.timer_sendPayload]
  have hTa := hrt.ack.2.1
  have hOa := hrt.ack.1
  have hida : (r.timer.ack.update t).update t = r.timer.ack.update t := update_idem _ _ hTa hOa
  -- the positive-ACK counter: restarted by the expiry and again by the transmission, the count as the expiry left it
  have hA1 : x.timer.ack = ((r.timer.ack.update t).update t).restart t := x10
  have hA1s : (((r.timer.ack.update t).update t).restart t).start = t := rfl
  have hA1t : 0 < (((r.timer.ack.update t).update t).restart t).timeout := by
    rw [timeout_restart, timeout_update, timeout_update]; exact hTa
  have hA1u : (((r.timer.ack.update t).update t).restart t).update t = ((r.timer.ack.update t).update t).restart t :=
    update_at_start _ _ hA1s hA1t
  refine ⟨?_, ?_, ?_, ?_, ?_, ?_, ?_, hfl, ?_, ?_, ?_, ?_, ?_⟩
  · rw [hsend]
    simp only [Recv.setFinishedFlag, Recv.finished_sendPayload, j4]
    exact ⟨_, rfl⟩
  · rw [Recv.state_sendFinished]; exact x1
  · rw [Recv.recvState_sendFinished]; exact x2
  · rw [Recv.cfg_sendFinished]; exact x6
  · rw [Recv.condition_sendFinished]; exact x7
  · rw [Recv.prompt_sendFinished]; exact x3
  · rw [Recv.ack_sendFinished]; exact x4
  · rw [Recv.delayed_sendFinished]; exact x8
  · rw [htm]; rfl
  · rw [htm]; rfl
  · rw [htm]
    show (x.timer.ack.restart t).count = _
    rw [hA1]
    show ((((r.timer.ack.update t).update t).restart t).update t).count = _
    rw [hA1u]
    show (((r.timer.ack.update t).update t).update t).count = _
    rw [hida, hida]
  · rw [htm]
    show IK r.timer.inactivity t x.timer.inactivity
    rw [x9]; exact hik


/-- one expiry of the positive-ACK timer of an unacknowledged receiver repeating its closure Finished PDU, below the
limits, and the transmission that follows: the whole state afterwards -/
theorem unack_fin_round_state {m Ta Ti Tn : Nat} (r : Recv.State) (t : Nat) (f : Finished) (ha : r.state = .Active)
    (hm : r.cfg.mode = .Unacknowledged) (hfin : r.recvState = .Finished) (hp : r.prompt = none) (hack : r.ack = none)
    (hf : r.finished = some (f, false)) (hdel : r.delayed = []) (hrt : RT m Ta Ti Tn r.timer)
    (hdue : r.timer.ack.paused = false ∧ r.timer.ack.timeout ≤ t - r.timer.ack.start ∧ r.timer.ack.start ≤ t)
    (hal : (r.timer.ack.update t).count ≠ r.timer.ack.max)
    (hil : (r.timer.inactivity.update t).count ≠ r.timer.inactivity.max) :
    (∃ h, (recvStep (recvStep r t .timeout) t .send).sent = some ⟨h, .finished f⟩) ∧
    (recvStep (recvStep r t .timeout) t .send).state = .Active ∧
    (recvStep (recvStep r t .timeout) t .send).recvState = .Finished ∧
    (recvStep (recvStep r t .timeout) t .send).cfg = r.cfg ∧
    (recvStep (recvStep r t .timeout) t .send).condition = r.condition ∧
    (recvStep (recvStep r t .timeout) t .send).prompt = none ∧ (recvStep (recvStep r t .timeout) t .send).ack = none ∧
    (recvStep (recvStep r t .timeout) t .send).finished = some (f, false) ∧
    (recvStep (recvStep r t .timeout) t .send).delayed = [] ∧
    (recvStep (recvStep r t .timeout) t .send).timer.ack.start = t ∧
    (recvStep (recvStep r t .timeout) t .send).timer.ack.paused = false ∧
    (recvStep (recvStep r t .timeout) t .send).timer.ack.count = (r.timer.ack.update t).count ∧
    IK r.timer.inactivity t (recvStep (recvStep r t .timeout) t .send).timer.inactivity := by
  have hnt : ((clrR r).state == TransactionState.Terminated) = false := by
    show (r.state == TransactionState.Terminated) = false; rw [ha]; rfl
  have hns : ((clrR r).state == TransactionState.Suspended) = false := by
    show (r.state == TransactionState.Suspended) = false; rw [ha]; rfl
  have hu : Recv.untilTimeout (clrR r) t = some 0 := by
    have hd0 : (clrR r).delayed = [] := hdel
    simp only [Recv.untilTimeout, hns, Bool.false_eq_true, if_false, hd0, List.head?_nil]
    exact untilTimeout_ack_due r.timer t hdue.1 hdue.2.1 hdue.2.2
  have hmode : ((clrR r).cfg.mode == TransmissionMode.Unacknowledged) = true := by
    show (r.cfg.mode == TransmissionMode.Unacknowledged) = true; rw [hm]; rfl
  have hrs : ((clrR r).recvState == RecvState.Finished) = true := by
    show (r.recvState == RecvState.Finished) = true; rw [hfin]; rfl
  have hlb : ((clrR r).timer.ack.limitReached t).2 = false := by
    show ((r.timer.ack.update t).count == (r.timer.ack.update t).max) = false
    rw [max_update]; simpa using hal
  have hib : ((clrR r).timer.inactivity.limitReached t).2 = false := by
    show ((r.timer.inactivity.update t).count == (r.timer.inactivity.update t).max) = false
    rw [max_update]; simpa using hil
  -- the state the limit checks leave: both counters brought up to date
  let r2 : Recv.State := setIR (setAR (clrR r) (r.timer.ack.update t)) (r.timer.inactivity.update t)
  have hufl : unackFinishedLimit (clrR r) t = (r2, false) := by
    simp only [unackFinishedLimit, hlb, Bool.false_eq_true, if_false]
    have : ((setAR (clrR r) ((clrR r).timer.ack.limitReached t).1).timer.inactivity.limitReached t).2 = false := hib
    first
      | rfl
      | (refine Prod.ext ?_ ?_ <;> first | rfl | exact hib)
  have e1 : recvStep r t .timeout = handleTimeoutMain (clrR r2) t := by
    rw [recvStep_eq]
    simp only [hnt, Bool.false_eq_true, if_false, hu, beq_self_eq_true, if_true, Recv.handleTimeout, hns, hmode, hrs,
      Bool.and_self, hufl]
    rfl
  have hTa := hrt.ack.2.1
  have hOa := hrt.ack.1
  have hTi := hrt.inactivity.2.1
  have hOi := hrt.inactivity.1
  have hida : (r.timer.ack.update t).update t = r.timer.ack.update t := update_idem _ _ hTa hOa
  have hidi : (r.timer.inactivity.update t).update t = r.timer.inactivity.update t := update_idem _ _ hTi hOi
  have hrt2 : RT m Ta Ti Tn r2.timer := ⟨cq_update hrt.ack t, cq_update hrt.inactivity t, hrt.nak⟩
  have hocc : (r2.timer.ack.update t).occurred = true := by
    show ((r.timer.ack.update t).update t).occurred = true
    rw [hida]; exact (update_due r.timer.ack t hdue.1 hdue.2.1).1
  have hal2 : (r2.timer.ack.update t).count ≠ r2.timer.ack.max := by
    show ((r.timer.ack.update t).update t).count ≠ (r.timer.ack.update t).max
    rw [hida, max_update]; exact hal
  have hil2 : (r2.timer.inactivity.update t).count ≠ r2.timer.inactivity.max := by
    show ((r.timer.inactivity.update t).update t).count ≠ (r.timer.inactivity.update t).max
    rw [hidi, max_update]; exact hil
  obtain ⟨q1, q2, q3, q4, q5, q6, q7, q8, q9, q10, q11, q12, q13⟩ :=
    htm_fin_state r2 t f ha hfin hp hack hf hdel hrt2 hocc hal2 hil2
  rw [e1]
  refine ⟨q1, q2, q3, q4, q5, q6, q7, q8, q9, q10, q11, ?_, ?_⟩
  · rw [q12]
    show ((r.timer.ack.update t).update t).count = _
    rw [hida]
  · obtain ⟨k1, k2, k3⟩ := q13
    refine ⟨?_, ?_, ?_⟩
    · rw [k1]
      show ((r.timer.inactivity.update t).update t).count = _
      rw [hidi]
    · rcases k2 with k2 | k2
      · exact Or.inl k2
      · right
        rw [k2]
        show ((r.timer.inactivity.update t).update t).start = _
        rw [hidi]
    · intro hpz
      have := k3 hpz
      have hp2 : (r.timer.inactivity.update t).paused = true := this
      simp only [Counter.update] at hp2
      split at hp2
      · assumption
      · rw [(updateLoop_fields _ _ _).2.2.2] at hp2; exact hp2

/-- an unacknowledged receiver whose metadata asked for closure, in the Finished phase: it has transmitted its Finished
PDU and keeps it for retransmission -/
structure WFU (f : Finished) (r : Recv.State) : Prop where
  act : r.state = .Active
  mode : r.cfg.mode = .Unacknowledged
  rs : r.recvState = .Finished
  pr : r.prompt = none
  ack : r.ack = none
  fin : r.finished = some (f, false)
  del : r.delayed = []

/-- **C18 (closure works: the Finished PDU is repeated as long as it is lost, up to the limit).**  As long as the expiries
of the positive-ACK timer of an unacknowledged receiver repeating its closure Finished PDU stay below the limit and
within the inactivity limit (`FairT`), every expiry is followed by the transmission of that same Finished PDU, the
outcome recorded stays as it is, and the receiver goes on repeating. -/
theorem C18_closure_finished_repeated {m Ta Ti Tn : Nat} (f : Finished) (ts : List Nat) (r : Recv.State)
    (tp j a : Nat) (h : WFU f r) (hrt : RT m Ta Ti Tn r.timer) (ab : AB tp j r.timer.ack)
    (ib : IB Ti a (max a tp) r.timer.inactivity) (hf : FairT m Ta Ti tp j a ts) :
    WFU f (finRounds r ts).1 ∧ (finRounds r ts).1.condition = r.condition ∧ (finRounds r ts).2.length = ts.length ∧
    (∀ p ∈ (finRounds r ts).2, ∃ hd, p = ⟨hd, .finished f⟩) := by
  induction ts generalizing r tp j with
  | nil => exact ⟨h, rfl, rfl, (fun p hp => by cases hp)⟩
  | cons t ts ih =>
    simp only [FairT] at hf
    obtain ⟨h1, h2, h3, h4, h5, hf⟩ := hf
    have hT : r.timer.ack.timeout = Ta := hrt.ack.2.2.2
    have hM : r.timer.ack.max = m := hrt.ack.2.2.1
    have hTp : 0 < r.timer.ack.timeout := hrt.ack.2.1
    have hOk : r.timer.ack.count ≤ r.timer.ack.max := hrt.ack.1
    have hdue : r.timer.ack.paused = false ∧ r.timer.ack.timeout ≤ t - r.timer.ack.start ∧ r.timer.ack.start ≤ t := by
      refine ⟨ab.run, ?_, ?_⟩ <;> rw [ab.start] <;> try rw [hT]
      all_goals omega
    have hcnt : (r.timer.ack.update t).count = min (r.timer.ack.count + 1) r.timer.ack.max :=
      count_update_window _ t ab.run hTp hOk (by rw [ab.start, hT]; exact h1) (by rw [ab.start, hT]; exact h2)
    have hal : (r.timer.ack.update t).count ≠ r.timer.ack.max := by
      rw [hcnt, hM]
      have := ab.count
      omega
    have hTi : r.timer.inactivity.timeout = Ti := hrt.inactivity.2.2.2
    have hMi : r.timer.inactivity.max = m := hrt.inactivity.2.2.1
    have hTip : 0 < Ti := by rw [← hTi]; exact hrt.inactivity.2.1
    have ibu : IB Ti a t (r.timer.inactivity.update t) := ib_update ib t hTi hTip hrt.inactivity.1 (by omega)
    have hil : (r.timer.inactivity.update t).count ≠ r.timer.inactivity.max := by
      have := ib_limit ibu h5
      rw [hMi]; omega
    have hround : (∃ hd, (recvStep (recvStep r t .timeout) t .send).sent = some ⟨hd, .finished f⟩) ∧
        WFU f (recvStep (recvStep r t .timeout) t .send) ∧
        (recvStep (recvStep r t .timeout) t .send).condition = r.condition ∧
        (recvStep (recvStep r t .timeout) t .send).timer.ack.start = t ∧
        (recvStep (recvStep r t .timeout) t .send).timer.ack.paused = false ∧
        (recvStep (recvStep r t .timeout) t .send).timer.ack.count = (r.timer.ack.update t).count ∧
        IK r.timer.inactivity t (recvStep (recvStep r t .timeout) t .send).timer.inactivity := by
      obtain ⟨q1, q2, q3, q4, q5, q6, q7, q8, q9, q10, q11, q12, q13⟩ :=
        unack_fin_round_state r t f h.act h.mode h.rs h.pr h.ack h.fin h.del hrt hdue hal hil
      exact ⟨q1, ⟨q2, by rw [q4]; exact h.mode, q3, q6, q7, q8, q9⟩, q5, q10, q11, q12, q13⟩
    obtain ⟨p1, p2, p3, p4, p5, p6, p7⟩ := hround
    generalize hr2 : recvStep (recvStep r t .timeout) t .send = r2 at p1 p2 p3 p4 p5 p6 p7
    have hrt2 : RT m Ta Ti Tn r2.timer := by rw [← hr2]; exact rt_recvStep (rt_recvStep hrt t .timeout) t .send
    have ab2 : AB t (j + 1) r2.timer.ack := by
      refine ⟨p4, p5, ?_⟩
      rw [p6, hcnt]
      have := ab.count
      omega
    have ib2 : IB Ti a (max a t) r2.timer.inactivity := by
      obtain ⟨k1, k2, _⟩ := p7
      have u1 := ibu.cnt
      have u2 := ibu.lo
      have u3 := ibu.hi
      refine ⟨?_, ?_, ?_⟩
      · rw [k1]; rcases k2 with k2 | k2 <;> rw [k2] <;> omega
      · rcases k2 with k2 | k2 <;> rw [k2] <;> omega
      · rcases k2 with k2 | k2 <;> rw [k2] <;> omega
    obtain ⟨i1, i2, i3, i4⟩ := ih r2 t (j + 1) p2 hrt2 ab2 ib2 hf
    simp only [finRounds, hr2]
    obtain ⟨hd, hsent⟩ := p1
    rw [hsent]
    refine ⟨i1, i2.trans p3, by simp [i3], ?_⟩
    intro p hp
    simp only [Option.toList, List.cons_append, List.nil_append, List.mem_cons] at hp
    rcases hp with rfl | hp
    · exact ⟨hd, rfl⟩
    · exact i4 p hp


/-- **C18 (closure works under repeated loss).**  Whichever of these retransmissions reaches the sender (unacknowledged
mode, closure requested, waiting after its EOF), it ends the sender and its user is told the receiver's outcome. -/
theorem C18_closure_lost_finisheds {m Ta Ti Tn : Nat} (s : Send.State) (r : Recv.State) (ts : List Nat) (tp j a t1 : Nat)
    (f : Finished) (hsm : s.cfg.mode = .Unacknowledged) (hsc : s.md.closure = true)
    (h : WFU f r) (hrt : RT m Ta Ti Tn r.timer) (ab : AB tp j r.timer.ack)
    (ib : IB Ti a (max a tp) r.timer.inactivity) (hf : FairT m Ta Ti tp j a ts) :
    (finRounds r ts).2.length = ts.length ∧
    ∀ pf ∈ (finRounds r ts).2,
      (Send.processPdu s pf t1).1.state = .Terminated ∧
      (Send.processPdu s pf t1).1.out = s.out ++ [Send.Ind.finished f.cond f.delivery s.fileStatus s.state s.status f.responses] := by
  obtain ⟨_, _, wl, wp⟩ := C18_closure_finished_repeated f ts r tp j a h hrt ab ib hf
  refine ⟨wl, ?_⟩
  intro pf hpf
  obtain ⟨hd, rfl⟩ := wp pf hpf
  exact Send.C18_send_reports_outcome s ⟨hd, .finished f⟩ f t1 hsm hsc rfl

/-! ### the premises are satisfiable -/

/-- unacknowledged mode, limit 4, positive-ACK period 1 s, inactivity period 3 s -/
abbrev cfgU : Recv.Config := { c04Cfg with mode := .Unacknowledged, max := 4, ti := 3 }
/-- a Metadata PDU asking for closure -/
abbrev mdC : Pdu :=
  ⟨c04Hdr, .metadata { closure := true, cksumType := .Null, fileSize := 6, srcName := [115], dstName := [100], options := [] }⟩
/-- the receiver after the whole file, having transmitted its closure Finished PDU -/
def exRU : Recv.State :=
  (recvRun (Recv.new cfgU [([], .dir)] 0) [(0, .pdu mdC), (0, .pdu exOut[1]!), (0, .pdu exOut[2]!), (0, .pdu exOut[3]!), (0, .send)]).1

example : (finRounds exRU [1000000000, 2000000500, 3000000500]).2.length = 3 ∧
    ∃ f, ∀ pf ∈ (finRounds exRU [1000000000, 2000000500, 3000000500]).2, ∃ hd, pf = ⟨hd, .finished f⟩ := by
  have hf : ∃ f, exRU.finished = some (f, false) := ⟨_, rfl⟩
  obtain ⟨f, hf⟩ := hf
  have hri : RI cfgU.max (cfgU.ta * 1000000000) (cfgU.ti * 1000000000) (cfgU.tn * 1000000000) exRU :=
    ri_run _ _ (ri_new cfgU [([], .dir)] 0 (by decide) (by decide) (by decide) ⟨by decide, by decide, by decide⟩)
  obtain ⟨_, _, c3, c4⟩ := C18_closure_finished_repeated (m := 4) (Ta := 1000000000) (Ti := 3000000000) (Tn := 1000000000)
    f [1000000000, 2000000500, 3000000500] exRU 0 0 0
    ⟨by decide, by decide, by decide, by decide, by decide, hf, by decide⟩ hri.inv.rt
    ⟨by decide, by decide, by decide⟩ ⟨by decide, by decide, by decide⟩
    ⟨by decide, by decide, by decide, by decide, by decide, by decide, by decide, by decide, by decide, by decide,
      by decide, by decide, by decide, by decide, by decide, trivial⟩
  exact ⟨c3, f, c4⟩

end Cfdp.Loop

#print axioms Cfdp.Loop.C18_closure_finished_repeated
#print axioms Cfdp.Loop.C18_closure_lost_finisheds
#print axioms Cfdp.Loop.C18_recv_oneway
#print axioms Cfdp.Loop.C18_recv_silent_without_closure
#print axioms Cfdp.Loop.C18_complete_means_complete
#print axioms Cfdp.Send.C18_send_ends_on_eof
#print axioms Cfdp.Send.C18_send_waits
#print axioms Cfdp.Send.C18_send_reports_outcome
#print axioms Cfdp.Send.C18_send_ignores_finished_without_closure
#print axioms Cfdp.Recv.C18_recv_closure_ends_quietly
#print axioms Cfdp.Loop.C18_send_data_once
