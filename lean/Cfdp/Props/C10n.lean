import Cfdp.Props.C10
import Cfdp.Model.Net

/-! # C10, two parties: the cancel handshake ends both sides with the cancel condition -/
namespace Cfdp.Loop
open Cfdp.Codec Cfdp.Gen

/-- the state a loop iteration starts from: last iteration's transmission and indications taken -/
def clrS (s : Send.State) : Send.State := { s with sent := none, out := [] }
def clrR (s : Recv.State) : Recv.State := { s with sent := none, out := [] }

theorem sendStep_eq (s : Send.State) (now : Nat) (e : Ev) :
    sendStep s now e =
      if (clrS s).state == .Terminated then clrS s else
      match e with
      | .pdu p => (Send.processPdu (clrS s) p now).1
      | .send => if Send.hasPduToSend (clrS s) then Send.sendPdu (clrS s) now else clrS s
      | .timeout => if Send.untilTimeout (clrS s) now == some 0 then Send.handleTimeout (clrS s) now else clrS s
      | .cancel => Send.cancel (clrS s) now
      | .suspend => Send.suspend (clrS s) now
      | .resume => Send.resume (clrS s) now
      | .report => Send.sendReport (clrS s)
      | .abandon => Send.shutdown (clrS s) now
      | .prompt k => Send.preparePrompt (clrS s) k := rfl

theorem recvStep_eq (s : Recv.State) (now : Nat) (e : Ev) :
    recvStep s now e =
      if (clrR s).state == .Terminated then clrR s else
      match e with
      | .pdu p => (Recv.processPdu (clrR s) p now).1
      | .send => if Recv.hasPduToSend (clrR s) then Recv.sendPdu (clrR s) now else clrR s
      | .timeout => if Recv.untilTimeout (clrR s) now == some 0 then Recv.handleTimeout (clrR s) now else clrR s
      | .cancel => Recv.cancel (clrR s) now
      | .suspend => Recv.suspend (clrR s) now
      | .resume => Recv.resume (clrR s) now
      | .report => Recv.sendReport (clrR s)
      | .abandon => Recv.shutdown (clrR s) now
      | .prompt _ => clrR s := rfl

end Cfdp.Loop

namespace Cfdp.Net
open Cfdp.Loop Cfdp.Codec Cfdp.Gen

/-- steps 1-2, sender: the user's Cancel.request, then the next transmission is the EOF carrying the
cancel condition -/
theorem cancel_then_send (s : Send.State) (t : Nat) (ha : s.state = .Active) (hp : s.prompt = none) :
    (sendStep (sendStep s t .cancel) t .send).state = .Active ∧
    (sendStep (sendStep s t .cancel) t .send).sendState = .Cancelled ∧
    (sendStep (sendStep s t .cancel) t .send).condition = .CancelReceived ∧
    (sendStep (sendStep s t .cancel) t .send).prompt = none ∧
    (sendStep (sendStep s t .cancel) t .send).st = s.st ∧
    ∃ h e, (sendStep (sendStep s t .cancel) t .send).sent = some ⟨h, .eof e⟩ ∧ e.cond = .CancelReceived := by
  have hnt : ((clrS s).state == TransactionState.Terminated) = false := by
    show (s.state == TransactionState.Terminated) = false; rw [ha]; rfl
  have e1 : sendStep s t .cancel = Send.cancel (clrS s) t := by
    rw [sendStep_eq]; simp only [hnt, Bool.false_eq_true, if_false]
  obtain ⟨c1, c2, e, c3, c4, _⟩ := Send.C10_send_cancel (clrS s) t
  rw [e1]
  generalize hc : Send.cancel (clrS s) t = c at c1 c2 c3
  have cst : c.state = .Active := by rw [← hc, Send.state_cancel]; exact ha
  have cpr : c.prompt = none := by rw [← hc, Send.prompt_cancel]; exact hp
  have cstt : c.st = s.st := by rw [← hc, Send.st_cancel]; rfl
  have hnt2 : ((clrS c).state == TransactionState.Terminated) = false := by
    show (c.state == TransactionState.Terminated) = false; rw [cst]; rfl
  have k1 : (clrS c).sendState = .Cancelled := c1
  have k2 : (clrS c).prompt = none := cpr
  have k3 : (clrS c).eof = some (e, true) := c3
  have hhas : Send.hasPduToSend (clrS c) = true := by
    have hs : ((clrS c).state == TransactionState.Suspended) = false := by
      show (c.state == TransactionState.Suspended) = false; rw [cst]; rfl
    simp only [Send.hasPduToSend, hs, Bool.false_eq_true, if_false, k2, k1, Send.eofFlag, k3, Option.isSome_none, Bool.false_or]
  have hsp : Send.sendPdu (clrS c) t = Send.sendEof (clrS c) t := by
    simp only [Send.sendPdu, k2, Option.isSome_none, k1, Bool.false_eq_true, if_false]
  have e2 : sendStep c t .send = Send.sendEof (clrS c) t := by
    rw [sendStep_eq]; simp only [hnt2, Bool.false_eq_true, if_false, hhas, if_true, hsp]
  rw [e2]
  refine ⟨?_, ?_, ?_, ?_, ?_, ?_⟩
  · rw [Send.state_sendEof]; exact cst
  · rw [Send.sendState_sendEof]; exact c1
  · rw [Send.condition_sendEof]; exact c2
  · rw [Send.prompt_sendEof]; exact cpr
  · rw [Send.st_sendEof]; exact cstt
  · obtain ⟨h, hh⟩ := (Send.C10_send_cancel_ends (clrS c) t k1 k2).1 e k3
    rw [hsp] at hh
    exact ⟨h, e, hh, c4⟩


/-- step 3, receiver (acknowledged mode): an EOF with an error condition arrives -/
theorem recv_gets_cancel_eof (r : Recv.State) (t : Nat) (p : Pdu) (e : Eof) (ha : r.state = .Active)
    (hm : r.cfg.mode = .Acknowledged) (hp : p.payload = .eof e) (he : e.cond ≠ .NoError) :
    (recvStep r t (.pdu p)).state = .Active ∧ (recvStep r t (.pdu p)).recvState = .Cancelled ∧
    (recvStep r t (.pdu p)).condition = e.cond ∧ (recvStep r t (.pdu p)).prompt = r.prompt ∧
    (recvStep r t (.pdu p)).cfg = r.cfg ∧ (recvStep r t (.pdu p)).fs = r.fs ∧
    (∃ a, (recvStep r t (.pdu p)).ack = some a) ∧
    (∃ f, (recvStep r t (.pdu p)).finished = some (f, true) ∧ f.cond = e.cond) ∧
    (∃ d fsn st stt, Recv.Ind.finished e.cond d fsn st stt [] ∈ (recvStep r t (.pdu p)).out) ∧
    (recvStep r t (.pdu p)).sent = none := by
  have hnt : ((clrR r).state == TransactionState.Terminated) = false := by
    show (r.state == TransactionState.Terminated) = false; rw [ha]; rfl
  have hb : (e.cond == Condition.NoError) = false := by cases hc : e.cond <;> simp_all
  have hm' : (Recv.pduArrived (clrR r) t).cfg.mode = .Acknowledged := hm
  have e1 : recvStep r t (.pdu p) = Recv.ackEof (Recv.pduArrived (clrR r) t) e t := by
    rw [recvStep_eq]
    simp only [hnt, Bool.false_eq_true, if_false, Recv.processPdu, Recv.processPduBody, hm', hp]
  rw [e1]
  -- `ack_eof` with an error condition is `_cancel` on the state that recorded the EOF
  obtain ⟨q, hq, q1, q2, q3, q4, q5, q6, q7, q8⟩ : ∃ q : Recv.State,
      Recv.ackEof (Recv.pduArrived (clrR r) t) e t = Recv.cancelInner q t ∧ q.condition = e.cond ∧ q.state = r.state ∧
      q.cfg = r.cfg ∧ q.prompt = r.prompt ∧ q.fs = r.fs ∧ (∃ a, q.ack = some a) ∧ q.out = [.eofRecv] ∧ q.sent = none := by
    refine ⟨Recv.emit { Recv.prepareAckEof { Recv.pduArrived (clrR r) t with condition := e.cond } with
      checksum := some e.checksum } .eofRecv, ?_, rfl, rfl, rfl, rfl, rfl, ⟨_, rfl⟩, rfl, rfl⟩
    simp only [Recv.ackEof, Recv.emit, Recv.prepareAckEof, hb, Bool.false_eq_true, if_false]
  rw [hq]
  have hqm : q.cfg.mode = .Acknowledged := by rw [q3]; exact hm
  obtain ⟨c1, c2, c3⟩ := (Recv.cancelInner_cases q t).1 hqm
  refine ⟨by rw [c2, q2]; exact ha, Recv.recvState_cancelInner q t, by rw [Recv.condition_cancelInner]; exact q1,
    by rw [Recv.prompt_cancelInner]; exact q4, by rw [Recv.cfg_cancelInner]; exact q3,
    by rw [Recv.fs_cancelInner]; exact q5, ?_, ⟨_, c1, q1⟩, ?_, by rw [Recv.sent_cancelInner]; exact q8⟩
  · rw [Recv.ack_cancelInner]; exact q6
  · rw [c3, q1]
    exact ⟨_, _, _, _, List.mem_append_right _ (List.mem_singleton.mpr rfl)⟩


/-- steps 4-5, receiver in the Cancelled phase: its next two transmissions are the ACK of the EOF and
the Finished PDU that was prepared -/
theorem recv_sends_ack_then_finished (r : Recv.State) (t : Nat) (a : Ack) (f : Finished) (ha : r.state = .Active)
    (hc : r.recvState = .Cancelled) (hp : r.prompt = none) (hack : r.ack = some a) (hf : r.finished = some (f, true)) :
    (∃ h, (recvStep r t .send).sent = some ⟨h, .ack a⟩) ∧
    (∃ h, (recvStep (recvStep r t .send) t .send).sent = some ⟨h, .finished f⟩) ∧
    (recvStep (recvStep r t .send) t .send).state = .Active ∧
    (recvStep (recvStep r t .send) t .send).recvState = .Cancelled ∧
    (recvStep (recvStep r t .send) t .send).condition = r.condition ∧
    (recvStep (recvStep r t .send) t .send).cfg = r.cfg ∧
    (recvStep (recvStep r t .send) t .send).fs = r.fs := by
  have hnt : ((clrR r).state == TransactionState.Terminated) = false := by
    show (r.state == TransactionState.Terminated) = false; rw [ha]; rfl
  have hns : ((clrR r).state == TransactionState.Suspended) = false := by
    show (r.state == TransactionState.Suspended) = false; rw [ha]; rfl
  have k1 : (clrR r).recvState = .Cancelled := hc
  have k2 : (clrR r).prompt = none := hp
  have k3 : (clrR r).ack = some a := hack
  have k4 : (clrR r).finished = some (f, true) := hf
  have hhas : Recv.hasPduToSend (clrR r) = true := by
    simp only [Recv.hasPduToSend, hns, Bool.false_eq_true, if_false, k1, k4]
  have e1 : recvStep r t .send = Recv.sendPayload { clrR r with ack := none } (.ack a) := by
    rw [recvStep_eq]
    simp only [hnt, Bool.false_eq_true, if_false, hhas, if_true, Recv.sendPdu, k2, Option.isSome_none, k1, k3,
      Option.isSome_some, Recv.sendAckEof]
  -- the state after the first transmission
  generalize hr2 : recvStep r t .send = r2 at e1
  have s1 : r2.state = .Active := by rw [e1, Recv.state_sendPayload]; exact ha
  have s2 : r2.recvState = .Cancelled := by rw [e1, Recv.recvState_sendPayload]; exact hc
  have s3 : r2.prompt = none := by rw [e1, Recv.prompt_sendPayload]; exact hp
  have s4 : r2.ack = none := by rw [e1, Recv.ack_sendPayload]
  have s5 : r2.finished = some (f, true) := by rw [e1, Recv.finished_sendPayload]; exact hf
  have s6 : r2.condition = r.condition := by rw [e1, Recv.condition_sendPayload]; rfl
  have s7 : r2.cfg = r.cfg := by rw [e1, Recv.cfg_sendPayload]; rfl
  have s8 : r2.fs = r.fs := by rw [e1, Recv.fs_sendPayload]; rfl
  have sent1 : ∃ h, r2.sent = some ⟨h, .ack a⟩ := by rw [e1]; exact ⟨_, rfl⟩
  have hnt2 : ((clrR r2).state == TransactionState.Terminated) = false := by
    show (r2.state == TransactionState.Terminated) = false; rw [s1]; rfl
  have hns2 : ((clrR r2).state == TransactionState.Suspended) = false := by
    show (r2.state == TransactionState.Suspended) = false; rw [s1]; rfl
  have j1 : (clrR r2).recvState = .Cancelled := s2
  have j2 : (clrR r2).prompt = none := s3
  have j3 : (clrR r2).ack = none := s4
  have j4 : (clrR r2).finished = some (f, true) := s5
  have hhas2 : Recv.hasPduToSend (clrR r2) = true := by
    simp only [Recv.hasPduToSend, hns2, Bool.false_eq_true, if_false, j1, j4]
  have e2 : recvStep r2 t .send = Recv.sendFinished (clrR r2) t := by
    rw [recvStep_eq]
    simp only [hnt2, Bool.false_eq_true, if_false, hhas2, if_true, Recv.sendPdu, j2, Option.isSome_none, j1, j3, j4]
  rw [e2]
  refine ⟨sent1, ?_, ?_, ?_, ?_, ?_, ?_⟩
  · have : (Recv.sendFinished (clrR r2) t) = Recv.setFinishedFlag (Recv.sendPayload
        { clrR r2 with timer := { (clrR r2).timer with ack := (clrR r2).timer.ack.restart t } } (.finished f)) false := by
      simp only [Recv.sendFinished, j4]
    rw [this]
    simp only [Recv.setFinishedFlag, Recv.finished_sendPayload, j4]
    exact ⟨_, rfl⟩
  · rw [Recv.state_sendFinished]; exact s1
  · rw [Recv.recvState_sendFinished]; exact s2
  · rw [Recv.condition_sendFinished]; exact s6
  · rw [Recv.cfg_sendFinished]; exact s7
  · rw [Recv.fs_sendFinished]; exact s8

/-- step 6, sender (acknowledged mode): the receiver's Finished PDU arrives -/
theorem send_gets_finished (s : Send.State) (t : Nat) (p : Pdu) (f : Finished) (ha : s.state = .Active)
    (hm : s.cfg.mode = .Acknowledged) (hc : s.sendState = .Cancelled) (hp : p.payload = .finished f) :
    (sendStep s t (.pdu p)).state = .Active ∧ (sendStep s t (.pdu p)).sendState = .Finished ∧
    (sendStep s t (.pdu p)).condition = f.cond ∧ (sendStep s t (.pdu p)).prompt = s.prompt ∧
    (sendStep s t (.pdu p)).st = s.st ∧
    (∃ a, (sendStep s t (.pdu p)).ack = some a ∧ a.directive = .Finished ∧ a.sub = .Finished) ∧
    (∃ d fsn st stt rs, Send.Ind.finished f.cond d fsn st stt rs ∈ (sendStep s t (.pdu p)).out) ∧
    (sendStep s t (.pdu p)).sent = none := by
  have hnt : ((clrS s).state == TransactionState.Terminated) = false := by
    show (s.state == TransactionState.Terminated) = false; rw [ha]; rfl
  have hpa : Send.pduArrived (clrS s) t = clrS s := by
    have : ((clrS s).sendState == Send.SendState.SendEof) = false := by
      show (s.sendState == Send.SendState.SendEof) = false; rw [hc]; rfl
    simp only [Send.pduArrived, this, Bool.false_eq_true, if_false]
  have hm' : (clrS s).cfg.mode = .Acknowledged := hm
  rw [sendStep_eq]
  simp only [hnt, Bool.false_eq_true, if_false, Send.processPdu, hpa, Send.processPduBody, hm', hp, Send.emit]
  refine ⟨?_, ?_, ?_, ?_, ?_, ?_, ?_, ?_⟩
  all_goals first
    | trivial
    | exact ha
    | rfl
    | exact ⟨_, rfl, rfl, rfl⟩
    | exact ⟨_, _, _, _, _, List.mem_append_right _ (List.mem_singleton.mpr rfl)⟩
    | (simp; done)

/-- step 7, sender in the Finished phase: its next transmission is the ACK of the Finished PDU, and it ends -/
theorem send_acks_finished (s : Send.State) (t : Nat) (a : Ack) (ha : s.state = .Active)
    (hc : s.sendState = .Finished) (hp : s.prompt = none) (hack : s.ack = some a) :
    (∃ h, (sendStep s t .send).sent = some ⟨h, .ack a⟩) ∧ (sendStep s t .send).state = .Terminated ∧
    (sendStep s t .send).condition = s.condition := by
  have hnt : ((clrS s).state == TransactionState.Terminated) = false := by
    show (s.state == TransactionState.Terminated) = false; rw [ha]; rfl
  have hns : ((clrS s).state == TransactionState.Suspended) = false := by
    show (s.state == TransactionState.Suspended) = false; rw [ha]; rfl
  have k1 : (clrS s).sendState = .Finished := hc
  have k2 : (clrS s).prompt = none := hp
  have k3 : (clrS s).ack = some a := hack
  have hhas : Send.hasPduToSend (clrS s) = true := by
    simp only [Send.hasPduToSend, hns, Bool.false_eq_true, if_false, k2, k1, k3, Option.isSome_none, Option.isSome_some,
      Bool.false_or]
  have e1 : sendStep s t .send = Send.shutdown (Send.sendPayload { clrS s with ack := none } (.ack a)) t := by
    rw [sendStep_eq]
    simp only [hnt, Bool.false_eq_true, if_false, hhas, if_true, Send.sendPdu, k2, Option.isSome_none, Send.sendAck, k3]
    rw [k1]
  rw [e1]
  refine ⟨⟨_, rfl⟩, rfl, ?_⟩
  show (Send.sendPayload { clrS s with ack := none } (.ack a)).condition = s.condition
  rw [Send.condition_sendPayload]; rfl

/-- step 8, receiver in the Cancelled phase (acknowledged mode): the ACK of its Finished PDU arrives -/
theorem recv_gets_ack_finished (r : Recv.State) (t : Nat) (p : Pdu) (a : Ack) (ha : r.state = .Active)
    (hm : r.cfg.mode = .Acknowledged) (hc : r.recvState = .Cancelled) (hp : p.payload = .ack a)
    (h1 : a.directive = .Finished) (h2 : a.sub = .Finished) :
    (recvStep r t (.pdu p)).state = .Terminated ∧ (recvStep r t (.pdu p)).condition = r.condition ∧
    (recvStep r t (.pdu p)).fs = r.fs := by
  have hnt : ((clrR r).state == TransactionState.Terminated) = false := by
    show (r.state == TransactionState.Terminated) = false; rw [ha]; rfl
  have hm' : (Recv.pduArrived (clrR r) t).cfg.mode = .Acknowledged := hm
  have hc' : (Recv.pduArrived (clrR r) t).recvState = .Cancelled := hc
  rw [recvStep_eq]
  simp only [hnt, Bool.false_eq_true, if_false, Recv.processPdu, Recv.processPduBody, hm', hp, hc', h1, h2]
  simp only [beq_self_eq_true, Bool.or_true, Bool.and_self, if_true, Recv.shutdown]
  refine ⟨?_, ?_, ?_⟩
  all_goals first | trivial | rfl | (simp; done)


theorem cancel_sent_none (s : Send.State) (t : Nat) (ha : s.state = .Active) : (sendStep s t .cancel).sent = none := by
  have hnt : ((clrS s).state == TransactionState.Terminated) = false := by
    show (s.state == TransactionState.Terminated) = false; rw [ha]; rfl
  rw [sendStep_eq]
  simp only [hnt, Bool.false_eq_true, if_false, Send.sent_cancel]
  rfl

end Cfdp.Net
