import Cfdp.Model.Fs
import Cfdp.Gen.RecvFrames
import Cfdp.Gen.SendFrames
import Cfdp.Model.Loop

/-!
# C13 — filestore requests act as CFDP defines, once, in order, reported truthfully
-/
namespace Cfdp.Fs
open Cfdp.Codec Cfdp.Gen

/-! ### the filesystem map -/

theorem get_erase_self (fs : FS) (p : RelPath) : (fs.erase p).get p = none := by
  simp only [FS.get, FS.erase]
  have : (fs.filter (fun e => e.1 != p)).find? (fun e => e.1 == p) = none := by
    rw [List.find?_eq_none]
    intro x hx
    have := (List.mem_filter.mp hx).2
    simp only [bne_iff_ne, ne_eq] at this
    simp [this]
  rw [this]; rfl

theorem get_erase_other (fs : FS) (p q : RelPath) (h : q ≠ p) : (fs.erase p).get q = fs.get q := by
  simp only [FS.get, FS.erase]
  congr 1
  induction fs with
  | nil => rfl
  | cons x rest ih =>
    simp only [List.filter_cons]
    by_cases hx : x.1 = p
    · have h1 : (x.1 != p) = false := by simp [hx]
      have h2 : (x.1 == q) = false := by simp [hx]; exact fun hh => h hh.symm
      simp only [h1, Bool.false_eq_true, if_false, List.find?_cons, h2]
      exact ih
    · have h1 : (x.1 != p) = true := by simp [hx]
      simp only [h1, if_true, List.find?_cons]
      split
      · rfl
      · exact ih

theorem get_set_self (fs : FS) (p : RelPath) (n : Node) : (fs.set p n).get p = some n := by
  simp only [FS.set, FS.get]
  have h0 : (fs.erase p).find? (fun e => e.1 == p) = none := by
    have := get_erase_self fs p
    simp only [FS.get, Option.map_eq_none_iff] at this
    exact this
  simp [List.find?_append, h0]

theorem get_set_other (fs : FS) (p q : RelPath) (n : Node) (h : q ≠ p) : (fs.set p n).get q = fs.get q := by
  have h1 := get_erase_other fs p q h
  simp only [FS.set, FS.get] at h1 ⊢
  rw [List.find?_append]
  have h2 : [(p, n)].find? (fun e => e.1 == q) = none := by
    simp only [List.find?_cons, List.find?_nil]
    have : (p == q) = false := by simp; exact fun hh => h hh.symm
    simp [this]
  rw [h2, Option.or_none]
  exact h1

/-! ### one request -/

/-- every status code that means "done" is 0 -/
theorem success_is_zero :
    CreateFileStatus.Successful.toNat = 0 ∧ DeleteFileStatus.Successful.toNat = 0 ∧ RenameStatus.Successful.toNat = 0 ∧
    AppendStatus.Successful.toNat = 0 ∧ ReplaceStatus.Successful.toNat = 0 ∧
    CreateDirectoryStatus.Successful.toNat = 0 ∧ RemoveDirectoryStatus.Successful.toNat = 0 ∧
    DenyStatus.Successful.toNat = 0 := by decide

/-- **C13 (a failed request changes nothing).** -/
theorem C13_failed_changes_nothing (fs : FS) (q : FsRequest) (h : isFail (processRequest fs q).1 = true) :
    (processRequest fs q).2 = fs := by
  simp only [processRequest] at h ⊢
  cases ha : q.action <;> simp only [ha] at h ⊢
  all_goals (repeat' split)
  all_goals first
    | rfl
    | (simp_all [isFail, CreateFileStatus.toNat, DeleteFileStatus.toNat, RenameStatus.toNat, AppendStatus.toNat,
        ReplaceStatus.toNat, CreateDirectoryStatus.toNat, RemoveDirectoryStatus.toNat, DenyStatus.toNat]; done)

theorem isFile_exist {fs : FS} {p : RelPath} (h : fs.isFile p = true) : fs.exist p = true ∧ fs.isDir p = false := by
  simp only [FS.isFile, FS.exist, FS.isDir] at *
  cases hg : fs.get p with
  | none => simp [hg] at h
  | some n => cases n <;> simp_all

theorem not_exist {fs : FS} {p : RelPath} (h : fs.exist p = false) : fs.isFile p = false ∧ fs.isDir p = false := by
  simp only [FS.isFile, FS.exist, FS.isDir] at *
  cases hg : fs.get p with
  | none => simp
  | some n => simp [hg] at h

/-- **C13 (create file).** Succeeds exactly when nothing exists under the name and its parent is a
directory; then the name is an empty file and every other name is as before. Otherwise: Not allowed. -/
theorem C13_create_file (fs : FS) (q : FsRequest) (ha : q.action = .CreateFile) :
    let p := relOf q.name1
    ((processRequest fs q).1 = 0 ↔ (p ≠ [] ∧ fs.exist p = false ∧ fs.parentIsDir p = true)) ∧
    ((processRequest fs q).1 = 0 →
      (processRequest fs q).2.get p = some (.file []) ∧ ∀ p', p' ≠ p → (processRequest fs q).2.get p' = fs.get p') ∧
    ((processRequest fs q).1 ≠ 0 → (processRequest fs q).1 = CreateFileStatus.NotAllowed.toNat) := by
  intro p
  simp only [p, processRequest, ha, FS.createFile]
  cases h0 : (relOf q.name1).isEmpty <;> cases h1 : fs.exist (relOf q.name1) <;> cases h2 : fs.parentIsDir (relOf q.name1)
  all_goals first
    | (have := (not_exist h1).2
       simp_all [CreateFileStatus.toNat, get_set_self, get_set_other]
       done)
    | simp_all [CreateFileStatus.toNat]

/-- **C13 (delete file).** -/
theorem C13_delete_file (fs : FS) (q : FsRequest) (ha : q.action = .DeleteFile) :
    let p := relOf q.name1
    ((processRequest fs q).1 = 0 ↔ fs.isFile p = true) ∧
    ((processRequest fs q).1 = 0 →
      (processRequest fs q).2.get p = none ∧ ∀ p', p' ≠ p → (processRequest fs q).2.get p' = fs.get p') ∧
    (fs.isFile p = false → (processRequest fs q).1 = DeleteFileStatus.FileDoesNotExist.toNat) := by
  intro p
  simp only [p, processRequest, ha, FS.removeFile]
  cases h1 : fs.isFile (relOf q.name1)
  all_goals simp_all [DeleteFileStatus.toNat, get_erase_self, get_erase_other]

/-- **C13 (append file).** -/
theorem C13_append_file (fs : FS) (q : FsRequest) (ha : q.action = .AppendFile) :
    let p1 := relOf q.name1
    let p2 := relOf q.name2
    ((processRequest fs q).1 = 0 ↔ (fs.isFile p1 = true ∧ fs.isFile p2 = true)) ∧
    (∀ a b, fs.get p1 = some (.file a) → fs.get p2 = some (.file b) →
      (processRequest fs q).2.get p1 = some (.file (a ++ b)) ∧
      ∀ p', p' ≠ p1 → (processRequest fs q).2.get p' = fs.get p') ∧
    (fs.isFile p1 = false → (processRequest fs q).1 = AppendStatus.Filename1DoesNotExist.toNat) ∧
    (fs.isFile p1 = true → fs.isFile p2 = false → (processRequest fs q).1 = AppendStatus.Filename2DoesNotExist.toNat) := by
  intro p1 p2
  simp only [p1, p2, processRequest, ha, FS.appendFile]
  refine ⟨?_, ?_, ?_, ?_⟩
  · cases h1 : fs.isFile (relOf q.name1) <;> cases h2 : fs.isFile (relOf q.name2)
    all_goals first
      | (simp only [FS.isFile] at h1 h2
         cases hg1 : fs.get (relOf q.name1) <;> cases hg2 : fs.get (relOf q.name2)
         all_goals simp_all [AppendStatus.toNat]
         all_goals (rename_i n1 n2; cases n1 <;> cases n2 <;> simp_all [AppendStatus.toNat])
         done)
      | simp_all [AppendStatus.toNat]
  · intro a b h1 h2
    have i1 : fs.isFile (relOf q.name1) = true := by simp [FS.isFile, h1]
    have i2 : fs.isFile (relOf q.name2) = true := by simp [FS.isFile, h2]
    simp only [i1, i2, if_true, h1, h2, get_set_self, true_and]
    intro p' hp'
    exact get_set_other _ _ _ _ hp'
  · intro h1; simp [h1]
  · intro h1 h2; simp [h1, h2]

/-- **C13 (replace file).** -/
theorem C13_replace_file (fs : FS) (q : FsRequest) (ha : q.action = .ReplaceFile) :
    let p1 := relOf q.name1
    let p2 := relOf q.name2
    ((processRequest fs q).1 = 0 ↔ (fs.isFile p1 = true ∧ fs.isFile p2 = true)) ∧
    (∀ b, fs.isFile p1 = true → fs.get p2 = some (.file b) →
      (processRequest fs q).2.get p1 = some (.file b) ∧
      ∀ p', p' ≠ p1 → (processRequest fs q).2.get p' = fs.get p') ∧
    (fs.isFile p1 = false → (processRequest fs q).1 = ReplaceStatus.Filename1DoesNotExist.toNat) ∧
    (fs.isFile p1 = true → fs.isFile p2 = false → (processRequest fs q).1 = ReplaceStatus.Filename2DoesNotExist.toNat) := by
  intro p1 p2
  simp only [p1, p2, processRequest, ha, FS.replaceFile]
  refine ⟨?_, ?_, ?_, ?_⟩
  · cases h1 : fs.isFile (relOf q.name1) <;> cases h2 : fs.isFile (relOf q.name2)
    all_goals first
      | (have e1 := isFile_exist h1
         simp only [FS.isFile] at h2
         cases hg2 : fs.get (relOf q.name2)
         all_goals simp_all [ReplaceStatus.toNat]
         all_goals (rename_i n2; cases n2 <;> simp_all [ReplaceStatus.toNat])
         done)
      | simp_all [ReplaceStatus.toNat]
  · intro b h1 h2
    have e1 := isFile_exist h1
    have i2 : fs.isFile (relOf q.name2) = true := by simp [FS.isFile, h2]
    simp only [h1, i2, if_true, e1.1, Bool.not_true, Bool.false_eq_true, if_false, h2, e1.2, get_set_self, true_and]
    intro p' hp'
    exact get_set_other _ _ _ _ hp'
  · intro h1; simp [h1]
  · intro h1 h2; simp [h1, h2]

/-- **C13 (rename, directories, deny).** When each of the remaining requests succeeds, and the
specific failure it reports otherwise. -/
theorem C13_preconditions (fs : FS) (q : FsRequest) :
    let p1 := relOf q.name1
    let p2 := relOf q.name2
    (q.action = .RenameFile →
      ((processRequest fs q).1 = 0 ↔ (fs.isFile p1 = true ∧ fs.exist p2 = false ∧ fs.parentIsDir p2 = true ∧
        isPrefix p1 p2 = false)) ∧
      (fs.isFile p1 = false → (processRequest fs q).1 = RenameStatus.OldFilenameDoesNotExist.toNat) ∧
      (fs.isFile p1 = true → fs.isFile p2 = true → (processRequest fs q).1 = RenameStatus.NewFilenameAlreadyExists.toNat)) ∧
    (q.action = .CreateDirectory →
      ((processRequest fs q).1 = 0 ↔ (fs.exist p1 = false ∧ fs.parentIsDir p1 = true))) ∧
    (q.action = .RemoveDirectory →
      ((processRequest fs q).1 = 0 ↔ fs.isDir p1 = true) ∧
      (fs.isDir p1 = false → (processRequest fs q).1 = RemoveDirectoryStatus.DirectoryDoesNotExist.toNat)) ∧
    (q.action = .DenyFile → ((processRequest fs q).1 = 0 ↔ fs.isFile p1 = true)) ∧
    (q.action = .DenyDirectory → ((processRequest fs q).1 = 0 ↔ fs.isDir p1 = true)) := by
  intro p1 p2
  simp only [p1, p2]
  refine ⟨?_, ?_, ?_, ?_, ?_⟩
  · intro ha
    simp only [processRequest, ha, FS.renameFile]
    refine ⟨?_, ?_, ?_⟩
    · cases h1 : fs.isFile (relOf q.name1)
      · simp [RenameStatus.toNat]
      · have e1 := isFile_exist h1
        have hg : ∃ n, fs.get (relOf q.name1) = some n := by
          simp only [FS.exist] at e1; exact Option.isSome_iff_exists.mp e1.1
        obtain ⟨n, hn⟩ := hg
        cases h2 : fs.isFile (relOf q.name2)
        · cases h3 : fs.exist (relOf q.name2) <;> cases h4 : fs.parentIsDir (relOf q.name2) <;>
            cases h5 : isPrefix (relOf q.name1) (relOf q.name2) <;> simp_all [RenameStatus.toNat]
        · have e2 := isFile_exist h2
          simp_all [RenameStatus.toNat]
    · intro h1; simp [h1]
    · intro h1 h2; simp [h1, h2]
  · intro ha
    simp only [processRequest, ha, FS.createDir]
    cases h1 : fs.exist (relOf q.name1) <;> cases h2 : fs.parentIsDir (relOf q.name1) <;>
      cases h3 : fs.isDir (relOf q.name1)
    all_goals first
      | (have := (not_exist h1).2; simp_all [CreateDirectoryStatus.toNat]; done)
      | simp_all [CreateDirectoryStatus.toNat]
  · intro ha
    simp only [processRequest, ha, FS.removeDirAll]
    cases h1 : fs.isDir (relOf q.name1) <;> simp_all [RemoveDirectoryStatus.toNat]
  · intro ha
    simp only [processRequest, ha, FS.removeFile]
    cases h1 : fs.isFile (relOf q.name1) <;> simp_all [DenyStatus.toNat]
  · intro ha
    simp only [processRequest, ha, FS.removeDirAll]
    cases h1 : fs.isDir (relOf q.name1) <;> simp_all [DenyStatus.toNat]

end Cfdp.Fs

/-! ### a request list: once, in order, not-performed after the first failure -/
namespace Cfdp.Fs
open Cfdp.Codec Cfdp.Gen

/-- the response to request `q` with status code `st` -/
def respOf (q : FsRequest) (st : Nat) : FsResponse :=
  { action := q.action, status := st, name1 := q.name1, name2 := q.name2, msg := [] }

/-- after a failure nothing more is executed: every remaining request is answered Not performed -/
theorem runRequests_failed (fs : FS) (qs : List FsRequest) :
    (runRequests fs true qs).2 = fs ∧
    (runRequests fs true qs).1 =
      qs.map (fun q => respOf q notPerformed) := by
  induction qs with
  | nil => exact ⟨rfl, rfl⟩
  | cons q rest ih =>
    simp only [runRequests, if_true, List.map_cons, ih.1, ih.2, respOf, and_self]

/-- **C13 (request list).** The responses answer the requests one for one in the order given
(action and names echoed); the requests run in that order, each on the filesystem its predecessors
left; the first one that fails stops the execution: the filesystem stays as that failure left it
(i.e. as it was before it) and all later requests are answered Not performed. -/
theorem C13_run_requests (fs : FS) (qs : List FsRequest) :
    (runRequests fs false qs).1.map (fun r => (r.action, r.name1, r.name2)) = qs.map (fun q => (q.action, q.name1, q.name2)) ∧
    (∀ q rest, qs = q :: rest →
      (runRequests fs false qs).1.head? = some (respOf q (processRequest fs q).1) ∧
      (isFail (processRequest fs q).1 = false →
        (runRequests fs false qs).1.tail = (runRequests (processRequest fs q).2 false rest).1 ∧
        (runRequests fs false qs).2 = (runRequests (processRequest fs q).2 false rest).2) ∧
      (isFail (processRequest fs q).1 = true →
        (runRequests fs false qs).2 = fs ∧
        (runRequests fs false qs).1.tail = rest.map (fun q => respOf q notPerformed))) := by
  refine ⟨?_, ?_⟩
  · have key : ∀ (b : Bool) (fs : FS), (runRequests fs b qs).1.map (fun r => (r.action, r.name1, r.name2)) =
        qs.map (fun q => (q.action, q.name1, q.name2)) := by
      induction qs with
      | nil => intro b fs; rfl
      | cons q rest ih =>
        intro b fs
        cases b
        · simp only [runRequests, Bool.false_eq_true, if_false, List.map_cons, ih]
        · simp only [runRequests, if_true, List.map_cons, ih]
    exact key false fs
  · intro q rest hq
    subst hq
    refine ⟨?_, ?_, ?_⟩
    · simp only [runRequests, Bool.false_eq_true, if_false, List.head?_cons, respOf]
    · intro hok
      simp only [runRequests, Bool.false_eq_true, if_false, hok, List.tail_cons, and_self]
    · intro hf
      have e := C13_failed_changes_nothing fs q hf
      simp only [runRequests, Bool.false_eq_true, if_false, hf, List.tail_cons, e]
      exact runRequests_failed fs rest

end Cfdp.Fs

/-! ### within a transaction -/
namespace Cfdp.Recv
open Cfdp.Codec Cfdp.Gen

/-- the file part of `finalize_receive` (delivery code, checksum verification, copy to the destination) -/
def fileStage (s : State) (now : Nat) : State × Bool :=
  finalizeFilePart { s with delivery := if s.md.isNone || (isFileTransfer s && hasNaks s) then .Incomplete else .Complete } now

/-- the request part of `finalize_receive`, reached only when the file part succeeded: the requests
of the Metadata PDU run, in order, on the filestore as the file copy left it; the responses are
recorded and handed to the user in the Finished indication -/
theorem C13_recv_runs_requests (s : State) (now : Nat) (hfile : (fileStage s now).2 = true)
    (hst : (fileStage s now).1.fileStatus ≠ .FileStoreRejection) :
    (finalizeReceive s now).1.responses =
      (Fs.runRequests (fileStage s now).1.fs false (match (fileStage s now).1.md with | some m => m.requests | none => [])).1 ∧
    (finalizeReceive s now).1.fs =
      (Fs.runRequests (fileStage s now).1.fs false (match (fileStage s now).1.md with | some m => m.requests | none => [])).2 ∧
    (finalizeReceive s now).1.out.getLast?.map (fun i => match i with | .finished _ _ _ _ _ rs => some rs | _ => none) =
      some (some (finalizeReceive s now).1.responses) := by
  have hb : ((fileStage s now).1.fileStatus == FileStatusCode.FileStoreRejection) = false := by
    cases hf : (fileStage s now).1.fileStatus <;> simp_all
  simp only [fileStage] at hfile hb ⊢
  simp only [finalizeReceive, hfile, Bool.not_true, Bool.false_eq_true, if_false, hb, emit,
    List.getLast?_append, List.getLast?_singleton, Option.some_or, Option.map_some, and_self]
  exact ⟨rfl, rfl, trivial⟩

/-- the Finished PDU carries the recorded responses -/
theorem C13_finished_pdu_responses (s : State) (f : Option VarId) :
    (prepareFinished s f).finished.map (fun x => x.1.responses) = some s.responses := rfl

end Cfdp.Recv

namespace Cfdp.Send
open Cfdp.Codec Cfdp.Gen

/-- the sending user is handed the responses of the Finished PDU unchanged -/
theorem C13_send_user_responses (s : State) (p : Pdu) (f : Finished) (now : Nat) (hp : p.payload = .finished f)
    (h : s.cfg.mode = .Acknowledged ∨ s.md.closure = true) :
    ∃ c d fs st stt, (processPdu s p now).1.out = s.out ++ [.finished c d fs st stt f.responses] := by
  have ho : (pduArrived s now).out = s.out := out_pduArrived _ _
  have hc : (pduArrived s now).cfg.mode = s.cfg.mode := by simp only [State.cfg, st_pduArrived]
  have hm : (pduArrived s now).md.closure = s.md.closure := by simp only [State.md, st_pduArrived]
  simp only [processPdu, processPduBody, hp]
  cases hmode : s.cfg.mode
  · simp only [hc, hmode, emit, ho]
    exact ⟨_, _, _, _, _, rfl⟩
  · have hcl : s.md.closure = true := by
      rcases h with h | h
      · rw [hmode] at h; cases h
      · exact h
    simp only [hc, hmode, hm, hcl, if_true, emit, shutdown, ho]
    exact ⟨_, _, _, _, _, rfl⟩

end Cfdp.Send

#print axioms Cfdp.Fs.C13_failed_changes_nothing
#print axioms Cfdp.Fs.C13_create_file
#print axioms Cfdp.Fs.C13_delete_file
#print axioms Cfdp.Fs.C13_append_file
#print axioms Cfdp.Fs.C13_replace_file
#print axioms Cfdp.Fs.C13_preconditions
#print axioms Cfdp.Fs.C13_run_requests
#print axioms Cfdp.Recv.C13_recv_runs_requests
#print axioms Cfdp.Recv.C13_finished_pdu_responses
#print axioms Cfdp.Send.C13_send_user_responses
