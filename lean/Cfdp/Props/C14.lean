import Cfdp.Lemmas.Checksum

/-!
# C14 — the file checksum is the CCSDS modular checksum, however the data is read
-/
namespace Cfdp.Cksum

/-- CCSDS 727.0-B-5 modular checksum: the 32-bit wrapping sum of the big-endian words of the
content padded with zeros to a multiple of four bytes -/
def spec (bs : List UInt8) : UInt32 :=
  sumFull (bs ++ List.replicate ((4 - bs.length % 4) % 4) 0)

theorem spec_eq (bs : List UInt8) :
    spec bs = sumFull bs + (if (rem4 bs).isEmpty then 0 else padWord (rem4 bs)) := by
  unfold spec
  have hlen := rem4_length bs
  have h := aligned_append (full4 bs) (rem4 bs ++ List.replicate ((4 - bs.length % 4) % 4) 0)
    (full4_length bs)
  rw [← List.append_assoc, full4_append_rem4, sumFull_full4] at h
  rw [h.1]
  congr 1
  match hr : rem4 bs, hlen with
  | [], hl => simp at hl; simp [← hl, sumFull]
  | [a], hl => simp at hl; simp [← hl, sumFull, padWord, List.replicate]
  | [a, b], hl => simp at hl; simp [← hl, sumFull, padWord, List.replicate]
  | [a, b, c], hl => simp at hl; simp [← hl, sumFull, padWord, List.replicate]
  | _ :: _ :: _ :: _ :: _, hl => simp at hl; omega

theorem takeWhile_all {α : Type} (p : α → Bool) (l : List α) (h : ∀ c ∈ l, p c = true) :
    l.takeWhile p = l := by
  induction l with
  | nil => rfl
  | cons a r ih =>
    simp only [List.takeWhile_cons, h a (List.mem_cons_self ..), if_true]
    rw [ih (fun c hc => h c (List.mem_cons_of_mem _ hc))]

theorem mem_takeWhile {α : Type} (p : α → Bool) (l : List α) (c : α) (h : c ∈ l.takeWhile p) :
    p c = true := by
  induction l with
  | nil => simp at h
  | cons a r ih =>
    simp only [List.takeWhile_cons] at h
    by_cases hp : p a = true
    · simp only [hp, if_true, List.mem_cons] at h
      rcases h with rfl | h
      · exact hp
      · exact ih h
    · simp [hp] at h

/-- **C14 (chunking).**  However the reader splits the data into non-empty reads, the loop
computes the CCSDS checksum of the whole content. -/
theorem C14_chunking (chunks : List (List UInt8)) (h : ∀ c ∈ chunks, c ≠ []) :
    checksumLoop chunks = spec chunks.flatten := by
  unfold checksumLoop
  have htw : chunks.takeWhile (fun c => !c.isEmpty) = chunks := by
    apply takeWhile_all
    intro c hc
    have := h c hc
    cases c with
    | nil => exact absurd rfl this
    | cons _ _ => rfl
  rw [htw]
  have := foldl_stepChunk chunks []
  simp only [List.nil_append] at this
  have h0 : ({ ck := 0, pending := [] } : St) = { ck := sumFull [], pending := rem4 [] } := rfl
  rw [h0, this, spec_eq]
  unfold finish
  split <;> simp_all

/-- a reader may also signal end of file early by an empty read: the result is the checksum
of what was read before -/
theorem C14_chunking_general (chunks : List (List UInt8)) :
    checksumLoop chunks = spec (chunks.takeWhile (fun c => !c.isEmpty)).flatten := by
  have : checksumLoop chunks = checksumLoop (chunks.takeWhile (fun c => !c.isEmpty)) := by
    unfold checksumLoop
    rw [takeWhile_all _ (chunks.takeWhile (fun c => !c.isEmpty)) (fun c hc => mem_takeWhile _ _ c hc)]
  rw [this]
  apply C14_chunking
  intro c hc
  have := mem_takeWhile _ _ c hc
  cases c with
  | nil => simp at this
  | cons _ _ => simp

/-- the null checksum is 0 -/
theorem C14_null : checksumNull = 0 := rfl

/-- chunking does not matter: two ways of reading the same bytes give the same checksum, so
sender and receiver agree on identical data -/
theorem C14_agree (c₁ c₂ : List (List UInt8)) (h₁ : ∀ c ∈ c₁, c ≠ []) (h₂ : ∀ c ∈ c₂, c ≠ [])
    (h : c₁.flatten = c₂.flatten) : checksumLoop c₁ = checksumLoop c₂ := by
  rw [C14_chunking c₁ h₁, C14_chunking c₂ h₂, h]

/-- checksum-neutral changes exist (which is why C01 cannot rest on the checksum) -/
theorem C14_neutral_exists : ∃ a b : List UInt8, a ≠ b ∧ a.length = b.length ∧ spec a = spec b :=
  ⟨[0, 0, 0, 1, 0, 0, 0, 2], [0, 0, 0, 2, 0, 0, 0, 1], by decide, rfl, by decide⟩

/-- recursive form of the CCSDS definition -/
def specRec : List UInt8 → UInt32
  | a :: b :: c :: d :: rest => wordBE a b c d + specRec rest
  | l => padWord l

theorem spec_eq_specRec (bs : List UInt8) : spec bs = specRec bs := by
  rw [spec_eq]
  fun_induction specRec bs with
  | case1 a b c d rest ih =>
    simp only [sumFull, rem4]
    rw [UInt32.add_assoc]
    exact congrArg (wordBE a b c d + ·) ih
  | case2 l h =>
    match l, h with
    | [], _ => simp [sumFull, rem4, padWord]
    | [_], _ => simp [sumFull, rem4]
    | [_, _], _ => simp [sumFull, rem4]
    | [_, _, _], _ => simp [sumFull, rem4]
    | a :: b :: c :: d :: r, h => exact absurd rfl (h a b c d r)

theorem wordBE_inj {a b c d a' b' c' d' : UInt8} (h : wordBE a b c d = wordBE a' b' c' d') :
    a = a' ∧ b = b' ∧ c = c' ∧ d = d' := by
  unfold wordBE at h
  have h' := congrArg UInt32.toNat h
  simp only [UInt32.toNat_ofNat'] at h'
  have ha := a.toNat_lt; have hb := b.toNat_lt; have hc := c.toNat_lt; have hd := d.toNat_lt
  have ha' := a'.toNat_lt; have hb' := b'.toNat_lt; have hc' := c'.toNat_lt; have hd' := d'.toNat_lt
  have : a.toNat = a'.toNat ∧ b.toNat = b'.toNat ∧ c.toNat = c'.toNat ∧ d.toNat = d'.toNat := by
    omega
  exact ⟨UInt8.toNat_inj.mp this.1, UInt8.toNat_inj.mp this.2.1, UInt8.toNat_inj.mp this.2.2.1,
    UInt8.toNat_inj.mp this.2.2.2⟩

/-- **C14 (single byte).**  Changing any one byte changes the checksum, so sender and receiver
disagree on any single-byte difference. -/
theorem C14_single_byte (bs : List UInt8) (i : Nat) (v : UInt8) (hi : i < bs.length)
    (hv : v ≠ bs[i]) : spec (bs.set i v) ≠ spec bs := by
  rw [spec_eq_specRec, spec_eq_specRec]
  induction bs using specRec.induct generalizing i with
  | case1 a b c d rest ih =>
    match i, hi, hv with
    | 0, _, hv =>
      simp only [List.set_cons_zero, specRec]
      intro h
      have := wordBE_inj ((UInt32.add_left_inj _).mp h)
      exact hv this.1
    | 1, _, hv =>
      simp only [List.set_cons_succ, List.set_cons_zero, specRec]
      intro h
      have := wordBE_inj ((UInt32.add_left_inj _).mp h)
      exact hv this.2.1
    | 2, _, hv =>
      simp only [List.set_cons_succ, List.set_cons_zero, specRec]
      intro h
      have := wordBE_inj ((UInt32.add_left_inj _).mp h)
      exact hv this.2.2.1
    | 3, _, hv =>
      simp only [List.set_cons_succ, List.set_cons_zero, specRec]
      intro h
      have := wordBE_inj ((UInt32.add_left_inj _).mp h)
      exact hv this.2.2.2
    | j + 4, hj, hv =>
      simp only [List.set_cons_succ, specRec]
      intro h
      have hj' : j < rest.length := by simp [List.length_cons] at hj; omega
      exact ih j hj' (by simpa using hv) ((UInt32.add_right_inj _).mp h)
  | case2 l h =>
    match l, h, i, hi, hv with
    | [a], _, 0, _, hv =>
      simp only [List.set_cons_zero, specRec, padWord]
      intro h; exact hv (wordBE_inj h).1
    | [a, b], _, 0, _, hv =>
      simp only [List.set_cons_zero, specRec, padWord]
      intro h; exact hv (wordBE_inj h).1
    | [a, b], _, 1, _, hv =>
      simp only [List.set_cons_succ, List.set_cons_zero, specRec, padWord]
      intro h; exact hv (wordBE_inj h).2.1
    | [a, b, c], _, 0, _, hv =>
      simp only [List.set_cons_zero, specRec, padWord]
      intro h; exact hv (wordBE_inj h).1
    | [a, b, c], _, 1, _, hv =>
      simp only [List.set_cons_succ, List.set_cons_zero, specRec, padWord]
      intro h; exact hv (wordBE_inj h).2.1
    | [a, b, c], _, 2, _, hv =>
      simp only [List.set_cons_succ, List.set_cons_zero, specRec, padWord]
      intro h; exact hv (wordBE_inj h).2.2.1
    | a :: b :: c :: d :: r, h, _, _, _ => exact absurd rfl (h a b c d r)

example : checksumLoop [[1], [2]] = 0x01020000 := by decide
example : checksumLoop [[1, 2, 3], [4, 5], [6, 7, 8, 9]] = spec [1, 2, 3, 4, 5, 6, 7, 8, 9] := by decide
example : spec [0xDE, 0xAD, 0xBE, 0xEF, 0x01] = 0xDEADBEEF + 0x01000000 := by decide

end Cfdp.Cksum

open Cfdp.Cksum in
#print axioms C14_chunking
open Cfdp.Cksum in
#print axioms C14_chunking_general
open Cfdp.Cksum in
#print axioms C14_null
open Cfdp.Cksum in
#print axioms C14_agree
open Cfdp.Cksum in
#print axioms C14_neutral_exists
open Cfdp.Cksum in
#print axioms C14_single_byte
