import Cfdp.Model.Path

/-!
# C12 — filestore operations cannot reach outside the filestore root
-/
namespace Cfdp.Path

/-- a file or directory name proper: not empty, not `.`, not `..`, no separator -/
def ValidName (n : List Char) : Prop := n ≠ [] ∧ n ≠ ['.'] ∧ n ≠ ['.', '.'] ∧ '/' ∉ n

theorem splitSlash_ne_nil (s : List Char) : splitSlash s ≠ [] := by
  induction s with
  | nil => simp [splitSlash]
  | cons c cs ih =>
    unfold splitSlash
    split
    · simp
    · split <;> simp

theorem splitSlash_no_slash (s : List Char) : ∀ seg ∈ splitSlash s, '/' ∉ seg := by
  induction s with
  | nil => simp [splitSlash]
  | cons c cs ih =>
    unfold splitSlash
    by_cases hc : c = '/'
    · simp only [hc, if_true, List.mem_cons]
      rintro seg (rfl | h)
      · simp
      · exact ih seg h
    · simp only [hc, if_false]
      cases hsp : splitSlash cs with
      | nil => exact absurd hsp (splitSlash_ne_nil cs)
      | cons h t =>
        simp only [List.mem_cons]
        rintro seg (rfl | hm)
        · have := ih h (by simp [hsp])
          simp only [List.mem_cons, not_or]
          exact ⟨fun e => hc e.symm, this⟩
        · exact ih seg (by simp [hsp, hm])

theorem segToComp_valid {seg : List Char} {n : List Char} (h : segToComp seg = some (.normal n))
    (hs : '/' ∉ seg) : ValidName n := by
  unfold segToComp at h
  split at h
  · cases h
  · split at h
    · cases h
    · split at h
      · cases h
      · cases h
        exact ⟨by assumption, by assumption, by assumption, hs⟩

theorem segToComp_ne_root {seg : List Char} : segToComp seg ≠ some .root := by
  unfold segToComp
  split
  · simp
  · split
    · simp
    · split <;> simp

/-- components produced from segments: valid normals, never a root -/
theorem filterMap_segs (segs : List (List Char)) (hs : ∀ seg ∈ segs, '/' ∉ seg) :
    ∀ c ∈ segs.filterMap segToComp, c ≠ .root ∧ ∀ n, c = .normal n → ValidName n := by
  intro c hc
  obtain ⟨seg, hseg, hcomp⟩ := List.mem_filterMap.mp hc
  refine ⟨?_, ?_⟩
  · rintro rfl; exact segToComp_ne_root hcomp
  · rintro n rfl; exact segToComp_valid hcomp (hs seg hseg)

/-- what `components()` yields: an optional root or cur-dir marker followed by components that
are never a root and whose normal names are valid -/
theorem parse_shape (s : List Char) :
    ∃ hd tl, parse s = hd ++ tl ∧ (hd = [] ∨ hd = [.root] ∨ hd = [.cur]) ∧
      ∀ c ∈ tl, c ≠ .root ∧ ∀ n, c = .normal n → ValidName n := by
  have hns := splitSlash_no_slash s
  unfold parse
  split
  · exact ⟨[.root], _, rfl, Or.inr (Or.inl rfl), filterMap_segs _ hns⟩
  · split
    · refine ⟨[.cur], _, rfl, Or.inr (Or.inr rfl), filterMap_segs _ ?_⟩
      intro seg hseg
      exact hns seg (List.mem_of_mem_tail hseg)
    · exact ⟨[], _, rfl, Or.inl rfl, filterMap_segs _ hns⟩

/-- the loop of `normalize_path` on a list without root components: never `unreachable!()`,
and it only ever holds valid names -/
theorem normGo_spec (ret : List (List Char)) (cs : List Comp)
    (hret : ∀ n ∈ ret, ValidName n)
    (hcs : ∀ c ∈ cs, c ≠ .root ∧ ∀ n, c = .normal n → ValidName n) :
    ∃ ns, normGo ret cs = some ns ∧ ∀ n ∈ ns, ValidName n := by
  induction cs generalizing ret with
  | nil => exact ⟨ret, rfl, hret⟩
  | cons c cs ih =>
    have hc := hcs c (List.mem_cons_self ..)
    have hrest : ∀ c ∈ cs, c ≠ .root ∧ ∀ n, c = .normal n → ValidName n :=
      fun c h => hcs c (List.mem_cons_of_mem _ h)
    cases c with
    | root => exact absurd rfl hc.1
    | cur => exact ih ret hret hrest
    | parent =>
      exact ih ret.dropLast (fun n hn => hret n (List.dropLast_subset ret hn)) hrest
    | normal n =>
      refine ih (ret ++ [n]) ?_ hrest
      intro m hm
      rcases List.mem_append.mp hm with h | h
      · exact hret m h
      · have hm' : m = n := by simpa using h
        subst hm'; exact hc.2 m rfl

/-- a suffix of a parsed path, after dropping leading roots, has no root component left -/
theorem dropWhile_root_ok (l : List Comp)
    (h : ∃ hd tl, l = hd ++ tl ∧ (hd = [] ∨ hd = [.root] ∨ hd = [.cur]) ∧
      ∀ c ∈ tl, c ≠ .root ∧ ∀ n, c = .normal n → ValidName n) :
    ∀ c ∈ l.dropWhile (· == .root), c ≠ .root ∧ ∀ n, c = .normal n → ValidName n := by
  obtain ⟨hd, tl, rfl, hhd, htl⟩ := h
  have hdrop : ∀ tl : List Comp, (∀ c ∈ tl, c ≠ .root ∧ ∀ n, c = .normal n → ValidName n) →
      tl.dropWhile (· == .root) = tl := by
    intro tl htl
    cases tl with
    | nil => rfl
    | cons a r =>
      have := (htl a (List.mem_cons_self ..)).1
      simp [this]
  rcases hhd with rfl | rfl | rfl
  · simp only [List.nil_append]; rw [hdrop tl htl]; exact htl
  · simp only [List.cons_append, List.nil_append, List.dropWhile_cons, beq_self_eq_true, if_true]
    rw [hdrop tl htl]; exact htl
  · simp only [List.cons_append, List.nil_append, List.dropWhile_cons]
    have : (Comp.cur == Comp.root) = false := by decide
    simp only [this]
    intro c hc
    rcases List.mem_cons.mp hc with rfl | hc
    · exact ⟨by decide, by intro n h; cases h⟩
    · exact htl c hc

/-- the remainder after stripping a prefix is a suffix -/
theorem stripPrefix_suffix (b p r : List Comp) (h : stripPrefix b p = some r) :
    ∃ pre, p = pre ++ r ∧ pre = b := by
  induction b generalizing p with
  | nil => simp [stripPrefix] at h; exact ⟨[], by simp [h], rfl⟩
  | cons x bs ih =>
    cases p with
    | nil => simp [stripPrefix] at h
    | cons c cs =>
      simp only [stripPrefix] at h
      split at h
      · rename_i heq
        obtain ⟨pre, h1, h2⟩ := ih cs h
        exact ⟨c :: pre, by simp [h1], by simp [heq, h2]⟩
      · cases h

/-- shape is inherited by suffixes -/
theorem shape_suffix (pre r : List Comp)
    (h : ∃ hd tl, pre ++ r = hd ++ tl ∧ (hd = [] ∨ hd = [.root] ∨ hd = [.cur]) ∧
      ∀ c ∈ tl, c ≠ .root ∧ ∀ n, c = .normal n → ValidName n) :
    ∃ hd tl, r = hd ++ tl ∧ (hd = [] ∨ hd = [.root] ∨ hd = [.cur]) ∧
      ∀ c ∈ tl, c ≠ .root ∧ ∀ n, c = .normal n → ValidName n := by
  obtain ⟨hd, tl, heq, hhd, htl⟩ := h
  cases pre with
  | nil => exact ⟨hd, tl, by simpa using heq, hhd, htl⟩
  | cons a pre' =>
    -- r is a suffix of tl
    refine ⟨[], r, rfl, Or.inl rfl, ?_⟩
    have hsub : ∀ c ∈ r, c ∈ tl := by
      intro c hc
      rcases hhd with rfl | rfl | rfl
      · simp only [List.nil_append] at heq; rw [← heq]; simp [hc]
      · simp only [List.cons_append, List.nil_append, List.cons.injEq] at heq
        rw [← heq.2]; simp [hc]
      · simp only [List.cons_append, List.nil_append, List.cons.injEq] at heq
        rw [← heq.2]; simp [hc]
    exact fun c hc => htl c (hsub c hc)

/-- **C12 (containment).**  For every root and every file or directory name — with any
combination of `..`, `.`, repeated or leading separators, or starting with the root path itself
— the path handed to the operating system consists of the components of the root followed only
by proper names: no `..`, no `.`, no empty or absolute component can follow the root, and the
normalisation never hits its `unreachable!()`. -/
theorem C12_contained (root name : List Char) :
    ∃ rest : List (List Char), nativePath root name = some (parse root ++ rest.map Comp.normal) ∧
      ∀ n ∈ rest, ValidName n := by
  unfold nativePath nativeC
  have hshape : ∃ hd tl, (stripPrefix (parse root) (parse name)).getD (parse name) = hd ++ tl ∧
      (hd = [] ∨ hd = [.root] ∨ hd = [.cur]) ∧
      ∀ c ∈ tl, c ≠ .root ∧ ∀ n, c = .normal n → ValidName n := by
    cases hsp : stripPrefix (parse root) (parse name) with
    | none => simpa using parse_shape name
    | some r =>
      obtain ⟨pre, h1, _⟩ := stripPrefix_suffix _ _ _ hsp
      simp only [Option.getD_some]
      apply shape_suffix pre r
      rw [← h1]; exact parse_shape name
  obtain ⟨ns, h1, h2⟩ := normGo_spec [] _ (by simp) (dropWhile_root_ok _ hshape)
  refine ⟨ns, ?_, h2⟩
  simp only [normalize, h1, Option.map_some]

/-- `get_native_path` is idempotent (the filestore maps every name twice: once in
`process_request`, once in the primitive operation) -/
theorem C12_idem (rc : List Comp) (ns : List (List Char)) :
    nativeC rc (rc ++ ns.map Comp.normal) = some (rc ++ ns.map Comp.normal) := by
  have hstrip : ∀ (b p : List Comp), stripPrefix b (b ++ p) = some p := by
    intro b p
    induction b with
    | nil => simp [stripPrefix]
    | cons x bs ih => simp [stripPrefix, ih]
  have hnorm : ∀ (ret ns : List (List Char)), normGo ret (ns.map Comp.normal) = some (ret ++ ns) := by
    intro ret ns
    induction ns generalizing ret with
    | nil => simp [normGo]
    | cons n ns ih => simp [normGo, ih]
  have hdw : (ns.map Comp.normal).dropWhile (· == Comp.root) = ns.map Comp.normal := by
    cases ns with
    | nil => rfl
    | cons n ns =>
      have : (Comp.normal n == Comp.root) = false := by simp
      simp [this]
  simp [nativeC, hstrip, normalize, hdw, hnorm]

example : nativePath "/vroot/r".toList "/vroot/r/../../etc".toList
    = some (parse "/vroot/r/etc".toList) := by decide
example : nativePath "/vroot/r".toList "../a//./b/../c".toList
    = some (parse "/vroot/r/a/c".toList) := by decide
example : ValidName "etc".toList := by
  refine ⟨by decide, by decide, by decide, by decide⟩

end Cfdp.Path

open Cfdp.Path in
#print axioms C12_contained
open Cfdp.Path in
#print axioms C12_idem
