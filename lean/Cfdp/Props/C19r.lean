import Cfdp.Props.C19c
import Cfdp.Props.C02u

/-! # C19: resume picks the recovery up - the Resume.request itself rebuilds the request queue -/
namespace Cfdp.Loop
open Cfdp.Codec Cfdp.Gen Cfdp.Timer Cfdp.Recv Cfdp.Send

/-- `resume` of a collecting acknowledged receiver that has the EOF: NAK counter afresh, queue rebuilt -/
theorem resume_naks_timer (s : Recv.State) (now : Nat) (hrd : s.recvState = .ReceiveData) (hm : s.cfg.mode = .Acknowledged)
    (he : s.fileSize.isSome = true) :
    (Recv.resume s now).timer = { inactivity := s.timer.inactivity.reset now, ack := s.timer.ack, nak := s.timer.nak.reset now } ∧
    (Recv.resume s now).naks = getAllNaks s := by
  have hb : (s.cfg.mode == TransmissionMode.Acknowledged) = true := by rw [hm]; rfl
  simp only [Recv.resume, Recv.emit, hrd, hb, eofReceived, he, Bool.or_true, Bool.and_self, if_true]
  refine ⟨?_, ?_⟩
  all_goals first | trivial | rfl | exact getAllNaks_congr rfl rfl rfl

/-- **resume rebuilds the queue.**  A suspended receiver (acknowledged mode, collecting, Metadata and the truthful EOF
in, holding only bytes of the source file) is resumed: it is active again, its data untouched, its request
queue lists what is missing and its NAK counter starts afresh. -/
theorem resume_rebuilds {m Ta Ti Tn : Nat} (r : Recv.State) (t : Nat) (src : Bytes) (md : Recv.Meta) (fs0 : Fs.FS)
    (hmode : r.cfg.mode = .Acknowledged) (hsus : r.state = .Suspended) (hrd : r.recvState = .ReceiveData)
    (hmd : r.md = some md) (hsize : r.fileSize = some src.length) (hck : r.checksum = some (fileChecksum md.cksumType src))
    (hcond : r.condition = .NoError) (hdata : DataOk src r) (hfs : r.fs = fs0)
    (hpr : r.prompt = none) (hack : r.ack = none) (hrt : RT m Ta Ti Tn r.timer) (hmax : 0 < r.timer.nak.max) :
    RG src md fs0 (recvStep r t .resume) ∧ NQ m Ta Ti Tn t (recvStep r t .resume) ∧
    (recvStep r t .resume).segs = r.segs ∧ (recvStep r t .resume).naks = getAllNaks (recvStep r t .resume) := by
  have hnt : ((clrR r).state == TransactionState.Terminated) = false := by
    show (r.state == TransactionState.Terminated) = false; rw [hsus]; rfl
  have e1 : recvStep r t .resume = Recv.resume (clrR r) t := by
    rw [recvStep_eq]; simp only [hnt, Bool.false_eq_true, if_false]
  rw [e1]
  obtain ⟨tm, nk⟩ := resume_naks_timer (clrR r) t hrd hmode (by show r.fileSize.isSome = true; rw [hsize]; rfl)
  have hst := (C19_recv_resume (clrR r) t).1
  have q1 : (Recv.resume (clrR r) t).cfg = r.cfg := by rw [Recv.cfg_resume]; rfl
  have q3 : (Recv.resume (clrR r) t).recvState = r.recvState := by rw [Recv.recvState_resume]; rfl
  have q4 : (Recv.resume (clrR r) t).md = r.md := by rw [Recv.md_resume]; rfl
  have q5 : (Recv.resume (clrR r) t).fileSize = r.fileSize := by rw [Recv.fileSize_resume]; rfl
  have q6 : (Recv.resume (clrR r) t).checksum = r.checksum := by rw [Recv.checksum_resume]; rfl
  have q7 : (Recv.resume (clrR r) t).condition = r.condition := by rw [Recv.condition_resume]; rfl
  have q8 : (Recv.resume (clrR r) t).segs = r.segs := by rw [Recv.segs_resume]; rfl
  have q9 : (Recv.resume (clrR r) t).tempFile = r.tempFile := by rw [Recv.tempFile_resume]; rfl
  have q10 : (Recv.resume (clrR r) t).fs = r.fs := by rw [Recv.fs_resume]; rfl
  have q11 : (Recv.resume (clrR r) t).prompt = r.prompt := by rw [Recv.prompt_resume]; rfl
  have q12 : (Recv.resume (clrR r) t).ack = r.ack := by rw [Recv.ack_resume]; rfl
  refine ⟨⟨by rw [q1]; exact hmode, hst, by rw [q3]; exact hrd, by rw [q4]; exact hmd, by rw [q5]; exact hsize,
      by rw [q6]; exact hck, by rw [q7]; exact hcond, dataOk_frame hdata q8 q9, by rw [q10]; exact hfs⟩,
    ⟨hst, by rw [q3]; exact hrd, by rw [q11]; exact hpr, by rw [q12]; exact hack, ?_, ?_⟩, q8, ?_⟩
  · rw [tm]; exact ⟨hrt.ack, cq_reset hrt.inactivity t, cq_reset hrt.nak t⟩
  · unfold NakRoom
    rw [tm]
    refine ⟨hmax, Or.inr ?_⟩
    show ((r.timer.nak.reset t).update t).count ≠ ((r.timer.nak.reset t).update t).max
    rw [update_reset _ _ hrt.nak.2.1]
    show 0 ≠ r.timer.nak.max
    omega
  · rw [nk]
    exact (getAllNaks_congr (s := clrR r) (s' := Recv.resume (clrR r) t) q8 q4 q5).symm

/-- **C19 (resume picks the recovery up).**  A receiver suspended in mid-recovery (something missing) is resumed at clock
reading `t`; from then on nothing is lost: its NAKs reach the sender (which has sent its EOF), the answers reach
the receiver - in any order, at any times, with any duplicates.  Then the delivery succeeds: Finished / NoError /
Complete / Retained.  The Resume.request itself rebuilds the queue; no timer expiry is needed first. -/
theorem C19_resume_round {m Ta Ti Tn : Nat} (s : Send.State) (r : Recv.State) (t t' : Nat) (md : Recv.Meta) (fs0 : Fs.FS)
    (hs : SQ s.st s)
    (hmode : r.cfg.mode = .Acknowledged) (hsus : r.state = .Suspended) (hrd : r.recvState = .ReceiveData)
    (hmd : r.md = some md) (hsize : r.fileSize = some s.file.length)
    (hck : r.checksum = some (fileChecksum md.cksumType s.file)) (hcond : r.condition = .NoError)
    (hdata : DataOk s.file r) (hfs0 : r.fs = fs0) (hpr : r.prompt = none) (hack : r.ack = none)
    (hrt : RT m Ta Ti Tn r.timer) (hmax : 0 < r.timer.nak.max)
    (hft : md.srcName.isEmpty = false) (hfs : (fs0.writeFile (Fs.relOf md.dstName) s.file).isSome = true)
    (hinc : ∃ x, x < s.file.length ∧ ¬ Seg.cov r.segs x)
    (ds : List (Nat × Pdu))
    (hsub : ∀ x ∈ ds, x.2 ∈ (sendN (deliverS s t' (recvN (recvStep r t .resume).naks.length (recvStep r t .resume) t).2).naks.length
      (deliverS s t' (recvN (recvStep r t .resume).naks.length (recvStep r t .resume) t).2) t').2)
    (hall : ∀ q ∈ (sendN (deliverS s t' (recvN (recvStep r t .resume).naks.length (recvStep r t .resume) t).2).naks.length
      (deliverS s t' (recvN (recvStep r t .resume).naks.length (recvStep r t .resume) t).2) t').2, q ∈ ds.map (·.2)) :
    FG (deliverAll (recvN (recvStep r t .resume).naks.length (recvStep r t .resume) t).1 ds) := by
  obtain ⟨w1, w2, w3, w4⟩ := resume_rebuilds r t s.file md fs0 hmode hsus hrd hmd hsize hck hcond hdata hfs0 hpr hack hrt hmax
  exact C02_full_round_after_wake s (recvStep r t .resume) t t' md fs0 hs w1 w2 hft hfs (by rw [w3]; exact hinc) w4 ds hsub hall

end Cfdp.Loop

#print axioms Cfdp.Loop.C19_resume_round

open Cfdp.Loop in
#print axioms C19_send_quiet
open Cfdp.Loop in
#print axioms C19_send_no_timer_fault
open Cfdp.Loop in
#print axioms C19_send_permit_ignored
open Cfdp.Loop in
#print axioms C19_send_resume
open Cfdp.Loop in
#print axioms C19_recv_quiet
open Cfdp.Loop in
#print axioms C19_recv_no_timer_fault
open Cfdp.Loop in
#print axioms C19_recv_suspend
open Cfdp.Loop in
#print axioms C19_recv_resume
open Cfdp.Loop in
#print axioms C19_send_run_quiet
#print axioms Cfdp.Net.C19_completes_despite_suspensions
