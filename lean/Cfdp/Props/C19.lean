import Cfdp.Gen.SendFrames
import Cfdp.Gen.RecvFrames
import Cfdp.Model.Loop

/-!
# C19 — suspend really suspends

While a transaction is suspended the task loop transmits nothing for it and declares no timer
fault, however long the suspension lasts; resume restarts the timers (they count only
un-suspended time) and gives the pending PDUs back to the loop.
-/
namespace Cfdp.Loop
open Cfdp.Codec Cfdp.Gen

/-! ### sender -/

/-- a suspended sender has nothing to send and no timeout pending: the `select!` loop can only
take the command branch -/
theorem C19_send_gate (s : Send.State) (now : Nat) (h : s.state = .Suspended) :
    Send.hasPduToSend s = false ∧ Send.untilTimeout s now = none ∧ Send.handleTimeout s now = s := by
  simp [Send.hasPduToSend, Send.untilTimeout, Send.handleTimeout, h]

/-- **C19 (quiet, sender).**  Whatever event the loop sees while the sender is suspended — a PDU
from the peer, the send permit, a timer wake-up after any time, a report or prompt request —
no PDU at all is transmitted (in particular no metadata, file data or EOF). -/
theorem C19_send_quiet (s : Send.State) (now : Nat) (e : Ev) (h : s.state = .Suspended) :
    (sendStep s now e).sent = none := by
  have hg := C19_send_gate { s with sent := none, out := [] } now h
  simp only [sendStep]
  split
  · rfl
  · split
    · rw [Send.sent_processPdu]
    · rw [hg.1]; rfl
    · rw [hg.2.1]; rfl
    · rw [Send.sent_cancel]
    · rfl
    · rw [Send.sent_resume]
    · rfl
    · rfl
    · rfl

/-- **C19 (no timer fault, sender).**  A timer wake-up while suspended changes nothing: no fault
is declared, no retransmission is scheduled. -/
theorem C19_send_no_timer_fault (s : Send.State) (now : Nat) (h : s.state = .Suspended) :
    sendStep s now .timeout = { s with sent := none, out := [] } := by
  have hg := C19_send_gate { s with sent := none, out := [] } now h
  have ht : (s.state == TransactionState.Terminated) = false := by rw [h]; rfl
  simp only [sendStep, ht, hg.2.1]
  rfl

/-- the send permit does nothing either -/
theorem C19_send_permit_ignored (s : Send.State) (now : Nat) (h : s.state = .Suspended) :
    sendStep s now .send = { s with sent := none, out := [] } := by
  have hg := C19_send_gate { s with sent := none, out := [] } now h
  have ht : (s.state == TransactionState.Terminated) = false := by rw [h]; rfl
  simp only [sendStep, ht, hg.1]
  rfl

/-- resume makes the transaction Active again, keeps the queue of pending retransmissions, the
read cursor, the progress figure and the prepared EOF: the transfer continues where it was -/
theorem C19_send_resume (s : Send.State) (now : Nat) :
    (Send.resume s now).state = .Active ∧ (Send.resume s now).naks = s.naks ∧
    (Send.resume s now).cursor = s.cursor ∧ (Send.resume s now).progress = s.progress ∧
    (Send.resume s now).eof = s.eof ∧ (Send.resume s now).sendState = s.sendState := by
  refine ⟨?_, Send.naks_resume _ _, Send.cursor_resume _ _, Send.progress_resume _ _, Send.eof_resume _ _,
    Send.sendState_resume _ _⟩
  simp only [Send.resume, Send.emit]

/-! ### receiver -/

theorem C19_recv_gate (s : Recv.State) (now : Nat) (h : s.state = .Suspended) :
    Recv.hasPduToSend s = false ∧ Recv.untilTimeout s now = none ∧ Recv.handleTimeout s now = s := by
  simp [Recv.hasPduToSend, Recv.untilTimeout, Recv.handleTimeout, h]

/-- **C19 (quiet, receiver).**  No NAK, Finished, ACK or keep-alive PDU leaves a suspended
receiver, whatever happens meanwhile. -/
theorem C19_recv_quiet (s : Recv.State) (now : Nat) (e : Ev) (h : s.state = .Suspended) :
    (recvStep s now e).sent = none := by
  have hg := C19_recv_gate { s with sent := none, out := [] } now h
  simp only [recvStep]
  split
  · rfl
  · split
    · rw [Recv.sent_processPdu]
    · rw [hg.1]; rfl
    · rw [hg.2.1]; rfl
    · rw [Recv.sent_cancel]
    · rfl
    · rw [Recv.sent_resume]
    · rfl
    · rfl
    · rfl

/-- **C19 (no timer fault, receiver).** -/
theorem C19_recv_no_timer_fault (s : Recv.State) (now : Nat) (h : s.state = .Suspended) :
    recvStep s now .timeout = { s with sent := none, out := [] } := by
  have hg := C19_recv_gate { s with sent := none, out := [] } now h
  have ht : (s.state == TransactionState.Terminated) = false := by rw [h]; rfl
  simp only [recvStep, ht, hg.2.1]
  rfl

/-- suspend puts the transaction in the Suspended state and pauses all three counters -/
theorem C19_recv_suspend (s : Recv.State) (now : Nat) :
    (Recv.suspend s now).state = .Suspended ∧ (Recv.suspend s now).timer.inactivity.paused = true ∧
    (Recv.suspend s now).timer.ack.paused = true ∧ (Recv.suspend s now).timer.nak.paused = true := by
  simp [Recv.suspend, Recv.emit, Timer.Counter.pause]

/-- resume: Active again, inactivity count back to 0 and counting from now (un-suspended time
only), received data and metadata untouched -/
theorem C19_recv_resume (s : Recv.State) (now : Nat) :
    (Recv.resume s now).state = .Active ∧ (Recv.resume s now).timer.inactivity.count = 0 ∧
    (Recv.resume s now).timer.inactivity.start = now ∧ (Recv.resume s now).timer.inactivity.paused = false ∧
    (Recv.resume s now).segs = s.segs ∧ (Recv.resume s now).received = s.received ∧
    (Recv.resume s now).md = s.md ∧ (Recv.resume s now).tempFile = s.tempFile := by
  refine ⟨?_, ?_, ?_, ?_, Recv.segs_resume _ _, Recv.received_resume _ _, Recv.md_resume _ _, Recv.tempFile_resume _ _⟩
  all_goals (simp only [Recv.resume, Recv.emit]; repeat' split)
  all_goals rfl

/-- whole stretch of a suspension: as long as the state stays Suspended nothing is transmitted -/
theorem C19_send_run_quiet (s : Send.State) (evs : List (Nat × Ev))
    (h : s.state = .Suspended)
    (hstay : ∀ pre e post, evs = pre ++ e :: post → (sendRun s pre).1.state = .Suspended) :
    (sendRun s evs).2 = [] := by
  induction evs generalizing s with
  | nil => rfl
  | cons e rest ih =>
    obtain ⟨now, ev⟩ := e
    simp only [sendRun]
    have h1 : (sendStep s now ev).sent = none := C19_send_quiet s now ev h
    rw [h1]
    cases rest with
    | nil => simp [sendRun]
    | cons e2 rest2 =>
      have hs1 : (sendStep s now ev).state = .Suspended := by
        have := hstay [(now, ev)] e2 rest2 rfl
        simpa [sendRun] using this
      have := ih (sendStep s now ev) hs1 (by
        intro pre e post hp
        have := hstay ((now, ev) :: pre) e post (by simp [hp])
        simpa [sendRun] using this)
      simp [this]

example : (Send.suspend (default : Send.State) 0).state = .Suspended := rfl

end Cfdp.Loop

open Cfdp.Loop in
#print axioms C19_send_quiet
open Cfdp.Loop in
#print axioms C19_send_no_timer_fault
open Cfdp.Loop in
#print axioms C19_send_permit_ignored
open Cfdp.Loop in
#print axioms C19_send_resume
open Cfdp.Loop in
#print axioms C19_recv_quiet
open Cfdp.Loop in
#print axioms C19_recv_no_timer_fault
open Cfdp.Loop in
#print axioms C19_recv_suspend
open Cfdp.Loop in
#print axioms C19_recv_resume
open Cfdp.Loop in
#print axioms C19_send_run_quiet
