import Cfdp.Lemmas.Codec

/-!
# C05 — every well-formed PDU survives encode then decode unchanged; the announced length is
the number of bytes produced

`WF` is the wire format's own limits: LV / TLV bodies ≤ 255 octets, segment metadata ≤ 63,
source and destination id of equal width, ids of width 1/2/4/8 within range, offsets and sizes
below 2^32 under the small flag (2^64 under large), fault location present iff an error
condition for EOF (absent when no error for Finished), ACK directive/sub-code pairs
(EoF, Other) or (Finished, Finished), names valid UTF-8, data field length equal to the payload
length and (with CRC) + 2 below 2^16.
-/
namespace Cfdp.Codec
open Cfdp.Gen

def Pdu.WF (p : Pdu) : Prop :=
  p.header.WF ∧ p.payload.WF p.header.large ∧ p.payload.compat p.header.pduType p.header.segMeta ∧
  p.header.dataLen = p.payload.len p.header.large

/-- **C05 (round trip).**  Decoding the encoding of a well-formed PDU — CRC on or off — yields
the same PDU. -/
theorem C05_pdu (p : Pdu) (h : p.WF) : Pdu.decode p.encode = .ok p := by
  obtain ⟨hh, hp, hc, hl⟩ := h
  have hplen : (p.payload.encode p.header.large).length = p.header.dataLen := by
    rw [hl]; exact Payload.encode_length _ _ (by intros; trivial)
  obtain ⟨header, payload⟩ := p
  simp only at hh hp hc hl hplen
  cases hcrc : header.crc with
  | NotPresent =>
    have hr := Header.roundtrip header (payload.encode header.large) hh
    have hn : readN header.dataLen (payload.encode header.large) = .ok (payload.encode header.large, []) := by
      have := readN_append' (payload.encode header.large) [] hplen
      simpa using this
    simp only [Pdu.decode, Pdu.encode, hcrc, hr, bind, Except.bind, hn, pure, Except.pure,
      Payload.roundtrip payload _ _ _ hp hc]
  | Present =>
    have hr := Header.roundtrip header
      (payload.encode header.large ++ beBytes 2 (crc16 (header.encode ++ payload.encode header.large))) hh
    have hn := readN_append' (payload.encode header.large)
      (beBytes 2 (crc16 (header.encode ++ payload.encode header.large))) hplen
    have hcr := readBE_beBytes 2 (crc16 (header.encode ++ payload.encode header.large)) []
      (by have := crc16_lt (header.encode ++ payload.encode header.large); omega)
    simp only [List.append_nil] at hcr
    simp only [Pdu.decode, Pdu.encode, hcrc, List.append_assoc, hr, bind, Except.bind, hn, hcr,
      if_true, pure, Except.pure, Payload.roundtrip payload _ _ _ hp hc]

/-- **C05 (length).**  The length announced in advance (`encoded_len`) is the number of bytes
produced, plus the two CRC octets when the CRC is on. -/
theorem C05_len (p : Pdu) :
    p.encode.length = p.len + (match p.header.crc with | .NotPresent => 0 | .Present => 2) := by
  have h1 := Header.encode_length p.header
  have h2 := Payload.encode_length p.payload p.header.large (by intros; trivial)
  cases hc : p.header.crc <;> simp [Pdu.encode, Pdu.len, hc, h1, h2] <;> omega

/-- each constituent round-trips in front of arbitrary following bytes -/
theorem C05_header (h : Header) (r : Bytes) (hw : h.WF) : Header.decode (h.encode ++ r) = .ok (h, r) :=
  Header.roundtrip h r hw
theorem C05_id (i : VarId) (r : Bytes) (hw : i.WF) : VarId.decode (i.encode ++ r) = .ok (i, r) :=
  VarId.roundtrip i r hw
theorem C05_tlv (t : Tlv) (r : Bytes) (hw : t.WF) : Tlv.decode (t.encode ++ r) = .ok (t, r) :=
  Tlv.roundtrip t r hw
theorem C05_fsRequest (q : FsRequest) (r : Bytes) (hw : q.WF) : FsRequest.decode (q.encode ++ r) = .ok (q, r) :=
  FsRequest.roundtrip q r hw
theorem C05_fsResponse (p : FsResponse) (r : Bytes) (hw : p.WF) : FsResponse.decode (p.encode ++ r) = .ok (p, r) :=
  FsResponse.roundtrip p r hw
theorem C05_payload (p : Payload) (t : PDUType) (fss : FileSizeFlag) (seg : SegmentedData)
    (hw : p.WF fss) (hc : p.compat t seg) : decodePayload t fss seg (p.encode fss) = .ok (p, []) :=
  Payload.roundtrip p t fss seg hw hc

/-- the enum ↔ code tables regenerated from the source are injective and fit their fields -/
theorem C05_enum_tables :
    (∀ e : Condition, Condition.ofNat? e.toNat = some e ∧ e.toNat ≤ 15) ∧
    (∀ e : PDUDirective, PDUDirective.ofNat? e.toNat = some e ∧ e.toNat ≤ 15) ∧
    (∀ e : FileStoreAction, FileStoreAction.ofNat? e.toNat = some e ∧ e.toNat ≤ 15) ∧
    (∀ e : MetadataTLVFieldCode, MetadataTLVFieldCode.ofNat? e.toNat = some e ∧ e.toNat ≤ 255) ∧
    (∀ e : TransactionStatus, TransactionStatus.ofNat? e.toNat = some e ∧ e.toNat ≤ 3) ∧
    (∀ e : FileStatusCode, FileStatusCode.ofNat? e.toNat = some e ∧ e.toNat ≤ 3) ∧
    (∀ e : DeliveryCode, DeliveryCode.ofNat? e.toNat = some e ∧ e.toNat ≤ 1) ∧
    (∀ e : HandlerCode, HandlerCode.ofNat? e.toNat = some e ∧ e.toNat ≤ 255) ∧
    (∀ e : ChecksumType, ChecksumType.ofNat? e.toNat = some e ∧ e.toNat ≤ 15) ∧
    (∀ e : MessageType, MessageType.ofNat? e.toNat = some e ∧ e.toNat ≤ 255) := by
  refine ⟨?_, ?_, ?_, ?_, ?_, ?_, ?_, ?_, ?_, ?_⟩ <;> intro e <;> cases e <;> decide

/-! ### non-vacuity -/

def exId : VarId := ⟨2, 12⟩
def exHeader : Header :=
  { version := .One, pduType := .FileDirective, direction := .ToReceiver, mode := .Acknowledged,
    crc := .Present, large := .Small, dataLen := 10, segCtrl := .NotPreserved, segMeta := .NotPresent,
    src := exId, seq := ⟨2, 3⟩, dst := ⟨2, 15⟩ }
def exPdu : Pdu :=
  { header := exHeader,
    payload := .eof { cond := .NoError, checksum := 13, fileSize := 12, fault := none } }

theorem exPdu_wf : exPdu.WF := by
  refine ⟨⟨⟨by decide, by decide⟩, ⟨by decide, by decide⟩, ⟨by decide, by decide⟩, rfl,
    by show (10 : Nat) + 2 < 65536; decide⟩,
    ⟨by decide, by decide, trivial, by decide⟩, rfl, rfl⟩
example : Pdu.decode exPdu.encode = .ok exPdu := C05_pdu exPdu exPdu_wf

end Cfdp.Codec

open Cfdp.Codec in
#print axioms C05_pdu
open Cfdp.Codec in
#print axioms C05_len
open Cfdp.Codec in
#print axioms C05_header
open Cfdp.Codec in
#print axioms C05_id
open Cfdp.Codec in
#print axioms C05_tlv
open Cfdp.Codec in
#print axioms C05_fsRequest
open Cfdp.Codec in
#print axioms C05_fsResponse
open Cfdp.Codec in
#print axioms C05_payload
open Cfdp.Codec in
#print axioms C05_enum_tables
