import Cfdp.Props.C07t
import Cfdp.Props.C18

/-! # C18, sender: in unacknowledged mode the file data goes out exactly once -/
namespace Cfdp.Loop
open Cfdp.Send Cfdp.Codec Cfdp.Gen

/-- an unacknowledged sender never has a retransmission request queued -/
def NoNaks (s : Send.State) : Prop := s.cfg.mode = .Unacknowledged ∧ s.naks = []

def isData (p : Pdu) : Bool :=
  match p.payload with
  | .fileData _ _ => true
  | _ => false

theorem noNaks_sendStep {s : Send.State} (h : NoNaks s) (now : Nat) (e : Ev) : NoNaks (sendStep s now e) := by
  obtain ⟨hm, hn⟩ := h
  have hcfg : (sendStep s now e).cfg = s.cfg := (sendStep_static s now e).2
  refine ⟨by rw [hcfg]; exact hm, ?_⟩
  simp only [sendStep]
  split
  · exact hn
  · cases e with
    | pdu p =>
      dsimp only
      have h1 : (Send.pduArrived { s with sent := none, out := [] } now).cfg.mode = .Unacknowledged := by
        simpa [Send.State.cfg] using hm
      have h2 : (Send.pduArrived { s with sent := none, out := [] } now).naks = [] := by simpa using hn
      simp only [Send.processPdu]
      generalize Send.pduArrived { s with sent := none, out := [] } now = t at h1 h2
      simp only [Send.processPduBody, h1]
      repeat' split
      all_goals first
        | exact h2
        | (simp; exact h2)
    | send =>
      dsimp only
      split
      · simp only [Send.sendPdu]
        repeat' split
        all_goals first
          | (simp; exact hn)
          | (simp only [Send.sendPduData, Send.naks_afterData, Send.sendMissingData, hn]; split <;> simp [hn])
          | (simp only [Send.sendMissingData, hn])
      · exact hn
    | timeout =>
      dsimp only
      split
      · simp; exact hn
      · exact hn
    | cancel => simp; exact hn
    | suspend => simp; exact hn
    | resume => simp; exact hn
    | report => simp; exact hn
    | abandon => simp; exact hn
    | prompt k => simp; exact hn

/-- the PDU (if any) is not file data -/
def NoData (s : Send.State) : Prop := ∀ p, s.sent = some p → isData p = false

theorem noData_none {s : Send.State} (h : s.sent = none) : NoData s := by
  intro p hp; rw [h] at hp; cases hp

theorem noData_eq {s s' : Send.State} (h : NoData s) (h1 : s'.sent = s.sent) : NoData s' := by
  intro p hp; rw [h1] at hp; exact h p hp

theorem noData_sendPayload (s : Send.State) (pl : Payload) (hpl : ∀ off d, pl ≠ .fileData off d) :
    NoData (Send.sendPayload s pl) := by
  intro p hp
  rw [Send.sent_sendPayload] at hp
  cases hp
  cases pl <;> first | rfl | (rename_i off d; exact absurd rfl (hpl off d))

theorem noData_sendEof (s : Send.State) (hs : s.sent = none) (now : Nat) : NoData (Send.sendEof s now) := by
  simp only [Send.sendEof]
  split
  · rename_i e he
    have h1 := noData_sendPayload { s with timer := { s.timer with ack := s.timer.ack.restart now } } (.eof e)
      (by intro off d h; cases h)
    exact noData_eq h1 (by simp)
  · exact noData_none hs

/-- in a state without queued requests, file data only goes out in first-pass iterations -/
theorem data_only_firstPass {s : Send.State} (h : NoNaks s) (now : Nat) (e : Ev) (p : Pdu)
    (hp : (sendStep s now e).sent = some p) (hd : isData p = true) : fpStep s e = true := by
  obtain ⟨_, hn⟩ := h
  have key : ∀ {t : Send.State}, NoData t → t.sent = some p → False := by
    intro t ht hsp; have := ht p hsp; rw [hd] at this; cases this
  simp only [sendStep] at hp
  split at hp
  · cases hp
  · rename_i hterm
    cases e with
    | send =>
      dsimp only at hp
      split at hp
      · rename_i hhas
        have hrec : Send.hasPduToSend { s with sent := none, out := [] } = Send.hasPduToSend s := rfl
        rw [hrec] at hhas
        have hs0 : ({ s with sent := none, out := [] } : Send.State).sent = none := rfl
        simp only [Send.sendPdu] at hp
        split at hp
        · exfalso
          simp only [Send.sendPrompt] at hp
          split at hp
          · exact key (noData_sendPayload _ (.prompt _) (by intro off d h; cases h)) hp
          · exact key (noData_none hs0) hp
        · rename_i hprompt
          split at hp
          · exfalso
            refine key (t := Send.sendPduMetadata { s with sent := none, out := [] } now) ?_ hp
            have h1 : NoData (Send.sendMetadata { s with sent := none, out := [] }) := by
              simp only [Send.sendMetadata]
              exact noData_sendPayload _ (.metadata _) (by intro off d h; cases h)
            simp only [Send.sendPduMetadata]
            split
            · exact noData_eq h1 rfl
            · exact noData_eq h1 (by simp)
          · rename_i hst
            have h1 : (s.state != TransactionState.Terminated) = true := by simpa using hterm
            have h2 : s.prompt.isSome = false := by simpa using hprompt
            simp only [fpStep, h1, hhas, h2, hn]
            simp [hst]
          · exfalso
            split at hp
            · rename_i hne
              simp [hn] at hne
            refine key (t := Send.sendPduEof { s with sent := none, out := [] } now) ?_ hp
            have h1 := noData_sendEof { s with sent := none, out := [] } hs0 now
            simp only [Send.sendPduEof]
            repeat' split
            all_goals first
              | exact h1
              | exact noData_eq h1 (by simp)
              | exact noData_eq h1 rfl
          · exfalso
            exact key (noData_sendEof _ hs0 now) hp
          · exfalso
            refine key (t := Send.sendAck { s with sent := none, out := [] } now) ?_ hp
            simp only [Send.sendAck]
            split
            · rename_i a ha
              have h1 := noData_sendPayload { ({ s with sent := none, out := [] } : Send.State) with ack := none } (.ack a)
                (by intro off d h; cases h)
              exact noData_eq h1 (by simp)
            · exact noData_none hs0
      · cases hp
    | pdu q => simp at hp
    | timeout =>
      dsimp only at hp
      split at hp
      · simp at hp
      · cases hp
    | cancel => simp at hp
    | suspend => simp at hp
    | resume => simp at hp
    | report => simp at hp
    | abandon => simp at hp
    | prompt k => cases hp

theorem data_run (s : Send.State) (c : Nat) (g : Send.Good s) (h : Track s c) (hn : NoNaks s)
    (evs : List (Nat × Ev)) : (sendRun s evs).2.filter isData = firstPass s evs := by
  induction evs generalizing s c with
  | nil => rfl
  | cons x rest ih =>
    obtain ⟨now, e⟩ := x
    obtain ⟨c1, t1, t2⟩ := track_step g h now e
    obtain ⟨g1, _⟩ := Send.good_sendStep g now e
    have n1 := noNaks_sendStep hn now e
    simp only [sendRun, firstPass, List.filter_append, ih _ c1 g1 t1 n1]
    congr 1
    cases hfp : fpStep s e with
    | true =>
      simp only [hfp, if_true] at t2 ⊢
      obtain ⟨⟨hd, hsent⟩, _⟩ := t2
      rw [hsent]
      rfl
    | false =>
      simp only [Bool.false_eq_true, if_false]
      cases hs : (sendStep s now e).sent with
      | none => rfl
      | some p =>
        cases hd : isData p with
        | false => simp [Option.toList, hd]
        | true =>
          have := data_only_firstPass hn now e p hs hd
          rw [hfp] at this; cases this

/-- **C18 (sender, data once).**  Over every history of events an unacknowledged sender transmits
the file data exactly once: the file-data PDUs it sends, in order, are the file cut into
consecutive segments from offset 0 (`Tiles`) — nothing is ever retransmitted, whatever PDUs the
peer sends — and the EOF phase of a file transfer is only reached after the whole file has gone out. -/
theorem C18_send_data_once (cfg : Send.Config) (md : Send.Meta) (file : Bytes) (t0 : Nat) (evs : List (Nat × Ev))
    (hm : cfg.mode = .Unacknowledged) (hsize : md.fileSize = file.length) (hseg : 0 < cfg.seg ∧ cfg.seg ≤ 65535) :
    ∃ c, Tiles file cfg.seg ((sendRun (Send.new cfg md file t0) evs).2.filter isData) 0 c ∧ c ≤ file.length ∧
      ((sendRun (Send.new cfg md file t0) evs).1.sendState = .SendEof → md.srcName ≠ [] → c = file.length) := by
  have h0 : Track (Send.new cfg md file t0) 0 :=
    ⟨Nat.zero_le _, fun _ => ⟨rfl, rfl⟩, fun h => (by cases h), fun h => (by cases h)⟩
  have hn : NoNaks (Send.new cfg md file t0) := ⟨hm, rfl⟩
  rw [data_run _ 0 (Send.good_new cfg md file t0 hsize hseg) h0 hn evs]
  obtain ⟨c, h1, h2, _, h4⟩ := C07_first_pass cfg md file t0 evs hsize hseg
  exact ⟨c, h1, h2, h4⟩

end Cfdp.Loop

#print axioms Cfdp.Loop.C18_send_data_once
#print axioms Cfdp.Loop.C18_recv_oneway
#print axioms Cfdp.Loop.C18_recv_silent_without_closure
#print axioms Cfdp.Loop.C18_complete_means_complete
#print axioms Cfdp.Send.C18_send_ends_on_eof
#print axioms Cfdp.Send.C18_send_waits
#print axioms Cfdp.Send.C18_send_reports_outcome
#print axioms Cfdp.Send.C18_send_ignores_finished_without_closure
#print axioms Cfdp.Recv.C18_recv_closure_ends_quietly
