import Cfdp.Props.C09
import Cfdp.Props.C08
import Cfdp.Props.C17
import Cfdp.Props.C18

/-!
# C02 — acknowledged mode recovers from any bounded loss, duplication and reordering
(the recovery steps; their composition over a lossy link is exercised by the `daemon` engine)
-/
namespace Cfdp.Seg

/-- **C02 (one NAK round suffices).** Whatever the receiver holds (`l`, well-formed), if the data
PDUs that arrive afterwards — in any order, with any duplicates, cut into any pieces — together cover
every byte of `[0, n)` it was missing, then after storing them its segment list covers `[0, n)`:
`is_complete(n)` holds. In particular this is so for the answers to the requests `gaps l 0 n`. -/
theorem C02_round_completes (l : List Seg) (n : Nat) (h : Inv l) (ds : List Seg)
    (hne : ∀ s ∈ ds, s.1 < s.2) (hcov : ∀ x, x < n → ¬ cov l x → cov ds x) (t : Nat) :
    ∃ l' t', mergeAll ds (l, t) = some (l', t') ∧ Inv l' ∧ isComplete l' n = true := by
  obtain ⟨l', t', h1, h2, h3, _⟩ := mergeAll_spec ds (l, t) hne h
  refine ⟨l', t', h1, h2, ?_⟩
  rw [isComplete_iff l' n h2]
  intro x hx
  rw [h3 x]
  by_cases hc : cov l x
  · exact Or.inl hc
  · exact Or.inr (hcov x hx hc)

/-- the requests of one NAK round, answered exactly, are such data -/
theorem C02_gaps_answered (l : List Seg) (n : Nat) (h : Inv l) (t : Nat) :
    ∃ l' t', mergeAll (gaps l 0 n) (l, t) = some (l', t') ∧ Inv l' ∧ isComplete l' n = true := by
  obtain ⟨_, g2, g3⟩ := gaps_exact l 0 n h
  refine C02_round_completes l n h (gaps l 0 n) (fun s hs => (g2 s hs).2.1) ?_ t
  intro x hx hc
  exact (g3 x).mpr ⟨Nat.zero_le _, hx, hc⟩

end Cfdp.Seg

namespace Cfdp.Recv
open Cfdp.Codec Cfdp.Gen

/-- **C02 (completion is noticed at once).** In the loop iteration in which the last missing piece
(data, metadata or the EOF) arrives, `check_finished` runs: with metadata, EOF and every byte of
`[0, size)` present it finalises, enters the Finished phase and queues the Finished PDU. -/
theorem C02_finishes_when_complete (s : State) (now : Nat) (n : Nat) (hr : s.recvState = .ReceiveData)
    (hmd : s.md.isSome = true) (hn : s.fileSize = some n) (hc : Seg.isComplete s.segs n = true) :
    (checkFinished s now).recvState = .Finished ∧
    ∃ f, (checkFinished s now).finished = some (f, true) := by
  have hg : (s.recvState == RecvState.ReceiveData && s.md.isSome && eofReceived s &&
      !(isFileTransfer s && hasNaks s)) = true := by
    have hnn : hasNaks s = false := by
      cases hm : s.md with
      | none => rw [hm] at hmd; cases hmd
      | some m => simp only [hasNaks, hm, hn, hc, Option.isNone_some, Bool.not_true, Bool.or_self]
    simp only [hr, hmd, eofReceived, hn, hnn, Option.isSome_some, Bool.and_false, Bool.not_false, Bool.and_self,
      beq_self_eq_true]
  simp only [checkFinished, hg, if_true, prepareFinished, true_and]
  exact ⟨_, rfl⟩

end Cfdp.Recv

#print axioms Cfdp.Seg.C02_round_completes
#print axioms Cfdp.Seg.C02_gaps_answered
#print axioms Cfdp.Recv.C02_finishes_when_complete
