import Cfdp.Props.C02c

/-! # C02, two parties: with no timer expiry, delivery of what the real sender transmits completes the transfer -/
namespace Cfdp.Send
open Cfdp.Codec Cfdp.Gen

/-- a sender that was never cancelled: every EOF it prepares or transmits says NoError -/
structure CondOk (s : State) : Prop where
  nc : s.sendState ≠ .Cancelled
  cond : s.sendState ≠ .Finished → s.condition = .NoError
  eof : ∀ e f, s.eof = some (e, f) → e.cond = .NoError
  sent : ∀ p e, s.sent = some p → p.payload = .eof e → e.cond = .NoError

variable {s : State} {now : Nat}

theorem condOk_frame {s s' : State} (h : CondOk s) (h1 : s'.sendState = s.sendState) (h2 : s'.condition = s.condition)
    (h3 : s'.eof = s.eof) (h4 : s'.sent = s.sent) : CondOk s' := by
  refine ⟨?_, ?_, ?_, ?_⟩
  · rw [h1]; exact h.nc
  · rw [h1, h2]; exact h.cond
  · rw [h3]; exact h.eof
  · rw [h4]; exact h.sent

/-- a PDU other than an EOF goes out -/
theorem condOk_sendPayload (h : CondOk s) (pl : Payload) (hpl : ∀ e, pl ≠ .eof e) : CondOk (sendPayload s pl) := by
  refine ⟨by rw [sendState_sendPayload]; exact h.nc, by rw [sendState_sendPayload, condition_sendPayload]; exact h.cond,
    by rw [eof_sendPayload]; exact h.eof, ?_⟩
  intro p e hp he
  rw [sent_sendPayload] at hp
  cases hp
  exact absurd he (hpl e)

theorem condOk_sendMetadata (h : CondOk s) : CondOk (sendMetadata s) := by
  simp only [sendMetadata]; exact condOk_sendPayload h _ (by intro e hh; cases hh)

theorem condOk_sendFileSegment (h : CondOk s) (o l : Option Nat) : CondOk (sendFileSegment s o l) := by
  simp only [sendFileSegment]
  refine condOk_sendPayload ?_ (.fileData _ _) (by intro e hh; cases hh)
  exact condOk_frame h (by simp) (by simp) (by simp) (by simp)

theorem condOk_prepareEof (h : CondOk s) (hn : s.sendState ≠ .Finished) (f : Option VarId) :
    CondOk (prepareEof s f now) := by
  refine ⟨by rw [sendState_prepareEof]; exact h.nc, by rw [sendState_prepareEof, condition_prepareEof]; exact h.cond, ?_,
    by rw [sent_prepareEof]; exact h.sent⟩
  intro e fl he
  simp only [prepareEof] at he
  cases he
  show (getChecksum _).1.condition = .NoError
  rw [condition_getChecksum]
  exact h.cond hn

theorem condOk_setEofFlag (h : CondOk s) (b : Bool) : CondOk (setEofFlag s b) := by
  simp only [setEofFlag]
  split
  · rename_i e f he
    refine ⟨h.nc, h.cond, ?_, h.sent⟩
    intro e' f' he'
    cases he'
    exact h.eof e f he
  · exact h

theorem condOk_sendEof (h : CondOk s) : CondOk (sendEof s now) := by
  simp only [sendEof]
  split
  · rename_i e he
    apply condOk_setEofFlag
    refine ⟨by rw [sendState_sendPayload]; exact h.nc, by rw [sendState_sendPayload, condition_sendPayload]; exact h.cond,
      by rw [eof_sendPayload]; exact h.eof, ?_⟩
    intro p e' hp he'
    rw [sent_sendPayload] at hp
    cases hp
    cases he'
    exact h.eof e true he
  · exact h

theorem condOk_shutdown (h : CondOk s) : CondOk (shutdown s now) := by
  simp only [shutdown]; exact condOk_frame h rfl rfl rfl rfl

theorem condOk_emit (h : CondOk s) (i : Ind) : CondOk (emit s i) := condOk_frame h rfl rfl rfl rfl

theorem condOk_sendMissingData (h : CondOk s) : CondOk (sendMissingData s now) := by
  simp only [sendMissingData]
  split
  · exact h
  · have hp : CondOk (popNak s now) := by
      simp only [popNak]; split <;> exact condOk_frame h rfl rfl rfl rfl
    simp only [answerNak]
    repeat' split
    · exact condOk_frame hp rfl rfl rfl rfl
    · exact condOk_sendMetadata hp
    · exact condOk_frame (condOk_sendFileSegment (condOk_frame hp (by simp) (by simp) (by simp) (by simp)) _ _) rfl rfl rfl rfl

theorem condOk_afterData (h : CondOk s) (hss : s.sendState = .SendData) : CondOk (afterData s now) := by
  simp only [afterData]
  split
  · have h1 : CondOk (prepareEof (openHandle s) none now) :=
      condOk_prepareEof (condOk_frame h (by simp) (by simp) (by simp) (by simp)) (by simp [hss]) none
    refine ⟨by simp, ?_, h1.eof, h1.sent⟩
    intro _
    show (prepareEof (openHandle s) none now).condition = .NoError
    simp only [condition_prepareEof, condition_openHandle]
    exact h.cond (by rw [hss]; decide)
  · exact condOk_frame h (by simp) (by simp) (by simp) (by simp)

theorem condOk_sendPdu (h : CondOk s) : CondOk (sendPdu s now) := by
  simp only [sendPdu]
  split
  · simp only [sendPrompt]
    split
    · exact condOk_sendPayload (s := { s with prompt := none }) (condOk_frame h rfl rfl rfl rfl) (.prompt _) (by intro e hh; cases hh)
    · exact h
  · split
    · rename_i hss
      have hm : CondOk (sendMetadata s) := condOk_sendMetadata h
      simp only [sendPduMetadata]
      split
      · refine ⟨by simp, ?_, hm.eof, hm.sent⟩
        intro _
        show (sendMetadata s).condition = .NoError
        rw [condition_sendMetadata]; exact h.cond (by rw [hss]; decide)
      · have h1 : CondOk (prepareEof (sendMetadata s) none now) := condOk_prepareEof hm (by simp [hss]) none
        refine ⟨by simp, ?_, h1.eof, h1.sent⟩
        intro _
        show (prepareEof (sendMetadata s) none now).condition = .NoError
        simp only [condition_prepareEof, condition_sendMetadata]
        exact h.cond (by rw [hss]; decide)
    · rename_i hss
      simp only [sendPduData]
      split
      · exact condOk_afterData (condOk_sendMissingData h) (by simp [hss])
      · exact condOk_afterData (condOk_sendFileSegment h _ _) (by simp [hss])
    · split
      · exact condOk_sendMissingData h
      · have h1 := condOk_sendEof (now := now) h
        simp only [sendPduEof]
        repeat' split
        all_goals (refine condOk_frame h1 ?_ ?_ ?_ ?_ <;> simp [emit, shutdown])
    · rename_i hss; exact absurd hss h.nc
    · simp only [sendAck]
      split
      · apply condOk_shutdown
        exact condOk_sendPayload (s := { s with ack := none }) (condOk_frame h rfl rfl rfl rfl) (.ack _) (by intro e hh; cases hh)
      · exact h

theorem condOk_processPdu (h : CondOk s) (hm : s.cfg.mode = .Acknowledged) (p : Pdu) : CondOk (processPdu s p now).1 := by
  have h0 : CondOk (pduArrived s now) := by
    simp only [pduArrived]; split <;> exact condOk_frame h rfl rfl rfl rfl
  have hm0 : (pduArrived s now).cfg.mode = .Acknowledged := by
    simp only [pduArrived]; split <;> exact hm
  simp only [processPdu]
  generalize pduArrived s now = t at h0 hm0
  simp only [processPduBody, hm0]
  repeat' split
  all_goals first
    | exact h0
    | exact condOk_frame h0 rfl rfl rfl rfl
    | (refine ⟨by simp [emit], fun hh => absurd rfl hh, h0.eof, h0.sent⟩)

end Cfdp.Send

namespace Cfdp.Loop
open Cfdp.Send Cfdp.Codec Cfdp.Gen

/-- the sender's loop events without timer expiries and user requests that stop the transfer -/
def CalmLocal : Ev → Prop
  | .send => True
  | .report => True
  | .prompt _ => True
  | .suspend => True
  | .resume => True
  | _ => False

theorem condOk_sendStep {s : Send.State} (h : CondOk s) (hm : s.cfg.mode = .Acknowledged) (now : Nat) (e : Ev)
    (he : CalmLocal e ∨ ∃ p, e = .pdu p) : CondOk (sendStep s now e) := by
  have h0 : CondOk { s with sent := none, out := [] } :=
    ⟨h.nc, h.cond, h.eof, fun p e hp _ => by cases hp⟩
  simp only [sendStep]
  split
  · exact h0
  · cases e with
    | pdu p => exact Send.condOk_processPdu h0 hm p
    | send =>
      dsimp only
      split
      · exact Send.condOk_sendPdu h0
      · exact h0
    | report => exact Send.condOk_emit h0 _
    | prompt k => exact Send.condOk_frame h0 rfl rfl rfl rfl
    | timeout => rcases he with he | ⟨p, hp⟩ <;> first | exact absurd he id | cases hp
    | cancel => rcases he with he | ⟨p, hp⟩ <;> first | exact absurd he id | cases hp
    | suspend =>
      have : CondOk (Send.suspend { s with sent := none, out := [] } now) := by
        simp only [Send.suspend]
        refine Send.condOk_emit (s := _) ?_ _
        exact Send.condOk_frame h0 rfl rfl rfl rfl
      exact this
    | resume =>
      have : CondOk (Send.resume { s with sent := none, out := [] } now) := by
        refine Send.condOk_frame h0 (Send.sendState_resume _ _) (Send.condition_resume _ _) (Send.eof_resume _ _) ?_
        simp only [Send.resume, Send.emit]
        repeat' split
        all_goals rfl
      exact this
    | abandon => rcases he with he | ⟨p, hp⟩ <;> first | exact absurd he id | cases hp

end Cfdp.Loop

namespace Cfdp.Net
open Cfdp.Loop Cfdp.Codec Cfdp.Gen Cfdp.Recv

theorem fromSender_of {st : Send.Static} {p : Pdu} (h2 : TruthfulPdu2 st p)
    (hseg : ∀ r m off d, p.payload ≠ .fileDataSeg r m off d)
    (heof : ∀ e, p.payload = .eof e → e.cond = .NoError)
    (hmd : ∀ m, p.payload = .metadata m → m.dstName = st.md.dstName) : FromSender st p := by
  unfold TruthfulPdu2 at h2
  unfold FromSender
  cases hp : p.payload <;> simp only [hp] at h2 ⊢
  all_goals first
    | exact h2
    | exact ⟨heof _ hp, h2.1, h2.2⟩
    | exact ⟨h2.1, h2.2, hmd _ hp⟩
    | trivial
    | exact absurd hp (hseg _ _ _ _)

/-- an action of the two-party world at clock reading `t0` that is neither a timer expiry nor a
user request that stops or alters the transfer -/
def CalmAct (t0 : Nat) : Act → Prop
  | .sender now e => now = t0 ∧ CalmLocal e
  | .receiver now e => now = t0 ∧ CalmLocal e
  | .deliverR now _ => now = t0
  | .deliverS now _ => now = t0

/-- the PDUs the link hands to the receiver along a history, in order -/
def deliveredR : World → List Act → List Pdu
  | _, [] => []
  | w, a :: rest =>
    (match a with
     | .deliverR _ i => (w.toR[i]?).toList
     | _ => []) ++ deliveredR (step w a) rest

/-- the invariant of the calm two-party world -/
structure Inv3 (st : Send.Static) (fs0 : Fs.FS) (t0 : Nat) (D : List Pdu) (w : World) : Prop where
  base : Inv2 st w
  calm : Calm st fs0 t0 D w.rcv
  cond : Send.CondOk w.snd
  smode : w.snd.cfg.mode = .Acknowledged
  link3 : ∀ p ∈ w.toR, FromSender st p
  wait : Recv.Waiting w.rcv

theorem calmEv_local {st : Send.Static} {e : Ev} (h : CalmLocal e) : CalmEv st e := by
  cases e <;> first | trivial | exact absurd h id

theorem isLocal_calm {e : Ev} (h : CalmLocal e) : isLocal e = true := by
  cases e <;> first | rfl | exact absurd h id

theorem inv3_step {st : Send.Static} {fs0 : Fs.FS} {t0 : Nat} {D : List Pdu} {w : World}
    (h : Inv3 st fs0 t0 D w) (env : Env st fs0) (a : Act) (ha : CalmAct t0 a) :
    Inv3 st fs0 t0 (D ++ deliveredR w [a]) (step w a) := by
  have hb := inv2_step h.base a
  have sstep : ∀ now e, (CalmLocal e ∨ ∃ p, e = .pdu p) → Inv2 st (sndStep w now e) →
      Inv3 st fs0 t0 D (sndStep w now e) := by
    intro now e he hb'
    have hcfg : (sendStep w.snd now e).cfg = w.snd.cfg := by
      simp only [Send.State.cfg, (eofOk_sendStep h.base.base.seof now e).2]
    refine ⟨hb', h.calm, condOk_sendStep h.cond h.smode now e he, by simp only [sndStep]; rw [hcfg]; exact h.smode, ?_, h.wait⟩
    intro p hp
    have hl2 := hb'.link2 p hp
    simp only [sndStep, List.mem_append, Option.mem_toList] at hp
    rcases hp with hp | hp
    · exact h.link3 p hp
    · obtain ⟨_, g2⟩ := Send.good_sendStep h.base.base.sgood now e
      obtain ⟨_, e2⟩ := eofOk_sendStep h.base.base.seof now e
      have hst : (sendStep w.snd now e).st = st := by rw [e2, h.base.base.same]
      have ht := g2 p hp
      rw [hst] at ht
      refine fromSender_of hl2 ht.2.1 (fun e' he' => (condOk_sendStep h.cond h.smode now e he).sent p e' hp he') ?_
      intro m hm
      have := ht.2.2 m hm
      rw [this]
  have rstep : ∀ e, CalmEv st e → Inv2 st (rcvStep w t0 e) →
      Inv3 st fs0 t0 (D ++ pdusOf [(t0, e)]) (rcvStep w t0 e) := by
    intro e he hb'
    exact ⟨hb', calm_recvStep h.calm env e he, h.cond, h.smode, h.link3, Recv.waiting_recvStep h.wait t0 e⟩
  cases a with
  | sender now e =>
    obtain ⟨hnow, hc⟩ := ha
    simp only [step, isLocal_calm hc, if_true] at hb ⊢
    simp only [deliveredR, List.append_nil]
    exact sstep now e (Or.inl hc) hb
  | receiver now e =>
    obtain ⟨hnow, hc⟩ := ha
    have hnow' : now = t0 := hnow
    subst hnow'
    simp only [step, isLocal_calm hc, if_true] at hb ⊢
    have := rstep e (calmEv_local hc) hb
    have hp : pdusOf [(now, e)] = [] := by cases e <;> first | rfl | exact absurd hc id
    simp only [deliveredR, List.append_nil]
    rw [hp, List.append_nil] at this
    exact this
  | deliverR now i =>
    have hnow' : now = t0 := ha
    subst hnow'
    simp only [step] at hb ⊢
    simp only [deliveredR, List.append_nil]
    cases hi : w.toR[i]? with
    | none =>
      simp only [Option.toList, List.append_nil]
      exact h
    | some p =>
      simp only [hi] at hb ⊢
      have := rstep (.pdu p) (h.link3 p (List.mem_of_getElem? hi)) hb
      simpa [pdusOf, Option.toList] using this
  | deliverS now i =>
    simp only [step] at hb ⊢
    simp only [deliveredR, List.append_nil]
    cases hi : w.toS[i]? with
    | none => exact h
    | some p =>
      simp only [hi] at hb ⊢
      exact sstep now (.pdu p) (Or.inr ⟨p, rfl⟩) hb

theorem deliveredR_cons (w : World) (a : Act) (rest : List Act) :
    deliveredR w (a :: rest) = deliveredR w [a] ++ deliveredR (step w a) rest := by
  simp [deliveredR]

theorem inv3_run {st : Send.Static} {fs0 : Fs.FS} {t0 : Nat} (env : Env st fs0) (acts : List Act) :
    ∀ (D : List Pdu) (w : World), Inv3 st fs0 t0 D w → (∀ a ∈ acts, CalmAct t0 a) →
      Inv3 st fs0 t0 (D ++ deliveredR w acts) (run w acts) := by
  induction acts with
  | nil => intro D w h _; simpa [deliveredR, run] using h
  | cons a rest ih =>
    intro D w h ha
    have h1 := inv3_step h env a (ha a (List.mem_cons_self ..))
    have := ih _ _ h1 (fun b hb => ha b (List.mem_cons_of_mem _ hb))
    rw [deliveredR_cons, ← List.append_assoc]
    simpa [run] using this

/-- **C02, two parties (delivery completes the transfer).**  A real sender of `file` and a real
acknowledged receiver joined by a link that may lose, duplicate, reorder and delay what the sender
transmits; no timer expires and neither user interferes (every action at one clock reading: PDU
transmissions, deliveries in either direction, prompts, report requests).  Whatever the link did
before, once it has handed the receiver the sender's Metadata, an EOF and file data covering every
byte of the file, the receiver is in the Finished phase with NoError / Complete / Retained.  (The
hypothesis of `C02_recv_completes` on what the link carries is discharged by the sender model.) -/
theorem C02_two_party_completes (cfgS : Send.Config) (md : Send.Meta) (file : Bytes) (cfgR : Recv.Config)
    (fs : Fs.FS) (t0 : Nat) (acts : List Act)
    (hmS : cfgS.mode = .Acknowledged) (hmR : cfgR.mode = .Acknowledged)
    (hsize : md.fileSize = file.length) (hseg : 0 < cfgS.seg ∧ cfgS.seg ≤ 65535)
    (env : Env { cfg := cfgS, md, file } fs) (hmax : 0 < cfgR.max) (htn : 0 < cfgR.tn)
    (hcalm : ∀ a ∈ acts, CalmAct t0 a)
    (hmeta : ∃ p ∈ deliveredR (init cfgS md file cfgR fs t0) acts, ∃ m, p.payload = .metadata m)
    (heof : ∃ p ∈ deliveredR (init cfgS md file cfgR fs t0) acts, ∃ e, p.payload = .eof e)
    (hcov : ∀ y, y < file.length → ∃ p ∈ deliveredR (init cfgS md file cfgR fs t0) acts, ∃ off d,
      p.payload = .fileData off d ∧ off ≤ y ∧ y < off + d.length) :
    (run (init cfgS md file cfgR fs t0) acts).rcv.recvState = .Finished ∧
    (run (init cfgS md file cfgR fs t0) acts).rcv.condition = .NoError ∧
    (run (init cfgS md file cfgR fs t0) acts).rcv.delivery = .Complete ∧
    (run (init cfgS md file cfgR fs t0) acts).rcv.fileStatus = .Retained := by
  have hb : Inv { cfg := cfgS, md, file } (init cfgS md file cfgR fs t0) := by
    refine ⟨rfl, Send.good_new cfgS md file t0 hsize hseg, ?_, ?_, ?_⟩
    · exact ⟨fun v hv => (by cases hv), fun e f hf => (by cases hf), fun p e hp _ => (by cases hp)⟩
    · intro p hp; cases hp
    · exact C01_init_good file cfgR fs t0
  have hc0 := calm_new { cfg := cfgS, md, file } cfgR fs t0 hmR hmax htn
  have h0 : Inv3 { cfg := cfgS, md, file } fs t0 [] (init cfgS md file cfgR fs t0) := by
    refine ⟨⟨hb, ?_, hc0.link, hmR, ?_⟩, hc0, ?_, hmS, ?_, ?_⟩
    · intro p hp; cases hp
    · intro i hi; cases hi
    · exact ⟨(by intro hh; cases hh), (fun _ => rfl), (fun e f hf => (by cases hf)), (fun p e hp _ => (by cases hp))⟩
    · intro p hp; cases hp
    · intro _ _ hmd; simp [init, Recv.new] at hmd
  have h := inv3_run env acts [] _ h0 hcalm
  rw [List.nil_append] at h
  exact calm_done h.calm h.wait hmeta heof hcov

/-- the premises are satisfiable: the sender transmits Metadata, two segments and the EOF; the link
delivers the EOF first, a duplicate of it, then the second segment, the Metadata and the first segment -/
def exActs : List Act :=
  [.sender 0 .send, .sender 0 .send, .sender 0 .send, .sender 0 .send,
   .deliverR 0 3, .deliverR 0 3, .deliverR 0 2, .receiver 0 .send, .deliverR 0 0, .deliverR 0 1]

example : (run (init Send.exCfg Send.exMd Send.exFile c04Cfg [([], .dir)] 0) exActs).rcv.recvState = .Finished := by
  refine (C02_two_party_completes Send.exCfg Send.exMd Send.exFile c04Cfg [([], .dir)] 0 exActs rfl rfl rfl (by decide)
    ⟨rfl, by decide⟩ (by decide) (by decide) ?_ ?_ ?_ ?_).1
  · intro a ha
    simp only [exActs, List.mem_cons, List.mem_nil_iff, or_false] at ha
    rcases ha with rfl | rfl | rfl | rfl | rfl | rfl | rfl | rfl | rfl | rfl <;> first | exact ⟨rfl, trivial⟩ | rfl
  · exact ⟨(deliveredR (init Send.exCfg Send.exMd Send.exFile c04Cfg [([], .dir)] 0) exActs)[3]'(by decide),
      List.getElem_mem _, _, rfl⟩
  · exact ⟨(deliveredR (init Send.exCfg Send.exMd Send.exFile c04Cfg [([], .dir)] 0) exActs)[0]'(by decide),
      List.getElem_mem _, _, rfl⟩
  · intro y hy
    have hy' : y < 6 := hy
    by_cases h4 : y < 4
    · exact ⟨(deliveredR (init Send.exCfg Send.exMd Send.exFile c04Cfg [([], .dir)] 0) exActs)[4]'(by decide),
        List.getElem_mem _, 0, [1, 2, 3, 4], rfl, Nat.zero_le _, by simpa using h4⟩
    · exact ⟨(deliveredR (init Send.exCfg Send.exMd Send.exFile c04Cfg [([], .dir)] 0) exActs)[2]'(by decide),
        List.getElem_mem _, 4, [5, 6], rfl, by omega, by simp; omega⟩

end Cfdp.Net

#print axioms Cfdp.Net.C02_two_party_completes
#print axioms Cfdp.Loop.C02_recv_completes
#print axioms Cfdp.Loop.C02_send_completes
#print axioms Cfdp.Net.C02_two_party_no_integrity_fault
#print axioms Cfdp.Loop.C02_no_integrity_fault
#print axioms Cfdp.Recv.C02_size_check_passes
#print axioms Cfdp.Seg.C02_round_completes
#print axioms Cfdp.Seg.C02_gaps_answered
#print axioms Cfdp.Recv.C02_finishes_when_complete
#print axioms Cfdp.Recv.C02_never_waits_complete
#print axioms Cfdp.Recv.C02_complete_is_success
