import Cfdp.Props.C10p
set_option linter.unusedSimpArgs false

/-! # C02: the NAK loop under loss - any number of lossy rounds, then completion

The single-loss rounds (Props/C02t-C02v) each start from a state "reached after the losses".  This file closes the loop:
a *lossy* round (NAK-timer expiry, the rebuilt queue goes out, the link lets through whatever it likes of the sender's
answers) takes a receiver in mid-recovery with nothing to transmit to another such state or to success
(`wake_flush`, `wn_deliverAll`), so rounds concatenate (`nakRounds_inv`), and once every missing byte has got through
in some round the delivery has succeeded (`C02_lossy_rounds`, the limits assumed not reached: `Sched`).  The limits
are then *derived* from a fairness condition on the schedule (`Fair`): the NAK counter goes up by one per round that
follows a fruitless one and starts again from zero when something new arrived (`sendNaks_counter`, `nc_*`,
`count_update_window`), the inactivity counter starts again at every delivery and only counts expiries after it
(`IB`, `ib_update`, `ib_limit`) - `fair_sched`, `C02_lossy_rounds_fair`.  What the rounds deliver is any list of
file-data PDUs carrying the source's own bytes (`RPdu`) - which is what the sender transmits when it answers NAKs
(`C02_sender_answers_nak`); the EOF / Finished / Metadata handshakes under loss are the rounds of Props/C02v.lean. -/

namespace Cfdp.Loop
open Cfdp.Codec Cfdp.Gen Cfdp.Timer Cfdp.Recv Cfdp.Send

/-- what the receiver keeps between two rounds of its NAK loop, besides its data (`RG`): nothing to transmit,
nothing pending -/
structure WN (m Ta Ti Tn : Nat) (r : Recv.State) : Prop where
  pr : r.prompt = none
  ack : r.ack = none
  rt : RT m Ta Ti Tn r.timer
  del : r.delayed = []
  nq : r.naks = []

/-- a file-data PDU arriving at a receiver in mid-recovery, the state it leaves when the file is still incomplete -/
theorem rg_step_eq {src : Bytes} {m : Recv.Meta} {fs0 : Fs.FS} {r : Recv.State} (h : RG src m fs0 r) (t : Nat) (p : Pdu)
    (off : Nat) (d : Bytes) (hp : p.payload = .fileData off d) :
    recvStep r t (.pdu p) =
      checkFinished (emit (storeFileData (pduArrived (clrR r) t) off d) (.fileSegmentRecv off d.length)) t := by
  have hnt : ((clrR r).state == TransactionState.Terminated) = false := by
    show (r.state == TransactionState.Terminated) = false; rw [h.act]; rfl
  generalize hq : pduArrived (clrR r) t = q
  have q1 : q.cfg = r.cfg := by rw [← hq, cfg_pduArrived]; rfl
  have hmq : q.cfg.mode = .Acknowledged := by rw [q1]; exact h.mode
  generalize hy : emit (storeFileData q off d) (.fileSegmentRecv off d.length) = y
  rw [recvStep_eq]
  simp only [hnt, Bool.false_eq_true, if_false, Recv.processPdu, hq, Recv.processPduBody, hmq, hp, ackFileData]
  rw [hy]
  have : y.fileSize.isSome = true := by
    rw [← hy, fileSize_emit, fileSize_storeFileData, ← hq, fileSize_pduArrived]
    show r.fileSize.isSome = true; rw [h.size]; rfl
  rw [immediateNak_afterEof y _ _ _ this]

/-- ... and what a delivery leaves alone: a file-data or Metadata PDU handed to a receiver in mid-recovery that has
nothing to transmit either completes the delivery, or leaves it in mid-recovery with nothing to transmit, holding
what it held plus the PDU's bytes, its NAK counter untouched -/
theorem wn_step {m Ta Ti Tn : Nat} {src : Bytes} {md : Recv.Meta} {fs0 : Fs.FS} {r : Recv.State} (h : RG src md fs0 r)
    (w : WN m Ta Ti Tn r) (t : Nat) (p : Pdu) (hp : RPdu src p)
    (hft : md.srcName.isEmpty = false) (hfs : (fs0.writeFile (Fs.relOf md.dstName) src).isSome = true)
    (hinc : ∃ x, x < src.length ∧ ¬ Seg.cov r.segs x) :
    FG (recvStep r t (.pdu p)) ∨
    (RG src md fs0 (recvStep r t (.pdu p)) ∧ WN m Ta Ti Tn (recvStep r t (.pdu p)) ∧
      (∃ x, x < src.length ∧ ¬ Seg.cov (recvStep r t (.pdu p)).segs x) ∧
      (recvStep r t (.pdu p)).timer.nak = r.timer.nak ∧ (recvStep r t (.pdu p)).nakReceived = r.nakReceived ∧
      r.received ≤ (recvStep r t (.pdu p)).received ∧
      (∀ x, Seg.cov r.segs x → Seg.cov (recvStep r t (.pdu p)).segs x) ∧
      (∀ off d, p.payload = .fileData off d → ∀ x, off ≤ x → x < off + d.length → Seg.cov (recvStep r t (.pdu p)).segs x) ∧
      (recvStep r t (.pdu p)).timer.inactivity = r.timer.inactivity.reset t) := by
  have hrt := rt_recvStep w.rt t (.pdu p)
  rcases hp with ⟨off, d, hp, ht⟩ | ⟨mm, hp⟩
  · rcases rg_step h t p off d hp ht hft hfs with hfg | ⟨g1, g2, g3⟩
    · exact Or.inl hfg
    · right
      have e1 := rg_step_eq h t p off d hp
      generalize hy : emit (storeFileData (pduArrived (clrR r) t) off d) (.fileSegmentRecv off d.length) = y at e1
      have hnoop : checkFinished y t = y := by
        have hrd := g1.rd
        rw [e1] at hrd
        simp only [checkFinished] at hrd ⊢
        split
        · rename_i hc
          rw [if_pos hc] at hrd
          simp only [recvState_prepareFinished] at hrd
          cases hrd
        · rfl
      rw [hnoop] at e1
      have f1 : y.prompt = none := by
        rw [← hy, Recv.prompt_emit, prompt_storeFileData, Recv.prompt_pduArrived]; exact w.pr
      have f2 : y.ack = none := by
        rw [← hy, Recv.ack_emit, ack_storeFileData, Recv.ack_pduArrived]; exact w.ack
      have f3 : y.delayed = [] := by
        rw [← hy, delayed_emit, delayed_storeFileData, delayed_pduArrived]; exact w.del
      have f4 : y.naks = [] := by
        rw [← hy, Recv.naks_emit, naks_storeFileData, Recv.naks_pduArrived]; exact w.nq
      have f5 : y.timer.nak = r.timer.nak := by
        rw [← hy, Recv.timer_emit, timer_storeFileData]; rfl
      have f6 : y.nakReceived = r.nakReceived := by
        rw [← hy, nakReceived_emit, nakReceived_storeFileData, nakReceived_pduArrived]; rfl
      have f7 : r.received ≤ y.received := by
        rw [← hy, received_emit]
        have : (pduArrived (clrR r) t).received = r.received := by rw [received_pduArrived]; rfl
        rw [← this]
        simp only [storeFileData]
        repeat' split
        all_goals first | exact Nat.le_refl _ | exact Nat.le_add_right _ _
      rw [e1] at hrt g1 g2 g3 ⊢
      have hinc' : ∃ x, x < src.length ∧ ¬ Seg.cov y.segs x := by
        apply Classical.byContradiction
        intro hno
        have hall : ∀ x, x < src.length → Seg.cov y.segs x := by
          intro x hx
          apply Classical.byContradiction
          intro hn
          exact hno ⟨x, hx, hn⟩
        have := (Seg.isComplete_iff y.segs src.length g1.data.inv).mpr hall
        rw [g2] at this
        cases this
      have f8 : y.timer.inactivity = r.timer.inactivity.reset t := by
        rw [← hy, Recv.timer_emit, timer_storeFileData]; rfl
      refine ⟨g1, ⟨f1, f2, hrt, f3, f4⟩, hinc', f5, f6, f7, fun x hx => g3 x (Or.inl hx), ?_, f8⟩
      intro off' d' hp' x hx1 hx2
      rw [hp] at hp'
      cases hp'
      exact g3 x (Or.inr ⟨hx1, hx2⟩)
  · right
    obtain ⟨g1, g2⟩ := rg_md h t p mm hp
    have hnt : ((clrR r).state == TransactionState.Terminated) = false := by
      show (r.state == TransactionState.Terminated) = false; rw [h.act]; rfl
    have e1 : recvStep r t (.pdu p) = pduArrived (clrR r) t := by
      have q1 : (pduArrived (clrR r) t).cfg.mode = .Acknowledged := by rw [cfg_pduArrived]; exact h.mode
      have q4 : (pduArrived (clrR r) t).md = some md := by rw [md_pduArrived]; exact h.md
      rw [recvStep_eq]
      simp only [hnt, Bool.false_eq_true, if_false, Recv.processPdu, Recv.processPduBody, q1, hp, q4, Option.isNone_some]
    rw [e1] at hrt g1 g2 ⊢
    refine ⟨g1, ⟨?_, ?_, hrt, ?_, ?_⟩, by rw [g2]; exact hinc, rfl, ?_, ?_, fun x hx => by rw [g2]; exact hx, ?_, rfl⟩
    · rw [Recv.prompt_pduArrived]; exact w.pr
    · rw [Recv.ack_pduArrived]; exact w.ack
    · rw [delayed_pduArrived]; exact w.del
    · rw [Recv.naks_pduArrived]; exact w.nq
    · rw [nakReceived_pduArrived]; rfl
    · rw [received_pduArrived]; exact Nat.le_refl _
    · intro off d hp'
      rw [hp] at hp'
      cases hp'

/-- the clock reading of the last delivery of a list (`a` if there is none) -/
def lastTime : List (Nat × Pdu) → Nat → Nat
  | [], a => a
  | x :: rest, _ => lastTime rest x.1

/-- the inactivity counter after a list of deliveries: untouched if there was none, otherwise counting from zero since
the last one -/
def InAfter (c : Counter) : List (Nat × Pdu) → Counter → Prop
  | [], k => k = c
  | x :: rest, k => k.count = 0 ∧ k.start = lastTime rest x.1

/-- any number of such deliveries, in any order, at any clock readings -/
theorem wn_deliverAll {m Ta Ti Tn : Nat} {src : Bytes} {md : Recv.Meta} {fs0 : Fs.FS} (ds : List (Nat × Pdu)) (r : Recv.State)
    (h : RG src md fs0 r) (w : WN m Ta Ti Tn r) (hd : ∀ x ∈ ds, RPdu src x.2)
    (hft : md.srcName.isEmpty = false) (hfs : (fs0.writeFile (Fs.relOf md.dstName) src).isSome = true)
    (hinc : ∃ x, x < src.length ∧ ¬ Seg.cov r.segs x) :
    FG (deliverAll r ds) ∨
    (RG src md fs0 (deliverAll r ds) ∧ WN m Ta Ti Tn (deliverAll r ds) ∧
      (∃ x, x < src.length ∧ ¬ Seg.cov (deliverAll r ds).segs x) ∧
      (deliverAll r ds).timer.nak = r.timer.nak ∧ (deliverAll r ds).nakReceived = r.nakReceived ∧
      r.received ≤ (deliverAll r ds).received ∧
      (∀ x, Seg.cov r.segs x → Seg.cov (deliverAll r ds).segs x) ∧
      (∀ x, carries (ds.map (·.2)) x → Seg.cov (deliverAll r ds).segs x) ∧
      InAfter r.timer.inactivity ds (deliverAll r ds).timer.inactivity) := by
  induction ds generalizing r with
  | nil =>
    right
    refine ⟨h, w, hinc, rfl, rfl, Nat.le_refl _, fun x hx => hx, ?_, rfl⟩
    intro x hx
    obtain ⟨p, hp, _⟩ := hx
    cases hp
  | cons a rest ih =>
    obtain ⟨t, p⟩ := a
    have hd' : ∀ y ∈ rest, RPdu src y.2 := fun y hy => hd y (List.mem_cons_of_mem _ hy)
    simp only [deliverAll]
    rcases wn_step h w t p (hd (t, p) (List.mem_cons_self ..)) hft hfs hinc with hfg | ⟨g1, g2, g0, g3, g4, g5, g6, g7, g8⟩
    · exact Or.inl (fg_deliverAll src rest _ hfg hd')
    · rcases ih _ g1 g2 hd' g0 with hfg | ⟨i1, i2, i0, i3, i4, i5, i6, i7, i8⟩
      · exact Or.inl hfg
      · right
        refine ⟨i1, i2, i0, i3.trans g3, i4.trans g4, Nat.le_trans g5 i5, fun x hx => i6 x (g6 x hx), ?_, ?_⟩
        rotate_left
        · show InAfter r.timer.inactivity ((t, p) :: rest) _
          cases rest with
          | nil =>
            have : (deliverAll (recvStep r t (.pdu p)) []).timer.inactivity = (recvStep r t (.pdu p)).timer.inactivity := i8
            simp only [InAfter, lastTime]
            rw [this, g8]
            exact ⟨rfl, rfl⟩
          | cons y rest' =>
            simp only [InAfter, lastTime] at i8 ⊢
            exact i8
        intro x hx
        obtain ⟨q, hq, off, d, hpq, hx1, hx2⟩ := hx
        simp only [List.map_cons, List.mem_cons] at hq
        rcases hq with hq | hq
        · subst hq
          exact i6 x (g7 off d hpq x hx1 hx2)
        · exact i7 x ⟨q, hq, off, d, hpq, hx1, hx2⟩

theorem delayed_nil_handleTimeoutMain (s : Recv.State) (now : Nat) (h : s.delayed = []) :
    (handleTimeoutMain s now).delayed = [] := by
  have hd : (handleDelayed s now).delayed = [] := by
    have := delayed_handleDelayed_length s now
    rw [h] at this
    exact List.eq_nil_of_length_eq_zero (by simpa using this)
  have hi : (handleInactivity (handleDelayed s now) now).1.delayed = [] := by rw [delayed_handleInactivity]; exact hd
  simp only [handleTimeoutMain]
  repeat' split
  all_goals first
    | exact h
    | exact hi
    | (rw [delayed_handleAckTimer]; exact hi)

theorem delayed_nil_recvStep_timeout (r : Recv.State) (t : Nat) (h : r.delayed = []) : (recvStep r t .timeout).delayed = [] := by
  have h0 : (clrR r).delayed = [] := h
  rw [recvStep_eq]
  dsimp only
  simp only [Recv.handleTimeout]
  repeat' split
  all_goals first
    | exact h0
    | exact delayed_nil_handleTimeoutMain _ _ h0
    | (rw [delayed_shutdown, delayed_unackFinishedLimit]; exact h0)
    | (apply delayed_nil_handleTimeoutMain; rw [delayed_unackFinishedLimit]; exact h0)

theorem delayed_recvStep_send (r : Recv.State) (t : Nat) : (recvStep r t .send).delayed = r.delayed := by
  rw [recvStep_eq]
  dsimp only
  repeat' split
  all_goals first
    | rfl
    | (rw [delayed_sendPdu]; rfl)

theorem delayed_recvN (n : Nat) (r : Recv.State) (t : Nat) : (recvN n r t).1.delayed = r.delayed := by
  induction n generalizing r with
  | zero => rfl
  | succ n ih => simp only [recvN]; rw [ih, delayed_recvStep_send]

/-- what a wake-up below the limit does to the inactivity counter `c`: the count is brought up to date, and the period
either runs on or - after an expiry - starts again at the wake-up -/
def IK (c : Counter) (t : Nat) (k : Counter) : Prop :=
  k.count = (c.update t).count ∧ (k.start = t ∨ k.start = (c.update t).start) ∧ (k.paused = true → c.paused = true)

/-- `wake_rebuilds` with the weaker premise the code really has: room in the NAK counter is only needed when nothing new
has arrived since the last NAK; and what the expiry does to the counter -/
theorem wake_rebuilds_room {m Ta Ti Tn : Nat} (r : Recv.State) (t : Nat) (src : Bytes) (md : Recv.Meta) (fs0 : Fs.FS)
    (h : RG src md fs0 r) (hpr : r.prompt = none) (hack : r.ack = none) (hrt : RT m Ta Ti Tn r.timer)
    (hdel : r.delayed = [])
    (hdue : r.timer.nak.paused = false ∧ r.timer.nak.timeout ≤ t - r.timer.nak.start ∧ r.timer.nak.start ≤ t)
    (hroom : (r.nakReceived == r.received) = false ∨ (r.timer.nak.update t).count ≠ r.timer.nak.max) (hmax : 0 < r.timer.nak.max)
    (hil : (r.timer.inactivity.update t).count ≠ r.timer.inactivity.max)
    (hinc : ∃ x, x < src.length ∧ ¬ Seg.cov r.segs x) :
    SameData (recvStep r t .timeout) r ∧ NQ m Ta Ti Tn t (recvStep r t .timeout) ∧
    (recvStep r t .timeout).naks = getAllNaks (recvStep r t .timeout) ∧
    (recvStep r t .timeout).timer.nak = r.timer.nak.update t ∧ (recvStep r t .timeout).nakReceived = r.nakReceived ∧
    (recvStep r t .timeout).received = r.received ∧
    IK r.timer.inactivity t (recvStep r t .timeout).timer.inactivity := by
  have hnt : ((clrR r).state == TransactionState.Terminated) = false := by
    show (r.state == TransactionState.Terminated) = false; rw [h.act]; rfl
  have hns : ((clrR r).state == TransactionState.Suspended) = false := by
    show (r.state == TransactionState.Suspended) = false; rw [h.act]; rfl
  -- the computed sleep is over
  have hu : Recv.untilTimeout (clrR r) t = some 0 := by
    have hd0 : (clrR r).delayed = [] := hdel
    simp only [Recv.untilTimeout, hns, Bool.false_eq_true, if_false, hd0, List.head?_nil]
    exact untilTimeout_nak_due r.timer t hdue.1 hdue.2.1 hdue.2.2
  have hmode : ((clrR r).cfg.mode == TransmissionMode.Unacknowledged) = false := by
    show (r.cfg.mode == TransmissionMode.Unacknowledged) = false; rw [h.mode]; rfl
  have e1 : recvStep r t .timeout = handleTimeoutMain (clrR r) t := by
    rw [recvStep_eq]
    simp only [hnt, Bool.false_eq_true, if_false, hu, beq_self_eq_true, if_true, Recv.handleTimeout, hns, hmode,
      Bool.false_and]
  -- the delayed checks: none
  have hd : handleDelayed (clrR r) t = clrR r := by
    have hd0 : (clrR r).delayed = [] := hdel
    rw [naks_handleDelayed_nil _ _ (by rw [hd0]; rfl), hd0]
    show ({ clrR r with delayed := [] } : Recv.State) = clrR r
    have : (clrR r) = { clrR r with delayed := (clrR r).delayed } := rfl
    rw [this, hd0]
  -- the inactivity part: no limit
  have hib : (((clrR r).timer.inactivity.limitReached t).2) = false := by
    show ((r.timer.inactivity.update t).count == (r.timer.inactivity.update t).max) = false
    rw [max_update]; simpa using hil
  have hTi := hrt.inactivity.2.1
  have hOi := hrt.inactivity.1
  have hid1 : (r.timer.inactivity.update t).update t = r.timer.inactivity.update t := update_idem _ _ hTi hOi
  obtain ⟨k, hk, hkq, hik⟩ : ∃ k, handleInactivity (clrR r) t = (setIR (clrR r) k, true) ∧ CQ m Ti k ∧
      IK r.timer.inactivity t k := by
    rw [Recv.handleInactivity_eq]
    simp only [hib, Bool.false_eq_true, if_false]
    split
    · refine ⟨_, rfl, cq_restart (cq_timeoutOccurred (cq_limitReached hrt.inactivity t) t) t, ?_, Or.inl rfl, ?_⟩
      · show ((((r.timer.inactivity.update t).update t).update t)).count = (r.timer.inactivity.update t).count
        rw [hid1, hid1]
      · intro hc; cases hc
    · refine ⟨_, rfl, cq_timeoutOccurred (cq_limitReached hrt.inactivity t) t, ?_, Or.inr ?_, ?_⟩
      · show ((r.timer.inactivity.update t).update t).count = (r.timer.inactivity.update t).count
        rw [hid1]
      · show ((r.timer.inactivity.update t).update t).start = (r.timer.inactivity.update t).start
        rw [hid1]
      · show ((r.timer.inactivity.update t).update t).paused = true → r.timer.inactivity.paused = true
        rw [hid1]
        intro hp
        simp only [Counter.update] at hp
        split at hp
        · assumption
        · rw [(updateLoop_fields _ _ _).2.2.2] at hp; exact hp
  -- the NAK part
  have hocc : ((setIR (clrR r) k).timer.nak.update t).occurred = true := (update_due r.timer.nak t hdue.1 hdue.2.1).1
  have hgaps : (getAllNaks (setNR (setIR (clrR r) k) (r.timer.nak.update t))).isEmpty = false := by
    have e := getAllNaks_congr (s := r) (s' := setNR (setIR (clrR r) k) (r.timer.nak.update t)) rfl rfl rfl
    rw [e]
    obtain ⟨c1, c2, _⟩ := C08_exact r src.length h.data.inv h.size
    obtain ⟨x, hx, hnx⟩ := hinc
    obtain ⟨q, hq, _⟩ := (c2 x).mpr ⟨hx, hnx⟩
    rw [c1]
    cases hg : Seg.gaps r.segs 0 src.length with
    | nil => rw [hg] at hq; cases hq
    | cons y ys => simp
  have e2 : handleTimeoutMain (clrR r) t =
      nbSet (setIR (clrR r) k) (r.timer.nak.update t) (r.timer.nak.update t) := by
    rw [Recv.handleTimeoutMain_eq]
    simp only [hns, Bool.false_eq_true, if_false, hd, hk, Bool.not_true]
    have hrd : (setIR (clrR r) k).recvState = .ReceiveData := h.rd
    simp only [hrd]
    rw [nakBranch_eq]
    have hnk : (setIR (clrR r) k).timer.nak = r.timer.nak := rfl
    rw [hnk] at hocc ⊢
    simp only [hocc, if_true, hgaps, Bool.false_eq_true, if_false]
  rw [e1, e2]
  refine ⟨⟨rfl, rfl, rfl, rfl, rfl, rfl, rfl, rfl, rfl, rfl⟩, ⟨h.act, h.rd, hpr, hack, ?_, ?_⟩, ?_, rfl, rfl, rfl, hik⟩
  · exact ⟨hrt.ack, hkq, cq_update hrt.nak t⟩
  · refine ⟨by show (r.timer.nak.update t).max > 0; rw [max_update]; exact hmax, ?_⟩
    rcases hroom with hnew | hnl
    · exact Or.inl hnew
    · right
      show ((r.timer.nak.update t).update t).count ≠ ((r.timer.nak.update t).update t).max
      rw [update_idem _ _ hrt.nak.2.1 hrt.nak.1, max_update]
      exact hnl
  · show getAllNaks (setNR (setIR (clrR r) k) (r.timer.nak.update t)) = getAllNaks _
    exact getAllNaks_congr rfl rfl rfl


/-- what `send_naks` does to the NAK counter below the limit: new data since the last NAK starts the count again from
zero, otherwise the count stands and the period starts again; either way the data seen so far is remembered -/
theorem sendNaks_counter (s : Recv.State) (t : Nat) (hroom : NakRoom s t) :
    (Recv.sendNaks s t).timer.nak =
      (if (s.nakReceived == s.received) then (s.timer.nak.update t).restart t else s.timer.nak.reset t) ∧
    (Recv.sendNaks s t).nakReceived = s.received ∧ (Recv.sendNaks s t).received = s.received := by
  obtain ⟨hmax, hr⟩ := hroom
  cases hnr : (s.nakReceived == s.received) with
  | false =>
    simp only [Recv.sendNaks, Recv.sendNaksTimer, hnr, Bool.false_eq_true, if_false, maxNakNum]
    refine ⟨?_, ?_, ?_⟩ <;> first | rfl | (simp only [Recv.timer_sendPayload, Recv.nakReceived_sendPayload, Recv.received_sendPayload])
  | true =>
    have hne : (s.timer.nak.update t).count ≠ (s.timer.nak.update t).max := by
      rcases hr with h | h
      · rw [hnr] at h; cases h
      · exact h
    have hb : ((s.timer.nak.update t).count == (s.timer.nak.update t).max) = false := by simpa using hne
    have he : s.nakReceived = s.received := by simpa using hnr
    simp only [Recv.sendNaks, Recv.sendNaksTimer, hnr, if_true, Counter.limitReached, hb, Bool.false_eq_true, if_false, maxNakNum]
    refine ⟨?_, ?_, ?_⟩ <;> first | rfl | exact he | (simp only [Recv.timer_sendPayload, Recv.nakReceived_sendPayload, Recv.received_sendPayload]; exact he) | (simp only [Recv.timer_sendPayload, Recv.nakReceived_sendPayload, Recv.received_sendPayload]; done)

/-- the NAK counter right after a NAK went out at clock reading `t`: running, its period started at `t`, counting `c`,
and everything received so far remembered as seen -/
structure NC (t c : Nat) (r : Recv.State) : Prop where
  start : r.timer.nak.start = t
  run : r.timer.nak.paused = false
  count : r.timer.nak.count = c
  seen : r.nakReceived = r.received

theorem update_at_start (c : Counter) (now : Nat) (hs : c.start = now) (hT : 0 < c.timeout) : c.update now = c := by
  simp only [Counter.update]
  split
  · rfl
  · rw [hs, Nat.sub_self, Nat.zero_add]
    simp only [updateLoop]
    rw [if_neg (by rw [hs]; omega)]

theorem send_is_sendNaks {m Ta Ti Tn : Nat} (r : Recv.State) (t : Nat) (h : NQ m Ta Ti Tn t r) (hne : r.naks ≠ []) :
    recvStep r t .send = Recv.sendNaks (clrR r) t := by
  have hnt : ((clrR r).state == TransactionState.Terminated) = false := by
    show (r.state == TransactionState.Terminated) = false; rw [h.act]; rfl
  have hns : ((clrR r).state == TransactionState.Suspended) = false := by
    show (r.state == TransactionState.Suspended) = false; rw [h.act]; rfl
  have k1 : (clrR r).recvState = .ReceiveData := h.rd
  have k2 : (clrR r).prompt = none := h.pr
  have k3 : (clrR r).ack = none := h.ack
  have k4 : (clrR r).naks = r.naks := rfl
  have hemp : r.naks.isEmpty = false := by
    cases hn : r.naks with
    | nil => exact absurd hn hne
    | cons x xs => rfl
  have hhas : Recv.hasPduToSend (clrR r) = true := by
    simp only [Recv.hasPduToSend, hns, Bool.false_eq_true, if_false, k1, k2, k3, k4, hemp, Option.isSome_none, Bool.false_or,
      Bool.not_false]
  rw [recvStep_eq]
  simp only [hnt, Bool.false_eq_true, if_false, hhas, if_true, Recv.sendPdu, k2, Option.isSome_none, k1, k3, k4, hemp,
    Bool.not_false]

/-- the first NAK of a round -/
theorem nc_first {m Ta Ti Tn : Nat} (r : Recv.State) (t : Nat) (h : NQ m Ta Ti Tn t r) (hne : r.naks ≠ []) :
    NC t (if (r.nakReceived == r.received) then (r.timer.nak.update t).count else 0) (recvStep r t .send) ∧
    (recvStep r t .send).received = r.received := by
  rw [send_is_sendNaks r t h hne]
  obtain ⟨c1, c2, c3⟩ := sendNaks_counter (clrR r) t (nq_clr h).room
  have e1 : (clrR r).nakReceived = r.nakReceived := rfl
  have e2 : (clrR r).received = r.received := rfl
  have e3 : (clrR r).timer = r.timer := rfl
  rw [e1, e2, e3] at c1
  rw [e2] at c2 c3
  refine ⟨⟨?_, ?_, ?_, by rw [c2, c3]⟩, c3⟩
  · rw [c1]; split <;> rfl
  · rw [c1]; split <;> rfl
  · rw [c1]
    split
    · show ((r.timer.nak.update t).update t).count = (r.timer.nak.update t).count
      rw [update_idem _ _ h.rt.nak.2.1 h.rt.nak.1]
    · rfl

/-- any further transmission opportunity at the same instant -/
theorem nc_send {m Ta Ti Tn : Nat} (r : Recv.State) (t c : Nat) (h : NQ m Ta Ti Tn t r) (n : NC t c r) :
    NC t c (recvStep r t .send) ∧ (recvStep r t .send).received = r.received := by
  by_cases hne : r.naks = []
  · rw [recv_send_idle r t h hne]
    exact ⟨⟨n.start, n.run, n.count, n.seen⟩, rfl⟩
  · rw [send_is_sendNaks r t h hne]
    obtain ⟨c1, c2, c3⟩ := sendNaks_counter (clrR r) t (nq_clr h).room
    have e1 : (clrR r).nakReceived = r.nakReceived := rfl
    have e2 : (clrR r).received = r.received := rfl
    have e3 : (clrR r).timer = r.timer := rfl
    rw [e1, e2, e3] at c1
    rw [e2] at c2 c3
    have hb : (r.nakReceived == r.received) = true := by rw [n.seen]; exact beq_self_eq_true _
    rw [hb, if_pos rfl, update_at_start _ _ n.start h.rt.nak.2.1] at c1
    refine ⟨⟨?_, ?_, ?_, by rw [c2, c3]⟩, c3⟩
    · rw [c1]; rfl
    · rw [c1]; rfl
    · rw [c1]
      show (r.timer.nak.update t).count = c
      rw [update_at_start _ _ n.start h.rt.nak.2.1]; exact n.count

theorem nc_recvN {m Ta Ti Tn : Nat} (k : Nat) (r : Recv.State) (t c : Nat) (h : NQ m Ta Ti Tn t r) (n : NC t c r) :
    NC t c (recvN k r t).1 ∧ (recvN k r t).1.received = r.received := by
  induction k generalizing r with
  | zero => exact ⟨n, rfl⟩
  | succ k ih =>
    simp only [recvN]
    obtain ⟨a1, a2⟩ := nc_send r t c h n
    have hq : NQ m Ta Ti Tn t (recvStep r t .send) := by
      by_cases hne : r.naks = []
      · rw [recv_send_idle r t h hne]; exact nq_clr h
      · exact (recv_sends_nak r t h hne).1
    obtain ⟨b1, b2⟩ := ih _ hq a1
    exact ⟨b1, b2.trans a2⟩

/-- `send_naks` below the limit leaves the inactivity counter alone -/
theorem sendNaks_inactivity (s : Recv.State) (t : Nat) (hroom : NakRoom s t) :
    (Recv.sendNaks s t).timer.inactivity = s.timer.inactivity := by
  obtain ⟨hmax, hr⟩ := hroom
  cases hnr : (s.nakReceived == s.received) with
  | false =>
    simp only [Recv.sendNaks, Recv.sendNaksTimer, hnr, Bool.false_eq_true, if_false, maxNakNum]
    first | rfl | (simp only [Recv.timer_sendPayload]; done)
  | true =>
    have hne : (s.timer.nak.update t).count ≠ (s.timer.nak.update t).max := by
      rcases hr with h | h
      · rw [hnr] at h; cases h
      · exact h
    have hb : ((s.timer.nak.update t).count == (s.timer.nak.update t).max) = false := by simpa using hne
    simp only [Recv.sendNaks, Recv.sendNaksTimer, hnr, if_true, Counter.limitReached, hb, Bool.false_eq_true, if_false, maxNakNum]
    first | rfl | (simp only [Recv.timer_sendPayload]; done)

theorem inact_send {m Ta Ti Tn : Nat} (r : Recv.State) (t : Nat) (h : NQ m Ta Ti Tn t r) :
    (recvStep r t .send).timer.inactivity = r.timer.inactivity := by
  by_cases hne : r.naks = []
  · rw [recv_send_idle r t h hne]; rfl
  · rw [send_is_sendNaks r t h hne, sendNaks_inactivity (clrR r) t (nq_clr h).room]; rfl

theorem inact_recvN {m Ta Ti Tn : Nat} (k : Nat) (r : Recv.State) (t : Nat) (h : NQ m Ta Ti Tn t r) :
    (recvN k r t).1.timer.inactivity = r.timer.inactivity := by
  induction k generalizing r with
  | zero => rfl
  | succ k ih =>
    simp only [recvN]
    have hq : NQ m Ta Ti Tn t (recvStep r t .send) := by
      by_cases hne : r.naks = []
      · rw [recv_send_idle r t h hne]; exact nq_clr h
      · exact (recv_sends_nak r t h hne).1
    rw [ih _ hq, inact_send r t h]

/-- the receiver's part of one round of the NAK loop: the timer's expiry and the transmission of the rebuilt queue -/
def wakeFlush (r : Recv.State) (t : Nat) : Recv.State × List Pdu :=
  recvN (recvStep r t .timeout).naks.length (recvStep r t .timeout) t

/-- **the receiver's part of a round keeps the loop going**: from mid-recovery with nothing to transmit, a NAK-timer
expiry below the limits rebuilds the queue, the queue goes out in NAK PDUs carrying every gap, and the receiver is
back in mid-recovery with nothing to transmit, its data untouched -/
theorem wake_flush {m Ta Ti Tn : Nat} (r : Recv.State) (t : Nat) (src : Bytes) (md : Recv.Meta) (fs0 : Fs.FS)
    (h : RG src md fs0 r) (w : WN m Ta Ti Tn r)
    (hdue : r.timer.nak.paused = false ∧ r.timer.nak.timeout ≤ t - r.timer.nak.start ∧ r.timer.nak.start ≤ t)
    (hroom : (r.nakReceived == r.received) = false ∨ (r.timer.nak.update t).count ≠ r.timer.nak.max)
    (hmax : 0 < r.timer.nak.max)
    (hil : (r.timer.inactivity.update t).count ≠ r.timer.inactivity.max)
    (hinc : ∃ x, x < src.length ∧ ¬ Seg.cov r.segs x) :
    RG src md fs0 (wakeFlush r t).1 ∧ WN m Ta Ti Tn (wakeFlush r t).1 ∧ (wakeFlush r t).1.segs = r.segs ∧
    NC t (if (r.nakReceived == r.received) then (r.timer.nak.update t).count else 0) (wakeFlush r t).1 ∧
    (wakeFlush r t).1.received = r.received ∧
    IK r.timer.inactivity t (wakeFlush r t).1.timer.inactivity ∧
    (∀ pdu ∈ (wakeFlush r t).2, ∃ nk, pdu.payload = .nak nk) := by
  obtain ⟨w1, w2, w3, w4, w5, w6, w7⟩ := wake_rebuilds_room r t src md fs0 h w.pr w.ack w.rt w.del hdue hroom hmax hil hinc
  obtain ⟨f1, f2, f3, _, f5⟩ := recv_flushes_naks (recvStep r t .timeout).naks.length (recvStep r t .timeout) t w2 (Nat.le_refl _)
  have hs := sameData_trans f3 w1
  have hin : (wakeFlush r t).1.timer.inactivity = (recvStep r t .timeout).timer.inactivity := inact_recvN _ _ t w2
  refine ⟨rg_of_same h hs, ⟨f2.pr, f2.ack, f2.rt, ?_, f1⟩, hs.2.2.2.2.2.2.2.1, ?_⟩
  · show (recvN _ _ t).1.delayed = []
    rw [delayed_recvN]
    exact delayed_nil_recvStep_timeout r t w.del
  · -- the queue is not empty: at least one NAK goes out
    have hne : (recvStep r t .timeout).naks ≠ [] := by
      rw [w3]
      have e := getAllNaks_congr (s := r) (s' := recvStep r t .timeout) w1.2.2.2.2.2.2.2.1 w1.2.2.2.1 w1.2.2.2.2.1
      rw [e]
      obtain ⟨c1, c2, _⟩ := C08_exact r src.length h.data.inv h.size
      obtain ⟨x, hx, hnx⟩ := hinc
      obtain ⟨q, hq, _⟩ := (c2 x).mpr ⟨hx, hnx⟩
      rw [c1]
      intro hnil
      have : q ∈ ([] : List (Nat × Nat)) := by
        rw [← hnil]; exact List.mem_append_right _ hq
      cases this
    unfold wakeFlush
    cases hl : (recvStep r t .timeout).naks.length with
    | zero => exact absurd (List.eq_nil_of_length_eq_zero hl) hne
    | succ k =>
      simp only [recvN]
      obtain ⟨n1, n2⟩ := nc_first (recvStep r t .timeout) t w2 hne
      rw [w4, w5, w6] at n1
      rw [w6] at n2
      have hid : (r.timer.nak.update t).update t = r.timer.nak.update t := update_idem _ _ w.rt.nak.2.1 w.rt.nak.1
      rw [hid] at n1
      obtain ⟨b1, b2⟩ := nc_recvN k _ t _ (recv_sends_nak _ t w2 hne).1 n1
      refine ⟨b1, b2.trans n2, ?_, ?_⟩
      · have : (recvN k (recvStep (recvStep r t .timeout) t .send) t).1.timer.inactivity = (wakeFlush r t).1.timer.inactivity := by
          unfold wakeFlush; rw [hl]; rfl
        rw [this, hin]; exact w7
      · intro pdu hp
        have hp' : pdu ∈ (wakeFlush r t).2 := by unfold wakeFlush; rw [hl]; exact hp
        obtain ⟨nk, e, _⟩ := f5 pdu hp'
        exact ⟨nk, e⟩

/-- the NAK loop over a lossy link: round after round the NAK timer runs out (at the round's clock reading), the receiver
transmits its rebuilt queue, and whatever part of the sender's answers the link lets through is delivered; the loop
ends when the receiver has finished -/
def nakRounds : Recv.State → List (Nat × List (Nat × Pdu)) → Recv.State
  | r, [] => r
  | r, (t, ds) :: rest =>
    if r.recvState = .Finished then r else nakRounds (deliverAll (wakeFlush r t).1 ds) rest

/-- the schedule keeps within the limits: at every round that is played the NAK timer has run out, neither the NAK
limit nor the inactivity limit is reached, and what is delivered are file-data PDUs carrying the source's bytes
(or the Metadata) -/
def Sched (src : Bytes) : Recv.State → List (Nat × List (Nat × Pdu)) → Prop
  | _, [] => True
  | r, (t, ds) :: rest =>
    r.recvState = .Finished ∨
    ((r.timer.nak.paused = false ∧ r.timer.nak.timeout ≤ t - r.timer.nak.start ∧ r.timer.nak.start ≤ t) ∧
     ((r.nakReceived == r.received) = false ∨ (r.timer.nak.update t).count ≠ r.timer.nak.max) ∧
     (r.timer.inactivity.update t).count ≠ r.timer.inactivity.max ∧
     (∀ x ∈ ds, RPdu src x.2) ∧
     Sched src (deliverAll (wakeFlush r t).1 ds) rest)

theorem nakRounds_fg (r : Recv.State) (h : FG r) (rounds : List (Nat × List (Nat × Pdu))) : nakRounds r rounds = r := by
  cases rounds with
  | nil => rfl
  | cons a rest => obtain ⟨t, ds⟩ := a; simp only [nakRounds, h.1, if_true]

/-- the loop's invariant: after any number of lossy rounds within the limits the receiver has either finished
successfully or is in mid-recovery with nothing to transmit, holding what it held plus every byte any round
delivered -/
theorem nakRounds_inv {m Ta Ti Tn : Nat} {src : Bytes} {md : Recv.Meta} {fs0 : Fs.FS}
    (rounds : List (Nat × List (Nat × Pdu))) (r : Recv.State)
    (h : RG src md fs0 r) (w : WN m Ta Ti Tn r) (hmax : 0 < m)
    (hft : md.srcName.isEmpty = false) (hfs : (fs0.writeFile (Fs.relOf md.dstName) src).isSome = true)
    (hinc : ∃ x, x < src.length ∧ ¬ Seg.cov r.segs x) (hs : Sched src r rounds) :
    FG (nakRounds r rounds) ∨
    (RG src md fs0 (nakRounds r rounds) ∧ WN m Ta Ti Tn (nakRounds r rounds) ∧
      (∃ x, x < src.length ∧ ¬ Seg.cov (nakRounds r rounds).segs x) ∧
      (∀ x, Seg.cov r.segs x → Seg.cov (nakRounds r rounds).segs x) ∧
      (∀ rd ∈ rounds, ∀ x, carries (rd.2.map (·.2)) x → Seg.cov (nakRounds r rounds).segs x)) := by
  induction rounds generalizing r with
  | nil =>
    right
    exact ⟨h, w, hinc, fun x hx => hx, fun rd hrd => by cases hrd⟩
  | cons a rest ih =>
    obtain ⟨t, ds⟩ := a
    have hnf : ¬ r.recvState = .Finished := by rw [h.rd]; intro hc; cases hc
    simp only [nakRounds, hnf, if_false]
    simp only [Sched] at hs
    rcases hs with hs | ⟨hdue, hnl, hil, hd, hs⟩
    · exact absurd hs hnf
    have hmx : 0 < r.timer.nak.max := by rw [w.rt.nak.2.2.1]; exact hmax
    obtain ⟨a1, a2, a3, _, _, _, _⟩ := wake_flush r t src md fs0 h w hdue hnl hmx hil hinc
    rcases wn_deliverAll ds (wakeFlush r t).1 a1 a2 hd hft hfs (by rw [a3]; exact hinc) with
      hfg | ⟨b1, b2, b0, _, _, _, b6, b7, _⟩
    · left
      rw [nakRounds_fg _ hfg]; exact hfg
    · rcases ih _ b1 b2 b0 hs with hfg | ⟨c1, c2, c0, c6, c7⟩
      · exact Or.inl hfg
      · right
        refine ⟨c1, c2, c0, fun x hx => c6 x (b6 x (by rw [a3]; exact hx)), ?_⟩
        intro rd hrd x hx
        simp only [List.mem_cons] at hrd
        rcases hrd with hrd | hrd
        · subst hrd
          exact c6 x (b7 x hx)
        · exact c7 rd hrd x hx

/-- **C02 (the NAK loop under loss).**  A receiver in mid-recovery (Metadata and the truthful EOF in, something
missing, nothing to transmit) goes through any number of rounds of its NAK loop over a link that loses whatever it
likes - NAK PDUs, answers, whole rounds - as long as the schedule keeps within the limits (`Sched`: the NAK timer
has run out at each round, neither the NAK limit nor the inactivity limit is reached).  If every missing byte got
through in at least one of the rounds, the delivery has succeeded: Finished / NoError / Complete / Retained. -/
theorem C02_lossy_rounds {m Ta Ti Tn : Nat} {src : Bytes} {md : Recv.Meta} {fs0 : Fs.FS}
    (rounds : List (Nat × List (Nat × Pdu))) (r : Recv.State)
    (h : RG src md fs0 r) (w : WN m Ta Ti Tn r) (hmax : 0 < m)
    (hft : md.srcName.isEmpty = false) (hfs : (fs0.writeFile (Fs.relOf md.dstName) src).isSome = true)
    (hinc : ∃ x, x < src.length ∧ ¬ Seg.cov r.segs x) (hs : Sched src r rounds)
    (hcov : ∀ x, x < src.length → ¬ Seg.cov r.segs x → ∃ rd ∈ rounds, carries (rd.2.map (·.2)) x) :
    FG (nakRounds r rounds) := by
  rcases nakRounds_inv rounds r h w hmax hft hfs hinc hs with hfg | ⟨_, _, ⟨x, hx, hnx⟩, c6, c7⟩
  · exact hfg
  · exfalso
    by_cases hc : Seg.cov r.segs x
    · exact hnx (c6 x hc)
    · obtain ⟨rd, hrd, hcar⟩ := hcov x hx hc
      exact hnx (c7 rd hrd x hcar)

/-- a running counter looked at during its second period has counted exactly one more expiry -/
theorem count_update_window (c : Counter) (t : Nat) (hp : c.paused = false) (hT : 0 < c.timeout) (hc : c.count ≤ c.max)
    (h1 : c.start + c.timeout ≤ t) (h2 : t < c.start + 2 * c.timeout) : (c.update t).count = min (c.count + 1) c.max := by
  have hu : c.update t = updateLoop (t - c.start + 1) t c := by
    simp only [Counter.update, hp, Bool.false_eq_true, if_false]
  obtain ⟨k1, _, _⟩ := updateLoop_closed (t - c.start + 1) t c hT hc (Nat.lt_succ_of_le (Nat.div_le_self _ _))
  have hd : (t - c.start) / c.timeout = 1 := by
    apply Nat.div_eq_of_lt_le
    · omega
    · omega
  rw [hu, k1, hd]

/-- the NAK counter between two rounds: running since the last round's clock reading `tp`, having counted at most `j`
expiries, nothing counted as seen that was not received -/
structure NB (tp j : Nat) (r : Recv.State) : Prop where
  start : r.timer.nak.start = tp
  run : r.timer.nak.paused = false
  count : r.timer.nak.count ≤ j
  seen : r.nakReceived ≤ r.received

/-- the inactivity counter `c` between two rounds, `a` being the clock reading of the last delivery: it started no
earlier than `a`, no later than `hi`, and every expiry it has counted lies between `a` and its start -/
structure IB (Ti a hi : Nat) (c : Counter) : Prop where
  cnt : c.count * Ti ≤ c.start - a
  lo : a ≤ c.start
  hi : c.start ≤ hi

theorem ib_update {Ti a hi : Nat} {c : Counter} (ib : IB Ti a hi c) (t : Nat) (hT : c.timeout = Ti) (hTp : 0 < Ti)
    (hok : c.count ≤ c.max) (hle : hi ≤ t) : IB Ti a t (c.update t) := by
  by_cases hp : c.paused = true
  · have : c.update t = c := by simp only [Counter.update, hp, if_true]
    rw [this]
    exact ⟨ib.cnt, ib.lo, Nat.le_trans ib.hi hle⟩
  · have hp' : c.paused = false := by simpa using hp
    have hu : c.update t = updateLoop (t - c.start + 1) t c := by
      simp only [Counter.update, hp', Bool.false_eq_true, if_false]
    obtain ⟨k1, k2, _⟩ := updateLoop_closed (t - c.start + 1) t c (by rw [hT]; exact hTp) hok
      (Nat.lt_succ_of_le (Nat.div_le_self _ _))
    rw [hu]
    have hd : (t - c.start) / c.timeout * c.timeout ≤ t - c.start := Nat.div_mul_le_self _ _
    have h1 := ib.cnt
    have h2 := ib.lo
    have h3 := ib.hi
    rw [hT] at hd k1 k2
    generalize (t - c.start) / Ti = d at hd k1 k2
    refine ⟨?_, ?_, ?_⟩
    · rw [k1, k2]
      have : min (c.count + d) c.max * Ti ≤ (c.count + d) * Ti := Nat.mul_le_mul_right _ (Nat.min_le_left _ _)
      rw [Nat.add_mul] at this
      omega
    · rw [k2]; omega
    · rw [k2]; omega

theorem ib_limit {Ti a t m : Nat} {k : Counter} (ib : IB Ti a t k) (h : t < a + m * Ti) : k.count < m := by
  have h1 := ib.cnt
  have h2 := ib.lo
  have h3 := ib.hi
  have : k.count * Ti < m * Ti := by omega
  exact Nat.lt_of_mul_lt_mul_right this

/-- a fair lossy schedule, stated on the clock and on what gets through: every round is played during the second period
of the NAK timer after the previous one (`tp`), fewer than `m - 1` rounds in a row are fruitless (`j` counts the rounds
since something new last got through), a round is played less than `m` inactivity periods after the last delivery
(`a`, which no round precedes), and what is delivered are the source's own bytes -/
def Fair (src : Bytes) (m Ti Tn : Nat) : Nat → Nat → Nat → Recv.State → List (Nat × List (Nat × Pdu)) → Prop
  | _, _, _, _, [] => True
  | tp, j, a, r, (t, ds) :: rest =>
    r.recvState = .Finished ∨
    (tp + Tn ≤ t ∧ t < tp + 2 * Tn ∧ ((r.nakReceived == r.received) = true → j + 1 < m) ∧
     a ≤ t ∧ t < a + m * Ti ∧
     (∀ x ∈ ds, RPdu src x.2) ∧
     Fair src m Ti Tn t (if (r.nakReceived == r.received) then j + 1 else 0) (lastTime ds a)
       (deliverAll (wakeFlush r t).1 ds) rest)

theorem sched_fg (src : Bytes) (r : Recv.State) (h : FG r) (rounds : List (Nat × List (Nat × Pdu))) : Sched src r rounds := by
  cases rounds with
  | nil => trivial
  | cons a rest => obtain ⟨t, ds⟩ := a; simp only [Sched]; exact Or.inl h.1

/-- **a fair round keeps within the limits** (the wake-up): the counting arguments.  The NAK counter goes up by one in a
round that follows a fruitless one and starts again from zero when something new has arrived, so fewer than `m - 1`
fruitless rounds in a row never bring it to the limit `m`; the inactivity counter starts again from zero at every
delivery and every expiry it counts lies after the last one, so a round played less than `m` periods after the last
delivery does not find it at the limit -/
theorem fair_wake {m Ta Ti Tn : Nat} {src : Bytes} {md : Recv.Meta} {fs0 : Fs.FS} (r : Recv.State) (t tp j a : Nat)
    (h : RG src md fs0 r) (w : WN m Ta Ti Tn r) (hmax : 0 < m) (nb : NB tp j r) (ib : IB Ti a (max a tp) r.timer.inactivity)
    (hinc : ∃ x, x < src.length ∧ ¬ Seg.cov r.segs x)
    (h1 : tp + Tn ≤ t) (h2 : t < tp + 2 * Tn) (h3 : (r.nakReceived == r.received) = true → j + 1 < m)
    (h4 : a ≤ t) (h5 : t < a + m * Ti) :
    ((r.timer.nak.paused = false ∧ r.timer.nak.timeout ≤ t - r.timer.nak.start ∧ r.timer.nak.start ≤ t) ∧
     ((r.nakReceived == r.received) = false ∨ (r.timer.nak.update t).count ≠ r.timer.nak.max) ∧
     (r.timer.inactivity.update t).count ≠ r.timer.inactivity.max) ∧
    RG src md fs0 (wakeFlush r t).1 ∧ WN m Ta Ti Tn (wakeFlush r t).1 ∧
    (∃ x, x < src.length ∧ ¬ Seg.cov (wakeFlush r t).1.segs x) ∧
    NB t (if (r.nakReceived == r.received) then j + 1 else 0) (wakeFlush r t).1 ∧
    (wakeFlush r t).1.nakReceived = (wakeFlush r t).1.received ∧
    IB Ti a t (wakeFlush r t).1.timer.inactivity ∧
    (∀ pdu ∈ (wakeFlush r t).2, ∃ nk, pdu.payload = .nak nk) := by
  have hT : r.timer.nak.timeout = Tn := w.rt.nak.2.2.2
  have hM : r.timer.nak.max = m := w.rt.nak.2.2.1
  have hTp : 0 < r.timer.nak.timeout := w.rt.nak.2.1
  have hOk : r.timer.nak.count ≤ r.timer.nak.max := w.rt.nak.1
  have hdue : r.timer.nak.paused = false ∧ r.timer.nak.timeout ≤ t - r.timer.nak.start ∧ r.timer.nak.start ≤ t := by
    refine ⟨nb.run, ?_, ?_⟩ <;> rw [nb.start] <;> try rw [hT]
    all_goals omega
  have hcnt : (r.timer.nak.update t).count = min (r.timer.nak.count + 1) r.timer.nak.max :=
    count_update_window _ t nb.run hTp hOk (by rw [nb.start, hT]; exact h1) (by rw [nb.start, hT]; exact h2)
  have hroom : (r.nakReceived == r.received) = false ∨ (r.timer.nak.update t).count ≠ r.timer.nak.max := by
    cases hb : (r.nakReceived == r.received) with
    | false => exact Or.inl rfl
    | true =>
      right
      have := h3 hb
      have hc := nb.count
      rw [hcnt, hM]
      omega
  have hmx : 0 < r.timer.nak.max := by rw [hM]; exact hmax
  -- the inactivity counter at the wake-up
  have hTi : r.timer.inactivity.timeout = Ti := w.rt.inactivity.2.2.2
  have hMi : r.timer.inactivity.max = m := w.rt.inactivity.2.2.1
  have hTip : 0 < Ti := by rw [← hTi]; exact w.rt.inactivity.2.1
  have ibu : IB Ti a t (r.timer.inactivity.update t) :=
    ib_update ib t hTi hTip w.rt.inactivity.1 (by omega)
  have hil : (r.timer.inactivity.update t).count ≠ r.timer.inactivity.max := by
    have := ib_limit ibu h5
    rw [hMi]; omega
  obtain ⟨a1, a2, a3, a4, a5, a6, a7⟩ := wake_flush r t src md fs0 h w hdue hroom hmx hil hinc
  -- ... and after it
  have ibk : IB Ti a t (wakeFlush r t).1.timer.inactivity := by
    obtain ⟨k1, k2, _⟩ := a6
    have u1 := ibu.cnt
    have u2 := ibu.lo
    have u3 := ibu.hi
    refine ⟨?_, ?_, ?_⟩
    · rw [k1]; rcases k2 with k2 | k2 <;> rw [k2] <;> omega
    · rcases k2 with k2 | k2 <;> rw [k2] <;> omega
    · rcases k2 with k2 | k2 <;> rw [k2] <;> omega
  refine ⟨⟨hdue, hroom, hil⟩, a1, a2, by rw [a3]; exact hinc, ⟨a4.start, a4.run, ?_, by rw [a4.seen]; exact Nat.le_refl _⟩, a4.seen,
    ibk, a7⟩
  rw [a4.count]
  split
  · rw [hcnt]
    have := nb.count
    omega
  · exact Nat.le_refl _

/-- ... and the deliveries of the round -/
theorem fair_deliver {m Ta Ti Tn : Nat} {src : Bytes} {md : Recv.Meta} {fs0 : Fs.FS} (r1 : Recv.State) (t j a : Nat)
    (ds : List (Nat × Pdu)) (h : RG src md fs0 r1) (w : WN m Ta Ti Tn r1) (nb : NB t j r1) (ib : IB Ti a t r1.timer.inactivity)
    (hinc : ∃ x, x < src.length ∧ ¬ Seg.cov r1.segs x) (hd : ∀ x ∈ ds, RPdu src x.2)
    (hft : md.srcName.isEmpty = false) (hfs : (fs0.writeFile (Fs.relOf md.dstName) src).isSome = true) :
    FG (deliverAll r1 ds) ∨
    (RG src md fs0 (deliverAll r1 ds) ∧ WN m Ta Ti Tn (deliverAll r1 ds) ∧
      (∃ x, x < src.length ∧ ¬ Seg.cov (deliverAll r1 ds).segs x) ∧ NB t j (deliverAll r1 ds) ∧
      IB Ti (lastTime ds a) (max (lastTime ds a) t) (deliverAll r1 ds).timer.inactivity) := by
  rcases wn_deliverAll ds r1 h w hd hft hfs hinc with hfg | ⟨b1, b2, b0, b3, b4, b5, _, _, b8⟩
  · exact Or.inl hfg
  · right
    refine ⟨b1, b2, b0, ⟨by rw [b3]; exact nb.start, by rw [b3]; exact nb.run, by rw [b3]; exact nb.count,
      by rw [b4]; exact Nat.le_trans nb.seen b5⟩, ?_⟩
    cases ds with
    | nil =>
      simp only [InAfter] at b8
      simp only [lastTime]
      rw [b8]
      exact ⟨ib.cnt, ib.lo, Nat.le_trans ib.hi (Nat.le_max_right _ _)⟩
    | cons y rest' =>
      simp only [InAfter] at b8
      simp only [lastTime]
      refine ⟨?_, ?_, ?_⟩
      · rw [b8.1]; omega
      · rw [b8.2]; exact Nat.le_refl _
      · rw [b8.2]; exact Nat.le_max_left _ _

/-- **a fair schedule keeps within the limits** -/
theorem fair_sched {m Ta Ti Tn : Nat} {src : Bytes} {md : Recv.Meta} {fs0 : Fs.FS}
    (rounds : List (Nat × List (Nat × Pdu))) (r : Recv.State) (tp j a : Nat)
    (h : RG src md fs0 r) (w : WN m Ta Ti Tn r) (hmax : 0 < m) (nb : NB tp j r) (ib : IB Ti a (max a tp) r.timer.inactivity)
    (hft : md.srcName.isEmpty = false) (hfs : (fs0.writeFile (Fs.relOf md.dstName) src).isSome = true)
    (hinc : ∃ x, x < src.length ∧ ¬ Seg.cov r.segs x) (hf : Fair src m Ti Tn tp j a r rounds) :
    Sched src r rounds := by
  induction rounds generalizing r tp j a with
  | nil => trivial
  | cons x rest ih =>
    obtain ⟨t, ds⟩ := x
    simp only [Fair] at hf
    simp only [Sched]
    rcases hf with hf | ⟨h1, h2, h3, h4, h5, hd, hf⟩
    · exact Or.inl hf
    right
    obtain ⟨⟨hdue, hroom, hil⟩, a1, a2, a3, a4, _, a6, _⟩ := fair_wake r t tp j a h w hmax nb ib hinc h1 h2 h3 h4 h5
    refine ⟨hdue, hroom, hil, hd, ?_⟩
    rcases fair_deliver _ t _ a ds a1 a2 a4 a6 a3 hd hft hfs with hfg | ⟨b1, b2, b0, b3, b4⟩
    · exact sched_fg src _ hfg rest
    · exact ih _ t _ (lastTime ds a) b1 b2 b3 b4 b0 hf

/-- **C02 (the NAK loop under fair loss).**  A receiver in mid-recovery (Metadata and the truthful EOF in, something
missing, nothing to transmit) whose NAK counter has counted at most `j` expiries goes through rounds of its NAK loop
over a link that loses whatever it likes - NAK PDUs, answers, whole rounds.  The schedule is fair (`Fair`): each round
is played during the second period of the NAK timer after the one before, fewer than `limit - 1` rounds in a row
bring nothing new, and no round is played `limit` inactivity periods or more after the last delivery.  Then neither
the NAK limit nor the inactivity limit is ever declared, and once every missing byte has got through in some round
the delivery has succeeded: Finished / NoError / Complete / Retained. -/
theorem C02_lossy_rounds_fair {m Ta Ti Tn : Nat} {src : Bytes} {md : Recv.Meta} {fs0 : Fs.FS}
    (rounds : List (Nat × List (Nat × Pdu))) (r : Recv.State) (tp j a : Nat)
    (h : RG src md fs0 r) (w : WN m Ta Ti Tn r) (hmax : 0 < m) (nb : NB tp j r) (ib : IB Ti a (max a tp) r.timer.inactivity)
    (hft : md.srcName.isEmpty = false) (hfs : (fs0.writeFile (Fs.relOf md.dstName) src).isSome = true)
    (hinc : ∃ x, x < src.length ∧ ¬ Seg.cov r.segs x) (hf : Fair src m Ti Tn tp j a r rounds)
    (hcov : ∀ x, x < src.length → ¬ Seg.cov r.segs x → ∃ rd ∈ rounds, carries (rd.2.map (·.2)) x) :
    FG (nakRounds r rounds) :=
  C02_lossy_rounds rounds r h w hmax hft hfs hinc (fair_sched rounds r tp j a h w hmax nb ib hft hfs hinc hf) hcov

/-! ### the premises are satisfiable -/

/-- limit 4, NAK period 1 s, inactivity period 3 s -/
abbrev cfgL : Recv.Config := { c04Cfg with max := 4, ti := 3 }
/-- the receiver after the Metadata, the first segment and the EOF (the second segment was lost), having transmitted the
ACK of the EOF and, at clock reading 1, its first NAK -/
def exRL : Recv.State :=
  (recvRun (Recv.new cfgL [([], .dir)] 0)
    [(0, .pdu exOut[0]!), (0, .pdu exOut[1]!), (0, .pdu exOut[3]!), (0, .send), (1, .send)]).1
/-- three rounds: everything is lost; the first missing byte gets through; the second one does -/
def exRounds : List (Nat × List (Nat × Pdu)) :=
  [(1000000001, []),
   (2000000001, [(2000000008, ⟨default, .fileData 4 [5]⟩)]),
   (3000000001, [(3000000005, ⟨default, .fileData 0 [1, 2]⟩), (3000000006, ⟨default, .fileData 5 [6]⟩)])]

example : FG (nakRounds exRL exRounds) := by
  have hmd : exRL.md = some { srcName := [115], dstName := [100], fileSize := 6, closure := false, cksumType := .Null, requests := [] } := by
    rfl
  have hsegs : exRL.segs = [(0, 4)] := by decide
  have htmp : exRL.tempFile = some [1, 2, 3, 4] := by decide
  have hri : RI cfgL.max (cfgL.ta * 1000000000) (cfgL.ti * 1000000000) (cfgL.tn * 1000000000) exRL :=
    ri_run _ _ (ri_new cfgL [([], .dir)] 0 (by decide) (by decide) (by decide) ⟨by decide, by decide, by decide⟩)
  have t1 : Truthful Send.exFile 4 [5] := ⟨by decide, fun i hi => by
    have : i = 0 := by simpa using hi
    subst this; rfl⟩
  have t2 : Truthful Send.exFile 0 [1, 2] := ⟨by decide, fun i hi => by
    have : i = 0 ∨ i = 1 := by simp only [List.length_cons, List.length_nil] at hi; omega
    rcases this with rfl | rfl <;> rfl⟩
  have t3 : Truthful Send.exFile 5 [6] := ⟨by decide, fun i hi => by
    have : i = 0 := by simpa using hi
    subst this; rfl⟩
  refine C02_lossy_rounds_fair (m := 4) (Ta := 1000000000) (Ti := 3000000000) (Tn := 1000000000) (src := Send.exFile)
    (fs0 := exRL.fs) exRounds exRL 1 0 0
    ⟨by decide, by decide, by decide, hmd, by decide, by decide, by decide, ?_, rfl⟩
    ⟨by decide, by decide, hri.inv.rt, by decide, by decide⟩ (by decide)
    ⟨by decide, by decide, by decide, by decide⟩ ⟨by decide, by decide, by decide⟩ (by decide) (by decide) ?_ ?_ ?_
  · refine ⟨?_, ?_, ?_, ?_⟩
    · rw [hsegs]; exact ⟨fun sg hsg => by simp at hsg; subst hsg; decide, by simp⟩
    · rw [hsegs]; intro sg hsg; simp at hsg; subst hsg; decide
    · rw [htmp]; decide
    · rw [hsegs, htmp]
      intro x hx
      obtain ⟨sg, hsg, h1, h2⟩ := hx
      simp at hsg; subst hsg
      have : x = 0 ∨ x = 1 ∨ x = 2 ∨ x = 3 := by simp only at h1 h2; omega
      rcases this with rfl | rfl | rfl | rfl <;> rfl
  · rw [hsegs]
    refine ⟨4, by decide, ?_⟩
    rintro ⟨sg, hsg, h1, h2⟩
    simp at hsg; subst hsg
    simp only at h1 h2; omega
  · -- the schedule is fair
    simp only [exRounds, Fair]
    refine Or.inr ⟨by decide, by decide, by decide, by decide, by decide, (fun x hx => by cases hx), ?_⟩
    refine Or.inr ⟨by decide, by decide, by decide, by decide, by decide, ?_, ?_⟩
    · intro x hx
      simp only [List.mem_singleton] at hx
      subst hx
      exact Or.inl ⟨4, [5], rfl, t1⟩
    refine Or.inr ⟨by decide, by decide, by decide, by decide, by decide, ?_, trivial⟩
    intro x hx
    simp only [List.mem_cons, List.not_mem_nil, or_false] at hx
    rcases hx with rfl | rfl
    · exact Or.inl ⟨0, [1, 2], rfl, t2⟩
    · exact Or.inl ⟨5, [6], rfl, t3⟩
  · -- every missing byte gets through in some round
    intro x hx hnx
    rw [hsegs] at hnx
    have hx' : x < 6 := hx
    have : x = 4 ∨ x = 5 := by
      have : ¬ (0 ≤ x ∧ x < 4) := fun hc => hnx ⟨(0, 4), by simp, hc.1, hc.2⟩
      omega
    rcases this with rfl | rfl
    · exact ⟨_, List.mem_cons_of_mem _ (List.mem_cons_self ..), ⟨_, List.mem_cons_self .., 4, [5], rfl, by decide, by decide⟩⟩
    · exact ⟨_, List.mem_cons_of_mem _ (List.mem_cons_of_mem _ (List.mem_cons_self ..)),
        ⟨_, List.mem_cons_of_mem _ (List.mem_cons_self ..), 5, [6], rfl, by decide, by decide⟩⟩

end Cfdp.Loop

#print axioms Cfdp.Loop.C02_lossy_rounds
#print axioms Cfdp.Loop.C02_lossy_rounds_fair
#print axioms Cfdp.Loop.C02_lost_eof_round
#print axioms Cfdp.Loop.C02_lost_finished_round
#print axioms Cfdp.Loop.C02_lost_metadata_round
#print axioms Cfdp.Loop.C02_timer_round
#print axioms Cfdp.Loop.C02_full_round
#print axioms Cfdp.Loop.C02_full_round_after_wake
#print axioms Cfdp.Loop.C02_sender_answers_nak
#print axioms Cfdp.Loop.C02_receiver_recovers
#print axioms Cfdp.Loop.C02_recovery_round
#print axioms Cfdp.Net.C02_two_party_completes
#print axioms Cfdp.Loop.C02_recv_completes
#print axioms Cfdp.Loop.C02_send_completes
#print axioms Cfdp.Net.C02_two_party_no_integrity_fault
#print axioms Cfdp.Loop.C02_no_integrity_fault
#print axioms Cfdp.Recv.C02_size_check_passes
#print axioms Cfdp.Seg.C02_round_completes
#print axioms Cfdp.Seg.C02_gaps_answered
#print axioms Cfdp.Recv.C02_finishes_when_complete
#print axioms Cfdp.Recv.C02_never_waits_complete
#print axioms Cfdp.Recv.C02_complete_is_success
