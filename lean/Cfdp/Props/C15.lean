import Cfdp.Lemmas.Crc2

/-!
# C15 — with the CRC option on, corrupted PDUs are rejected
-/
namespace Cfdp.Crc
open Cfdp.Codec Cfdp.Gen

/-! ### feeding message bits -/

def bitW (b : Bool) : W := if b then 0x8000#16 else 0

def feedBit (r : W) (b : Bool) : W := T (r ^^^ bitW b)
def feedBits (r : W) (bs : List Bool) : W := bs.foldl feedBit r

theorem bitW_xor (x y : Bool) : bitW (x ^^ y) = bitW x ^^^ bitW y := by
  cases x <;> cases y <;> decide

theorem feedBits_append (r : W) (xs ys : List Bool) : feedBits r (xs ++ ys) = feedBits (feedBits r xs) ys := by
  simp only [feedBits, List.foldl_append]

/-- linearity: the register after a message is the xor of what the initial value alone and the
message alone (from a zero register) give -/
theorem feedBits_lin (a b : W) (xs ys : List Bool) (h : xs.length = ys.length) :
    feedBits (a ^^^ b) (List.zipWith (· ^^ ·) xs ys) = feedBits a xs ^^^ feedBits b ys := by
  induction xs generalizing a b ys with
  | nil => cases ys with
    | nil => rfl
    | cons y ys => simp at h
  | cons x xs ih =>
    cases ys with
    | nil => simp at h
    | cons y ys =>
      simp only [List.length_cons, Nat.add_right_cancel_iff] at h
      simp only [List.zipWith_cons_cons, feedBits, List.foldl_cons]
      have : feedBit (a ^^^ b) (x ^^ y) = feedBit a x ^^^ feedBit b y := by
        simp only [feedBit, bitW_xor, ← T_lin]
        congr 1
        ac_rfl
      rw [this]
      exact ih _ _ ys h

theorem feedBits_zeros (r : W) (n : Nat) : feedBits r (List.replicate n false) = iterT n r := by
  induction n generalizing r with
  | zero => rfl
  | succ k ih =>
    simp only [List.replicate_succ, feedBits, List.foldl_cons]
    have : feedBit r false = T r := by simp [feedBit, bitW]
    rw [this]
    exact ih (T r)

theorem zipXor_zeros (bs : List Bool) : List.zipWith (· ^^ ·) (List.replicate bs.length false) bs = bs := by
  induction bs with
  | nil => rfl
  | cons b bs ih => simp only [List.length_cons, List.replicate_succ, List.zipWith_cons_cons, Bool.false_bne, ih]

/-- the register after a message = (initial value shifted through) xor (the message from a zero register) -/
theorem feedBits_split (r : W) (bs : List Bool) : feedBits r bs = iterT bs.length r ^^^ feedBits 0 bs := by
  have := feedBits_lin r 0 (List.replicate bs.length false) bs (by simp)
  have h0 : r ^^^ (0 : W) = r := BitVec.xor_zero
  rw [h0, zipXor_zeros, feedBits_zeros] at this
  exact this

/-! ### the message as a residue: `valW l` is l(x) mod the generator -/

def oneW (b : Bool) : W := if b then 1#16 else 0

def valStep (acc : W) (b : Bool) : W := T acc ^^^ oneW b
def valFrom (r : W) (l : List Bool) : W := l.foldl valStep r
def valW (l : List Bool) : W := valFrom 0 l

theorem iterT16_one : iterT 16 1#16 = T 0x8000#16 := by decide +kernel

/-- feeding a message into a zero register leaves its residue multiplied by x¹⁶ -/
theorem feedBits_val (l : List Bool) : feedBits 0 l = iterT 16 (valW l) := by
  have key : ∀ (l : List Bool) (f v : W), f = iterT 16 v → feedBits f l = iterT 16 (valFrom v l) := by
    intro l
    induction l with
    | nil => intro f v h; exact h
    | cons b l ih =>
      intro f v h
      simp only [feedBits, valFrom, List.foldl_cons]
      apply ih
      subst h
      simp only [feedBit, valStep, T_lin, iterT_lin]
      have h1 : T (iterT 16 v) = iterT 16 (T v) := by rw [← iterT_succ']; rfl
      have h2 : T (bitW b) = iterT 16 (oneW b) := by
        cases b
        · show T 0 = iterT 16 0
          rw [T_zero, iterT_zero]
        · simp only [bitW, oneW, if_true]; exact iterT16_one.symm
      rw [h1, h2]
  exact key l 0 0 (by rw [iterT_zero])

/-- **the undetected errors are exactly the multiples of the generator** (at the level of registers) -/
theorem feedBits_zero_iff (e : List Bool) : feedBits 0 e = 0 ↔ valW e = 0 := by
  rw [feedBits_val]
  constructor
  · exact iterT_inj0 16 _
  · intro h; rw [h, iterT_zero]

theorem valFrom_append (r : W) (xs ys : List Bool) : valFrom r (xs ++ ys) = valFrom (valFrom r xs) ys := by
  simp only [valFrom, List.foldl_append]

theorem valFrom_zeros (r : W) (n : Nat) : valFrom r (List.replicate n false) = iterT n r := by
  induction n generalizing r with
  | zero => rfl
  | succ k ih =>
    simp only [List.replicate_succ, valFrom, List.foldl_cons]
    have : valStep r false = T r := by simp [valStep, oneW]
    rw [this]; exact ih (T r)

theorem xor_zero' (x : W) : x ^^^ (0 : W) = x := BitVec.xor_zero
theorem zero_xor' (x : W) : (0 : W) ^^^ x = x := BitVec.zero_xor
theorem xor_self' (x : W) : x ^^^ x = (0 : W) := BitVec.xor_self

theorem valFrom_snoc (r : W) (l : List Bool) (b : Bool) : valFrom r (l ++ [b]) = T (valFrom r l) ^^^ oneW b := by
  simp only [valFrom, List.foldl_append, List.foldl_cons, List.foldl_nil, valStep]

/-! ### words as bit strings (most significant bit first) -/

def bitsN : Nat → Nat → List Bool
  | 0, _ => []
  | k + 1, n => bitsN k (n / 2) ++ [n % 2 == 1]

theorem bitsN_length (k n : Nat) : (bitsN k n).length = k := by
  induction k generalizing n with
  | zero => rfl
  | succ j ih => simp [bitsN, ih]

/-- no reduction happens while fewer than 16 bits have been shifted in: the residue of a short bit
string is the number it denotes -/
theorem valW_bitsN (k n : Nat) (hk : k ≤ 16) (hn : n < 2 ^ k) : (valW (bitsN k n)).toNat = n := by
  induction k generalizing n with
  | zero =>
    have : n = 0 := by simpa using hn
    subst this; rfl
  | succ j ih =>
    have hj : j ≤ 16 := by omega
    have hlt : n / 2 < 2 ^ j := by
      rw [Nat.pow_succ] at hn; omega
    have hv := ih (n / 2) hj hlt
    have hsmall : (valW (bitsN j (n / 2))).toNat < 32768 := by
      rw [hv]
      have : 2 ^ j ≤ 2 ^ 15 := Nat.pow_le_pow_right (by omega) (by omega)
      omega
    obtain ⟨t1, t2⟩ := T_small _ hsmall
    simp only [bitsN, valW, valFrom_snoc]
    by_cases hb : n % 2 = 1
    · have : (n % 2 == 1) = true := by simpa using hb
      simp only [this, oneW, if_true]
      change (T (valW (bitsN j (n / 2))) ^^^ 1#16).toNat = n
      rw [t2, hv]; omega
    · have : (n % 2 == 1) = false := by simpa using hb
      simp only [this, oneW, Bool.false_eq_true, if_false]
      change (T (valW (bitsN j (n / 2))) ^^^ (0 : W)).toNat = n
      rw [xor_zero', t1, hv]; omega

def bits16 (w : W) : List Bool := bitsN 16 w.toNat

theorem valW_bits16 (w : W) : valW (bits16 w) = w := by
  apply BitVec.eq_of_toNat_eq
  exact valW_bitsN 16 w.toNat (Nat.le_refl _) w.isLt

/-- feeding a register its own value (as the two CRC octets do) zeroes it, and only that does -/
theorem check16 (r w : W) : feedBits r (bits16 w) = 0 ↔ r = w := by
  rw [feedBits_split, feedBits_val, valW_bits16]
  have hl : (bits16 w).length = 16 := bitsN_length _ _
  rw [hl, ← iterT_lin]
  constructor
  · intro h
    have := iterT_inj0 16 _ h
    have h2 : r ^^^ w ^^^ w = (0 : W) ^^^ w := by rw [this]
    rw [BitVec.xor_assoc, xor_self', xor_zero', zero_xor'] at h2
    exact h2
  · intro h; subst h; rw [xor_self', iterT_zero]

/-! ### frames -/

/-- the CRC of a message (as bits) -/
def crcBits (m : List Bool) : W := feedBits 0xFFFF#16 m

/-- the check `PDU::decode` makes, on bit strings: the frame `m ++ c` (message, 16 CRC bits) is accepted
iff the CRC of `m` is the word `c` spells — equivalently iff the register ends at zero -/
theorem accepted_iff (m : List Bool) (c : W) : crcBits m = c ↔ feedBits 0xFFFF#16 (m ++ bits16 c) = 0 := by
  rw [feedBits_append, check16]; rfl

/-- **linearity at the level of frames**: corrupting a valid frame with the error pattern `e` leaves
the register at exactly what `e` alone gives from a zero register -/
theorem corrupted_residue (m e : List Bool) (he : e.length = m.length + 16) :
    feedBits 0xFFFF#16 (List.zipWith (· ^^ ·) (m ++ bits16 (crcBits m)) e) = feedBits 0 e := by
  have hlen : (m ++ bits16 (crcBits m)).length = e.length := by
    simp only [List.length_append, bits16, bitsN_length, he]
  have h := feedBits_lin 0xFFFF#16 0 (m ++ bits16 (crcBits m)) e hlen
  rw [xor_zero'] at h
  rw [h, (accepted_iff m (crcBits m)).mp rfl, zero_xor']

/-- **C15 (criterion).** An error pattern `e` laid over a valid frame goes undetected iff the residue
of `e` modulo the generator is zero. An unaltered frame (`e` all zero) is accepted. -/
theorem C15_criterion (m e : List Bool) (he : e.length = m.length + 16) :
    feedBits 0xFFFF#16 (List.zipWith (· ^^ ·) (m ++ bits16 (crcBits m)) e) = 0 ↔ valW e = 0 := by
  rw [corrupted_residue m e he, feedBits_zero_iff]

theorem C15_unaltered_accepted (m : List Bool) : feedBits 0xFFFF#16 (m ++ bits16 (crcBits m)) = 0 :=
  (accepted_iff m (crcBits m)).mp rfl

/-! ### the error patterns a CRC-16 is designed to catch -/

theorem iterT_ne_zero (n : Nat) (r : W) (h : r ≠ 0) : iterT n r ≠ 0 := fun h0 => h (iterT_inj0 n r h0)

theorem valFrom_zero_zeros (n : Nat) : valFrom 0 (List.replicate n false) = 0 := by
  rw [valFrom_zeros, iterT_zero]

/-- the number a bit string denotes, continuing from `a` -/
def numFrom (a : Nat) (w : List Bool) : Nat := w.foldl (fun acc b => 2 * acc + b.toNat) a

theorem numFrom_pos (a : Nat) (w : List Bool) (h : 0 < a ∨ true ∈ w) : 0 < numFrom a w := by
  induction w generalizing a with
  | nil =>
    rcases h with h | h
    · exact h
    · cases h
  | cons b w ih =>
    simp only [numFrom, List.foldl_cons]
    apply ih
    rcases h with h | h
    · left; omega
    · simp only [List.mem_cons] at h
      rcases h with h | h
      · left; subst h; simp
      · right; exact h

/-- shifting in at most as many bits as there is room for involves no reduction -/
theorem valFrom_short (w : List Bool) (r : W) (a : Nat) (hr : r.toNat = a) (k : Nat) (hk : w.length + k ≤ 16)
    (ha : a < 2 ^ k) : (valFrom r w).toNat = numFrom a w := by
  induction w generalizing r a k with
  | nil => exact hr
  | cons b w ih =>
    simp only [valFrom, numFrom, List.foldl_cons]
    simp only [List.length_cons] at hk
    have hsmall : r.toNat < 32768 := by
      rw [hr]
      have : 2 ^ k ≤ 2 ^ 15 := Nat.pow_le_pow_right (by omega) (by omega)
      omega
    obtain ⟨t1, t2⟩ := T_small r hsmall
    have hstep : (valStep r b).toNat = 2 * a + b.toNat := by
      cases b
      · simp only [valStep, oneW, Bool.false_eq_true, if_false, Bool.toNat_false, Nat.add_zero]
        rw [xor_zero', t1, hr]
      · simp only [valStep, oneW, if_true, Bool.toNat_true]
        rw [t2, hr]
    refine ih (valStep r b) (2 * a + b.toNat) hstep (k + 1) (by omega) ?_
    rw [Nat.pow_succ]
    cases b <;> simp <;> omega

/-- **C15 (bursts).** An error confined to a window of at most 16 consecutive bit positions — in
particular any single flipped bit — is never a multiple of the generator. -/
theorem C15_burst (i m : Nat) (w : List Bool) (hw : w.length ≤ 16) (hne : true ∈ w) :
    valW (List.replicate i false ++ w ++ List.replicate m false) ≠ 0 := by
  simp only [valW, valFrom_append, valFrom_zeros, iterT_zero]
  apply iterT_ne_zero
  intro h0
  have := valFrom_short w 0 0 rfl 0 (by omega) (by simp)
  rw [h0] at this
  have hpos := numFrom_pos 0 w (Or.inr hne)
  simp at this
  omega

theorem C15_single_bit (i m : Nat) : valW (List.replicate i false ++ [true] ++ List.replicate m false) ≠ 0 :=
  C15_burst i m [true] (by simp) (by simp)

/-- the parity (number of set bits modulo 2) of a bit string -/
def parity (e : List Bool) : Bool := e.foldl (· ^^ ·) false

theorem par_valStep (r : W) (b : Bool) : par (valStep r b) = (par r ^^ b) := by
  cases b
  · simp only [valStep, oneW, Bool.false_eq_true, if_false, xor_zero', par_T, Bool.bne_false]
  · simp only [valStep, oneW, if_true, par_xor_one, par_T, Bool.bne_true]

theorem par_valFrom (r : W) (e : List Bool) : par (valFrom r e) = e.foldl (· ^^ ·) (par r) := by
  induction e generalizing r with
  | nil => rfl
  | cons b e ih => simp only [valFrom, List.foldl_cons] at ih ⊢; rw [ih, par_valStep]

/-- **C15 (odd number of flipped bits).** The generator is divisible by x+1, so every multiple of it
has an even number of terms: an error with an odd number of flipped bits is never undetected. -/
theorem C15_odd_weight (e : List Bool) (h : parity e = true) : valW e ≠ 0 := by
  intro h0
  have := par_valFrom 0 e
  rw [show valFrom 0 e = valW e from rfl, h0, par_zero] at this
  simp only [parity] at h
  rw [h] at this
  cases this

/-- **C15 (two flipped bits).** Two flipped bits `d` positions apart, 0 < d < 32767 (any two bits of a
frame of up to 4095 octets), are never undetected: x has order 32767 modulo the generator. -/
theorem C15_double_bit (i d m : Nat) (h1 : 1 ≤ d) (h2 : d ≤ 32766) :
    valW (List.replicate i false ++ [true] ++ List.replicate (d - 1) false ++ [true] ++ List.replicate m false) ≠ 0 := by
  simp only [valW, valFrom_append, valFrom_zeros, iterT_zero]
  apply iterT_ne_zero
  have e1 : valFrom 0 [true] = 1#16 := by decide
  rw [e1]
  have e2 : valFrom (iterT (d - 1) 1#16) [true] = iterT d 1#16 ^^^ 1#16 := by
    simp only [valFrom, List.foldl_cons, List.foldl_nil, valStep, oneW, if_true]
    rw [← iterT_succ']
    congr 2; omega
  rw [e2]
  intro h0
  have hx : iterT d 1#16 = 1#16 := by
    have : iterT d 1#16 ^^^ 1#16 ^^^ 1#16 = (0 : W) ^^^ 1#16 := by rw [h0]
    rw [BitVec.xor_assoc, xor_self', xor_zero', zero_xor'] at this
    exact this
  exact order_of_x d h1 h2 hx

/-! ### the bridge to the octet-level model (`Codec.crc16`, what `PDU::encode` / `PDU::decode` compute) -/

def bits8 (b : UInt8) : List Bool := bitsN 8 b.toNat
def bitsOfBytes (bs : Bytes) : List Bool := bs.flatMap bits8

theorem bitsOfBytes_length (bs : Bytes) : (bitsOfBytes bs).length = 8 * bs.length := by
  induction bs with
  | nil => rfl
  | cons b bs ih =>
    simp only [bitsOfBytes, List.flatMap_cons, List.length_append, List.length_cons] at ih ⊢
    rw [ih]; simp only [bits8, bitsN_length]; omega

theorem iterT_small (k n : Nat) (h : n * 2 ^ k < 65536) : (iterT k (BitVec.ofNat 16 n)).toNat = n * 2 ^ k := by
  induction k generalizing n with
  | zero => simp only [iterT, BitVec.toNat_ofNat, Nat.pow_zero, Nat.mul_one] at h ⊢; omega
  | succ j ih =>
    have e : n * 2 ^ (j + 1) = 2 * n * 2 ^ j := by
      rw [Nat.pow_succ, Nat.mul_comm (2 ^ j) 2, ← Nat.mul_assoc, Nat.mul_comm n 2]
    have hpos : 1 ≤ 2 ^ j := Nat.one_le_two_pow
    have hn : n < 32768 := by
      rw [e] at h
      have := Nat.mul_le_mul_left (2 * n) hpos
      omega
    have hs : (BitVec.ofNat 16 n).toNat < 32768 := by simp only [BitVec.toNat_ofNat]; omega
    have ht := (T_small _ hs).1
    have hT : T (BitVec.ofNat 16 n) = BitVec.ofNat 16 (2 * n) := by
      apply BitVec.eq_of_toNat_eq
      rw [ht]; simp only [BitVec.toNat_ofNat]; omega
    simp only [iterT]
    rw [hT, ih (2 * n) (by rw [← e]; exact h), e]

/-- one octet of the model's byte-wise CRC is eight bit steps -/
theorem crcByte_bits (r : W) (b : UInt8) : crcByte r.toNat b = (feedBits r (bits8 b)).toNat := by
  have hb : b.toNat < 256 := b.toBitVec.isLt
  -- the model: eight shift steps of (r xor b·2⁸)
  have hmodel : crcByte r.toNat b = (iterT 8 (r ^^^ BitVec.ofNat 16 (b.toNat * 256))).toNat := by
    rw [iterT_toNat, BitVec.toNat_xor, BitVec.toNat_ofNat]
    have : b.toNat * 256 % 2 ^ 16 = b.toNat * 256 := Nat.mod_eq_of_lt (by omega)
    rw [this]
    rfl
  rw [hmodel, iterT_lin, feedBits_split, feedBits_val]
  have hl : (bits8 b).length = 8 := bitsN_length _ _
  rw [hl]
  congr 2
  -- both are b·x¹⁶ modulo the generator
  have hv : valW (bits8 b) = BitVec.ofNat 16 b.toNat := by
    apply BitVec.eq_of_toNat_eq
    rw [show bits8 b = bitsN 8 b.toNat from rfl, valW_bitsN 8 b.toNat (by omega) (by omega)]
    simp only [BitVec.toNat_ofNat]; omega
  rw [hv, iterT_add 8 8 (BitVec.ofNat 16 b.toNat)]
  congr 1
  apply BitVec.eq_of_toNat_eq
  rw [iterT_small 8 b.toNat (by omega)]
  simp only [BitVec.toNat_ofNat]; omega

theorem crcFold_bits (bs : Bytes) (r : W) : bs.foldl crcByte r.toNat = (feedBits r (bitsOfBytes bs)).toNat := by
  induction bs generalizing r with
  | nil => rfl
  | cons b bs ih =>
    simp only [List.foldl_cons, bitsOfBytes, List.flatMap_cons, feedBits_append]
    rw [crcByte_bits]
    exact ih _

/-- the model's CRC of an octet string is the bit-serial register -/
theorem crc16_bits (bs : Bytes) : crc16 bs = (crcBits (bitsOfBytes bs)).toNat := by
  have := crcFold_bits bs 0xFFFF#16
  have hi : (0xFFFF#16 : W).toNat = crcInit := by decide
  rw [hi] at this
  exact this

/-- **C15 (octet level).** Take any octet string `B` (header and data field of a PDU with the CRC
flag set) and append its CRC as `PDU::encode` does. Lay any error pattern `e` with non-zero residue
over the frame (any of the patterns of `C15_burst`, `C15_single_bit`, `C15_odd_weight`,
`C15_double_bit`). Then however the corrupted frame is read as message bits `m'` followed by 16 CRC
bits `c'`, the CRC of `m'` is not `c'`: the check of `PDU::decode` fails. -/
theorem C15_detects (B : Bytes) (e : List Bool) (he : e.length = 8 * B.length + 16) (hv : valW e ≠ 0)
    (m' : List Bool) (c' : W)
    (hf : List.zipWith (· ^^ ·) (bitsOfBytes B ++ bits16 (BitVec.ofNat 16 (crc16 B))) e = m' ++ bits16 c') :
    crcBits m' ≠ c' := by
  intro hacc
  have h1 : BitVec.ofNat 16 (crc16 B) = crcBits (bitsOfBytes B) := by
    apply BitVec.eq_of_toNat_eq
    rw [crc16_bits]
    simp only [BitVec.toNat_ofNat]
    exact Nat.mod_eq_of_lt (crcBits (bitsOfBytes B)).isLt
  rw [h1] at hf
  have h2 := (accepted_iff m' c').mp hacc
  rw [← hf] at h2
  have := (C15_criterion (bitsOfBytes B) e (by rw [he, bitsOfBytes_length])).mp h2
  exact hv this

end Cfdp.Crc

#print axioms Cfdp.Crc.C15_criterion
#print axioms Cfdp.Crc.C15_unaltered_accepted
#print axioms Cfdp.Crc.C15_burst
#print axioms Cfdp.Crc.C15_single_bit
#print axioms Cfdp.Crc.C15_odd_weight
#print axioms Cfdp.Crc.C15_double_bit
#print axioms Cfdp.Crc.crc16_bits
#print axioms Cfdp.Crc.C15_detects

/-! ### non-vacuity -/
namespace Cfdp.Crc
open Cfdp.Codec

/-- the standard check value: CRC-16/IBM-3740 of "123456789" is 0x29B1 -/
example : crc16 [49, 50, 51, 52, 53, 54, 55, 56, 57] = 0x29B1 := by decide +kernel
/-- a concrete instance of the hypotheses of `C15_detects`: a 3-octet message, its CRC, one flipped bit -/
example : valW (List.replicate 13 false ++ [true] ++ List.replicate 26 false) ≠ 0 := C15_single_bit 13 26
example : (List.replicate 13 false ++ [true] ++ List.replicate 26 false).length = 8 * ([1, 2, 3] : Bytes).length + 16 := by decide

end Cfdp.Crc
