import Cfdp.Tactic.Peel
import Cfdp.Props.Net

/-! # C04, two parties: the sender reports success only after the receiver did -/
namespace Cfdp.Send
open Cfdp.Codec Cfdp.Gen Cfdp.Timer

/-- a Finished indication reporting a successful complete delivery -/
def Ind.isSuccess : Ind → Bool
  | .finished .NoError .Complete _ _ _ _ => true
  | _ => false

/-- the sender has not been told of a successful delivery: its record does not say NoError /
Complete, and it has not reported success in this iteration -/
def NS (s : State) : Prop :=
  (s.delivery = .Complete → s.condition ≠ .NoError) ∧ ∀ i ∈ s.out, i.isSuccess = false

theorem ns_frame {s s' : State} (h : NS s) (h1 : s'.delivery = s.delivery) (h2 : s'.condition = s.condition)
    (h3 : s'.out = s.out) : NS s' := by
  unfold NS; rw [h1, h2, h3]; exact h

theorem isSuccess_finished (c : Condition) (d : DeliveryCode) (f : FileStatusCode) (st : TransactionState)
    (stt : TransactionStatus) (r : List FsResponse) (h : d = .Complete → c ≠ .NoError) :
    (Ind.finished c d f st stt r).isSuccess = false := by
  cases c <;> cases d <;> first | rfl | (exact absurd rfl (h rfl))

theorem ns_emit {s : State} (h : NS s) (i : Ind) (hi : i.isSuccess = false) : NS (emit s i) := by
  refine ⟨h.1, ?_⟩
  intro j hj
  simp only [emit, List.mem_append, List.mem_singleton] at hj
  rcases hj with hj | hj
  · exact h.2 j hj
  · subst hj; exact hi

theorem ns_emit_finished {s : State} (h : NS s) (f : FileStatusCode) (st : TransactionState)
    (stt : TransactionStatus) (r : List FsResponse) : NS (emit s (.finished s.condition s.delivery f st stt r)) :=
  ns_emit h _ (isSuccess_finished _ _ _ _ _ _ h.1)

theorem ns_setCondition {s : State} (h : NS s) (c : Condition) (hc : c ≠ .NoError) : NS { s with condition := c } :=
  ⟨fun _ => hc, h.2⟩

syntax "ns_go" "[" term,* "]" : tactic
macro_rules
  | `(tactic| ns_go [$ls,*]) => `(tactic|
      (((try dsimp only) <;> repeat' (first
        | assumption
        $[| with_reducible apply $ls]*
        | with_reducible apply ns_emit_finished
        | (refine ns_emit ?_ _ rfl)
        | (refine ns_setCondition ?_ _ (by decide))
        | peel ns_frame 3)) <;> done))

variable {s : State} {now : Nat}

theorem ns_shutdown (h : NS s) : NS (shutdown s now) := by
  simp only [shutdown]; ns_go []
theorem ns_abandon (h : NS s) : NS (abandon s now) := by
  simp only [abandon]; ns_go [ns_shutdown]
theorem ns_cancelInner (h : NS s) (c : Condition) (hc : c ≠ .NoError) : NS (cancelInner s c now) := by
  have h1 : NS { s with condition := c } := ns_setCondition h c hc
  simp only [cancelInner]
  refine ns_frame h1 ?_ ?_ ?_ <;> simp
theorem ns_suspend (h : NS s) : NS (suspend s now) := by
  simp only [suspend]; ns_go []
theorem ns_resume (h : NS s) : NS (resume s now) := by
  simp only [resume]
  repeat' split
  all_goals ns_go []
theorem ns_handleFault (h : NS s) (c : Condition) (hc : c ≠ .NoError) : NS (handleFault s c now) := by
  have h1 : NS (emit { s with condition := c } (.fault c (getProgress { s with condition := c }))) :=
    ns_emit (ns_setCondition h c hc) _ rfl
  simp only [handleFault]
  repeat' split
  all_goals first
    | exact h1
    | exact ns_cancelInner h1 c hc
    | exact ns_suspend h1
    | exact ns_abandon h1

theorem ns_handleInactivity (h : NS s) (c : Bool) : NS (handleInactivity s now c) := by
  simp only [handleInactivity]
  repeat' split
  all_goals first
    | (apply ns_abandon; exact ns_frame h rfl rfl rfl)
    | (apply ns_handleFault _ _ (by decide); exact ns_frame h rfl rfl rfl)
    | exact ns_frame h rfl rfl rfl
theorem ns_handleAckTimer (h : NS s) (c : Bool) : NS (handleAckTimer s now c) := by
  simp only [handleAckTimer]
  repeat' split
  all_goals first
    | (apply ns_abandon; exact ns_frame h rfl rfl rfl)
    | (apply ns_handleFault _ _ (by decide); exact ns_frame h rfl rfl rfl)
    | exact ns_frame h (by simp) (by simp) (by simp)
    | exact ns_frame h rfl rfl rfl
theorem ns_handleTimeout (h : NS s) : NS (handleTimeout s now) := by
  simp only [handleTimeout]
  repeat' split
  all_goals first
    | exact h
    | exact ns_handleAckTimer (ns_handleInactivity h _) _
theorem ns_sendPduEof (h : NS s) : NS (sendPduEof s now) := by
  have h1 : NS (sendEof s now) := ns_frame h (by simp) (by simp) (by simp)
  have h2 : NS (if (sendEof s now).eofInd then { emit (sendEof s now) .eofSent with eofInd := false } else sendEof s now) := by
    split
    · exact ns_frame (ns_emit h1 _ rfl) rfl rfl rfl
    · exact h1
  simp only [sendPduEof]
  generalize (if (sendEof s now).eofInd then { emit (sendEof s now) .eofSent with eofInd := false } else sendEof s now) = t at h2
  repeat' split
  all_goals first
    | exact h2
    | exact ns_shutdown (ns_emit_finished h2 _ _ _ _)
theorem ns_sendPdu (h : NS s) : NS (sendPdu s now) := by
  simp only [sendPdu]
  repeat' split
  all_goals first
    | exact ns_sendPduEof h
    | exact ns_frame h (by simp) (by simp) (by simp)

/-- a Finished PDU announcing a successful complete delivery -/
def tellsSuccess (p : Pdu) : Bool :=
  match p.payload with
  | .finished f => f.cond == .NoError && f.delivery == .Complete
  | _ => false

theorem ns_finished {t t' : State} (h0 : NS t) (f : Finished)
    (hf : (f.cond == Condition.NoError && f.delivery == DeliveryCode.Complete) = false)
    (a : FileStatusCode) (b : TransactionState) (c : TransactionStatus) (d : List FsResponse)
    (h1 : t'.delivery = f.delivery) (h2 : t'.condition = f.cond)
    (h3 : t'.out = t.out ++ [.finished f.cond f.delivery a b c d]) : NS t' := by
  have hk : f.delivery = .Complete → f.cond ≠ .NoError := by
    intro hd hc
    rw [hd, hc] at hf
    exact absurd hf (by decide)
  refine ⟨by rw [h1, h2]; exact hk, ?_⟩
  intro i hi
  rw [h3] at hi
  simp only [List.mem_append, List.mem_singleton] at hi
  rcases hi with hi | hi
  · exact h0.2 i hi
  · subst hi; exact isSuccess_finished _ _ _ _ _ _ hk

theorem ns_processPdu (h : NS s) (p : Pdu) (hp : tellsSuccess p = false) : NS (processPdu s p now).1 := by
  have h0 : NS (pduArrived s now) := ns_frame h (by simp) (by simp) (by simp)
  simp only [processPdu]
  generalize pduArrived s now = t at h0
  simp only [tellsSuccess] at hp
  simp only [processPduBody]
  cases hpl : p.payload with
  | finished f =>
    simp only [hpl] at hp
    split
    · simp only []
      exact ns_finished h0 f hp _ _ _ _ rfl rfl rfl
    · simp only []
      split
      · exact ns_finished h0 f hp _ _ _ _ rfl rfl rfl
      · exact h0
  | _ =>
    simp only []
    repeat' split
    all_goals first
      | exact h0
      | exact ns_frame h0 rfl rfl rfl

end Cfdp.Send

namespace Cfdp.Loop
open Cfdp.Send Cfdp.Codec Cfdp.Gen

/-- the event does not hand the sender a Finished PDU announcing a successful delivery -/
def quiet (e : Ev) : Bool :=
  match e with
  | .pdu p => !tellsSuccess p
  | _ => true

theorem ns_sendStep {s : Send.State} (h : NS s) (now : Nat) (e : Ev) (he : quiet e = true) :
    NS (sendStep s now e) := by
  have h0 : NS { s with sent := none, out := [] } := ⟨h.1, fun i hi => by cases hi⟩
  simp only [sendStep]
  split
  · exact h0
  · cases e with
    | pdu p => exact ns_processPdu h0 p (by simpa [quiet] using he)
    | send =>
      dsimp only
      split
      · exact ns_sendPdu h0
      · exact h0
    | timeout =>
      dsimp only
      split
      · exact ns_handleTimeout h0
      · exact h0
    | cancel => exact ns_cancelInner h0 _ (by decide)
    | suspend => exact ns_suspend h0
    | resume => exact ns_resume h0
    | report => exact ns_emit (ns_frame h0 rfl rfl rfl) _ rfl
    | abandon => exact ns_shutdown h0
    | prompt k => exact ns_frame h0 rfl rfl rfl

end Cfdp.Loop

/-! ### receiver: a Finished PDU saying NoError / Complete is only sent after the user was told so -/
namespace Cfdp.Recv
open Cfdp.Codec Cfdp.Gen Cfdp.Timer

/-- a Finished indication reporting a successful complete delivery -/
def Ind.isSuccess : Ind → Bool
  | .finished .NoError .Complete _ _ _ _ => true
  | _ => false

/-- the receiving user has been told of the successful delivery: before this loop iteration (`T`) or in it -/
def Told (T : Prop) (s : State) : Prop := T ∨ ∃ i ∈ s.out, i.isSuccess = true

/-- a prepared Finished PDU and a Finished PDU just sent say NoError / Complete only if the user was told -/
structure TF (T : Prop) (s : State) : Prop where
  fin : ∀ f fl, s.finished = some (f, fl) → f.cond = .NoError → f.delivery = .Complete → Told T s
  sent : ∀ p f, s.sent = some p → p.payload = .finished f → f.cond = .NoError → f.delivery = .Complete → Told T s

variable {T : Prop} {s : State} {now : Nat}

theorem tf_frame {s s' : State} (h : TF T s) (h1 : s'.finished = s.finished) (h2 : s'.sent = s.sent)
    (h3 : s'.out = s.out) : TF T s' := by
  refine ⟨?_, ?_⟩
  · rw [h1]; unfold Told; rw [h3]; exact h.fin
  · rw [h2]; unfold Told; rw [h3]; exact h.sent

theorem told_emit (h : Told T s) (i : Ind) : Told T (emit s i) := by
  rcases h with h | ⟨j, hj, hs⟩
  · exact Or.inl h
  · exact Or.inr ⟨j, by simp [emit, hj], hs⟩

theorem tf_emit (h : TF T s) (i : Ind) : TF T (emit s i) :=
  ⟨fun f fl hf hc hd => told_emit (h.fin f fl hf hc hd) i, fun p f hp hf hc hd => told_emit (h.sent p f hp hf hc hd) i⟩

def isFin : Payload → Bool
  | .finished _ => true
  | _ => false

theorem tf_sendPayload_ne (h : TF T s) (p : Payload) (hp : isFin p = false) : TF T (sendPayload s p) := by
  refine ⟨?_, ?_⟩
  · intro f fl hf hc hd
    have : Told T s := h.fin f fl (by simpa using hf) hc hd
    rcases this with t | ⟨i, hi, hs⟩
    · exact Or.inl t
    · exact Or.inr ⟨i, by simpa using hi, hs⟩
  · intro q f hq hf
    simp only [sendPayload] at hq
    cases hq
    dsimp only at hf
    subst hf
    cases hp

theorem tf_setFinishedFlag (h : TF T s) (b : Bool) : TF T (setFinishedFlag s b) := by
  simp only [setFinishedFlag]
  split
  · rename_i f fl0 hf
    refine ⟨?_, h.sent⟩
    intro f' fl' hf' hc hd
    cases hf'
    exact h.fin f fl0 hf hc hd
  · exact h

theorem tf_prepareFinished (h : TF T s) (ht : s.condition = .NoError → s.delivery = .Complete → Told T s)
    (fault : Option VarId) : TF T (prepareFinished s fault) := by
  simp only [prepareFinished]
  refine ⟨?_, h.sent⟩
  intro f fl hf hc hd
  cases hf
  exact ht hc hd

syntax "tf_go" "[" term,* "]" : tactic
macro_rules
  | `(tactic| tf_go [$ls,*]) => `(tactic|
      (((try dsimp only) <;> repeat' (first
        | assumption
        $[| with_reducible apply $ls]*
        | with_reducible apply tf_emit
        | with_reducible apply tf_setFinishedFlag
        | refine tf_sendPayload_ne ?_ _ rfl
        | peel tf_frame 3)) <;> done))

theorem tf_shutdown (h : TF T s) : TF T (shutdown s now) := by
  simp only [shutdown]; tf_go []
theorem tf_abandon (h : TF T s) : TF T (abandon s now) := by
  simp only [abandon]; tf_go [tf_shutdown]
theorem tf_suspend (h : TF T s) : TF T (suspend s now) := by
  simp only [suspend]; tf_go []
theorem tf_resume (h : TF T s) : TF T (resume s now) := by
  simp only [resume]
  repeat' split
  all_goals tf_go []

theorem tf_prepare_emit (h : TF T s) (fault : Option VarId) (a : FileStatusCode) (b : TransactionState)
    (c : TransactionStatus) (d : List FsResponse) :
    TF T (emit (prepareFinished s fault) (.finished s.condition s.delivery a b c d)) := by
  refine ⟨?_, ?_⟩
  · intro f fl hf hc hd
    simp only [emit, prepareFinished] at hf
    cases hf
    dsimp only at hc hd
    refine Or.inr ⟨.finished s.condition s.delivery a b c d, by simp [emit], ?_⟩
    rw [hc, hd]; rfl
  · intro p f hp hf hc hd
    exact told_emit (by
      have := h.sent p f (by simpa [emit, prepareFinished] using hp) hf hc hd
      rcases this with t | ⟨i, hi, hs⟩
      · exact Or.inl t
      · exact Or.inr ⟨i, by simpa [prepareFinished] using hi, hs⟩) _

/-- `_cancel` tells the user exactly what its Finished PDU will say -/
theorem tf_cancelInner (h : TF T s) : TF T (cancelInner s now) := by
  have h0 : TF T { s with recvState := .Cancelled, timer := { s.timer with nak := s.timer.nak.pause now } } :=
    tf_frame h rfl rfl rfl
  simp only [cancelInner]
  repeat' split
  all_goals first
    | exact tf_prepare_emit h0 _ _ _ _ _
    | tf_go [tf_shutdown]

theorem tf_handleFault (h : TF T s) (c : Condition) : TF T (handleFault s c now).1 := by
  simp only [handleFault, dispatchFault]
  repeat' split
  all_goals tf_go [tf_cancelInner, tf_suspend, tf_abandon]

theorem condition_handleFault' (s : State) (c : Condition) (now : Nat) : (handleFault s c now).1.condition = c := by
  simp only [handleFault, condition_dispatchFault, condition_emit]

theorem tf_checkFileSize (h : TF T s) (n : Nat) : TF T (checkFileSize s n now) := by
  simp only [checkFileSize]
  repeat' split
  all_goals tf_go [tf_handleFault]

theorem tf_sendFinished (h : TF T s) : TF T (sendFinished s now) := by
  simp only [sendFinished]
  split
  · rename_i f hf
    apply tf_setFinishedFlag
    have h0 : TF T { s with timer := { s.timer with ack := s.timer.ack.restart now } } := tf_frame h rfl rfl rfl
    refine ⟨?_, ?_⟩
    · intro f' fl hf' hc hd
      have := h0.fin f' fl (by simpa using hf') hc hd
      rcases this with t | ⟨i, hi, hs⟩
      · exact Or.inl t
      · exact Or.inr ⟨i, by simpa using hi, hs⟩
    · intro q f' hq hf' hc hd
      simp only [sendPayload] at hq
      cases hq
      dsimp only at hf'
      cases hf'
      have := h0.fin f true hf hc hd
      rcases this with t | ⟨i, hi, hs⟩
      · exact Or.inl t
      · exact Or.inr ⟨i, by simpa using hi, hs⟩
  · exact tf_frame h rfl rfl rfl

theorem tf_sendNaks (h : TF T s) : TF T (sendNaks s now) := by
  simp only [sendNaks, sendNaksTimer]
  repeat' split
  all_goals tf_go [tf_handleFault]
theorem tf_sendPdu (h : TF T s) : TF T (sendPdu s now) := by
  simp only [sendPdu, answerPrompt, sendAckEof]
  repeat' split
  all_goals tf_go [tf_sendNaks, tf_sendFinished]

theorem tf_verifyStage (h : TF T s) : TF T (verifyStage s now).1 := by
  simp only [verifyStage]
  repeat' split
  all_goals tf_go [tf_handleFault]
theorem tf_copyStage (h : TF T s) : TF T (copyStage s).1 := by
  simp only [copyStage]
  split
  all_goals tf_go []
theorem tf_finalizeFilePart (h : TF T s) : TF T (finalizeFilePart s now).1 := by
  simp only [finalizeFilePart]
  repeat' split
  all_goals tf_go [tf_verifyStage, tf_copyStage]
theorem tf_finalizeReceive (h : TF T s) : TF T (finalizeReceive s now).1 := by
  simp only [finalizeReceive]
  repeat' split
  all_goals tf_go [tf_handleFault, tf_finalizeFilePart]

/-- what `finalize_receive` leaves: either a fault was declared on the way (the condition is no longer
NoError) or the user got the Finished indication with the record's condition and delivery code -/
def FinPost (r : State × Bool) : Prop :=
  (r.2 = false → r.1.condition ≠ .NoError) ∧
  (r.2 = true → ∃ a b c d, Ind.finished r.1.condition r.1.delivery a b c d ∈ r.1.out)

theorem finalizeFilePart_false (s : State) (now : Nat) (h : (finalizeFilePart s now).2 = false) :
    (finalizeFilePart s now).1.condition = .FileChecksumFailure := by
  simp only [finalizeFilePart, copyStage, verifyStage] at h ⊢
  repeat' split at h
  all_goals first
    | (cases h; done)
    | skip
  all_goals
    repeat' split
    all_goals first
      | exact condition_handleFault' _ _ _
      | simp_all

/-- `finalize_receive` after the delivery code has been set -/
def finRest (s0 : State) (now : Nat) : State × Bool :=
  let a := finalizeFilePart s0 now
  if !a.2 then (a.1, false) else
  let b := if a.1.fileStatus == .FileStoreRejection then handleFault a.1 .FileStoreRejection now else (a.1, true)
  if !b.2 then (b.1, false) else
  let s := b.1
  let reqs := match s.md with | some m => m.requests | none => []
  let rr := Fs.runRequests s.fs false reqs
  let s := { s with responses := rr.1, fs := rr.2 }
  (emit s (.finished s.condition s.delivery s.fileStatus s.state s.status s.responses), true)

theorem finalizeReceive_eq (s : State) (now : Nat) :
    finalizeReceive s now =
      finRest { s with delivery := if s.md.isNone || (isFileTransfer s && hasNaks s) then .Incomplete else .Complete } now := rfl

theorem finRest_post (s0 : State) (now : Nat) : FinPost (finRest s0 now) := by
  simp only [finRest]
  cases ha : (finalizeFilePart s0 now).2 with
  | false =>
    simp only [Bool.not_false, if_true]
    refine ⟨fun _ => ?_, fun h => (by cases h)⟩
    rw [finalizeFilePart_false _ _ ha]
    decide
  | true =>
    simp only [Bool.not_true, Bool.false_eq_true, if_false]
    have fin_emit : ∀ (u : State), FinPost
        (emit { u with responses := (Fs.runRequests u.fs false (match u.md with | some m => m.requests | none => [])).1,
                       fs := (Fs.runRequests u.fs false (match u.md with | some m => m.requests | none => [])).2 }
          (.finished u.condition u.delivery u.fileStatus u.state u.status
            (Fs.runRequests u.fs false (match u.md with | some m => m.requests | none => [])).1), true) := by
      intro u
      refine ⟨fun h => (by cases h), fun _ => ?_⟩
      refine ⟨u.fileStatus, u.state, u.status, (Fs.runRequests u.fs false (match u.md with | some m => m.requests | none => [])).1, ?_⟩
      simp [emit]
    by_cases hc : ((finalizeFilePart s0 now).1.fileStatus == FileStatusCode.FileStoreRejection) = true
    · simp only [hc, if_true]
      cases hb : (handleFault (finalizeFilePart s0 now).1 .FileStoreRejection now).2 with
      | false =>
        simp only [Bool.not_false, if_true]
        refine ⟨fun _ => ?_, fun h => (by cases h)⟩
        simp only [condition_handleFault']
        decide
      | true =>
        simp only [Bool.not_true, Bool.false_eq_true, if_false]
        exact fin_emit _
    · simp only [hc, Bool.false_eq_true, if_false, Bool.not_true]
      exact fin_emit _

theorem finalizeReceive_post (s : State) (now : Nat) : FinPost (finalizeReceive s now) := by
  rw [finalizeReceive_eq]; exact finRest_post _ _

theorem told_of_post {r : State × Bool} (hp : FinPost r) (hc : r.1.condition = .NoError) (hd : r.1.delivery = .Complete) :
    Told T r.1 := by
  cases hb : r.2 with
  | false => exact absurd hc (hp.1 hb)
  | true =>
    obtain ⟨a, b, c, d, hm⟩ := hp.2 hb
    refine Or.inr ⟨_, hm, ?_⟩
    rw [hc, hd]; rfl

theorem tf_checkFinished (h : TF T s) : TF T (checkFinished s now) := by
  simp only [checkFinished]
  split
  · have h1 := tf_finalizeReceive (now := now) h
    have hp := finalizeReceive_post s now
    have h2 : TF T (prepareFinished { (finalizeReceive s now).1 with recvState := .Finished } none) := by
      refine tf_prepareFinished (s := { (finalizeReceive s now).1 with recvState := .Finished }) (tf_frame h1 rfl rfl rfl) ?_ none
      intro hc hd
      exact told_of_post (T := T) hp hc hd
    exact tf_frame h2 rfl rfl rfl
  · exact h

theorem tf_ackFileData (h : TF T s) (off : Nat) (d : Bytes) : TF T (ackFileData s off d now) := by
  simp only [ackFileData]
  tf_go [tf_checkFinished]
theorem tf_scheduleNaks (h : TF T s) (n : Nat) : TF T (scheduleNaks s n now) := by
  tf_go []
theorem tf_ackEof (h : TF T s) (e : Eof) : TF T (ackEof s e now) := by
  simp only [ackEof]
  repeat' split
  all_goals tf_go [tf_scheduleNaks, tf_checkFinished, tf_checkFileSize, tf_cancelInner]
theorem tf_unackFinish (h : TF T s) : TF T (unackFinish s now) := by
  have h1 := tf_finalizeReceive (now := now) h
  have hp := finalizeReceive_post s now
  simp only [unackFinish]
  split
  · refine tf_prepareFinished (s := { (finalizeReceive s now).1 with recvState := .Finished }) (tf_frame h1 rfl rfl rfl) ?_ _
    intro hc hd
    exact told_of_post (T := T) hp hc hd
  · exact tf_shutdown h1
theorem tf_unackEof (h : TF T s) (e : Eof) : TF T (unackEof s e now) := by
  simp only [unackEof, unackEofNoError, unackComplete, unackCheckMissing]
  repeat' split
  all_goals tf_go [tf_unackFinish, tf_handleFault, tf_checkFileSize, tf_cancelInner]
theorem tf_storeMetadata (h : TF T s) (m : Metadata) : TF T (storeMetadata s m) := by
  simp only [storeMetadata]; tf_go []
theorem tf_processPdu (h : TF T s) (p : Pdu) : TF T (processPdu s p now).1 := by
  have h0 : TF T (pduArrived s now) := by simp only [pduArrived]; tf_go []
  simp only [processPdu]
  generalize pduArrived s now = t at h0
  simp only [processPduBody]
  cases hpl : p.payload <;> cases hm : t.cfg.mode <;> dsimp only
  all_goals (repeat' split)
  all_goals tf_go [tf_ackFileData, tf_ackEof, tf_unackEof, tf_checkFinished, tf_shutdown, tf_storeMetadata]
theorem tf_handleInactivity (h : TF T s) : TF T (handleInactivity s now).1 := by
  simp only [handleInactivity]
  repeat' split
  all_goals tf_go [tf_abandon, tf_handleFault]
theorem tf_handleAckTimer (h : TF T s) (c : Bool) : TF T (handleAckTimer s now c) := by
  simp only [handleAckTimer]
  repeat' split
  all_goals tf_go [tf_abandon, tf_handleFault]
theorem tf_handleTimeoutMain (h : TF T s) : TF T (handleTimeoutMain s now) := by
  have h1 : TF T (handleInactivity (handleDelayed s now) now).1 :=
    tf_handleInactivity (tf_frame h (by simp) (by simp) (by simp))
  simp only [handleTimeoutMain]
  generalize handleInactivity (handleDelayed s now) now = r at h1
  repeat' split
  all_goals tf_go [tf_handleAckTimer]
theorem tf_handleTimeout (h : TF T s) : TF T (handleTimeout s now) := by
  simp only [handleTimeout, unackFinishedLimit]
  repeat' split
  all_goals tf_go [tf_shutdown, tf_handleTimeoutMain]

end Cfdp.Recv

namespace Cfdp.Loop
open Cfdp.Recv Cfdp.Codec Cfdp.Gen

/-- the invariant between loop iterations: what the receiver has prepared or just sent says NoError /
Complete only if its user has been told (`T`) -/
def TF0 (T : Prop) (r : Recv.State) : Prop :=
  (∀ f fl, r.finished = some (f, fl) → f.cond = .NoError → f.delivery = .Complete → T) ∧
  (∀ p f, r.sent = some p → p.payload = .finished f → f.cond = .NoError → f.delivery = .Complete → T)

theorem tf_recvStep {T : Prop} {r : Recv.State} (h : TF0 T r) (now : Nat) (e : Ev) :
    TF T (recvStep r now e) := by
  have h0 : TF T { r with sent := none, out := [] } :=
    ⟨fun f fl hf hc hd => Or.inl (h.1 f fl hf hc hd), fun p f hp => by cases hp⟩
  simp only [recvStep]
  split
  · exact h0
  · cases e with
    | pdu p => exact tf_processPdu h0 p
    | send =>
      dsimp only
      split
      · exact tf_sendPdu h0
      · exact h0
    | timeout =>
      dsimp only
      split
      · exact tf_handleTimeout h0
      · exact h0
    | cancel => exact tf_cancelInner (tf_frame h0 rfl rfl rfl)
    | suspend => exact tf_suspend h0
    | resume => exact tf_resume h0
    | report => exact tf_emit h0 _
    | abandon => exact tf_shutdown h0
    | prompt k => exact h0

end Cfdp.Loop

namespace Cfdp.Net
open Cfdp.Loop Cfdp.Codec Cfdp.Gen

/-- the receiving user has been told of a successful complete delivery -/
def RecvTold (w : World) : Prop := ∃ i ∈ w.indR, Recv.Ind.isSuccess i = true

/-- the invariant of C04 over the two-party system -/
structure Inv4 (w : World) : Prop where
  rcv : TF0 (RecvTold w) w.rcv
  link : ∀ p ∈ w.toS, ∀ f, p.payload = .finished f → f.cond = .NoError → f.delivery = .Complete → RecvTold w
  snd : RecvTold w ∨ (Send.NS w.snd ∧ ∀ i ∈ w.indS, Send.Ind.isSuccess i = false)

theorem recvTold_mono {w w' : World} (h : RecvTold w) (hi : ∃ l, w'.indR = w.indR ++ l) : RecvTold w' := by
  obtain ⟨i, hm, hs⟩ := h
  obtain ⟨l, hl⟩ := hi
  exact ⟨i, by rw [hl]; exact List.mem_append_left _ hm, hs⟩

theorem inv4_rcvStep {w : World} (h : Inv4 w) (now : Nat) (e : Ev) : Inv4 (rcvStep w now e) := by
  have hstep := tf_recvStep h.rcv now e
  have hmono : ∀ {P : Prop}, (P → RecvTold w) → P → RecvTold (rcvStep w now e) :=
    fun f p => recvTold_mono (f p) ⟨_, rfl⟩
  have htold : Recv.Told (RecvTold w) (recvStep w.rcv now e) → RecvTold (rcvStep w now e) := by
    intro ht
    rcases ht with t | ⟨i, hi, hs⟩
    · exact recvTold_mono t ⟨_, rfl⟩
    · exact ⟨i, by simp only [rcvStep]; exact List.mem_append_right _ hi, hs⟩
  refine ⟨⟨?_, ?_⟩, ?_, ?_⟩
  · intro f fl hf hc hd; exact htold (hstep.fin f fl hf hc hd)
  · intro p f hp hf hc hd; exact htold (hstep.sent p f hp hf hc hd)
  · intro p hp f hf hc hd
    simp only [rcvStep, List.mem_append, Option.mem_toList] at hp
    rcases hp with hp | hp
    · exact recvTold_mono (h.link p hp f hf hc hd) ⟨_, rfl⟩
    · exact htold (hstep.sent p f hp hf hc hd)
  · rcases h.snd with t | hs
    · exact Or.inl (recvTold_mono t ⟨_, rfl⟩)
    · exact Or.inr hs

theorem inv4_sndStep {w : World} (h : Inv4 w) (now : Nat) (e : Ev)
    (he : quiet e = true ∨ RecvTold w) : Inv4 (sndStep w now e) := by
  have hsame : RecvTold (sndStep w now e) ↔ RecvTold w := Iff.rfl
  refine ⟨h.rcv, ?_, ?_⟩
  · intro p hp f hf hc hd
    exact h.link p hp f hf hc hd
  · rcases h.snd with t | ⟨hns, hind⟩
    · exact Or.inl t
    · rcases he with he | t
      · have := ns_sendStep hns now e he
        refine Or.inr ⟨this, ?_⟩
        intro i hi
        simp only [sndStep, List.mem_append] at hi
        rcases hi with hi | hi
        · exact hind i hi
        · exact this.2 i hi
      · exact Or.inl t

theorem inv4_step {w : World} (h : Inv4 w) (a : Act) : Inv4 (step w a) := by
  cases a with
  | sender now e =>
    simp only [step]; split
    · rename_i hl
      refine inv4_sndStep h now e (Or.inl ?_)
      cases e <;> first | rfl | (cases hl)
    · exact h
  | receiver now e =>
    simp only [step]; split
    · exact inv4_rcvStep h now e
    · exact h
  | deliverR now i =>
    simp only [step]; split
    · exact inv4_rcvStep h now _
    · exact h
  | deliverS now i =>
    simp only [step]; split
    · rename_i p hp
      refine inv4_sndStep h now (.pdu p) ?_
      cases hq : Send.tellsSuccess p with
      | false => exact Or.inl (by simp [quiet, hq])
      | true =>
        right
        simp only [Send.tellsSuccess] at hq
        split at hq
        · rename_i f hf
          simp only [Bool.and_eq_true, beq_iff_eq] at hq
          exact h.link p (List.mem_of_getElem? hp) f hf hq.1 hq.2
        · cases hq
    · exact h

/-- **C04, two parties.**  A sending entity, a receiving entity and a link that may lose,
duplicate, reorder and delay PDUs in both directions without bound: after every interleaving of
loop iterations at either side and deliveries by the link, if the sending user has been given a
Finished indication saying NoError / Complete, then the receiving user was given a Finished
indication saying NoError / Complete before — a sending entity reports success only for a
transaction its receiver reported as successfully delivered. -/
theorem C04_two_party (cfgS : Send.Config) (md : Send.Meta) (file : Bytes) (cfgR : Recv.Config) (fs : Fs.FS)
    (t0 : Nat) (acts : List Act) :
    (∃ i ∈ (run (init cfgS md file cfgR fs t0) acts).indS, Send.Ind.isSuccess i = true) →
    ∃ i ∈ (run (init cfgS md file cfgR fs t0) acts).indR, Recv.Ind.isSuccess i = true := by
  have key : ∀ (acts : List Act) (w : World), Inv4 w → Inv4 (run w acts) := by
    intro acts
    induction acts with
    | nil => intro w h; exact h
    | cons a rest ih => intro w h; exact ih _ (inv4_step h a)
  have h0 : Inv4 (init cfgS md file cfgR fs t0) := by
    refine ⟨⟨?_, ?_⟩, ?_, Or.inr ⟨⟨?_, ?_⟩, ?_⟩⟩
    · intro f fl hf; cases hf
    · intro p f hp; cases hp
    · intro p hp; cases hp
    · intro hd; cases hd
    · intro i hi
      simp only [init, Send.new, Send.emit, List.nil_append, List.mem_singleton] at hi
      subst hi; rfl
    · intro i hi; cases hi
  intro ⟨i, hi, hs⟩
  rcases (key acts _ h0).snd with t | ⟨_, hn⟩
  · exact t
  · rw [hn i hi] at hs; cases hs

end Cfdp.Net

#print axioms Cfdp.Net.C04_two_party

/-- non-vacuity: in the example run of `Props/Net.lean` both users were told of the success -/
example : Cfdp.Net.exWorld.indS.any Cfdp.Send.Ind.isSuccess = true ∧
    Cfdp.Net.exWorld.indR.any Cfdp.Recv.Ind.isSuccess = true := by decide

#print axioms Cfdp.Loop.C04_final
#print axioms Cfdp.Loop.C04_late
#print axioms Cfdp.Send.C04_sender
