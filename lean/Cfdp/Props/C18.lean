import Cfdp.Gen.RecvFrames
import Cfdp.Gen.SendFrames
import Cfdp.Model.Loop
import Cfdp.Tactic.Peel

/-!
# C18 — unacknowledged mode is one-way unless closure is requested; closure works
-/
namespace Cfdp.Recv
open Cfdp.Codec Cfdp.Gen Cfdp.Timer

/-- a counter that was never started: paused, no expiration recorded -/
def Idle (c : Counter) : Prop := c.paused = true ∧ c.occurred = false

theorem idle_update {c : Counter} (h : Idle c) (now : Nat) : c.update now = c := by
  simp only [Counter.update, h.1, if_true]

theorem idle_pause {c : Counter} (h : Idle c) (now : Nat) : c.pause now = c := by
  simp only [Counter.pause, idle_update h]
  cases c; simp_all [Idle]

theorem idle_timeoutOccurred {c : Counter} (h : Idle c) (now : Nat) : c.timeoutOccurred now = (c, false) := by
  simp only [Counter.timeoutOccurred, idle_update h, h.2]

/-- unacknowledged receiver: nothing queued that could make it transmit anything but Finished -/
structure UQ (s : State) : Prop where
  mode : s.cfg.mode = .Unacknowledged
  ack : s.ack = none
  prompt : s.prompt = none
  naks : s.naks = []
  delayed : s.delayed = []
  idle : Idle s.timer.nak
  fin : s.finished.isSome = true → closureRequested s = true

theorem uq_frame {s s' : State} (h : UQ s) (h1 : s'.cfg = s.cfg) (h2 : s'.ack = s.ack) (h3 : s'.prompt = s.prompt)
    (h4 : s'.naks = s.naks) (h5 : s'.delayed = s.delayed) (h6 : s'.timer.nak = s.timer.nak)
    (h7 : s'.finished = s.finished) (h8 : s'.md = s.md) : UQ s' := by
  refine ⟨?_, ?_, ?_, ?_, ?_, ?_, ?_⟩
  · rw [h1]; exact h.mode
  · rw [h2]; exact h.ack
  · rw [h3]; exact h.prompt
  · rw [h4]; exact h.naks
  · rw [h5]; exact h.delayed
  · rw [h6]; exact h.idle
  · rw [h7]; intro hf; have := h.fin hf; simpa only [closureRequested, h8] using this

/-- same, when the NAK counter is paused again and the Finished record may have been (re)written
under closure -/
theorem uq_frame' {s s' : State} (h : UQ s) (h1 : s'.cfg = s.cfg) (h2 : s'.ack = s.ack) (h3 : s'.prompt = s.prompt)
    (h4 : s'.naks = s.naks) (h5 : s'.delayed = s.delayed) (h6 : Idle s'.timer.nak)
    (h7 : s'.finished.isSome = true → closureRequested s' = true) : UQ s' := by
  refine ⟨?_, ?_, ?_, ?_, ?_, h6, h7⟩
  · rw [h1]; exact h.mode
  · rw [h2]; exact h.ack
  · rw [h3]; exact h.prompt
  · rw [h4]; exact h.naks
  · rw [h5]; exact h.delayed

theorem uq_emit {s : State} (h : UQ s) (i : Ind) : UQ (emit s i) := uq_frame h rfl rfl rfl rfl rfl rfl rfl rfl

theorem uq_shutdown {s : State} (h : UQ s) (now : Nat) : UQ (shutdown s now) := by
  refine uq_frame' h rfl rfl rfl rfl rfl ?_ h.fin
  simp only [shutdown, idle_pause h.idle]; exact h.idle

theorem uq_abandon {s : State} (h : UQ s) (now : Nat) : UQ (abandon s now) := by
  simp only [abandon]
  apply uq_shutdown; apply uq_emit
  exact uq_frame h rfl rfl rfl rfl rfl rfl rfl rfl

theorem uq_suspend {s : State} (h : UQ s) (now : Nat) : UQ (suspend s now) := by
  simp only [suspend]
  apply uq_emit
  refine uq_frame' h rfl rfl rfl rfl rfl ?_ h.fin
  simp only [idle_pause h.idle]; exact h.idle

theorem uq_cancelInner {s : State} (h : UQ s) (now : Nat) : UQ (cancelInner s now) := by
  have hi : Idle (s.timer.nak.pause now) := by rw [idle_pause h.idle]; exact h.idle
  simp only [cancelInner, h.mode]
  apply uq_emit
  split
  · rename_i hc
    exact uq_frame' h rfl rfl rfl rfl rfl hi (fun _ => hc)
  · apply uq_shutdown
    exact uq_frame' h rfl rfl rfl rfl rfl hi h.fin

theorem uq_resume {s : State} (h : UQ s) (now : Nat) : UQ (resume s now) := by
  have hm : (s.cfg.mode == TransmissionMode.Acknowledged) = false := by rw [h.mode]; rfl
  simp only [resume, hm, Bool.false_and]
  apply uq_emit
  repeat' split
  all_goals first
    | exact uq_frame h rfl rfl rfl rfl rfl rfl rfl rfl
    | (rename_i hf; simp at hf)

theorem uq_dispatchFault {s : State} (h : UQ s) (c : Condition) (now : Nat) : UQ (dispatchFault s c now).1 := by
  simp only [dispatchFault]
  split
  · exact h
  · exact uq_cancelInner h _
  · exact uq_suspend h _
  · exact uq_abandon h _

theorem uq_handleFault {s : State} (h : UQ s) (c : Condition) (now : Nat) : UQ (handleFault s c now).1 := by
  simp only [handleFault]
  apply uq_dispatchFault; apply uq_emit
  exact uq_frame h rfl rfl rfl rfl rfl rfl rfl rfl

theorem uq_checkFileSize {s : State} (h : UQ s) (n now : Nat) : UQ (checkFileSize s n now) := by
  simp only [checkFileSize]
  split
  · exact uq_handleFault h _ _
  · exact h

theorem isSome_setFinishedFlag (s : State) (b : Bool) : (setFinishedFlag s b).finished.isSome = s.finished.isSome := by
  simp only [setFinishedFlag]; split <;> simp_all

theorem uq_setFinishedFlag {s : State} (h : UQ s) (b : Bool) : UQ (setFinishedFlag s b) := by
  refine uq_frame' h (cfg_setFinishedFlag _ _) (ack_setFinishedFlag _ _) (prompt_setFinishedFlag _ _)
    (naks_setFinishedFlag _ _) (delayed_setFinishedFlag _ _) (by rw [timer_nak_setFinishedFlag]; exact h.idle) ?_
  rw [isSome_setFinishedFlag]
  intro hf
  have := h.fin hf
  simpa only [closureRequested, md_setFinishedFlag] using this

theorem uq_sendPayload {s : State} (h : UQ s) (p : Payload) : UQ (sendPayload s p) :=
  uq_frame h (cfg_sendPayload _ _) (ack_sendPayload _ _) (prompt_sendPayload _ _) (naks_sendPayload _ _)
    (delayed_sendPayload _ _) (timer_nak_sendPayload _ _) (finished_sendPayload _ _) (md_sendPayload _ _)

theorem uq_sendFinished {s : State} (h : UQ s) (now : Nat) : UQ (sendFinished s now) := by
  simp only [sendFinished]
  split
  · apply uq_setFinishedFlag; apply uq_sendPayload
    exact uq_frame h rfl rfl rfl rfl rfl rfl rfl rfl
  · exact uq_frame h rfl rfl rfl rfl rfl rfl rfl rfl

/-- what an unacknowledged receiver transmits: nothing, or its Finished PDU — and that only when
closure was requested -/
theorem uq_sendPdu {s : State} (h : UQ s) (now : Nat) :
    UQ (sendPdu s now) ∧
    ((sendPdu s now).sent = s.sent ∨
     (closureRequested s = true ∧ ∃ hd f, (sendPdu s now).sent = some { header := hd, payload := .finished f })) := by
  simp only [sendPdu, h.prompt, h.ack, h.naks, Option.isSome_none, List.isEmpty_nil, Bool.not_true]
  repeat' split
  all_goals first
    | exact ⟨h, Or.inl rfl⟩
    | (rename_i hh; simp at hh; done)
    | skip
  all_goals
    rename_i f hf
    refine ⟨uq_sendFinished h _, Or.inr ⟨h.fin (by rw [hf]; rfl), ?_⟩⟩
    simp only [sendFinished, hf, sendPayload, setFinishedFlag]
    split <;> exact ⟨_, _, rfl⟩

theorem uq_storeFileData {s : State} (h : UQ s) (off : Nat) (d : Bytes) : UQ (storeFileData s off d) :=
  uq_frame h (cfg_storeFileData _ _ _) (ack_storeFileData _ _ _) (prompt_storeFileData _ _ _) (naks_storeFileData _ _ _)
    (delayed_storeFileData _ _ _) (timer_nak_storeFileData _ _ _) (finished_storeFileData _ _ _) (md_storeFileData _ _ _)

theorem uq_finalizeFile {s : State} (h : UQ s) : UQ (finalizeFile s).1 :=
  uq_frame h (cfg_finalizeFile _) (ack_finalizeFile _) (prompt_finalizeFile _) (naks_finalizeFile _)
    (delayed_finalizeFile _) (timer_nak_finalizeFile _) (finished_finalizeFile _) (md_finalizeFile _)

syntax "uq_auto" "[" term,* "]" : tactic
macro_rules
  | `(tactic| uq_auto [$ls,*]) => `(tactic|
      ((try dsimp only) <;> repeat' (first
        | assumption
        | with_reducible apply uq_emit
        | with_reducible apply uq_shutdown
        | with_reducible apply uq_abandon
        | with_reducible apply uq_suspend
        | with_reducible apply uq_cancelInner
        | with_reducible apply uq_handleFault
        | with_reducible apply uq_setFinishedFlag
        | with_reducible apply uq_sendPayload
        | with_reducible apply uq_storeFileData
        | with_reducible apply uq_finalizeFile
        $[| with_reducible apply $ls]*
        | peel uq_frame 8)) <;> done)

theorem uq_finalizeFilePart {s : State} (h : UQ s) (now : Nat) : UQ (finalizeFilePart s now).1 := by
  simp only [finalizeFilePart, verifyStage, copyStage]
  repeat' split
  all_goals uq_auto []

theorem uq_finalizeReceive {s : State} (h : UQ s) (now : Nat) : UQ (finalizeReceive s now).1 := by
  simp only [finalizeReceive]
  repeat' split
  all_goals uq_auto [uq_finalizeFilePart]

theorem uq_storeMetadata {s : State} (h : UQ s) (m : Metadata) (hn : s.md.isNone = true) : UQ (storeMetadata s m) := by
  have hf : s.finished.isSome = false := by
    cases hs : s.finished.isSome
    · rfl
    · have := h.fin hs
      cases hmd : s.md <;> simp_all [closureRequested]
  simp only [storeMetadata]
  refine uq_frame' h rfl rfl rfl rfl rfl h.idle ?_
  intro hh
  have : s.finished.isSome = true := hh
  rw [hf] at this; cases this

theorem uq_prepareFinished {s : State} (h : UQ s) (f : Option VarId) (hc : closureRequested s = true) :
    UQ (prepareFinished s f) := uq_frame' h rfl rfl rfl rfl rfl h.idle (fun _ => hc)

theorem uq_unackFinish {s : State} (h : UQ s) (now : Nat) : UQ (unackFinish s now) := by
  simp only [unackFinish]
  split
  · rename_i hc
    apply uq_prepareFinished
    · uq_auto [uq_finalizeReceive]
    · exact hc
  · uq_auto [uq_finalizeReceive]

theorem uq_unackComplete {s : State} (h : UQ s) (now : Nat) : UQ (unackComplete s now) := by
  simp only [unackComplete, unackCheckMissing]
  repeat' split
  all_goals uq_auto [uq_unackFinish]

theorem uq_unackEofNoError {s : State} (h : UQ s) (e : Eof) (now : Nat) : UQ (unackEofNoError s e now) := by
  simp only [unackEofNoError]
  uq_auto [uq_unackComplete, uq_checkFileSize]

theorem uq_unackEof {s : State} (h : UQ s) (e : Eof) (now : Nat) : UQ (unackEof s e now) := by
  simp only [unackEof]
  repeat' split
  all_goals uq_auto [uq_unackEofNoError]

theorem uq_processPduBody {s : State} (h : UQ s) (p : Pdu) (now : Nat) : UQ (processPduBody s p now).1 := by
  simp only [processPduBody, h.mode]
  repeat' split
  all_goals first
    | uq_auto [uq_unackEof]
    | (rename_i hn; exact uq_storeMetadata h _ hn)

theorem uq_processPdu {s : State} (h : UQ s) (p : Pdu) (now : Nat) : UQ (processPdu s p now).1 := by
  simp only [processPdu]
  apply uq_processPduBody
  exact uq_frame h rfl rfl rfl rfl rfl rfl rfl rfl

theorem handleDelayed_nil {s : State} (h : s.delayed = []) (now : Nat) : handleDelayed s now = s := by
  simp only [handleDelayed, h, expiredPrefix]
  cases s; simp_all

theorem uq_handleInactivity {s : State} (h : UQ s) (now : Nat) : UQ (handleInactivity s now).1 := by
  simp only [handleInactivity]
  repeat' split
  all_goals uq_auto []

theorem uq_handleAckTimer {s : State} (h : UQ s) (now : Nat) (c : Bool) : UQ (handleAckTimer s now c) := by
  simp only [handleAckTimer]
  repeat' split
  all_goals uq_auto []

theorem uq_pauseNak {s : State} (h : UQ s) (now : Nat) :
    UQ { s with timer := { s.timer with nak := s.timer.nak.pause now } } :=
  uq_frame' h rfl rfl rfl rfl rfl (by show Idle (s.timer.nak.pause now); rw [idle_pause h.idle]; exact h.idle) h.fin

theorem uq_handleTimeoutMain {s : State} (h : UQ s) (now : Nat) : UQ (handleTimeoutMain s now) := by
  have h1 : UQ (handleInactivity s now).1 := uq_handleInactivity h now
  have hi : Idle (handleInactivity s now).1.timer.nak := h1.idle
  have h2 := uq_pauseNak h1 now
  dsimp only at h2
  simp only [handleTimeoutMain, handleDelayed_nil h.delayed, idle_timeoutOccurred hi]
  repeat' split
  all_goals first
    | contradiction
    | exact uq_handleAckTimer h2 _ _
    | uq_auto [uq_handleAckTimer]


theorem uq_handleTimeout {s : State} (h : UQ s) (now : Nat) : UQ (handleTimeout s now) := by
  simp only [handleTimeout, unackFinishedLimit]
  repeat' split
  all_goals uq_auto [uq_handleTimeoutMain]

theorem uq_cancel {s : State} (h : UQ s) (now : Nat) : UQ (cancel s now) := by
  simp only [cancel]
  apply uq_cancelInner
  exact uq_frame h rfl rfl rfl rfl rfl rfl rfl rfl

theorem uq_new (cfg : Config) (fs : Fs.FS) (now : Nat) (hm : cfg.mode = .Unacknowledged) : UQ (new cfg fs now) := by
  refine ⟨hm, rfl, rfl, rfl, rfl, ⟨rfl, rfl⟩, ?_⟩
  intro hf; cases hf

end Cfdp.Recv

namespace Cfdp.Loop
open Cfdp.Codec Cfdp.Gen Cfdp.Recv

/-- one loop iteration of an unacknowledged receiver: the invariant is kept, and the only thing it
can transmit is a Finished PDU, and that only if the metadata asked for closure -/
theorem uq_recvStep {s : Recv.State} (h : UQ s) (now : Nat) (e : Ev) :
    UQ (recvStep s now e) ∧
    ((recvStep s now e).sent = none ∨
     (closureRequested s = true ∧ ∃ hd f, (recvStep s now e).sent = some { header := hd, payload := .finished f })) := by
  have h0 : UQ { s with sent := none, out := [] } := uq_frame h rfl rfl rfl rfl rfl rfl rfl rfl
  simp only [recvStep]
  repeat' split
  all_goals first
    | exact ⟨h0, Or.inl rfl⟩
    | exact ⟨uq_processPdu h0 _ _, Or.inl (Recv.sent_processPdu _ _ _)⟩
    | exact uq_sendPdu h0 _
    | exact ⟨uq_handleTimeout h0 _, Or.inl (Recv.sent_handleTimeout _ _)⟩
    | exact ⟨uq_cancel h0 _, Or.inl (Recv.sent_cancel _ _)⟩
    | exact ⟨uq_suspend h0 _, Or.inl (Recv.sent_suspend _ _)⟩
    | exact ⟨uq_resume h0 _, Or.inl (Recv.sent_resume _ _)⟩
    | exact ⟨uq_emit h0 _, Or.inl (Recv.sent_sendReport _)⟩
    | exact ⟨uq_shutdown h0 _, Or.inl (Recv.sent_shutdown _ _)⟩

/-- **C18 (receiver is silent).** In unacknowledged mode, over every history of PDUs (of any kind,
in any order, duplicated, including prompts), timer expirations, transmission opportunities and
user requests, every PDU the receiver transmits is a Finished PDU: never an ACK, a NAK or a
keep-alive. -/
theorem C18_recv_oneway (cfg : Recv.Config) (fs : Fs.FS) (t0 : Nat) (hm : cfg.mode = .Unacknowledged)
    (evs : List (Nat × Ev)) :
    ∀ p ∈ (recvRun (Recv.new cfg fs t0) evs).2, ∃ f, p.payload = Payload.finished f := by
  have key : ∀ (evs : List (Nat × Ev)) (s : Recv.State), UQ s →
      ∀ p ∈ (recvRun s evs).2, ∃ f, p.payload = Payload.finished f := by
    intro evs
    induction evs with
    | nil => intro s _ p hp; cases hp
    | cons x rest ih =>
      intro s hs p hp
      obtain ⟨now, e⟩ := x
      obtain ⟨h1, h2⟩ := uq_recvStep hs now e
      simp only [recvRun, List.mem_append] at hp
      rcases hp with hp | hp
      · rcases h2 with h2 | ⟨_, hd, f, h2⟩
        · rw [h2] at hp; cases hp
        · rw [h2] at hp
          simp only [Option.toList, List.mem_singleton] at hp
          subst hp; exact ⟨f, rfl⟩
      · exact ih _ h1 p hp
  exact key evs _ (uq_new cfg fs t0 hm)

/-- a Metadata PDU that asks for closure -/
def asksClosure (e : Ev) : Bool :=
  match e with
  | .pdu p => (match p.payload with | .metadata m => m.closure | _ => false)
  | _ => false

theorem noClosure_recvStep {s : Recv.State} (h : closureRequested s = false) (now : Nat) (e : Ev)
    (he : asksClosure e = false) : closureRequested (recvStep s now e) = false := by
  have key : ∀ s' : Recv.State, s'.md = s.md → closureRequested s' = false := by
    intro s' hs; simp only [closureRequested, hs]; exact h
  simp only [recvStep]
  repeat' split
  all_goals first
    | exact key _ rfl
    | exact key _ (Recv.md_sendPdu _ _)
    | exact key _ (Recv.md_handleTimeout _ _)
    | exact key _ (Recv.md_cancel _ _)
    | exact key _ (Recv.md_suspend _ _)
    | exact key _ (Recv.md_resume _ _)
    | exact key _ (Recv.md_sendReport _)
    | exact key _ (Recv.md_shutdown _ _)
    | skip
  -- a PDU: only a first Metadata PDU changes the metadata
  rename_i p
  simp only [asksClosure] at he
  simp only [Recv.processPdu, Recv.processPduBody]
  repeat' split
  all_goals first
    | exact key _ rfl
    | (apply key
       simp only [Recv.md_ackFileData, Recv.md_ackEof, Recv.md_unackEof, Recv.md_shutdown,
         Recv.md_emit, Recv.md_storeFileData, Recv.md_pduArrived]
       done)
    | (rename_i hpl _
       rw [hpl] at he
       simp only [closureRequested, Recv.md_checkFinished, Recv.storeMetadata, Recv.metaOf]
       exact he)

/-- **C18 (no closure: nothing at all).** An unacknowledged receiver whose metadata never asked for
closure transmits no PDU whatsoever, over every history. -/
theorem C18_recv_silent_without_closure (cfg : Recv.Config) (fs : Fs.FS) (t0 : Nat) (hm : cfg.mode = .Unacknowledged)
    (evs : List (Nat × Ev)) (hev : ∀ x ∈ evs, asksClosure x.2 = false) :
    (recvRun (Recv.new cfg fs t0) evs).2 = [] := by
  have key : ∀ (evs : List (Nat × Ev)) (s : Recv.State), UQ s → closureRequested s = false →
      (∀ x ∈ evs, asksClosure x.2 = false) → (recvRun s evs).2 = [] := by
    intro evs
    induction evs with
    | nil => intro s _ _ _; rfl
    | cons x rest ih =>
      intro s hs hc hx
      obtain ⟨now, e⟩ := x
      obtain ⟨h1, h2⟩ := uq_recvStep hs now e
      have hc' := noClosure_recvStep hc now e (hx (now, e) (List.mem_cons_self ..))
      simp only [recvRun]
      rw [ih _ h1 hc' (fun y hy => hx y (List.mem_cons_of_mem _ hy))]
      rcases h2 with h2 | ⟨h2, _⟩
      · rw [h2]; rfl
      · rw [hc] at h2; cases h2
  exact key evs _ (uq_new cfg fs t0 hm) rfl hev

end Cfdp.Loop

/-! ### the delivery code says Complete only when nothing is missing (both modes) -/
namespace Cfdp.Recv
open Cfdp.Codec Cfdp.Gen

/-- metadata present and, for a file transfer, EOF received and every byte below the announced
size held (`Seg.isComplete`, characterised in C09 as: every position of `[0, size)` is covered) -/
def NothingMissing (s : State) : Prop :=
  s.md.isSome = true ∧ (isFileTransfer s = true → ∃ n, s.fileSize = some n ∧ Seg.isComplete s.segs n = true)

/-- the delivery code is Complete only if nothing is missing -/
def CompleteOk (s : State) : Prop := s.delivery = .Complete → NothingMissing s

theorem nothingMissing_frame {s s' : State} (h : NothingMissing s) (h1 : s'.md = s.md) (h2 : s'.fileSize = s.fileSize)
    (h3 : s'.segs = s.segs) : NothingMissing s' := by
  unfold NothingMissing isFileTransfer at *
  rw [h1, h2, h3]; exact h

theorem delivery_finalizeReceive (s : State) (now : Nat) :
    (finalizeReceive s now).1.delivery =
      (if s.md.isNone || (isFileTransfer s && hasNaks s) then DeliveryCode.Incomplete else DeliveryCode.Complete) := by
  simp only [finalizeReceive]
  repeat' split
  all_goals simp only [delivery_emit, delivery_handleFault, delivery_finalizeFilePart]

/-- `finalize_receive` reached with the EOF in hand: Complete is only recorded when nothing is missing -/
theorem completeOk_finalizeReceive (s : State) (now : Nat) (hn' : s.fileSize.isSome = true) :
    CompleteOk (finalizeReceive s now).1 := by
  obtain ⟨n, hn⟩ := Option.isSome_iff_exists.mp hn'
  intro hc
  rw [delivery_finalizeReceive] at hc
  have hmd : (finalizeReceive s now).1.md = s.md := md_finalizeReceive _ _
  have hfs : (finalizeReceive s now).1.fileSize = s.fileSize := fileSize_finalizeReceive _ _
  have hsg : (finalizeReceive s now).1.segs = s.segs := segs_finalizeReceive _ _
  split at hc
  · cases hc
  · rename_i hcond
    refine nothingMissing_frame (s := s) ?_ hmd hfs hsg
    simp only [Bool.or_eq_true, Bool.and_eq_true, not_or, not_and, Bool.not_eq_true] at hcond
    obtain ⟨c1, c2⟩ := hcond
    refine ⟨by cases hm : s.md <;> simp_all, ?_⟩
    intro hft
    have := c2 hft
    simp only [hasNaks, hn, Bool.or_eq_false_iff] at this
    exact ⟨n, hn, by simpa using this.2⟩

theorem completeOk_frame {s s' : State} (h : CompleteOk s) (h0 : s'.delivery = s.delivery) (h1 : s'.md = s.md)
    (h2 : s'.fileSize = s.fileSize) (h3 : s'.segs = s.segs) : CompleteOk s' := by
  intro hc; rw [h0] at hc
  exact nothingMissing_frame (h hc) h1 h2 h3

theorem completeOk_of_ne {s : State} (h : s.delivery ≠ .Complete) : CompleteOk s := fun hc => absurd hc h

theorem completeOk_checkFinished {s : State} (h : s.delivery ≠ .Complete) (now : Nat) :
    CompleteOk (checkFinished s now) := by
  simp only [checkFinished]
  split
  · rename_i hg
    simp only [Bool.and_eq_true, eofReceived] at hg
    exact completeOk_frame (completeOk_finalizeReceive s now hg.1.2) rfl rfl rfl rfl
  · exact completeOk_of_ne h

theorem completeOk_unackFinish (s : State) (now : Nat) (hn : s.fileSize.isSome = true) :
    CompleteOk (unackFinish s now) := by
  simp only [unackFinish]
  split
  · exact completeOk_frame (completeOk_finalizeReceive s now hn) rfl rfl rfl rfl
  · exact completeOk_frame (completeOk_finalizeReceive s now hn) rfl rfl rfl rfl

theorem completeOk_unackComplete {s : State} (h : s.delivery ≠ .Complete) (hn : s.fileSize.isSome = true) (now : Nat) :
    CompleteOk (unackComplete s now) := by
  simp only [unackComplete, unackCheckMissing]
  repeat' split
  all_goals first
    | (apply completeOk_of_ne
       simp only [delivery_handleFault]
       exact h)
    | (apply completeOk_unackFinish
       simp only [fileSize_handleFault]
       exact hn)
    | exact completeOk_of_ne h

theorem completeOk_unackEofNoError {s : State} (h : s.delivery ≠ .Complete) (e : Eof) (now : Nat) :
    CompleteOk (unackEofNoError s e now) := by
  simp only [unackEofNoError]
  apply completeOk_unackComplete
  · simp only [delivery_checkFileSize]; exact h
  · rfl

theorem completeOk_unackEof {s : State} (h : s.delivery ≠ .Complete) (e : Eof) (now : Nat) :
    CompleteOk (unackEof s e now) := by
  simp only [unackEof]
  repeat' split
  all_goals first
    | (apply completeOk_of_ne
       simp only [delivery_setFinishedFlag, delivery_emit, delivery_cancelInner]
       exact h)
    | (apply completeOk_unackEofNoError
       simp only [delivery_emit]
       exact h)

theorem completeOk_processPdu {s : State} (h : s.delivery ≠ .Complete) (p : Pdu) (now : Nat) :
    CompleteOk (processPdu s p now).1 := by
  have h0 : (pduArrived s now).delivery ≠ .Complete := h
  simp only [processPdu]
  generalize pduArrived s now = t at h0
  simp only [processPduBody]
  repeat' split
  all_goals first
    | exact completeOk_of_ne h0
    | (apply completeOk_of_ne
       simp only [delivery_shutdown, delivery_emit, delivery_storeFileData, delivery_storeMetadata]
       exact h0)
    | exact completeOk_unackEof h0 _ _
    | (simp only [ackFileData]
       apply completeOk_checkFinished
       simp only [delivery_immediateNak, delivery_emit, delivery_storeFileData]
       exact h0)
    | (apply completeOk_checkFinished
       simp only [delivery_storeMetadata]
       exact h0)
    | skip
  -- acknowledged EOF
  all_goals
    simp only [ackEof]
    split
    · refine completeOk_frame (s := checkFinished _ now) (completeOk_checkFinished ?_ now)
        (delivery_scheduleNaks _ _ _) (md_scheduleNaks _ _ _) (fileSize_scheduleNaks _ _ _) (segs_scheduleNaks _ _ _)
      simp only [delivery_checkFileSize, delivery_emit, delivery_prepareAckEof]
      exact h0
    · apply completeOk_of_ne
      simp only [delivery_cancelInner, delivery_emit, delivery_prepareAckEof]
      exact h0

end Cfdp.Recv

namespace Cfdp.Loop
open Cfdp.Codec Cfdp.Gen Cfdp.Recv

/-- **C18 / C01 (a delivery is only called complete when it is).** In both modes and whatever the
configured fault handlers: in the loop iteration in which the receiver's delivery code becomes
Complete (the value its Finished indication and Finished PDU carry), the metadata has arrived and,
for a file transfer, the EOF has arrived and the segment list covers every byte below the size it
announced. -/
theorem C18_complete_means_complete (s : Recv.State) (h : s.delivery ≠ .Complete) (now : Nat) (e : Ev) :
    CompleteOk (recvStep s now e) := by
  have h0 : ({ s with sent := none, out := [] } : Recv.State).delivery ≠ .Complete := h
  simp only [recvStep]
  repeat' split
  all_goals first
    | exact completeOk_of_ne h0
    | exact completeOk_processPdu h0 _ _
    | (apply completeOk_of_ne
       simp only [Recv.delivery_sendPdu, Recv.delivery_handleTimeout, Recv.delivery_cancel, Recv.delivery_suspend,
         Recv.delivery_resume, Recv.delivery_sendReport, Recv.delivery_shutdown]
       exact h0)

end Cfdp.Loop

namespace Cfdp.Recv
open Cfdp.Codec Cfdp.Gen Cfdp.Timer

/-- **C18 (receiver, closure ends quietly).**  Nothing is acknowledged in unacknowledged mode: while
the receiver repeats its closure Finished PDU, reaching the positive-ACK limit or the inactivity
limit declares no fault — the transaction just ends, no further indication is raised and the
outcome already reported stands. -/
theorem C18_recv_closure_ends_quietly (s : State) (now : Nat) (hm : s.cfg.mode = .Unacknowledged)
    (hs : s.state ≠ .Suspended) (hf : s.recvState = .Finished)
    (hl : (s.timer.ack.limitReached now).2 = true ∨ (s.timer.inactivity.limitReached now).2 = true) :
    (handleTimeout s now).state = .Terminated ∧ (handleTimeout s now).out = s.out ∧
    (handleTimeout s now).finished = s.finished ∧ (handleTimeout s now).condition = s.condition ∧
    (handleTimeout s now).delivery = s.delivery := by
  have h1 : (s.cfg.mode == TransmissionMode.Unacknowledged) = true := by rw [hm]; rfl
  have h2 : (s.recvState == RecvState.Finished) = true := by rw [hf]; rfl
  have h3 : (s.state == TransactionState.Suspended) = false := by cases hst : s.state <;> simp_all
  have h4 : (unackFinishedLimit s now).2 = true := by
    simp only [unackFinishedLimit]
    split
    · rfl
    · rcases hl with hl | hl
      · contradiction
      · exact hl
  simp only [handleTimeout, h1, h2, h3, h4, Bool.and_self, Bool.false_eq_true, if_false, if_true, shutdown]
  simp only [unackFinishedLimit]
  split <;> simp

end Cfdp.Recv

/-! ### sender -/
namespace Cfdp.Send
open Cfdp.Codec Cfdp.Gen

/-- **C18 (sender, no closure).** Transmitting the EOF ends an unacknowledged transaction without
closure: the state is Terminated and the user gets the Finished indication. -/
theorem C18_send_ends_on_eof (s : State) (now : Nat) (hm : s.cfg.mode = .Unacknowledged)
    (hc : s.md.closure = false) :
    (sendPduEof s now).state = .Terminated ∧
    (sendPduEof s now).out.getLast? =
      some (Ind.finished s.condition s.delivery s.fileStatus s.state s.status []) := by
  have hm' : (sendEof s now).st.cfg.mode = .Unacknowledged := by simp only [st_sendEof]; exact hm
  have hc' : (sendEof s now).st.md.closure = false := by simp only [st_sendEof]; exact hc
  simp only [sendPduEof]
  split
  all_goals
    simp only [State.cfg, State.md, emit, hm', hc', shutdown, beq_self_eq_true, Bool.not_false, if_true,
      List.getLast?_append, List.getLast?_singleton, Option.some_or,
      condition_sendEof, delivery_sendEof, fileStatus_sendEof, state_sendEof, status_sendEof, and_self]

/-- **C18 (sender, closure).** With closure requested the sender does not end by transmitting: it
stays in its state after the EOF (and after any other PDU it sends), waiting for the Finished PDU. -/
theorem C18_send_waits (s : State) (now : Nat) (hm : s.cfg.mode = .Unacknowledged)
    (hc : s.md.closure = true) (hf : s.sendState ≠ .Finished) :
    (sendPdu s now).state = s.state := by
  have hm' : (sendEof s now).cfg.mode = .Unacknowledged := by simp only [State.cfg, st_sendEof]; exact hm
  have hc' : (sendEof s now).md.closure = true := by simp only [State.md, st_sendEof]; exact hc
  simp only [sendPdu]
  repeat' split
  all_goals first
    | (simp only [state_sendPrompt, state_sendPduMetadata, state_sendPduData, state_sendMissingData, state_sendEof]; done)
    | (rename_i hh; exact absurd hh hf)
    | skip
  simp only [sendPduEof]
  simp only [State.cfg, State.md] at hm' hc'
  split
  all_goals
    simp only [State.cfg, State.md, emit, hm', hc', beq_self_eq_true, Bool.not_true, if_true, state_sendEof,
      Bool.false_eq_true, if_false]

/-- **C18 (sender, closure): the receiver's outcome is what the user is told.** The Finished PDU
ends the transaction and its condition and delivery code go into the Finished indication. -/
theorem C18_send_reports_outcome (s : State) (p : Pdu) (f : Finished) (now : Nat)
    (hm : s.cfg.mode = .Unacknowledged) (hc : s.md.closure = true) (hp : p.payload = .finished f) :
    (processPdu s p now).1.state = .Terminated ∧
    (processPdu s p now).1.out = s.out ++ [Ind.finished f.cond f.delivery s.fileStatus s.state s.status f.responses] := by
  have hm' : (pduArrived s now).cfg.mode = .Unacknowledged := by simp only [State.cfg, st_pduArrived]; exact hm
  have hc' : (pduArrived s now).md.closure = true := by simp only [State.md, st_pduArrived]; exact hc
  simp only [processPdu, processPduBody, hm', hp, hc', if_true, shutdown, emit]
  simp only [out_pduArrived, fileStatus_pduArrived, state_pduArrived, status_pduArrived, and_self]

/-- …and without closure a Finished PDU is not expected and changes nothing -/
theorem C18_send_ignores_finished_without_closure (s : State) (p : Pdu) (f : Finished) (now : Nat)
    (hm : s.cfg.mode = .Unacknowledged) (hc : s.md.closure = false) (hp : p.payload = .finished f) :
    processPdu s p now = (pduArrived s now, .unexpected) := by
  have hm' : (pduArrived s now).cfg.mode = .Unacknowledged := by simp only [State.cfg, st_pduArrived]; exact hm
  have hc' : (pduArrived s now).md.closure = false := by simp only [State.md, st_pduArrived]; exact hc
  simp only [processPdu, processPduBody, hm', hp, hc']
  rfl

end Cfdp.Send

/-! ### non-vacuity -/
namespace Cfdp.Loop
open Cfdp.Codec Cfdp.Gen

abbrev c18Cfg : Recv.Config :=
  { mode := .Unacknowledged, fss := .Small, seg := 64, crc := .NotPresent, max := 2, ti := 1, ta := 1, tn := 1,
    immediate := true, delay := 0, fho := [], src := ⟨2, 1⟩, dst := ⟨2, 2⟩, seq := ⟨2, 7⟩ }
abbrev c18Hdr : Header :=
  { (default : Header) with mode := .Unacknowledged, pduType := .FileDirective, direction := .ToReceiver }
abbrev c18Meta (closure : Bool) : Metadata :=
  { closure := closure, cksumType := .Null, fileSize := 3, srcName := [115], dstName := [100], options := [] }
abbrev c18Md (closure : Bool) : Pdu := { header := c18Hdr, payload := .metadata (c18Meta closure) }
abbrev c18Data : Pdu := { header := { c18Hdr with pduType := .FileData }, payload := .fileData 0 [1, 2, 3] }
abbrev c18Eof : Pdu := { header := c18Hdr, payload := .eof { cond := .NoError, checksum := 0, fileSize := 3, fault := none } }
abbrev c18Prompt : Pdu := { header := c18Hdr, payload := .prompt .Nak }

/-- with closure: exactly one PDU goes out, the Finished PDU reporting the complete delivery -/
example : ((recvRun (Recv.new c18Cfg [([], .dir)] 0)
    [(0, .pdu (c18Md true)), (0, .pdu c18Data), (0, .pdu c18Prompt), (0, .send), (0, .pdu c18Eof), (0, .send), (0, .send)]).2.map
      (fun p => match p.payload with | .finished f => some (f.cond, f.delivery) | _ => none))
    = [some (.NoError, .Complete)] := by decide
/-- the same exchange with the data PDU lost and a fault handler that ignores CheckLimitReached:
the Finished PDU reports the fault and an incomplete delivery -/
example : ((recvRun (Recv.new { c18Cfg with fho := [(.CheckLimitReached, .Ignore)] } [([], .dir)] 0)
    [(0, .pdu (c18Md true)), (0, .pdu c18Eof), (0, .send)]).2.map
      (fun p => match p.payload with | .finished f => some (f.cond, f.delivery) | _ => none))
    = [some (.CheckLimitReached, .Incomplete)] := by decide
/-- without closure nothing goes out -/
example : (recvRun (Recv.new c18Cfg [([], .dir)] 0)
    [(0, .pdu (c18Md false)), (0, .pdu c18Data), (0, .send), (0, .pdu c18Eof), (0, .send)]).2.length = 0 := by decide

end Cfdp.Loop

#print axioms Cfdp.Loop.C18_recv_oneway
#print axioms Cfdp.Loop.C18_recv_silent_without_closure
#print axioms Cfdp.Loop.C18_complete_means_complete
#print axioms Cfdp.Send.C18_send_ends_on_eof
#print axioms Cfdp.Send.C18_send_waits
#print axioms Cfdp.Send.C18_send_reports_outcome
#print axioms Cfdp.Send.C18_send_ignores_finished_without_closure
#print axioms Cfdp.Recv.C18_recv_closure_ends_quietly
