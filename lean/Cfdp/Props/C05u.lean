import Cfdp.Model.Codec.UserOps
import Cfdp.Props.C05

/-! # C05, reserved CFDP messages (user operations) and status reports -/
namespace Cfdp.Codec
open Cfdp.Gen

theorem readIdLV_encIdLV (i : VarId) (r : Bytes) (h : i.WF) : readIdLV (encIdLV i ++ r) = .ok (i, r) := by
  have hw : i.width < 256 := by have := h.1; omega
  have hlen : i.toBe.length = i.width := by simp [VarId.toBe]
  simp only [readIdLV, encIdLV, List.cons_append, readLV, readU8_cons, toNat_ofNat_lt hw,
    readN_append' i.toBe r hlen, bind, Except.bind, idOfBytes_toBe i h, pure, Except.pure]

theorem decIdPair_encIdPair (a b : VarId) (r : Bytes) (ha : a.WF) (hb : b.WF) :
    decIdPair (encIdPair a b ++ r) = .ok (a, b, r) := by
  have wa := ha.1
  have wb := hb.1
  have hlt : (a.width - 1) % 8 * 16 + (b.width - 1) % 8 < 256 := by omega
  have e1 : ((a.width - 1) % 8 * 16 + (b.width - 1) % 8) / 16 % 8 + 1 = a.width := by omega
  have e2 : ((a.width - 1) % 8 * 16 + (b.width - 1) % 8) % 8 + 1 = b.width := by omega
  have la : a.toBe.length = a.width := by simp [VarId.toBe]
  have lb : b.toBe.length = b.width := by simp [VarId.toBe]
  simp only [decIdPair, encIdPair, List.cons_append, List.append_assoc, readU8_cons, bind, Except.bind,
    toNat_ofNat_lt hlt, e1, e2, readN_append' a.toBe _ la, readN_append' b.toBe _ lb,
    idOfBytes_toBe a ha, idOfBytes_toBe b hb, pure, Except.pure]

/-- the message body decoder, by message type -/
def UserOp.decodeBody (mt : MessageType) (r : Bytes) : Except Err (UserOp × Bytes) :=
  match mt with
  | .ProxyPutRequest => do
    let (d, r) ← readIdLV r
    let (s, r) ← readName r
    let (n, r) ← readName r
    pure (.proxyPut d s n, r)
  | .ProxyMessageToUser => do let (m, r) ← readLV r; pure (.proxyMsg m, r)
  | .ProxyFileStoreRequest => do
    let (_, r) ← readU8 r
    let (q, r) ← FsRequest.decode r
    pure (.proxyFsReq q, r)
  | .ProxyFileStoreResponse => do
    let (_, r) ← readU8 r
    let (p, r) ← FsResponse.decode r
    pure (.respFs p, r)
  | .ProxyFaultHandlerOverride => do let (c, r) ← decHandler r; pure (.proxyFho c, r)
  | .ProxyTransmissionMode => do
    let (b, r) ← readU8 r
    let m ← (TransmissionMode.ofNat? b.toNat).elim (.error .InvalidTransmissionMode) .ok
    pure (.proxyMode m, r)
  | .ProxyFlowLabel => do let (v, r) ← readLV r; pure (.proxyFlow v, r)
  | .ProxySegmentationControl => do
    let (b, r) ← readU8 r
    let c ← (SegmentationControl.ofNat? b.toNat).elim (.error .InvalidSegmentControl) .ok
    pure (.proxySegCtrl c, r)
  | .ProxyPutResponse => do
    let (b, r) ← readU8 r
    let c ← (Condition.ofNat? (b.toNat / 16)).elim (.error .InvalidCondition) .ok
    let d ← (DeliveryCode.ofNat? (b.toNat / 4 % 2)).elim (.error .InvalidDeliveryCode) .ok
    let f ← (FileStatusCode.ofNat? (b.toNat % 4)).elim (.error .InvalidFileStatus) .ok
    pure (.respProxyPut c d f, r)
  | .ProxyPutCancel => pure (.proxyPutCancel, r)
  | .OriginatingTransactionIDMessage => do let (a, c, r) ← decIdPair r; pure (.origId a c, r)
  | .ProxyClosureRequest => throw .MessageType
  | .DirectoryListingRequest => do
    let (d, r) ← readName r
    let (f, r) ← readName r
    pure (.reqListing d f, r)
  | .RemoteStatusReportRequest => do
    let (a, c, r) ← decIdPair r
    let (f, r) ← readName r
    pure (.reqStatus a c f, r)
  | .RemoteSuspendRequest => do let (a, c, r) ← decIdPair r; pure (.reqSuspend a c, r)
  | .RemoteResumeRequest => do let (a, c, r) ← decIdPair r; pure (.reqResume a c, r)
  | .DirectoryListingResponse => do
    let (b, r) ← readU8 r
    let code ← (ListingResponseCode.ofNat? b.toNat).elim (.error .InvalidListingCode) .ok
    let (d, r) ← readName r
    let (f, r) ← readName r
    pure (.respListing code d f, r)
  | .RemoteStatusReportResponse => do
    let (b, r) ← readU8 r
    let st ← (TransactionStatus.ofNat? (b.toNat / 64)).elim (.error .InvalidTransactionStatus) .ok
    let (a, c, r) ← decIdPair r
    pure (.respStatus st (b.toNat % 2 != 0) a c, r)
  | .RemoteSuspendResponse => do
    let (su, st, a, c, r) ← decSuspResp r
    pure (.respSuspend su st a c, r)
  | .RemoteResumeResponse => do
    let (su, st, a, c, r) ← decSuspResp r
    pure (.respResume su st a c, r)
  | .SFORequest => do
    let (b, r) ← readU8 r
    let tr ← (TraceControl.ofNat? (b.toNat / 64)).elim (.error .InvalidTraceControl) .ok
    let m ← (TransmissionMode.ofNat? (b.toNat / 32 % 2)).elim (.error .InvalidTransmissionMode) .ok
    let sg ← (SegmentationControl.ofNat? (b.toNat / 16 % 2)).elim (.error .InvalidSegmentControl) .ok
    let (wp, r) ← readU8 r
    let (label, r) ← readLV r
    let (a, r) ← readIdLV r
    let (d, r) ← readIdLV r
    let (s, r) ← readName r
    let (n, r) ← readName r
    pure (.sfoRequest tr m sg (b.toNat / 8 % 2 != 0) wp.toNat label a d s n, r)
  | .SFOMessageToUser => do let (m, r) ← readLV r; pure (.sfoMsg m, r)
  | .SFOFlowLabel => do let (v, r) ← readLV r; pure (.sfoFlow v, r)
  | .SFOFaultHandlerOverride => do let (c, r) ← decHandler r; pure (.sfoFho c, r)
  | .SFOFileStoreRequest => do
    let (_, r) ← readU8 r
    let (q, r) ← FsRequest.decode r
    pure (.sfoFsReq q, r)
  | .SFOReport => do
    let (label, r) ← readLV r
    let (a, r) ← readIdLV r
    let (d, r) ← readIdLV r
    let (rp, r) ← readIdLV r
    let (wp, r) ← readU8 r
    let (code, r) ← readU8 r
    let (b, r) ← readU8 r
    let c ← (Condition.ofNat? (b.toNat / 16)).elim (.error .InvalidCondition) .ok
    let dir ← (Direction.ofNat? (b.toNat / 8 % 2)).elim (.error .InvalidDirection) .ok
    let dc ← (DeliveryCode.ofNat? (b.toNat / 4 % 2)).elim (.error .InvalidDeliveryCode) .ok
    let fs ← (FileStatusCode.ofNat? (b.toNat % 4)).elim (.error .InvalidDeliveryCode) .ok
    pure (.sfoReport label a d rp wp.toNat code.toNat c dir dc fs, r)
  | .SFOFileStoreResponse => do
    let (_, r) ← readU8 r
    let (p, r) ← FsResponse.decode r
    pure (.sfoFsResp p, r)

theorem UserOp.decode_eq (bs : Bytes) :
    UserOp.decode bs = (do
      let (idb, r) ← readN 4 bs
      if idb != userOpsId then throw .UnexpectedIdentifier
      let (t, r) ← readU8 r
      let mt ← (MessageType.ofNat? t.toNat).elim (.error .MessageType) .ok
      UserOp.decodeBody mt r) := rfl

theorem UserOp.decode_encode_head (u : UserOp) (r : Bytes) :
    UserOp.decode (u.encode ++ r) = UserOp.decodeBody u.msgType (u.body ++ r) := by
  have hlt : u.msgType.toNat < 256 := by have := u.msgType.toNat_le; omega
  have h4 : userOpsId.length = 4 := rfl
  rw [UserOp.decode_eq]
  simp only [UserOp.encode, List.append_assoc, List.cons_append, readN_append' userOpsId _ h4, bind, Except.bind,
    bne_self_eq_false, Bool.false_eq_true, if_false, readU8_cons, toNat_ofNat_lt hlt,
    MessageType.ofNat?_toNat, Option.elim, pure, Except.pure]

/-- the wire format's own limits for a user operation: ids of width 1/2/4/8 in range, names valid
UTF-8 of at most 255 octets, other LV bodies at most 255 octets, single-octet counters below 256 -/
def UserOp.WF : UserOp → Prop
  | .origId a b => a.WF ∧ b.WF
  | .proxyPut d s t => d.WF ∧ nameOk s ∧ nameOk t
  | .proxyMsg m => m.length ≤ 255
  | .proxyFsReq q => q.WF
  | .proxyFho _ => True
  | .proxyMode _ => True
  | .proxyFlow v => v.length ≤ 255
  | .proxySegCtrl _ => True
  | .proxyPutCancel => True
  | .respProxyPut .. => True
  | .respFs p => p.WF
  | .respListing _ d f => nameOk d ∧ nameOk f
  | .respStatus _ _ a b => a.WF ∧ b.WF
  | .respSuspend _ _ a b => a.WF ∧ b.WF
  | .respResume _ _ a b => a.WF ∧ b.WF
  | .reqListing d f => nameOk d ∧ nameOk f
  | .reqStatus a b f => a.WF ∧ b.WF ∧ nameOk f
  | .reqSuspend a b => a.WF ∧ b.WF
  | .reqResume a b => a.WF ∧ b.WF
  | .sfoRequest _ _ _ _ wp label a d s t => wp < 256 ∧ label.length ≤ 255 ∧ a.WF ∧ d.WF ∧ nameOk s ∧ nameOk t
  | .sfoMsg m => m.length ≤ 255
  | .sfoFlow v => v.length ≤ 255
  | .sfoFho _ => True
  | .sfoFsReq q => q.WF
  | .sfoFsResp p => p.WF
  | .sfoReport label a d rp wp code _ _ _ _ => label.length ≤ 255 ∧ a.WF ∧ d.WF ∧ rp.WF ∧ wp < 256 ∧ code < 256

theorem b2n_le (b : Bool) : b2n b ≤ 1 := by cases b <;> simp [b2n]
theorem b2n_ne (b : Bool) : (b2n b != 0) = b := by cases b <;> rfl

theorem UserOp.body_roundtrip (u : UserOp) (r : Bytes) (h : u.WF) :
    UserOp.decodeBody u.msgType (u.body ++ r) = .ok (u, r) := by
  cases u with
  | origId a b =>
    simp only [UserOp.decodeBody, UserOp.msgType, UserOp.body, bind, Except.bind,
      decIdPair_encIdPair a b r h.1 h.2, pure, Except.pure]
  | proxyPut d s t =>
    obtain ⟨hd, ⟨s1, s2⟩, ⟨t1, t2⟩⟩ := h
    simp only [UserOp.decodeBody, UserOp.msgType, UserOp.body, List.append_assoc, bind, Except.bind,
      readIdLV_encIdLV d _ hd, readName_encLV _ _ s1 s2, readName_encLV _ _ t1 t2, pure, Except.pure]
  | proxyMsg m =>
    simp only [UserOp.decodeBody, UserOp.msgType, UserOp.body, bind, Except.bind, readLV_encLV _ _ h, pure, Except.pure]
  | proxyFsReq q =>
    simp only [UserOp.decodeBody, UserOp.msgType, UserOp.body, List.cons_append, readU8_cons, bind, Except.bind,
      FsRequest.roundtrip q r h, pure, Except.pure]
  | proxyFho c =>
    have hlt : c.toNat < 256 := by have := c.toNat_le; omega
    simp only [UserOp.decodeBody, UserOp.msgType, UserOp.body, decHandler, List.cons_append, List.nil_append,
      readU8_cons, bind, Except.bind, toNat_ofNat_lt hlt, HandlerCode.ofNat?_toNat, Option.elim, pure, Except.pure]
  | proxyMode m =>
    have hlt : m.toNat < 256 := by have := m.toNat_le; omega
    simp only [UserOp.decodeBody, UserOp.msgType, UserOp.body, List.cons_append, List.nil_append,
      readU8_cons, bind, Except.bind, toNat_ofNat_lt hlt, TransmissionMode.ofNat?_toNat, Option.elim, pure, Except.pure]
  | proxyFlow v =>
    simp only [UserOp.decodeBody, UserOp.msgType, UserOp.body, bind, Except.bind, readLV_encLV _ _ h, pure, Except.pure]
  | proxySegCtrl c =>
    have hlt : c.toNat < 256 := by have := c.toNat_le; omega
    simp only [UserOp.decodeBody, UserOp.msgType, UserOp.body, List.cons_append, List.nil_append,
      readU8_cons, bind, Except.bind, toNat_ofNat_lt hlt, SegmentationControl.ofNat?_toNat, Option.elim, pure, Except.pure]
  | proxyPutCancel => rfl
  | respProxyPut c d f =>
    have hc := c.toNat_le
    have hd := d.toNat_le
    have hf := f.toNat_le
    have hlt : c.toNat * 16 + d.toNat * 4 + f.toNat < 256 := by omega
    have e1 : (c.toNat * 16 + d.toNat * 4 + f.toNat) / 16 = c.toNat := by omega
    have e2 : (c.toNat * 16 + d.toNat * 4 + f.toNat) / 4 % 2 = d.toNat := by omega
    have e3 : (c.toNat * 16 + d.toNat * 4 + f.toNat) % 4 = f.toNat := by omega
    simp only [UserOp.decodeBody, UserOp.msgType, UserOp.body, List.cons_append, List.nil_append,
      readU8_cons, bind, Except.bind, toNat_ofNat_lt hlt, e1, e2, e3, Condition.ofNat?_toNat,
      DeliveryCode.ofNat?_toNat, FileStatusCode.ofNat?_toNat, Option.elim, pure, Except.pure]
  | respFs p =>
    simp only [UserOp.decodeBody, UserOp.msgType, UserOp.body, List.cons_append, readU8_cons, bind, Except.bind,
      FsResponse.roundtrip p r h, pure, Except.pure]
  | respListing c d f =>
    obtain ⟨⟨d1, d2⟩, ⟨f1, f2⟩⟩ := h
    have hlt : c.toNat < 256 := by have := c.toNat_le; omega
    simp only [UserOp.decodeBody, UserOp.msgType, UserOp.body, List.cons_append, List.append_assoc,
      readU8_cons, bind, Except.bind, toNat_ofNat_lt hlt, ListingResponseCode.ofNat?_toNat, Option.elim,
      readName_encLV _ _ d1 d2, readName_encLV _ _ f1 f2, pure, Except.pure]
  | respStatus st code a b =>
    have hs := st.toNat_le
    have hb := b2n_le code
    have hlt : st.toNat * 64 + b2n code < 256 := by omega
    have e1 : (st.toNat * 64 + b2n code) / 64 = st.toNat := by omega
    have e2 : ((st.toNat * 64 + b2n code) % 2 != 0) = code := by
      have : (st.toNat * 64 + b2n code) % 2 = b2n code := by omega
      rw [this]; exact b2n_ne code
    simp only [UserOp.decodeBody, UserOp.msgType, UserOp.body, List.cons_append,
      readU8_cons, bind, Except.bind, toNat_ofNat_lt hlt, e1, e2, TransactionStatus.ofNat?_toNat, Option.elim,
      decIdPair_encIdPair a b r h.1 h.2, pure, Except.pure]
  | respSuspend su st a b =>
    have hs := st.toNat_le
    have hb := b2n_le su
    have hlt : b2n su * 128 + st.toNat * 32 < 256 := by omega
    have e1 : (b2n su * 128 + st.toNat * 32) / 32 % 4 = st.toNat := by omega
    have e2 : ((b2n su * 128 + st.toNat * 32) / 128 != 0) = su := by
      have : (b2n su * 128 + st.toNat * 32) / 128 = b2n su := by omega
      rw [this]; exact b2n_ne su
    simp only [UserOp.decodeBody, UserOp.msgType, UserOp.body, decSuspResp, List.cons_append,
      readU8_cons, bind, Except.bind, toNat_ofNat_lt hlt, e1, e2, TransactionStatus.ofNat?_toNat, Option.elim,
      decIdPair_encIdPair a b r h.1 h.2, pure, Except.pure]
  | respResume su st a b =>
    have hs := st.toNat_le
    have hb := b2n_le su
    have hlt : b2n su * 128 + st.toNat * 32 < 256 := by omega
    have e1 : (b2n su * 128 + st.toNat * 32) / 32 % 4 = st.toNat := by omega
    have e2 : ((b2n su * 128 + st.toNat * 32) / 128 != 0) = su := by
      have : (b2n su * 128 + st.toNat * 32) / 128 = b2n su := by omega
      rw [this]; exact b2n_ne su
    simp only [UserOp.decodeBody, UserOp.msgType, UserOp.body, decSuspResp, List.cons_append,
      readU8_cons, bind, Except.bind, toNat_ofNat_lt hlt, e1, e2, TransactionStatus.ofNat?_toNat, Option.elim,
      decIdPair_encIdPair a b r h.1 h.2, pure, Except.pure]
  | reqListing d f =>
    obtain ⟨⟨d1, d2⟩, ⟨f1, f2⟩⟩ := h
    simp only [UserOp.decodeBody, UserOp.msgType, UserOp.body, List.append_assoc, bind, Except.bind,
      readName_encLV _ _ d1 d2, readName_encLV _ _ f1 f2, pure, Except.pure]
  | reqStatus a b f =>
    obtain ⟨ha, hb, ⟨f1, f2⟩⟩ := h
    simp only [UserOp.decodeBody, UserOp.msgType, UserOp.body, List.append_assoc, bind, Except.bind,
      decIdPair_encIdPair a b _ ha hb, readName_encLV _ _ f1 f2, pure, Except.pure]
  | reqSuspend a b =>
    simp only [UserOp.decodeBody, UserOp.msgType, UserOp.body, bind, Except.bind,
      decIdPair_encIdPair a b r h.1 h.2, pure, Except.pure]
  | reqResume a b =>
    simp only [UserOp.decodeBody, UserOp.msgType, UserOp.body, bind, Except.bind,
      decIdPair_encIdPair a b r h.1 h.2, pure, Except.pure]
  | sfoRequest tr m sg cl wp label a d s t =>
    obtain ⟨hwp, hl, ha, hd, ⟨s1, s2⟩, ⟨t1, t2⟩⟩ := h
    have h1 := tr.toNat_le
    have h2 := m.toNat_le
    have h3 := sg.toNat_le
    have h4 := b2n_le cl
    have hlt : tr.toNat * 64 + m.toNat * 32 + sg.toNat * 16 + b2n cl * 8 < 256 := by omega
    have e1 : (tr.toNat * 64 + m.toNat * 32 + sg.toNat * 16 + b2n cl * 8) / 64 = tr.toNat := by omega
    have e2 : (tr.toNat * 64 + m.toNat * 32 + sg.toNat * 16 + b2n cl * 8) / 32 % 2 = m.toNat := by omega
    have e3 : (tr.toNat * 64 + m.toNat * 32 + sg.toNat * 16 + b2n cl * 8) / 16 % 2 = sg.toNat := by omega
    have e4 : ((tr.toNat * 64 + m.toNat * 32 + sg.toNat * 16 + b2n cl * 8) / 8 % 2 != 0) = cl := by
      have : (tr.toNat * 64 + m.toNat * 32 + sg.toNat * 16 + b2n cl * 8) / 8 % 2 = b2n cl := by omega
      rw [this]; exact b2n_ne cl
    simp only [UserOp.decodeBody, UserOp.msgType, UserOp.body, List.cons_append, List.append_assoc,
      readU8_cons, bind, Except.bind, toNat_ofNat_lt hlt, toNat_ofNat_lt hwp, e1, e2, e3, e4,
      TraceControl.ofNat?_toNat, TransmissionMode.ofNat?_toNat, SegmentationControl.ofNat?_toNat, Option.elim,
      readLV_encLV _ _ hl, readIdLV_encIdLV a _ ha, readIdLV_encIdLV d _ hd,
      readName_encLV _ _ s1 s2, readName_encLV _ _ t1 t2, pure, Except.pure]
  | sfoMsg m =>
    simp only [UserOp.decodeBody, UserOp.msgType, UserOp.body, bind, Except.bind, readLV_encLV _ _ h, pure, Except.pure]
  | sfoFlow v =>
    simp only [UserOp.decodeBody, UserOp.msgType, UserOp.body, bind, Except.bind, readLV_encLV _ _ h, pure, Except.pure]
  | sfoFho c =>
    have hlt : c.toNat < 256 := by have := c.toNat_le; omega
    simp only [UserOp.decodeBody, UserOp.msgType, UserOp.body, decHandler, List.cons_append, List.nil_append,
      readU8_cons, bind, Except.bind, toNat_ofNat_lt hlt, HandlerCode.ofNat?_toNat, Option.elim, pure, Except.pure]
  | sfoFsReq q =>
    simp only [UserOp.decodeBody, UserOp.msgType, UserOp.body, List.cons_append, readU8_cons, bind, Except.bind,
      FsRequest.roundtrip q r h, pure, Except.pure]
  | sfoFsResp p =>
    simp only [UserOp.decodeBody, UserOp.msgType, UserOp.body, List.cons_append, readU8_cons, bind, Except.bind,
      FsResponse.roundtrip p r h, pure, Except.pure]
  | sfoReport label a d rp wp code c dir dc fs =>
    obtain ⟨hl, ha, hd, hr, hwp, hcode⟩ := h
    have h1 := c.toNat_le
    have h2 := dir.toNat_le
    have h3 := dc.toNat_le
    have h4 := fs.toNat_le
    have hlt : c.toNat * 16 + dir.toNat * 8 + dc.toNat * 4 + fs.toNat < 256 := by omega
    have e1 : (c.toNat * 16 + dir.toNat * 8 + dc.toNat * 4 + fs.toNat) / 16 = c.toNat := by omega
    have e2 : (c.toNat * 16 + dir.toNat * 8 + dc.toNat * 4 + fs.toNat) / 8 % 2 = dir.toNat := by omega
    have e3 : (c.toNat * 16 + dir.toNat * 8 + dc.toNat * 4 + fs.toNat) / 4 % 2 = dc.toNat := by omega
    have e4 : (c.toNat * 16 + dir.toNat * 8 + dc.toNat * 4 + fs.toNat) % 4 = fs.toNat := by omega
    simp only [UserOp.decodeBody, UserOp.msgType, UserOp.body, List.cons_append, List.append_assoc, List.nil_append,
      readU8_cons, bind, Except.bind, toNat_ofNat_lt hlt, toNat_ofNat_lt hwp, toNat_ofNat_lt hcode, e1, e2, e3, e4,
      Condition.ofNat?_toNat, Direction.ofNat?_toNat, DeliveryCode.ofNat?_toNat, FileStatusCode.ofNat?_toNat,
      Option.elim, readLV_encLV _ _ hl, readIdLV_encIdLV a _ ha, readIdLV_encIdLV d _ hd, readIdLV_encIdLV rp _ hr,
      pure, Except.pure]

/-- **C05 (reserved CFDP messages).**  Every well-formed user operation — all 26 message kinds of
`user_ops.rs`: proxy put / message / filestore request / fault-handler override / transmission
mode / flow label / segmentation control / put cancel and their responses, directory listing,
remote status report, remote suspend and resume (requests and responses), originating transaction
id, and the store-and-forward overlay request, report and carried items — decodes from its own
encoding, in front of any following bytes, to the same value. -/
theorem C05_userop (u : UserOp) (r : Bytes) (h : u.WF) : UserOp.decode (u.encode ++ r) = .ok (u, r) := by
  rw [UserOp.decode_encode_head]; exact UserOp.body_roundtrip u r h

theorem encIdPair_length (a b : VarId) : (encIdPair a b).length = 1 + a.width + b.width := by
  simp [encIdPair, VarId.toBe]; omega
theorem encIdLV_length (i : VarId) : (encIdLV i).length = 1 + i.width := by
  simp [encIdLV, VarId.toBe]; omega

/-- **C05 (reserved CFDP messages, length).**  `encoded_len` is the number of octets `encode` produces. -/
theorem C05_userop_len (u : UserOp) : u.encode.length = u.len := by
  cases u <;>
    simp only [UserOp.encode, UserOp.len, UserOp.body, userOpsId, List.length_append, List.length_cons, List.length_nil,
      encIdPair_length, encIdLV_length, encLV_length, FsRequest.encode_length, FsResponse.encode_length] <;> omega

def Report.WF (p : Report) : Prop := p.src.WF ∧ p.seq.WF

/-- **C05 (status report).**  A status report decodes from its encoding to the same value. -/
theorem C05_report (p : Report) (r : Bytes) (h : p.WF) : Report.decode (p.encode ++ r) = .ok (p, r) := by
  obtain ⟨src, seq, state, status, cond⟩ := p
  obtain ⟨h1, h2⟩ := h
  have a1 : state.toNat < 256 := by have := state.toNat_le; omega
  have a2 : status.toNat < 256 := by have := status.toNat_le; omega
  have a3 : cond.toNat < 256 := by have := cond.toNat_le; omega
  simp only [Report.decode, Report.encode, List.append_assoc, bind, Except.bind, VarId.roundtrip src _ h1,
    VarId.roundtrip seq _ h2, List.cons_append, List.nil_append, readU8_cons, toNat_ofNat_lt a1, toNat_ofNat_lt a2,
    toNat_ofNat_lt a3, TransactionState.ofNat?_toNat, TransactionStatus.ofNat?_toNat, Condition.ofNat?_toNat,
    Option.elim, pure, Except.pure]

/-- non-vacuity: a remote status report request with ids of different widths -/
example : (UserOp.reqStatus ⟨1, 7⟩ ⟨2, 300⟩ [97, 46, 116]).WF := by
  refine ⟨⟨Or.inl rfl, (by decide)⟩, ⟨Or.inr (Or.inl rfl), (by decide)⟩, (by decide), (by decide)⟩
example : UserOp.decode (UserOp.reqStatus ⟨1, 7⟩ ⟨2, 300⟩ [97, 46, 116]).encode
    = .ok (UserOp.reqStatus ⟨1, 7⟩ ⟨2, 300⟩ [97, 46, 116], []) := by rfl

end Cfdp.Codec

#print axioms Cfdp.Codec.C05_userop
#print axioms Cfdp.Codec.C05_userop_len
#print axioms Cfdp.Codec.C05_report
#print axioms Cfdp.Codec.C05_pdu
#print axioms Cfdp.Codec.C05_len
#print axioms Cfdp.Codec.C05_header
#print axioms Cfdp.Codec.C05_id
#print axioms Cfdp.Codec.C05_tlv
#print axioms Cfdp.Codec.C05_fsRequest
#print axioms Cfdp.Codec.C05_fsResponse
#print axioms Cfdp.Codec.C05_payload
#print axioms Cfdp.Codec.C05_enum_tables
