import Cfdp.Props.C10s
import Cfdp.Props.C18s
set_option linter.unusedSimpArgs false

/-! # C18: from the EOF into the closure handshake

`C18_closure_finished_repeated` / `C18_closure_lost_finisheds` (Props/C18l.lean) start from an unacknowledged receiver that has
transmitted its closure Finished PDU.  This file shows how it gets there: the truthful EOF arriving at an
unacknowledged receiver whose Metadata asked for closure and that holds the whole file finalises the delivery and
makes the Finished PDU due (`unackFinish_success`, `closure_eof_state`); the transmission that follows puts the
receiver in the starting state of the retransmission loop (`closure_enters_wait`). -/
namespace Cfdp.Recv
open Cfdp.Codec Cfdp.Gen Cfdp.Timer

/-- `unack_finish` on a complete file whose Metadata asked for closure: the delivery is recorded NoError / Complete, the
Finished PDU saying so is due, the transaction stays active and its timers and queues are untouched -/
theorem unackFinish_success (src : Bytes) (s : State) (now : Nat) (m : Meta)
    (hcond : s.condition = .NoError) (hmd : s.md = some m) (hcl : m.closure = true)
    (hft : m.srcName.isEmpty = false) (hn : s.fileSize = some src.length)
    (hck : s.checksum = some (fileChecksum m.cksumType src)) (hd : DataOk src s)
    (hc : Seg.isComplete s.segs src.length = true)
    (hfs : (s.fs.writeFile (Fs.relOf m.dstName) src).isSome = true) :
    (unackFinish s now).recvState = .Finished ∧ (unackFinish s now).state = s.state ∧
    (unackFinish s now).condition = .NoError ∧ (unackFinish s now).cfg = s.cfg ∧
    (unackFinish s now).timer = s.timer ∧ (unackFinish s now).prompt = s.prompt ∧ (unackFinish s now).ack = s.ack ∧
    (unackFinish s now).delayed = s.delayed ∧
    (∃ f, (unackFinish s now).finished = some (f, true) ∧ f.cond = .NoError ∧ f.delivery = .Complete) := by
  have hsrc : s.tempFile.getD [] = src := dataOk_complete hd hc
  have hnn : hasNaks s = false := by
    simp only [hasNaks, hmd, hn, hc, Option.isNone_some, Bool.not_true, Bool.or_self]
  have hift : isFileTransfer s = true := by simp [isFileTransfer, hmd, hft]
  obtain ⟨fs', hfs'⟩ := Option.isSome_iff_exists.mp hfs
  have hA : isFileTransfer { s with delivery := DeliveryCode.Complete } = true := hift
  have hv : verifyStage { s with delivery := DeliveryCode.Complete } now
      = ({ s with delivery := DeliveryCode.Complete, tempFile := some src }, true) := by
    simp only [verifyStage, hck, hmd, hsrc, Option.getD_some, beq_self_eq_true, Bool.not_true, Bool.false_eq_true, if_false]
  have hcp : copyStage { s with delivery := DeliveryCode.Complete, tempFile := some src }
      = ({ s with delivery := DeliveryCode.Complete, tempFile := none, fs := fs', fileStatus := .Retained }, true) := by
    simp only [copyStage, finalizeFile, hmd, Option.getD_some, hfs', if_true]
  have hfp : finalizeFilePart { s with delivery := DeliveryCode.Complete } now
      = ({ s with delivery := DeliveryCode.Complete, tempFile := none, fs := fs', fileStatus := .Retained }, true) := by
    simp only [finalizeFilePart, hA, if_true, hv, Bool.not_true, Bool.false_eq_true, if_false, hcp]
  have hdc : (if s.md.isNone || (isFileTransfer s && hasNaks s) then DeliveryCode.Incomplete else DeliveryCode.Complete)
      = DeliveryCode.Complete := by simp [hmd, hnn]
  have hne : (FileStatusCode.Retained == FileStatusCode.FileStoreRejection) = false := by decide
  simp only [unackFinish, finalizeReceive, hdc, hfp, Bool.not_true, Bool.false_eq_true, if_false, hne,
    prepareFinished, emit]
  simp only [closureRequested, hmd, hcl, if_true, hcond, beq_self_eq_true]
  refine ⟨?_, ?_, ?_, ?_, ?_, ?_, ?_, ?_, ⟨_, rfl, ?_, ?_⟩⟩ <;> first | rfl | trivial | exact hcond

end Cfdp.Recv

namespace Cfdp.Loop
open Cfdp.Codec Cfdp.Gen Cfdp.Timer Cfdp.Recv Cfdp.Send

/-- **the EOF completes an unacknowledged delivery with closure.**  An unacknowledged receiver whose Metadata asked for
closure and that holds every byte of the file gets the truthful EOF: the delivery is recorded NoError / Complete, the
closure Finished PDU is due, the receiver stays active with nothing else pending, the inactivity counter starts again. -/
theorem closure_eof_state {mx Ta Ti Tn : Nat} (src : Bytes) (m : Recv.Meta) (fs0 : Fs.FS) (r : Recv.State) (t : Nat)
    (p : Pdu) (e : Eof)
    (hmode : r.cfg.mode = .Unacknowledged) (hact : r.state = .Active) (hrd : r.recvState = .ReceiveData)
    (hmd : r.md = some m) (hcl : m.closure = true) (hft : m.srcName.isEmpty = false) (hdata : DataOk src r)
    (hcomp : Seg.isComplete r.segs src.length = true) (hfs : r.fs = fs0)
    (hfsw : (fs0.writeFile (Fs.relOf m.dstName) src).isSome = true)
    (hpr : r.prompt = none) (hack : r.ack = none) (hdel : r.delayed = []) (hrt : RT mx Ta Ti Tn r.timer)
    (hp : p.payload = .eof e) (he1 : e.cond = .NoError) (he2 : e.fileSize = src.length)
    (he3 : e.checksum = fileChecksum m.cksumType src) :
    (recvStep r t (.pdu p)).state = .Active ∧ (recvStep r t (.pdu p)).recvState = .Finished ∧
    (recvStep r t (.pdu p)).cfg = r.cfg ∧ (recvStep r t (.pdu p)).condition = .NoError ∧
    (recvStep r t (.pdu p)).prompt = none ∧ (recvStep r t (.pdu p)).ack = none ∧ (recvStep r t (.pdu p)).delayed = [] ∧
    (∃ f, (recvStep r t (.pdu p)).finished = some (f, true) ∧ f.cond = .NoError ∧ f.delivery = .Complete) ∧
    RT mx Ta Ti Tn (recvStep r t (.pdu p)).timer ∧ (recvStep r t (.pdu p)).timer.ack = r.timer.ack ∧
    (recvStep r t (.pdu p)).timer.inactivity = r.timer.inactivity.reset t := by
  have hrt2 := rt_recvStep hrt t (.pdu p)
  have hnt : ((clrR r).state == TransactionState.Terminated) = false := by
    show (r.state == TransactionState.Terminated) = false; rw [hact]; rfl
  generalize hq : pduArrived (clrR r) t = q
  have q1 : q.cfg = r.cfg := by rw [← hq, cfg_pduArrived]; rfl
  have q2 : q.segs = r.segs := by rw [← hq, segs_pduArrived]; rfl
  have q3 : q.tempFile = r.tempFile := by rw [← hq, tempFile_pduArrived]; rfl
  have hmq : q.cfg.mode = .Unacknowledged := by rw [q1]; exact hmode
  have e0 : recvStep r t (.pdu p) = unackEof q e t := by
    rw [recvStep_eq]
    simp only [hnt, Bool.false_eq_true, if_false, Recv.processPdu, hq, Recv.processPduBody, hmq, hp]
  generalize hy : emit { q with condition := e.cond, checksum := some e.checksum } .eofRecv = y
  have y1 : y.recvState = .ReceiveData := by rw [← hy, ← hq]; exact hrd
  have y2 : y.md = some m := by rw [← hy, ← hq]; exact hmd
  have y4 : y.checksum = some (fileChecksum m.cksumType src) := by rw [← hy, ← he3]; rfl
  have y5 : y.condition = .NoError := by rw [← hy, ← he1]; rfl
  have y8 : y.fs = fs0 := by rw [← hy, ← hq]; exact hfs
  have y9 : DataOk src y := by rw [← hy]; exact dataOk_frame (dataOk_frame hdata q2 q3) rfl rfl
  have ysegs : y.segs = r.segs := by rw [← hy]; exact q2
  have hcs : checkFileSize y e.fileSize t = y := by rw [he2]; exact C02_size_check_passes src y t y9
  have hne : (y.recvState != RecvState.ReceiveData) = false := by rw [y1]; rfl
  have hcb : (y.condition == Condition.NoError) = true := by rw [y5]; rfl
  have e1 : unackEof q e t = unackComplete { y with fileSize := some e.fileSize } t := by
    simp only [unackEof, hy, hne, Bool.false_eq_true, if_false, hcb, if_true, unackEofNoError, hcs]
  generalize hz : ({ y with fileSize := some e.fileSize } : Recv.State) = z at e1
  have z2 : z.md = some m := by rw [← hz]; exact y2
  have z3 : z.fileSize = some src.length := by rw [← hz, ← he2]
  have z4 : z.checksum = some (fileChecksum m.cksumType src) := by rw [← hz]; exact y4
  have z5 : z.condition = .NoError := by rw [← hz]; exact y5
  have z9 : DataOk src z := by rw [← hz]; exact dataOk_frame y9 rfl rfl
  have zc : Seg.isComplete z.segs src.length = true := by rw [← hz]; show Seg.isComplete y.segs _ = true; rw [ysegs]; exact hcomp
  have zfs : (z.fs.writeFile (Fs.relOf m.dstName) src).isSome = true := by rw [← hz]; show (y.fs.writeFile _ _).isSome = true; rw [y8]; exact hfsw
  have hnn : hasNaks z = false := by
    simp only [hasNaks, z2, z3, zc, Option.isNone_some, Bool.not_true, Bool.or_self]
  have e2 : unackComplete z t = unackFinish z t := by
    simp only [unackComplete, unackCheckMissing, z2, Option.isNone_some, hnn, Bool.and_false, Bool.or_self, Bool.false_eq_true,
      if_false, Bool.not_true]
  obtain ⟨u1, u2, u3, u4, u5, u6, u7, u8, u9⟩ := Recv.unackFinish_success src z t m z5 z2 hcl hft z3 z4 z9 zc zfs
  rw [e0, e1, e2] at hrt2 ⊢
  refine ⟨?_, u1, ?_, u3, ?_, ?_, ?_, u9, hrt2, ?_, ?_⟩
  · rw [u2, ← hz, ← hy, ← hq]; exact hact
  · rw [u4, ← hz, ← hy]; exact q1
  · rw [u6, ← hz, ← hy, ← hq]; exact hpr
  · rw [u7, ← hz, ← hy, ← hq]; exact hack
  · rw [u8, ← hz, ← hy, ← hq]; exact hdel
  · rw [u5, ← hz, ← hy, ← hq]; rfl
  · rw [u5, ← hz, ← hy, ← hq]; rfl

/-- **the EOF enters the closure handshake**: after the transmission that follows, the receiver repeats its closure
Finished PDU from the starting state of the retransmission loop (`WFU`) -/
theorem closure_enters_wait {mx Ta Ti Tn : Nat} (src : Bytes) (m : Recv.Meta) (fs0 : Fs.FS) (r : Recv.State) (t t' j : Nat)
    (p : Pdu) (e : Eof)
    (hmode : r.cfg.mode = .Unacknowledged) (hact : r.state = .Active) (hrd : r.recvState = .ReceiveData)
    (hmd : r.md = some m) (hcl : m.closure = true) (hft : m.srcName.isEmpty = false) (hdata : DataOk src r)
    (hcomp : Seg.isComplete r.segs src.length = true) (hfs : r.fs = fs0)
    (hfsw : (fs0.writeFile (Fs.relOf m.dstName) src).isSome = true)
    (hpr : r.prompt = none) (hack : r.ack = none) (hdel : r.delayed = []) (hrt : RT mx Ta Ti Tn r.timer)
    (hp : p.payload = .eof e) (he1 : e.cond = .NoError) (he2 : e.fileSize = src.length)
    (he3 : e.checksum = fileChecksum m.cksumType src) (hj : (r.timer.ack.update t').count ≤ j) :
    ∃ f, f.cond = .NoError ∧ f.delivery = .Complete ∧
      (∃ hd, (recvStep (recvStep r t (.pdu p)) t' .send).sent = some ⟨hd, .finished f⟩) ∧
      WFU f (recvStep (recvStep r t (.pdu p)) t' .send) ∧
      RT mx Ta Ti Tn (recvStep (recvStep r t (.pdu p)) t' .send).timer ∧
      AB t' j (recvStep (recvStep r t (.pdu p)) t' .send).timer.ack ∧
      IB Ti t (max t t') (recvStep (recvStep r t (.pdu p)) t' .send).timer.inactivity := by
  obtain ⟨c1, c2, c3, _, c5, c6, c7, ⟨f, c8, c9, c10⟩, c11, c12, c13⟩ :=
    closure_eof_state src m fs0 r t p e hmode hact hrd hmd hcl hft hdata hcomp hfs hfsw hpr hack hdel hrt hp he1 he2 he3
  generalize hx : recvStep r t (.pdu p) = x at c1 c2 c3 c5 c6 c7 c8 c11 c12 c13
  have hnt : ((clrR x).state == TransactionState.Terminated) = false := by
    show (x.state == TransactionState.Terminated) = false; rw [c1]; rfl
  have hns : ((clrR x).state == TransactionState.Suspended) = false := by
    show (x.state == TransactionState.Suspended) = false; rw [c1]; rfl
  have j1 : (clrR x).recvState = .Finished := c2
  have j2 : (clrR x).prompt = none := c5
  have j3 : (clrR x).ack = none := c6
  have j4 : (clrR x).finished = some (f, true) := c8
  have hhas : Recv.hasPduToSend (clrR x) = true := by
    simp only [Recv.hasPduToSend, hns, Bool.false_eq_true, if_false, j1, j4]
  have e2 : recvStep x t' .send = Recv.sendFinished (clrR x) t' := by
    rw [recvStep_eq]
    simp only [hnt, Bool.false_eq_true, if_false, hhas, if_true, Recv.sendPdu, j2, Option.isSome_none, j1, j3, j4]
  have hsend : (Recv.sendFinished (clrR x) t') = Recv.setFinishedFlag (Recv.sendPayload
      { clrR x with timer := { (clrR x).timer with ack := (clrR x).timer.ack.restart t' } } (.finished f)) false := by
    simp only [Recv.sendFinished, j4]
  have hfl : (Recv.sendFinished (clrR x) t').finished = some (f, false) := by
    rw [hsend]; simp only [Recv.setFinishedFlag, Recv.finished_sendPayload, j4]
  have htm : (Recv.sendFinished (clrR x) t').timer = { (clrR x).timer with ack := (clrR x).timer.ack.restart t' } := by
    rw [hsend]; simp only [Recv.setFinishedFlag, Recv.finished_sendPayload, j4, Recv.timer_sendPayload]
  have hrt2 := rt_recvStep c11 t' .send
  rw [e2] at hrt2 ⊢
  refine ⟨f, c9, c10, ?_, ⟨?_, ?_, ?_, ?_, ?_, hfl, ?_⟩, hrt2, ⟨?_, ?_, ?_⟩, ?_⟩
  · rw [hsend]; simp only [Recv.setFinishedFlag, Recv.finished_sendPayload, j4]; exact ⟨_, rfl⟩
  · rw [Recv.state_sendFinished]; exact c1
  · rw [Recv.cfg_sendFinished]; show x.cfg.mode = _; rw [c3]; exact hmode
  · rw [Recv.recvState_sendFinished]; exact c2
  · rw [Recv.prompt_sendFinished]; exact c5
  · rw [Recv.ack_sendFinished]; exact c6
  · rw [Recv.delayed_sendFinished]; exact c7
  · rw [htm]; rfl
  · rw [htm]; rfl
  · rw [htm]
    show (x.timer.ack.restart t').count ≤ j
    rw [c12]; exact hj
  · rw [htm]
    show IB Ti t (max t t') x.timer.inactivity
    rw [c13]
    exact ⟨by show 0 * Ti ≤ t - t; omega, Nat.le_refl _, Nat.le_max_left _ _⟩

/-- **C18 (closure works, from the EOF on, under repeated loss).**  An unacknowledged receiver whose Metadata asked for
closure holds the whole file and gets the truthful EOF at `t`; its closure Finished PDU goes out at `t'` and is lost,
and so are its retransmissions - as long as the expiries of the positive-ACK timer stay below the limit and within the
inactivity limit (`FairT` counted from `t'`), each is followed by a retransmission, and whichever of them reaches the
sender (unacknowledged mode, closure requested, waiting after its EOF) ends it and its user is told NoError / Complete. -/
theorem C18_closure_from_eof {mx Ta Ti Tn : Nat} (s : Send.State) (src : Bytes) (m : Recv.Meta) (fs0 : Fs.FS) (r : Recv.State)
    (t t' j t1 : Nat) (p : Pdu) (e : Eof) (ts : List Nat)
    (hsm : s.cfg.mode = .Unacknowledged) (hsc : s.md.closure = true)
    (hmode : r.cfg.mode = .Unacknowledged) (hact : r.state = .Active) (hrd : r.recvState = .ReceiveData)
    (hmd : r.md = some m) (hcl : m.closure = true) (hft : m.srcName.isEmpty = false) (hdata : DataOk src r)
    (hcomp : Seg.isComplete r.segs src.length = true) (hfs : r.fs = fs0)
    (hfsw : (fs0.writeFile (Fs.relOf m.dstName) src).isSome = true)
    (hpr : r.prompt = none) (hack : r.ack = none) (hdel : r.delayed = []) (hrt : RT mx Ta Ti Tn r.timer)
    (hp : p.payload = .eof e) (he1 : e.cond = .NoError) (he2 : e.fileSize = src.length)
    (he3 : e.checksum = fileChecksum m.cksumType src) (hj : (r.timer.ack.update t').count ≤ j)
    (hf : FairT mx Ta Ti t' j t ts) :
    (finRounds (recvStep (recvStep r t (.pdu p)) t' .send) ts).2.length = ts.length ∧
    ∀ pf ∈ (finRounds (recvStep (recvStep r t (.pdu p)) t' .send) ts).2,
      (Send.processPdu s pf t1).1.state = .Terminated ∧
      ∃ rs, (Send.processPdu s pf t1).1.out = s.out ++ [Send.Ind.finished .NoError .Complete s.fileStatus s.state s.status rs] := by
  obtain ⟨f, f1, f2, _, k1, k2, k3, k4⟩ := closure_enters_wait src m fs0 r t t' j p e hmode hact hrd hmd hcl hft hdata hcomp
    hfs hfsw hpr hack hdel hrt hp he1 he2 he3 hj
  obtain ⟨c1, c2⟩ := C18_closure_lost_finisheds s _ ts t' j t t1 f hsm hsc k1 k2 k3 k4 hf
  refine ⟨c1, fun pf hpf => ?_⟩
  obtain ⟨q1, q2⟩ := c2 pf hpf
  exact ⟨q1, f.responses, by rw [q2, f1, f2]⟩

/-! ### the premises are satisfiable -/

/-- the unacknowledged receiver of `exRU` before the EOF: the Metadata (asking for closure) and both segments are in -/
def exRU0 : Recv.State :=
  (recvRun (Recv.new cfgU [([], .dir)] 0) [(0, .pdu mdC), (0, .pdu exOut[1]!), (0, .pdu exOut[2]!)]).1
/-- an unacknowledged sender that asked for closure, after Metadata, both segments and the EOF -/
def exSU : Send.State :=
  (sendRun (Send.new { Send.exCfg with mode := .Unacknowledged } { Send.exMd with closure := true } Send.exFile 0)
    [(0, .send), (0, .send), (0, .send), (0, .send)]).1

example : (finRounds (recvStep (recvStep exRU0 5 (.pdu exOut[3]!)) 6 .send) [1000000006, 2000000100]).2.length = 2 ∧
    ∀ pf ∈ (finRounds (recvStep (recvStep exRU0 5 (.pdu exOut[3]!)) 6 .send) [1000000006, 2000000100]).2,
      (Send.processPdu exSU pf 2000000200).1.state = .Terminated := by
  have hmd : exRU0.md = some { srcName := [115], dstName := [100], fileSize := 6, closure := true, cksumType := .Null, requests := [] } := by
    rfl
  have hsegs : exRU0.segs = [(0, 6)] := by decide
  have htmp : exRU0.tempFile = some [1, 2, 3, 4, 5, 6] := by decide
  have hri : RI cfgU.max (cfgU.ta * 1000000000) (cfgU.ti * 1000000000) (cfgU.tn * 1000000000) exRU0 :=
    ri_run _ _ (ri_new cfgU [([], .dir)] 0 (by decide) (by decide) (by decide) ⟨by decide, by decide, by decide⟩)
  have hdata : DataOk Send.exFile exRU0 := by
    refine ⟨?_, ?_, ?_, ?_⟩
    · rw [hsegs]; exact ⟨fun sg hsg => by simp at hsg; subst hsg; decide, by simp⟩
    · rw [hsegs]; intro sg hsg; simp at hsg; subst hsg; decide
    · rw [htmp]; decide
    · rw [hsegs, htmp]
      intro x hx
      obtain ⟨sg, hsg, h1, h2⟩ := hx
      simp at hsg; subst hsg
      have : x = 0 ∨ x = 1 ∨ x = 2 ∨ x = 3 ∨ x = 4 ∨ x = 5 := by simp only at h1 h2; omega
      rcases this with rfl | rfl | rfl | rfl | rfl | rfl <;> rfl
  have he : ∃ e, (exOut[3]!).payload = .eof e ∧ e.cond = .NoError ∧ e.fileSize = 6 ∧ e.checksum = 0 := ⟨_, rfl, rfl, rfl, rfl⟩
  obtain ⟨e, hp, he1, he2, he3⟩ := he
  obtain ⟨c1, c2⟩ := C18_closure_from_eof (mx := 4) (Ta := 1000000000) (Ti := 3000000000) (Tn := 1000000000) exSU Send.exFile _
    exRU0.fs exRU0 5 6 0 2000000200 exOut[3]! e [1000000006, 2000000100] (by decide) (by decide)
    (by decide) (by decide) (by decide) hmd rfl (by decide) hdata (by decide) rfl (by decide) (by decide) (by decide) (by decide)
    hri.inv.rt hp he1 he2 (by rw [he3]; rfl) (by decide)
    ⟨by decide, by decide, by decide, by decide, by decide, by decide, by decide, by decide, by decide, by decide, trivial⟩
  exact ⟨c1, fun pf hpf => (c2 pf hpf).1⟩

end Cfdp.Loop

#print axioms Cfdp.Loop.C18_closure_from_eof
#print axioms Cfdp.Loop.C18_recv_oneway
#print axioms Cfdp.Loop.C18_recv_silent_without_closure
#print axioms Cfdp.Loop.C18_complete_means_complete
#print axioms Cfdp.Send.C18_send_ends_on_eof
#print axioms Cfdp.Send.C18_send_waits
#print axioms Cfdp.Send.C18_send_reports_outcome
#print axioms Cfdp.Send.C18_send_ignores_finished_without_closure
#print axioms Cfdp.Recv.C18_recv_closure_ends_quietly
#print axioms Cfdp.Loop.C18_send_data_once
#print axioms Cfdp.Loop.C18_closure_finished_repeated
#print axioms Cfdp.Loop.C18_closure_lost_finisheds
