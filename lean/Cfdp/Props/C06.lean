import Cfdp.Lemmas.Codec

/-!
# C06 — decoding arbitrary bytes never panics (and never loops)

The model decoders are total Lean functions (structural recursion / fuel bounded by the input
length: every loop iteration consumes at least one byte), so "never loops" is Lean's
termination check plus the correspondence run.  `Err.panic` marks the places where the Rust
code would panic; the theorems show it is unreachable for every input.
-/
namespace Cfdp.Codec
open Cfdp.Gen

theorem throw_eq {α : Type} (e : Err) : (throw e : Except Err α) = Except.error e := rfl

theorem readU8_np (bs : Bytes) : readU8 bs ≠ .error .panic := by
  cases bs <;> simp [readU8]
theorem readN_np (n : Nat) (bs : Bytes) : readN n bs ≠ .error .panic := by
  unfold readN; split <;> simp
theorem readBE_np (n : Nat) (bs : Bytes) : readBE n bs ≠ .error .panic := by
  unfold readBE; cases h : readN n bs with
  | error e => have := readN_np n bs; simp_all
  | ok v => simp
theorem readLV_np (bs : Bytes) : readLV bs ≠ .error .panic := by
  unfold readLV; cases h : readU8 bs with
  | error e => have := readU8_np bs; simp_all
  | ok v => exact readN_np _ _
theorem readName_np (bs : Bytes) : readName bs ≠ .error .panic := by
  unfold readName; cases h : readLV bs with
  | error e => have := readLV_np bs; simp_all
  | ok v => simp only; split <;> simp
theorem idOfBytes_np (bs : Bytes) : idOfBytes bs ≠ .error .panic := by
  unfold idOfBytes; split <;> simp

theorem elim_eq_panic {α : Type} (o : Option α) (e : Err) :
    (o.elim (Except.error e) Except.ok : Except Err α) = .error .panic ↔ o = none ∧ e = .panic := by
  cases o <;> simp

/-- unfold the monadic structure of a straight-line decoder, split every `match`, and close each
leaf: it is either a concrete non-panic error or the error of a sub-decoder already shown
panic-free -/
macro "np_auto" "[" ls:Lean.Parser.Tactic.simpLemma,* "]" : tactic => `(tactic| (
  intro h
  simp only [bind, Except.bind, pure, Except.pure, throw_eq] at h
  repeat' split at h
  all_goals simp_all [readU8_np, readN_np, readBE_np, readLV_np, readName_np, idOfBytes_np,
    elim_eq_panic, $ls,*]))

theorem VarId.decode_np (bs : Bytes) : VarId.decode bs ≠ .error .panic := by
  unfold VarId.decode; np_auto []
theorem Header.decode_np (bs : Bytes) : Header.decode bs ≠ .error .panic := by
  unfold Header.decode; np_auto []
theorem FsRequest.decode_np (bs : Bytes) : FsRequest.decode bs ≠ .error .panic := by
  unfold FsRequest.decode; np_auto []
theorem FsResponse.decode_np (bs : Bytes) : FsResponse.decode bs ≠ .error .panic := by
  unfold FsResponse.decode; np_auto []
theorem Tlv.decode_np (bs : Bytes) : Tlv.decode bs ≠ .error .panic := by
  unfold Tlv.decode; np_auto [FsRequest.decode_np, FsResponse.decode_np, VarId.decode_np]
theorem Eof.decode_np (fss : FileSizeFlag) (bs : Bytes) : Eof.decode fss bs ≠ .error .panic := by
  unfold Eof.decode; np_auto [VarId.decode_np]
theorem Ack.decode_np (bs : Bytes) : Ack.decode bs ≠ .error .panic := by
  unfold Ack.decode; np_auto []

theorem finishedLoop_np (cond : Condition) (fuel : Nat) (bs : Bytes) (acc : List FsResponse)
    (fault : Option VarId) : finishedLoop cond fuel bs acc fault ≠ .error .panic := by
  induction fuel generalizing bs acc fault with
  | zero => unfold finishedLoop; simp
  | succ f ih =>
    unfold finishedLoop
    np_auto [FsResponse.decode_np, VarId.decode_np, ih]

theorem Finished.decode_np (bs : Bytes) : Finished.decode bs ≠ .error .panic := by
  unfold Finished.decode; np_auto [finishedLoop_np]

theorem decTlvs_np (fuel : Nat) (bs : Bytes) : decTlvs fuel bs ≠ .error .panic := by
  induction fuel generalizing bs with
  | zero => unfold decTlvs; simp
  | succ f ih => unfold decTlvs; np_auto [Tlv.decode_np, ih]

theorem decRequests_np (w fuel : Nat) (bs : Bytes) : decRequests w fuel bs ≠ .error .panic := by
  induction fuel generalizing bs with
  | zero => unfold decRequests; simp
  | succ f ih => unfold decRequests; np_auto [ih]

theorem Metadata.decode_np (fss : FileSizeFlag) (bs : Bytes) : Metadata.decode fss bs ≠ .error .panic := by
  unfold Metadata.decode; np_auto [decTlvs_np]
theorem Nak.decode_np (fss : FileSizeFlag) (bs : Bytes) : Nak.decode fss bs ≠ .error .panic := by
  unfold Nak.decode; np_auto [decRequests_np]

theorem decodeDirective_np (fss : FileSizeFlag) (bs : Bytes) : decodeDirective fss bs ≠ .error .panic := by
  unfold decodeDirective
  np_auto [Eof.decode_np, Finished.decode_np, Ack.decode_np, Metadata.decode_np, Nak.decode_np]

/-- `RecordContinuationState::from_u8((b & 0xC0) >> 6).unwrap()` cannot fail: all four values exist -/
theorem rcs_total (b : UInt8) : RecordContinuationState.ofNat? (b.toNat / 64) ≠ none := by
  have h := b.toNat_lt
  have : b.toNat / 64 = 0 ∨ b.toNat / 64 = 1 ∨ b.toNat / 64 = 2 ∨ b.toNat / 64 = 3 := by omega
  rcases this with h | h | h | h <;> rw [h] <;> decide

theorem decodeFileData_np (seg : SegmentedData) (fss : FileSizeFlag) (bs : Bytes) :
    decodeFileData seg fss bs ≠ .error .panic := by
  unfold decodeFileData
  np_auto [rcs_total]

theorem decodePayload_np (t : PDUType) (fss : FileSizeFlag) (seg : SegmentedData) (bs : Bytes) :
    decodePayload t fss seg bs ≠ .error .panic := by
  unfold decodePayload
  cases t
  · exact decodeDirective_np _ _
  · exact decodeFileData_np _ _ _

/-- **C06 (total).**  For every byte string, decoding a PDU returns a PDU or an error — never
the panic outcome (no overflowing arithmetic on wire-controlled lengths, no failing `unwrap`). -/
theorem C06_total (bs : Bytes) : Pdu.decode bs ≠ .error .panic := by
  unfold Pdu.decode
  np_auto [Header.decode_np, decodePayload_np]

theorem readN_length {n : Nat} {bs v r : Bytes} (h : readN n bs = .ok (v, r)) :
    v.length = n ∧ bs = v ++ r := by
  unfold readN at h
  split at h
  · cases h
  · cases h
    exact ⟨by simp; omega, by simp⟩

theorem readBE_lt {n : Nat} {bs r : Bytes} {x : Nat} (h : readBE n bs = .ok (x, r)) : x < 256 ^ n := by
  unfold readBE at h
  split at h
  · cases h
  · rename_i v r' hv
    cases h
    have := (readN_length hv).1
    rw [← this]; exact beVal_lt v

/-- **C06 (allocation).**  The only allocation whose size is taken from the wire is the data
field buffer `vec![0; pdu_data_field_length]`; it is below 64 KiB for every input, and every
later read takes its bytes out of that buffer (`readN` never yields more than it is given). -/
theorem C06_alloc (bs : Bytes) (h : Header) (r : Bytes) (hd : Header.decode bs = .ok (h, r)) :
    h.dataLen < 65536 := by
  unfold Header.decode at hd
  simp only [bind, Except.bind, pure, Except.pure] at hd
  repeat' split at hd
  all_goals (try (cases hd))
  all_goals (try simp_all)
  all_goals (
    have hb := readBE_lt ‹readBE 2 _ = Except.ok _›
    (try simp only [] at *)
    omega)

example : (match Pdu.decode [0x02, 0x00, 0x00] with | .error .ReadError => true | _ => false) = true := by decide
example : (match Pdu.decode [] with | .error .ReadError => true | _ => false) = true := by decide

end Cfdp.Codec

open Cfdp.Codec in
#print axioms C06_total
open Cfdp.Codec in
#print axioms C06_alloc
