import Cfdp.Props.C06c
import Cfdp.Props.C06u
import Cfdp.Props.C05u

/-! # C06, second half for the reserved CFDP messages and the status report: what the decoders accept is canonical -/
set_option linter.unusedSimpArgs false
namespace Cfdp.Codec
open Cfdp.Gen

theorem readIdLV_spec {bs r : Bytes} {i : VarId} (h : readIdLV bs = .ok (i, r)) : i.WF ∧ True := by
  simp only [readIdLV, bind_ok, pure_ok, Prod.exists, Prod.mk.injEq] at h
  obtain ⟨v, r1, h1, j, h2, e1, e2⟩ := h
  subst e1 e2
  exact ⟨(idOfBytes_spec h2).1, trivial⟩

theorem decIdPair_spec {bs r : Bytes} {a c : VarId} (h : decIdPair bs = .ok (a, c, r)) : a.WF ∧ c.WF := by
  simp only [decIdPair, bind_ok, pure_ok, Prod.exists, Prod.mk.injEq] at h
  obtain ⟨b, r1, h1, v1, r2, h2, a', h3, v2, r3, h4, c', h5, e1, e2, e3⟩ := h
  subst e1 e2 e3
  exact ⟨(idOfBytes_spec h3).1, (idOfBytes_spec h5).1⟩

theorem decSuspResp_spec {bs r : Bytes} {su : Bool} {st : TransactionStatus} {a c : VarId}
    (h : decSuspResp bs = .ok (su, st, a, c, r)) : a.WF ∧ c.WF := by
  simp only [decSuspResp, bind_ok, elim_ok, pure_ok, Prod.exists, Prod.mk.injEq] at h
  obtain ⟨b, r1, h1, st', h2, a', c', r2, h3, e1, e2, e3, e4, e5⟩ := h
  subst e3 e4
  exact decIdPair_spec h3

syntax "wf_close" "[" term,* "]" : tactic
macro_rules
  | `(tactic| wf_close [$ts,*]) => `(tactic|
      (simp only [UserOp.WF]
       repeat' (first | trivial $[| exact $ts]* | exact UInt8.toNat_lt _ | constructor)))

theorem UserOp.decodeBody_wf {mt : MessageType} {bs r : Bytes} {u : UserOp} (h : UserOp.decodeBody mt bs = .ok (u, r)) :
    u.WF := by
  cases mt with
  | ProxyPutRequest =>
    simp only [UserOp.decodeBody, bind_ok, elim_ok, pure_ok, Prod.exists, Prod.mk.injEq] at h
    obtain ⟨x1, r1, h1, x2, r2, h2, x3, r3, h3, e1, e2⟩ := h
    subst e1
    wf_close [(readIdLV_spec h1).1, (readName_spec h2).1, (readName_spec h3).1]
  | ProxyMessageToUser =>
    simp only [UserOp.decodeBody, bind_ok, elim_ok, pure_ok, Prod.exists, Prod.mk.injEq] at h
    obtain ⟨x1, r1, h1, e1, e2⟩ := h
    subst e1
    wf_close [(readLV_spec h1).1]
  | ProxyFileStoreRequest =>
    simp only [UserOp.decodeBody, bind_ok, elim_ok, pure_ok, Prod.exists, Prod.mk.injEq] at h
    obtain ⟨x1, r1, h1, x2, r2, h2, e1, e2⟩ := h
    subst e1
    wf_close [(FsRequest.decode_spec h2).1]
  | ProxyFileStoreResponse =>
    simp only [UserOp.decodeBody, bind_ok, elim_ok, pure_ok, Prod.exists, Prod.mk.injEq] at h
    obtain ⟨x1, r1, h1, x2, r2, h2, e1, e2⟩ := h
    subst e1
    wf_close [(FsResponse.decode_spec h2).1]
  | ProxyFaultHandlerOverride =>
    simp only [UserOp.decodeBody, bind_ok, elim_ok, pure_ok, Prod.exists, Prod.mk.injEq] at h
    obtain ⟨x1, r1, h1, e1, e2⟩ := h
    subst e1
    wf_close []
  | ProxyTransmissionMode =>
    simp only [UserOp.decodeBody, bind_ok, elim_ok, pure_ok, Prod.exists, Prod.mk.injEq] at h
    obtain ⟨x1, r1, h1, x2, h2, e1, e2⟩ := h
    subst e1
    wf_close []
  | ProxyFlowLabel =>
    simp only [UserOp.decodeBody, bind_ok, elim_ok, pure_ok, Prod.exists, Prod.mk.injEq] at h
    obtain ⟨x1, r1, h1, e1, e2⟩ := h
    subst e1
    wf_close [(readLV_spec h1).1]
  | ProxySegmentationControl =>
    simp only [UserOp.decodeBody, bind_ok, elim_ok, pure_ok, Prod.exists, Prod.mk.injEq] at h
    obtain ⟨x1, r1, h1, x2, h2, e1, e2⟩ := h
    subst e1
    wf_close []
  | ProxyPutResponse =>
    simp only [UserOp.decodeBody, bind_ok, elim_ok, pure_ok, Prod.exists, Prod.mk.injEq] at h
    obtain ⟨x1, r1, h1, x2, h2, x3, h3, x4, h4, e1, e2⟩ := h
    subst e1
    wf_close []
  | ProxyPutCancel =>
    simp only [UserOp.decodeBody, bind_ok, elim_ok, pure_ok, Prod.exists, Prod.mk.injEq] at h
    obtain ⟨e1, e2⟩ := h
    subst e1
    wf_close []
  | OriginatingTransactionIDMessage =>
    simp only [UserOp.decodeBody, bind_ok, elim_ok, pure_ok, Prod.exists, Prod.mk.injEq] at h
    obtain ⟨x1, y1, r1, h1, e1, e2⟩ := h
    subst e1
    wf_close [(decIdPair_spec h1).1, (decIdPair_spec h1).2]
  | ProxyClosureRequest => simp only [UserOp.decodeBody, throw, throwThe, MonadExceptOf.throw, reduceCtorEq] at h
  | DirectoryListingRequest =>
    simp only [UserOp.decodeBody, bind_ok, elim_ok, pure_ok, Prod.exists, Prod.mk.injEq] at h
    obtain ⟨x1, r1, h1, x2, r2, h2, e1, e2⟩ := h
    subst e1
    wf_close [(readName_spec h1).1, (readName_spec h2).1]
  | RemoteStatusReportRequest =>
    simp only [UserOp.decodeBody, bind_ok, elim_ok, pure_ok, Prod.exists, Prod.mk.injEq] at h
    obtain ⟨x1, y1, r1, h1, x2, r2, h2, e1, e2⟩ := h
    subst e1
    wf_close [(decIdPair_spec h1).1, (decIdPair_spec h1).2, (readName_spec h2).1]
  | RemoteSuspendRequest =>
    simp only [UserOp.decodeBody, bind_ok, elim_ok, pure_ok, Prod.exists, Prod.mk.injEq] at h
    obtain ⟨x1, y1, r1, h1, e1, e2⟩ := h
    subst e1
    wf_close [(decIdPair_spec h1).1, (decIdPair_spec h1).2]
  | RemoteResumeRequest =>
    simp only [UserOp.decodeBody, bind_ok, elim_ok, pure_ok, Prod.exists, Prod.mk.injEq] at h
    obtain ⟨x1, y1, r1, h1, e1, e2⟩ := h
    subst e1
    wf_close [(decIdPair_spec h1).1, (decIdPair_spec h1).2]
  | DirectoryListingResponse =>
    simp only [UserOp.decodeBody, bind_ok, elim_ok, pure_ok, Prod.exists, Prod.mk.injEq] at h
    obtain ⟨x1, r1, h1, x2, h2, x3, r3, h3, x4, r4, h4, e1, e2⟩ := h
    subst e1
    wf_close [(readName_spec h3).1, (readName_spec h4).1]
  | RemoteStatusReportResponse =>
    simp only [UserOp.decodeBody, bind_ok, elim_ok, pure_ok, Prod.exists, Prod.mk.injEq] at h
    obtain ⟨x1, r1, h1, x2, h2, x3, y3, r3, h3, e1, e2⟩ := h
    subst e1
    wf_close [(decIdPair_spec h3).1, (decIdPair_spec h3).2]
  | RemoteSuspendResponse =>
    simp only [UserOp.decodeBody, bind_ok, elim_ok, pure_ok, Prod.exists, Prod.mk.injEq] at h
    obtain ⟨u1, v1, x1, y1, r1, h1, e1, e2⟩ := h
    subst e1
    wf_close [(decSuspResp_spec h1).1, (decSuspResp_spec h1).2]
  | RemoteResumeResponse =>
    simp only [UserOp.decodeBody, bind_ok, elim_ok, pure_ok, Prod.exists, Prod.mk.injEq] at h
    obtain ⟨u1, v1, x1, y1, r1, h1, e1, e2⟩ := h
    subst e1
    wf_close [(decSuspResp_spec h1).1, (decSuspResp_spec h1).2]
  | SFORequest =>
    simp only [UserOp.decodeBody, bind_ok, elim_ok, pure_ok, Prod.exists, Prod.mk.injEq] at h
    obtain ⟨x1, r1, h1, x2, h2, x3, h3, x4, h4, x5, r5, h5, x6, r6, h6, x7, r7, h7, x8, r8, h8, x9, r9, h9, x10, r10, h10, e1, e2⟩ := h
    subst e1
    wf_close [(readLV_spec h6).1, (readIdLV_spec h7).1, (readIdLV_spec h8).1, (readName_spec h9).1, (readName_spec h10).1]
  | SFOMessageToUser =>
    simp only [UserOp.decodeBody, bind_ok, elim_ok, pure_ok, Prod.exists, Prod.mk.injEq] at h
    obtain ⟨x1, r1, h1, e1, e2⟩ := h
    subst e1
    wf_close [(readLV_spec h1).1]
  | SFOFlowLabel =>
    simp only [UserOp.decodeBody, bind_ok, elim_ok, pure_ok, Prod.exists, Prod.mk.injEq] at h
    obtain ⟨x1, r1, h1, e1, e2⟩ := h
    subst e1
    wf_close [(readLV_spec h1).1]
  | SFOFaultHandlerOverride =>
    simp only [UserOp.decodeBody, bind_ok, elim_ok, pure_ok, Prod.exists, Prod.mk.injEq] at h
    obtain ⟨x1, r1, h1, e1, e2⟩ := h
    subst e1
    wf_close []
  | SFOFileStoreRequest =>
    simp only [UserOp.decodeBody, bind_ok, elim_ok, pure_ok, Prod.exists, Prod.mk.injEq] at h
    obtain ⟨x1, r1, h1, x2, r2, h2, e1, e2⟩ := h
    subst e1
    wf_close [(FsRequest.decode_spec h2).1]
  | SFOReport =>
    simp only [UserOp.decodeBody, bind_ok, elim_ok, pure_ok, Prod.exists, Prod.mk.injEq] at h
    obtain ⟨x1, r1, h1, x2, r2, h2, x3, r3, h3, x4, r4, h4, x5, r5, h5, x6, r6, h6, x7, r7, h7, x8, h8, x9, h9, x10, h10, x11, h11, e1, e2⟩ := h
    subst e1
    wf_close [(readLV_spec h1).1, (readIdLV_spec h2).1, (readIdLV_spec h3).1, (readIdLV_spec h4).1]
  | SFOFileStoreResponse =>
    simp only [UserOp.decodeBody, bind_ok, elim_ok, pure_ok, Prod.exists, Prod.mk.injEq] at h
    obtain ⟨x1, r1, h1, x2, r2, h2, e1, e2⟩ := h
    subst e1
    wf_close [(FsResponse.decode_spec h2).1]



theorem UserOp.decode_wf {bs r : Bytes} {u : UserOp} (h : UserOp.decode bs = .ok (u, r)) : u.WF := by
  rw [UserOp.decode_eq] at h
  simp only [bind_ok, Prod.exists] at h
  obtain ⟨idb, r1, h1, h⟩ := h
  by_cases hid : (idb != userOpsId) = true
  · simp only [hid, if_true, bind_ok, throw, throwThe, MonadExceptOf.throw, reduceCtorEq, false_and, exists_false] at h
  · simp only [hid, Bool.false_eq_true, if_false, bind_ok, elim_ok, pure_ok, Prod.exists, exists_eq_left'] at h
    obtain ⟨t, r2, h2, mt, hm, h3⟩ := h
    exact UserOp.decodeBody_wf h3

/-- **C06 (canonical acceptance, reserved CFDP messages).**  Whatever `UserOperation::decode` accepts,
for every byte string, re-encodes to bytes that decode to the same message, with nothing left over. -/
theorem C06_userop_canon (bs r : Bytes) (u : UserOp) (h : UserOp.decode bs = .ok (u, r)) :
    UserOp.decode u.encode = .ok (u, []) := by
  have := C05_userop u [] (UserOp.decode_wf h)
  simpa using this

/-- **C06 (canonical acceptance, status report).** -/
theorem C06_report_canon (bs r : Bytes) (p : Report) (h : Report.decode bs = .ok (p, r)) :
    Report.decode p.encode = .ok (p, []) := by
  have hw : p.WF := by
    simp only [Report.decode, bind_ok, elim_ok, pure_ok, Prod.exists, Prod.mk.injEq] at h
    obtain ⟨src, r1, h1, seq, r2, h2, a, r3, h3, st, hst, b, r4, h4, status, hs, c, r5, h5, cond, hc, e1, e2⟩ := h
    subst e1
    exact ⟨(VarId.decode_spec h1).1, (VarId.decode_spec h2).1⟩
  have := C05_report p [] hw
  simpa using this

/-- accepted but not canonical bytes: a Proxy Put Cancel followed by two stray octets -/
example :
    (match UserOp.decode [99, 102, 100, 112, 9, 1, 2] with | .ok (u, r) => decide (u = .proxyPutCancel ∧ r = [1, 2]) | .error _ => false) = true := by
  decide

end Cfdp.Codec

#print axioms Cfdp.Codec.C06_canon
#print axioms Cfdp.Codec.C06_userop_canon
#print axioms Cfdp.Codec.C06_report_canon
#print axioms Cfdp.Codec.C06_userop_total
#print axioms Cfdp.Codec.C06_report_total
#print axioms Cfdp.Codec.C06_total
#print axioms Cfdp.Codec.C06_alloc
