import Cfdp.Props.C10q
set_option linter.unusedSimpArgs false

/-! # C10: from the arrival of the EOF(cancel) into the Finished retransmission loop

The receiver's half of the cancel handshake under repeated loss (`C10_lost_cancel_finisheds_round`, Props/C02z.lean) starts
from a cancelled receiver that has transmitted its Finished PDU.  This file shows that the EOF(cancel) and the two
transmissions that follow (the ACK of it, the Finished PDU) put any live acknowledged receiver with no delayed check
pending there (`peer_cancel_enters_wait`), so: the EOF(cancel) arrives, the Finished PDU (or its ACK) is lost again and
again below the limits, and whichever retransmission reaches the sender ends it, and its ACK ends the receiver - both
with the cancel condition (`C10_peer_cancel_then_lost_finisheds`). -/
namespace Cfdp.Loop
open Cfdp.Codec Cfdp.Gen Cfdp.Timer Cfdp.Recv Cfdp.Send

/-- cancelling an acknowledged receiver touches neither the positive-ACK nor the inactivity counter -/
theorem cancelInner_timers (q : Recv.State) (t : Nat) (hm : q.cfg.mode = .Acknowledged) :
    (Recv.cancelInner q t).timer.ack = q.timer.ack ∧ (Recv.cancelInner q t).timer.inactivity = q.timer.inactivity := by
  have h1 : ({ q with recvState := RecvState.Cancelled, timer := { q.timer with nak := q.timer.nak.pause t } } : Recv.State).cfg.mode
      = .Acknowledged := hm
  simp only [Recv.cancelInner, Recv.prepareFinished, Recv.emit]
  rw [hm]
  exact ⟨rfl, rfl⟩

/-- the state the EOF(cancel) leaves, in full -/
theorem cancel_eof_state {mx Ta Ti Tn : Nat} (r : Recv.State) (t : Nat) (p : Pdu) (e : Eof) (ha : r.state = .Active)
    (hm : r.cfg.mode = .Acknowledged) (hp : p.payload = .eof e) (he : e.cond ≠ .NoError) (hrt : RT mx Ta Ti Tn r.timer) :
    (recvStep r t (.pdu p)).state = .Active ∧ (recvStep r t (.pdu p)).recvState = .Cancelled ∧
    (recvStep r t (.pdu p)).condition = e.cond ∧ (recvStep r t (.pdu p)).prompt = r.prompt ∧
    (recvStep r t (.pdu p)).cfg = r.cfg ∧ (recvStep r t (.pdu p)).delayed = r.delayed ∧
    (∃ a, (recvStep r t (.pdu p)).ack = some a) ∧
    (∃ f, (recvStep r t (.pdu p)).finished = some (f, true) ∧ f.cond = e.cond) ∧
    RT mx Ta Ti Tn (recvStep r t (.pdu p)).timer ∧ (recvStep r t (.pdu p)).timer.ack = r.timer.ack ∧
    (recvStep r t (.pdu p)).timer.inactivity = r.timer.inactivity.reset t := by
  obtain ⟨b1, b2, b3, b4, b5, _, b7, b8, _, _⟩ := Cfdp.Net.recv_gets_cancel_eof r t p e ha hm hp he
  have hrt2 := rt_recvStep hrt t (.pdu p)
  have hnt : ((clrR r).state == TransactionState.Terminated) = false := by
    show (r.state == TransactionState.Terminated) = false; rw [ha]; rfl
  have hb : (e.cond == Condition.NoError) = false := by cases hc : e.cond <;> simp_all
  have hm' : (Recv.pduArrived (clrR r) t).cfg.mode = .Acknowledged := hm
  have e1 : recvStep r t (.pdu p) = Recv.ackEof (Recv.pduArrived (clrR r) t) e t := by
    rw [recvStep_eq]
    simp only [hnt, Bool.false_eq_true, if_false, Recv.processPdu, Recv.processPduBody, hm', hp]
  obtain ⟨q, hq, hqm, hqt, hqd⟩ : ∃ q : Recv.State,
      Recv.ackEof (Recv.pduArrived (clrR r) t) e t = Recv.cancelInner q t ∧ q.cfg.mode = .Acknowledged ∧
      q.timer = (Recv.pduArrived (clrR r) t).timer ∧ q.delayed = r.delayed := by
    refine ⟨Recv.emit { Recv.prepareAckEof { Recv.pduArrived (clrR r) t with condition := e.cond } with
      checksum := some e.checksum } .eofRecv, ?_, hm, rfl, rfl⟩
    simp only [Recv.ackEof, Recv.emit, Recv.prepareAckEof, hb, Bool.false_eq_true, if_false]
  obtain ⟨k1, k2⟩ := cancelInner_timers q t hqm
  refine ⟨b1, b2, b3, b4, b5, ?_, b7, b8, hrt2, ?_, ?_⟩
  · rw [e1, hq, delayed_cancelInner]; exact hqd
  · rw [e1, hq, k1, hqt]; rfl
  · rw [e1, hq, k2, hqt]; rfl

/-- **the EOF(cancel) enters the closing handshake.**  A live receiver (acknowledged mode, no Prompt and no delayed check
pending) gets the sender's EOF(cancel) at `t` and transmits twice at `t'`: the ACK of the EOF, then the Finished PDU
carrying the cancel condition.  It then waits for the ACK of that PDU in the starting state of the retransmission loop
(`WF`, phase Cancelled), the positive-ACK counter running since `t'`, the inactivity counter at zero since `t`. -/
theorem peer_cancel_enters_wait {mx Ta Ti Tn : Nat} (r : Recv.State) (t t' j : Nat) (p : Pdu) (e : Eof)
    (ha : r.state = .Active) (hm : r.cfg.mode = .Acknowledged) (hpr : r.prompt = none) (hdel : r.delayed = [])
    (hp : p.payload = .eof e) (he : e.cond ≠ .NoError) (hrt : RT mx Ta Ti Tn r.timer)
    (hj : (r.timer.ack.update t').count ≤ j) :
    ∃ f, f.cond = e.cond ∧
      (∃ hd, (recvStep (recvStep (recvStep r t (.pdu p)) t' .send) t' .send).sent = some ⟨hd, .finished f⟩) ∧
      WF .Cancelled f (recvStep (recvStep (recvStep r t (.pdu p)) t' .send) t' .send) ∧
      (recvStep (recvStep (recvStep r t (.pdu p)) t' .send) t' .send).condition = e.cond ∧
      RT mx Ta Ti Tn (recvStep (recvStep (recvStep r t (.pdu p)) t' .send) t' .send).timer ∧
      AB t' j (recvStep (recvStep (recvStep r t (.pdu p)) t' .send) t' .send).timer.ack ∧
      IB Ti t (max t t') (recvStep (recvStep (recvStep r t (.pdu p)) t' .send) t' .send).timer.inactivity := by
  obtain ⟨c1, c2, c3, c4, c5, c6, ⟨a, c7⟩, ⟨f, c8, c9⟩, c10, c11, c12⟩ := cancel_eof_state r t p e ha hm hp he hrt
  generalize hx : recvStep r t (.pdu p) = x at c1 c2 c3 c4 c5 c6 c7 c8 c10 c11 c12
  -- the ACK of the EOF
  have hnt : ((clrR x).state == TransactionState.Terminated) = false := by
    show (x.state == TransactionState.Terminated) = false; rw [c1]; rfl
  have hns : ((clrR x).state == TransactionState.Suspended) = false := by
    show (x.state == TransactionState.Suspended) = false; rw [c1]; rfl
  have k1 : (clrR x).recvState = .Cancelled := c2
  have k2 : (clrR x).prompt = none := by show x.prompt = none; rw [c4]; exact hpr
  have k3 : (clrR x).ack = some a := c7
  have k4 : (clrR x).finished = some (f, true) := c8
  have hhas : Recv.hasPduToSend (clrR x) = true := by
    simp only [Recv.hasPduToSend, hns, Bool.false_eq_true, if_false, k1, k4]
  have e1 : recvStep x t' .send = Recv.sendAckEof (clrR x) := by
    rw [recvStep_eq]
    simp only [hnt, Bool.false_eq_true, if_false, hhas, if_true, Recv.sendPdu, k2, Option.isSome_none, k1, k3,
      Option.isSome_some]
  have e1' : Recv.sendAckEof (clrR x) = Recv.sendPayload { clrR x with ack := none } (.ack a) := by
    simp only [Recv.sendAckEof, k3]
  generalize hy : recvStep x t' .send = y at e1
  have y1 : y.state = .Active := by rw [e1, state_sendAckEof]; exact c1
  have y2 : y.recvState = .Cancelled := by rw [e1, recvState_sendAckEof]; exact c2
  have y3 : y.prompt = none := by rw [e1, Recv.prompt_sendAckEof]; exact k2
  have y4 : y.ack = none := by rw [e1, e1', Recv.ack_sendPayload]
  have y5 : y.finished = some (f, true) := by rw [e1, finished_sendAckEof]; exact c8
  have y6 : y.cfg = r.cfg := by rw [e1, cfg_sendAckEof]; exact c5
  have y7 : y.delayed = [] := by rw [e1, delayed_sendAckEof]; show x.delayed = []; rw [c6]; exact hdel
  have y8 : y.timer = x.timer := by rw [e1, Recv.timer_sendAckEof]; rfl
  have y9 : y.condition = e.cond := by rw [e1, condition_sendAckEof]; exact c3
  have hrty : RT mx Ta Ti Tn y.timer := by rw [y8]; exact c10
  -- the Finished PDU
  have hnt2 : ((clrR y).state == TransactionState.Terminated) = false := by
    show (y.state == TransactionState.Terminated) = false; rw [y1]; rfl
  have hns2 : ((clrR y).state == TransactionState.Suspended) = false := by
    show (y.state == TransactionState.Suspended) = false; rw [y1]; rfl
  have j1 : (clrR y).recvState = .Cancelled := y2
  have j2 : (clrR y).prompt = none := y3
  have j3 : (clrR y).ack = none := y4
  have j4 : (clrR y).finished = some (f, true) := y5
  have hhas2 : Recv.hasPduToSend (clrR y) = true := by
    simp only [Recv.hasPduToSend, hns2, Bool.false_eq_true, if_false, j1, j4]
  have e2 : recvStep y t' .send = Recv.sendFinished (clrR y) t' := by
    rw [recvStep_eq]
    simp only [hnt2, Bool.false_eq_true, if_false, hhas2, if_true, Recv.sendPdu, j2, Option.isSome_none, j1, j3, j4]
  have hsend : (Recv.sendFinished (clrR y) t') = Recv.setFinishedFlag (Recv.sendPayload
      { clrR y with timer := { (clrR y).timer with ack := (clrR y).timer.ack.restart t' } } (.finished f)) false := by
    simp only [Recv.sendFinished, j4]
  have hfl : (Recv.sendFinished (clrR y) t').finished = some (f, false) := by
    rw [hsend]; simp only [Recv.setFinishedFlag, Recv.finished_sendPayload, j4]
  have htm : (Recv.sendFinished (clrR y) t').timer = { (clrR y).timer with ack := (clrR y).timer.ack.restart t' } := by
    rw [hsend]; simp only [Recv.setFinishedFlag, Recv.finished_sendPayload, j4, Recv.timer_sendPayload]
  have hrt3 := rt_recvStep hrty t' .send
  rw [e2] at hrt3 ⊢
  refine ⟨f, c9, ?_, ⟨?_, ?_, ?_, Or.inr rfl, ?_, ?_, hfl, ?_⟩, ?_, hrt3, ⟨?_, ?_, ?_⟩, ?_⟩
  · rw [hsend]; simp only [Recv.setFinishedFlag, Recv.finished_sendPayload, j4]; exact ⟨_, rfl⟩
  · rw [Recv.state_sendFinished]; exact y1
  · rw [Recv.cfg_sendFinished]; show y.cfg.mode = _; rw [y6]; exact hm
  · rw [Recv.recvState_sendFinished]; exact y2
  · rw [Recv.prompt_sendFinished]; exact y3
  · rw [Recv.ack_sendFinished]; exact y4
  · rw [Recv.delayed_sendFinished]; exact y7
  · rw [Recv.condition_sendFinished]; exact y9
  · rw [htm]; rfl
  · rw [htm]; rfl
  · rw [htm]
    show (y.timer.ack.restart t').count ≤ j
    rw [y8, c11]; exact hj
  · rw [htm]
    show IB Ti t (max t t') y.timer.inactivity
    rw [y8, c12]
    exact ⟨by show 0 * Ti ≤ t - t; omega, Nat.le_refl _, Nat.le_max_left _ _⟩

/-- **C10 (the EOF(cancel) arrives, then the Finished PDU is lost again and again).**  The receiver is cancelled by the sender's
EOF(cancel) at `t`, transmits the ACK and its Finished PDU at `t'`; the Finished PDU, or the sender's ACK of it, is lost
again and again - as long as the expiries of the receiver's positive-ACK timer stay below the limit and within the
inactivity limit (`FairT` counted from `t'`), each is followed by a retransmission, and whichever of them reaches the
sender (in whatever phase it waits) ends it with the cancel condition, and its ACK ends the receiver. -/
theorem C10_peer_cancel_then_lost_finisheds {mx Ta Ti Tn : Nat} (s : Send.State) (r : Recv.State) (t t' j t1 t2 : Nat)
    (p : Pdu) (e : Eof) (ts : List Nat)
    (hsa : s.state = .Active) (hsm : s.cfg.mode = .Acknowledged) (hsp : s.prompt = none)
    (ha : r.state = .Active) (hm : r.cfg.mode = .Acknowledged) (hpr : r.prompt = none) (hdel : r.delayed = [])
    (hp : p.payload = .eof e) (he : e.cond ≠ .NoError) (hrt : RT mx Ta Ti Tn r.timer)
    (hj : (r.timer.ack.update t').count ≤ j) (hf : FairT mx Ta Ti t' j t ts) :
    (finRounds (recvStep (recvStep (recvStep r t (.pdu p)) t' .send) t' .send) ts).2.length = ts.length ∧
    ∀ pf ∈ (finRounds (recvStep (recvStep (recvStep r t (.pdu p)) t' .send) t' .send) ts).2, ∃ pa,
      (sendStep (sendStep s t1 (.pdu pf)) t1 .send).sent = some pa ∧
      (sendStep (sendStep s t1 (.pdu pf)) t1 .send).state = .Terminated ∧
      (sendStep (sendStep s t1 (.pdu pf)) t1 .send).condition = e.cond ∧
      (recvStep (finRounds (recvStep (recvStep (recvStep r t (.pdu p)) t' .send) t' .send) ts).1 t2 (.pdu pa)).state
        = .Terminated ∧
      (recvStep (finRounds (recvStep (recvStep (recvStep r t (.pdu p)) t' .send) t' .send) ts).1 t2 (.pdu pa)).condition
        = e.cond := by
  obtain ⟨f, f1, _, k1, kc, k2, k3, k4⟩ := peer_cancel_enters_wait r t t' j p e ha hm hpr hdel hp he hrt hj
  obtain ⟨c1, c2⟩ := C10_lost_cancel_finisheds_round s _ ts t' j t t1 t2 f hsa hsm hsp k1 k2 k3 k4 hf
  refine ⟨c1, fun pf hpf => ?_⟩
  obtain ⟨pa, q1, q2, q3, q4, q5⟩ := c2 pf hpf
  exact ⟨pa, q1, q2, by rw [q3, f1], q4, by rw [q5, kc]⟩

/-! ### the premises are satisfiable -/

/-- the sender's EOF carrying the cancel -/
abbrev exCancelEof : Pdu := ⟨default, .eof { cond := .CancelReceived, checksum := 0, fileSize := 0, fault := none }⟩

example : (finRounds (recvStep (recvStep (recvStep exR4 5 (.pdu exCancelEof)) 6 .send) 6 .send) [1000000006, 2000000100]).2.length = 2 ∧
    ∀ pf ∈ (finRounds (recvStep (recvStep (recvStep exR4 5 (.pdu exCancelEof)) 6 .send) 6 .send) [1000000006, 2000000100]).2,
      ∃ pa, (sendStep (sendStep exS4 2000000200 (.pdu pf)) 2000000200 .send).sent = some pa ∧
        (sendStep (sendStep exS4 2000000200 (.pdu pf)) 2000000200 .send).state = .Terminated := by
  have hri : RI cfgL.max (cfgL.ta * 1000000000) (cfgL.ti * 1000000000) (cfgL.tn * 1000000000) exR4 :=
    ri_run _ _ (ri_new cfgL [([], .dir)] 0 (by decide) (by decide) (by decide) ⟨by decide, by decide, by decide⟩)
  obtain ⟨c1, c2⟩ := C10_peer_cancel_then_lost_finisheds (mx := 4) (Ta := 1000000000) (Ti := 3000000000) (Tn := 1000000000)
    exS4 exR4 5 6 0 2000000200 2000000300 exCancelEof _ [1000000006, 2000000100] (by decide) (by decide) (by decide)
    (by decide) (by decide) (by decide) (by decide) rfl (by decide) hri.inv.rt (by decide)
    ⟨by decide, by decide, by decide, by decide, by decide, by decide, by decide, by decide, by decide, by decide, trivial⟩
  refine ⟨c1, fun pf hpf => ?_⟩
  obtain ⟨pa, q1, q2, _⟩ := c2 pf hpf
  exact ⟨pa, q1, q2⟩

end Cfdp.Loop

#print axioms Cfdp.Loop.C10_peer_cancel_then_lost_finisheds
#print axioms Cfdp.Loop.C10_no_partial
#print axioms Cfdp.Loop.C10_cancel_freezes
#print axioms Cfdp.Recv.C10_recv_cancel
#print axioms Cfdp.Recv.C10_recv_peer_cancel
#print axioms Cfdp.Recv.C10_recv_cancel_ends
#print axioms Cfdp.Send.C10_send_cancel
#print axioms Cfdp.Send.C10_send_cancel_ends
#print axioms Cfdp.Net.C10_two_party_sender_cancel
#print axioms Cfdp.Net.C10_two_party_receiver_cancel
#print axioms Cfdp.Loop.C10_lost_cancel_eof_round
#print axioms Cfdp.Loop.C10_lost_cancel_finished_round
#print axioms Cfdp.Loop.C10_cancel_eof_repeated
#print axioms Cfdp.Loop.C10_lost_cancel_eofs_round
#print axioms Cfdp.Loop.C10_lost_cancel_finisheds_round
#print axioms Cfdp.Loop.C10_cancel_then_lost_eofs
