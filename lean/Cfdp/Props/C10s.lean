import Cfdp.Props.C19n
set_option linter.unusedSimpArgs false

/-! # C10: from the receiving user's Cancel.request into the Finished retransmission loop

The third entry into the cancel handshake's loops (after `cancel_enters_wait`, Props/C10q.lean, and `peer_cancel_enters_wait`,
Props/C10r.lean): the *receiving* user cancels.  The Cancel.request and the transmission that follows put any live
acknowledged receiver with nothing else to transmit and no delayed check pending in the starting state of the Finished
retransmission loop (`recv_cancel_enters_wait`), so the Finished PDU carrying CancelReceived, or its ACK, lost again
and again below the limits still ends both transactions with that condition (`C10_recv_cancel_then_lost_finisheds`). -/
namespace Cfdp.Loop
open Cfdp.Codec Cfdp.Gen Cfdp.Timer Cfdp.Recv Cfdp.Send

/-- **the receiving user's Cancel.request enters the closing handshake** -/
theorem recv_cancel_enters_wait {mx Ta Ti Tn : Nat} (r : Recv.State) (t j : Nat)
    (ha : r.state = .Active) (hm : r.cfg.mode = .Acknowledged) (hpr : r.prompt = none) (hack : r.ack = none)
    (hdel : r.delayed = []) (hrt : RT mx Ta Ti Tn r.timer) (hj : (r.timer.ack.update t).count ≤ j) :
    ∃ f, f.cond = .CancelReceived ∧
      (∃ hd, (recvStep (recvStep r t .cancel) t .send).sent = some ⟨hd, .finished f⟩) ∧
      WF .Cancelled f (recvStep (recvStep r t .cancel) t .send) ∧
      (recvStep (recvStep r t .cancel) t .send).condition = .CancelReceived ∧
      RT mx Ta Ti Tn (recvStep (recvStep r t .cancel) t .send).timer ∧
      AB t j (recvStep (recvStep r t .cancel) t .send).timer.ack ∧
      (recvStep (recvStep r t .cancel) t .send).timer.inactivity = r.timer.inactivity := by
  obtain ⟨c1, c2, c3, c4, c5, c6, _, _, ⟨f, c8, c9⟩, _⟩ := Cfdp.Net.recv_cancel_step r t ha hm
  have hnt : ((clrR r).state == TransactionState.Terminated) = false := by
    show (r.state == TransactionState.Terminated) = false; rw [ha]; rfl
  have e0 : recvStep r t .cancel = Recv.cancelInner { clrR r with condition := .CancelReceived } t := by
    rw [recvStep_eq]; simp only [hnt, Bool.false_eq_true, if_false, Recv.cancel]
  have hqm : ({ clrR r with condition := .CancelReceived } : Recv.State).cfg.mode = .Acknowledged := hm
  obtain ⟨k1, k2⟩ := cancelInner_timers { clrR r with condition := .CancelReceived } t hqm
  have hdelx : (recvStep r t .cancel).delayed = [] := by rw [e0, delayed_cancelInner]; exact hdel
  have hackx : (recvStep r t .cancel).timer.ack = r.timer.ack := by rw [e0, k1]; rfl
  have hinx : (recvStep r t .cancel).timer.inactivity = r.timer.inactivity := by rw [e0, k2]; rfl
  have hrtx := rt_recvStep hrt t .cancel
  generalize hx : recvStep r t .cancel = x at c1 c2 c3 c4 c5 c6 c8 hdelx hackx hinx hrtx
  have hnt2 : ((clrR x).state == TransactionState.Terminated) = false := by
    show (x.state == TransactionState.Terminated) = false; rw [c1]; rfl
  have hns2 : ((clrR x).state == TransactionState.Suspended) = false := by
    show (x.state == TransactionState.Suspended) = false; rw [c1]; rfl
  have j1 : (clrR x).recvState = .Cancelled := c2
  have j2 : (clrR x).prompt = none := by show x.prompt = none; rw [c4]; exact hpr
  have j3 : (clrR x).ack = none := by show x.ack = none; rw [c5]; exact hack
  have j4 : (clrR x).finished = some (f, true) := c8
  have hhas2 : Recv.hasPduToSend (clrR x) = true := by
    simp only [Recv.hasPduToSend, hns2, Bool.false_eq_true, if_false, j1, j4]
  have e2 : recvStep x t .send = Recv.sendFinished (clrR x) t := by
    rw [recvStep_eq]
    simp only [hnt2, Bool.false_eq_true, if_false, hhas2, if_true, Recv.sendPdu, j2, Option.isSome_none, j1, j3, j4]
  have hsend : (Recv.sendFinished (clrR x) t) = Recv.setFinishedFlag (Recv.sendPayload
      { clrR x with timer := { (clrR x).timer with ack := (clrR x).timer.ack.restart t } } (.finished f)) false := by
    simp only [Recv.sendFinished, j4]
  have hfl : (Recv.sendFinished (clrR x) t).finished = some (f, false) := by
    rw [hsend]; simp only [Recv.setFinishedFlag, Recv.finished_sendPayload, j4]
  have htm : (Recv.sendFinished (clrR x) t).timer = { (clrR x).timer with ack := (clrR x).timer.ack.restart t } := by
    rw [hsend]; simp only [Recv.setFinishedFlag, Recv.finished_sendPayload, j4, Recv.timer_sendPayload]
  have hrt3 := rt_recvStep hrtx t .send
  rw [e2] at hrt3 ⊢
  refine ⟨f, c9, ?_, ⟨?_, ?_, ?_, Or.inr rfl, ?_, ?_, hfl, ?_⟩, ?_, hrt3, ⟨?_, ?_, ?_⟩, ?_⟩
  · rw [hsend]; simp only [Recv.setFinishedFlag, Recv.finished_sendPayload, j4]; exact ⟨_, rfl⟩
  · rw [Recv.state_sendFinished]; exact c1
  · rw [Recv.cfg_sendFinished]; show x.cfg.mode = _; rw [c6]; exact hm
  · rw [Recv.recvState_sendFinished]; exact c2
  · rw [Recv.prompt_sendFinished]; exact j2
  · rw [Recv.ack_sendFinished]; exact j3
  · rw [Recv.delayed_sendFinished]; exact hdelx
  · rw [Recv.condition_sendFinished]; exact c3
  · rw [htm]; rfl
  · rw [htm]; rfl
  · rw [htm]
    show (x.timer.ack.restart t).count ≤ j
    rw [hackx]; exact hj
  · rw [htm]
    show x.timer.inactivity = _
    exact hinx

/-- **C10 (the receiving user cancels, then the Finished PDU is lost again and again).**  The receiving user cancels a live
acknowledged receive transaction at `t`; the Finished PDU carrying CancelReceived goes out and is lost, and so are
its retransmissions (or the sender's ACKs) - as long as the expiries of the receiver's positive-ACK timer stay below
the limit and within the inactivity limit (`FairT` counted from `t`; `a` is the last arrival the inactivity counter
counts from), each is followed by a retransmission, and whichever of them reaches the sender (in whatever phase)
ends it with CancelReceived, and its ACK ends the receiver. -/
theorem C10_recv_cancel_then_lost_finisheds {mx Ta Ti Tn : Nat} (s : Send.State) (r : Recv.State) (t j a hi t1 t2 : Nat)
    (ts : List Nat)
    (hsa : s.state = .Active) (hsm : s.cfg.mode = .Acknowledged) (hsp : s.prompt = none)
    (ha : r.state = .Active) (hm : r.cfg.mode = .Acknowledged) (hpr : r.prompt = none) (hack : r.ack = none)
    (hdel : r.delayed = []) (hrt : RT mx Ta Ti Tn r.timer) (hj : (r.timer.ack.update t).count ≤ j)
    (ib : IB Ti a hi r.timer.inactivity) (hle : hi ≤ max a t) (hf : FairT mx Ta Ti t j a ts) :
    (finRounds (recvStep (recvStep r t .cancel) t .send) ts).2.length = ts.length ∧
    ∀ pf ∈ (finRounds (recvStep (recvStep r t .cancel) t .send) ts).2, ∃ pa,
      (sendStep (sendStep s t1 (.pdu pf)) t1 .send).sent = some pa ∧
      (sendStep (sendStep s t1 (.pdu pf)) t1 .send).state = .Terminated ∧
      (sendStep (sendStep s t1 (.pdu pf)) t1 .send).condition = .CancelReceived ∧
      (recvStep (finRounds (recvStep (recvStep r t .cancel) t .send) ts).1 t2 (.pdu pa)).state = .Terminated ∧
      (recvStep (finRounds (recvStep (recvStep r t .cancel) t .send) ts).1 t2 (.pdu pa)).condition = .CancelReceived := by
  obtain ⟨f, f1, _, k1, kc, k2, k3, k4⟩ := recv_cancel_enters_wait r t j ha hm hpr hack hdel hrt hj
  have ib2 : IB Ti a (max a t) (recvStep (recvStep r t .cancel) t .send).timer.inactivity := by
    rw [k4]; exact ⟨ib.cnt, ib.lo, Nat.le_trans ib.hi hle⟩
  obtain ⟨c1, c2⟩ := C10_lost_cancel_finisheds_round s _ ts t j a t1 t2 f hsa hsm hsp k1 k2 k3 ib2 hf
  refine ⟨c1, fun pf hpf => ?_⟩
  obtain ⟨pa, q1, q2, q3, q4, q5⟩ := c2 pf hpf
  exact ⟨pa, q1, q2, by rw [q3, f1], q4, by rw [q5, kc]⟩

/-! ### the premises are satisfiable -/

example : (finRounds (recvStep (recvStep exR4 5 .cancel) 5 .send) [1000000005, 2000000100]).2.length = 2 ∧
    ∀ pf ∈ (finRounds (recvStep (recvStep exR4 5 .cancel) 5 .send) [1000000005, 2000000100]).2,
      ∃ pa, (sendStep (sendStep exS4 2000000200 (.pdu pf)) 2000000200 .send).sent = some pa ∧
        (sendStep (sendStep exS4 2000000200 (.pdu pf)) 2000000200 .send).condition = .CancelReceived := by
  have hri : RI cfgL.max (cfgL.ta * 1000000000) (cfgL.ti * 1000000000) (cfgL.tn * 1000000000) exR4 :=
    ri_run _ _ (ri_new cfgL [([], .dir)] 0 (by decide) (by decide) (by decide) ⟨by decide, by decide, by decide⟩)
  obtain ⟨c1, c2⟩ := C10_recv_cancel_then_lost_finisheds (mx := 4) (Ta := 1000000000) (Ti := 3000000000) (Tn := 1000000000)
    exS4 exR4 5 0 0 0 2000000200 2000000300 [1000000005, 2000000100] (by decide) (by decide) (by decide)
    (by decide) (by decide) (by decide) (by decide) (by decide) hri.inv.rt (by decide) ⟨by decide, by decide, by decide⟩ (by decide)
    ⟨by decide, by decide, by decide, by decide, by decide, by decide, by decide, by decide, by decide, by decide, trivial⟩
  refine ⟨c1, fun pf hpf => ?_⟩
  obtain ⟨pa, q1, _, q3, _⟩ := c2 pf hpf
  exact ⟨pa, q1, q3⟩

end Cfdp.Loop

#print axioms Cfdp.Loop.C10_recv_cancel_then_lost_finisheds
#print axioms Cfdp.Loop.C10_no_partial
#print axioms Cfdp.Loop.C10_cancel_freezes
#print axioms Cfdp.Recv.C10_recv_cancel
#print axioms Cfdp.Recv.C10_recv_peer_cancel
#print axioms Cfdp.Recv.C10_recv_cancel_ends
#print axioms Cfdp.Send.C10_send_cancel
#print axioms Cfdp.Send.C10_send_cancel_ends
#print axioms Cfdp.Net.C10_two_party_sender_cancel
#print axioms Cfdp.Net.C10_two_party_receiver_cancel
#print axioms Cfdp.Loop.C10_lost_cancel_eof_round
#print axioms Cfdp.Loop.C10_lost_cancel_finished_round
#print axioms Cfdp.Loop.C10_cancel_eof_repeated
#print axioms Cfdp.Loop.C10_lost_cancel_eofs_round
#print axioms Cfdp.Loop.C10_lost_cancel_finisheds_round
#print axioms Cfdp.Loop.C10_cancel_then_lost_eofs
#print axioms Cfdp.Loop.C10_peer_cancel_then_lost_finisheds
