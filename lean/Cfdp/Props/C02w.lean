import Cfdp.Props.C02
import Cfdp.Props.C04

/-! # C02: an acknowledged receiver never waits with everything in hand -/
namespace Cfdp.Recv
open Cfdp.Codec Cfdp.Gen

/-- an acknowledged receiver that is still collecting (ReceiveData) although metadata and EOF have
arrived is missing file data: `has_naks` holds (and it is a file transfer) -/
def Waiting (s : State) : Prop :=
  s.cfg.mode = .Acknowledged → s.recvState = .ReceiveData → s.md.isSome = true → eofReceived s = true →
    (isFileTransfer s && hasNaks s) = true

theorem waiting_frame {s s' : State} (h : Waiting s) (hnr : NR s → NR s') (h0 : s'.cfg = s.cfg) (h1 : s'.md = s.md)
    (h2 : s'.fileSize = s.fileSize) (h3 : s'.segs = s.segs) : Waiting s' := by
  intro hm hr hmd he
  have hr0 : s.recvState = .ReceiveData := by
    cases hq : s.recvState with
    | ReceiveData => rfl
    | Finished => exact absurd hr (hnr (by unfold NR; rw [hq]; decide))
    | Cancelled => exact absurd hr (hnr (by unfold NR; rw [hq]; decide))
  have := h (by rw [← h0]; exact hm) hr0 (by rw [← h1]; exact hmd) (by simpa [eofReceived, h2] using he)
  simpa [isFileTransfer, hasNaks, h1, h2, h3] using this

/-- whatever the state before, after `check_finished` the receiver is not waiting with everything in hand -/
theorem waiting_checkFinished (s : State) (now : Nat) : Waiting (checkFinished s now) := by
  simp only [checkFinished]
  split
  · intro _ hr; simp [prepareFinished] at hr
  · rename_i hg
    intro _ hr hmd he
    simp only [hr, hmd, he, beq_self_eq_true, Bool.true_and, Bool.not_eq_true', Bool.not_eq_false'] at hg
    simpa using hg

theorem nr_keep {s s' : State} (h : s'.recvState = s.recvState) : NR s → NR s' := by
  intro hn; unfold NR at *; rw [h]; exact hn

theorem waiting_left {s' : State} (h : s'.recvState ≠ .ReceiveData) : Waiting s' := by
  intro _ hr; exact absurd hr h

theorem waiting_unack {s' : State} (h : s'.cfg.mode = .Unacknowledged) : Waiting s' := by
  intro hm; rw [h] at hm; cases hm

theorem waiting_scheduleNaks {s : State} (h : Waiting s) (n now : Nat) : Waiting (scheduleNaks s n now) :=
  waiting_frame h (nr_keep (by simp)) (by simp) (by simp) (by simp) (by simp)

theorem waiting_ackEof (s : State) (e : Eof) (now : Nat) : Waiting (ackEof s e now) := by
  simp only [ackEof]
  split
  · exact waiting_scheduleNaks (waiting_checkFinished _ _) _ _
  · exact waiting_left (nr_cancelInner _ _)

theorem waiting_processPdu {s : State} (h : Waiting s) (p : Pdu) (now : Nat) : Waiting (processPdu s p now).1 := by
  have h0 : Waiting (pduArrived s now) := waiting_frame h (nr_keep (by simp)) (by simp) (by simp) (by simp) (by simp)
  simp only [processPdu]
  generalize pduArrived s now = t at h0
  simp only [processPduBody]
  cases hpl : p.payload <;> cases hm : t.cfg.mode <;> dsimp only
  all_goals (repeat' split)
  all_goals first
    | exact h0
    | (simp only [ackFileData]; exact waiting_checkFinished _ _)
    | exact waiting_checkFinished _ _
    | exact waiting_ackEof _ _ _
    | (apply waiting_unack; simp; exact hm)
    | (apply waiting_frame h0 (nr_keep (by simp)) (by simp) (by simp) (by simp) (by simp))

theorem waiting_recvStep {s : State} (h : Waiting s) (now : Nat) (e : Loop.Ev) : Waiting (Loop.recvStep s now e) := by
  have h0 : Waiting { s with sent := none, out := [] } := waiting_frame h (nr_keep rfl) rfl rfl rfl rfl
  simp only [Loop.recvStep]
  split
  · exact h0
  · cases e with
    | pdu p => exact waiting_processPdu h0 p now
    | send =>
      dsimp only
      split
      · exact waiting_frame h0 (fun hn => nr_sendPdu hn now) (by simp) (by simp) (by simp) (by simp)
      · exact h0
    | timeout =>
      dsimp only
      split
      · exact waiting_frame h0 (fun hn => nr_handleTimeout hn now) (by simp) (by simp) (by simp) (by simp)
      · exact h0
    | cancel => exact waiting_left (by simp only [cancel]; exact nr_cancelInner _ _)
    | suspend => exact waiting_frame h0 (nr_keep (by simp)) (by simp) (by simp) (by simp) (by simp)
    | resume => exact waiting_frame h0 (nr_keep (by simp)) (by simp) (by simp) (by simp) (by simp)
    | report => exact waiting_frame h0 (nr_keep (by simp)) (by simp) (by simp) (by simp) (by simp)
    | abandon => exact waiting_frame h0 (nr_keep (by simp)) (by simp) (by simp) (by simp) (by simp)
    | prompt k => exact h0

/-- **C02 (completion is noticed along every history).**  After every history of events an
acknowledged receiver that is still collecting although both the Metadata and the EOF have arrived is
a file transfer that really misses file data (`has_naks`: its segment list does not cover
`[0, size)`) — it never sits on a complete file.  With C08 (after EOF the NAK queue asks for exactly
what is missing), C07_nak_answer (each request is answered with exactly those bytes),
C02_round_completes (the answers complete the list) and the two never-stuck theorems of C03 this is
the inductive step of recovery: every loss-free NAK round ends the collecting phase. -/
theorem C02_never_waits_complete (cfg : Config) (fs : Fs.FS) (t0 : Nat) (evs : List (Nat × Loop.Ev)) :
    Waiting (Loop.recvRun (new cfg fs t0) evs).1 := by
  have key : ∀ (evs : List (Nat × Loop.Ev)) (s : State), Waiting s → Waiting (Loop.recvRun s evs).1 := by
    intro evs
    induction evs with
    | nil => intro s h; exact h
    | cons x rest ih => intro s h; obtain ⟨now, e⟩ := x; exact ih _ (waiting_recvStep h now e)
  apply key
  intro _ _ hmd
  simp [new, emit] at hmd

end Cfdp.Recv

#print axioms Cfdp.Recv.C02_never_waits_complete
#print axioms Cfdp.Seg.C02_round_completes
#print axioms Cfdp.Seg.C02_gaps_answered
#print axioms Cfdp.Recv.C02_finishes_when_complete
